// mutgen: development aid for the mutation campaign (mutcamp.py). For one Go source file
// and a set of function names it prints, as JSON lines, single-edit mutants:
//   rel   relational operator swap      <  <=  >  >=  ==  !=
//   log   && <-> ||
//   ari   + <-> -
//   ift/iff   if condition forced true / false
//   del   statement deletion (expression statement, assignment, inc/dec, continue/break)
// Each mutant is {"id","kind","func","line","off","end","new","old"}; the caller applies
// src[:off] + new + src[end:]. Nothing here decides a property.
package main

import (
	"encoding/json"
	"flag"
	"fmt"
	"go/ast"
	"go/parser"
	"go/token"
	"os"
	"strings"
)

type Mut struct {
	ID   int    `json:"id"`
	Kind string `json:"kind"`
	Func string `json:"func"`
	Line int    `json:"line"`
	Off  int    `json:"off"`
	End  int    `json:"end"`
	New  string `json:"new"`
	Old  string `json:"old"`
}

func main() {
	file := flag.String("file", "", "source file")
	funcs := flag.String("funcs", "", "comma separated function names (empty = all)")
	flag.Parse()
	src, err := os.ReadFile(*file)
	if err != nil {
		fmt.Fprintln(os.Stderr, err)
		os.Exit(2)
	}
	fset := token.NewFileSet()
	f, err := parser.ParseFile(fset, *file, src, 0)
	if err != nil {
		fmt.Fprintln(os.Stderr, err)
		os.Exit(2)
	}
	want := map[string]bool{}
	for _, n := range strings.Split(*funcs, ",") {
		if n != "" {
			want[n] = true
		}
	}
	var out []Mut
	add := func(kind, fn string, pos, end token.Pos, repl string) {
		o, e := fset.Position(pos).Offset, fset.Position(end).Offset
		out = append(out, Mut{ID: len(out), Kind: kind, Func: fn, Line: fset.Position(pos).Line, Off: o, End: e, New: repl, Old: string(src[o:e])})
	}
	swap := map[token.Token]string{token.LSS: "<=", token.LEQ: "<", token.GTR: ">=", token.GEQ: ">", token.EQL: "!=", token.NEQ: "==",
		token.LAND: "||", token.LOR: "&&", token.ADD: "-", token.SUB: "+"}
	kindOf := map[token.Token]string{token.LSS: "rel", token.LEQ: "rel", token.GTR: "rel", token.GEQ: "rel", token.EQL: "rel", token.NEQ: "rel",
		token.LAND: "log", token.LOR: "log", token.ADD: "ari", token.SUB: "ari"}
	for _, d := range f.Decls {
		fd, ok := d.(*ast.FuncDecl)
		if !ok || fd.Body == nil {
			continue
		}
		if len(want) > 0 && !want[fd.Name.Name] {
			continue
		}
		fn := fd.Name.Name
		ast.Inspect(fd.Body, func(n ast.Node) bool {
			switch x := n.(type) {
			case *ast.CallExpr:
				// leave panic(...) and error/format construction alone
				if id, ok := x.Fun.(*ast.Ident); ok && id.Name == "panic" {
					return false
				}
				if se, ok := x.Fun.(*ast.SelectorExpr); ok {
					if id, ok := se.X.(*ast.Ident); ok && id.Name == "fmt" {
						return false
					}
				}
			case *ast.BinaryExpr:
				if r, ok := swap[x.Op]; ok {
					// "+" on strings is left alone when an operand is a string literal
					if x.Op == token.ADD {
						if isStr(x.X) || isStr(x.Y) {
							return true
						}
					}
					add(kindOf[x.Op], fn, x.OpPos, x.OpPos+token.Pos(len(x.Op.String())), r)
				}
			case *ast.IfStmt:
				if id, ok := x.Cond.(*ast.Ident); !ok || (id.Name != "true" && id.Name != "false") {
					add("ift", fn, x.Cond.Pos(), x.Cond.End(), "true")
					add("iff", fn, x.Cond.Pos(), x.Cond.End(), "false")
				}
			case *ast.BlockStmt:
				for _, s := range x.List {
					delStmt(s, fn, add)
				}
			case *ast.CaseClause:
				for _, s := range x.Body {
					delStmt(s, fn, add)
				}
			}
			return true
		})
	}
	enc := json.NewEncoder(os.Stdout)
	for _, m := range out {
		enc.Encode(m)
	}
}

func isStr(e ast.Expr) bool {
	b, ok := e.(*ast.BasicLit)
	return ok && b.Kind == token.STRING
}

func delStmt(s ast.Stmt, fn string, add func(kind, fn string, pos, end token.Pos, repl string)) {
	switch x := s.(type) {
	case *ast.ExprStmt:
		if c, ok := x.X.(*ast.CallExpr); ok {
			if id, ok := c.Fun.(*ast.Ident); ok && id.Name == "panic" {
				return
			}
		}
		add("del", fn, x.Pos(), x.End(), "")
	case *ast.AssignStmt:
		if x.Tok != token.DEFINE {
			add("del", fn, x.Pos(), x.End(), "")
		}
	case *ast.IncDecStmt:
		add("del", fn, x.Pos(), x.End(), "")
	case *ast.BranchStmt:
		if x.Label == nil && (x.Tok == token.CONTINUE || x.Tok == token.BREAK) {
			add("del", fn, x.Pos(), x.End(), "")
		}
	}
}
