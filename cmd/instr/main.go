package main

func main() {}
