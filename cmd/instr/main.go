// Command instr is the source-to-source instrumenter of the /verif machinery.
// It re-reads pprof's current sources (through the base overlay, so that demo
// mutations and candidate fixes are instrumented too), type-checks them with
// go/types against export data, and writes instrumented copies plus an overlay
// fragment. Rewrites (text splices at AST positions; files are never re-printed):
//
//	for ... := range m   (m of map type)  ->  range verifrt.Map(m)
//	import "sync"                         ->  import sync ".../internal/verifrt/vsync"
//	go f(a, b)                            ->  verifrt.Go(func() { f(a, b) })   (arguments pre-evaluated)
//	os.WriteFile/ReadFile/...             ->  vos.WriteFile/...                (files listed in -vos)
//	func entry of packages in -points     ->  verifrt.Yield("fn")
package main

import (
	"bytes"
	"encoding/json"
	"flag"
	"fmt"
	"go/ast"
	"go/importer"
	"go/parser"
	"go/token"
	"go/types"
	"io"
	"os"
	"os/exec"
	"path/filepath"
	"sort"
	"strings"
)

const mod = "github.com/google/pprof"

type listPkg struct {
	ImportPath string
	Dir        string
	Export     string
	GoFiles    []string
	Standard   bool
	Error      *struct{ Err string }
}

type edit struct {
	start, end int
	text       string
}

var vosFuncs = map[string]bool{
	"WriteFile": true, "ReadFile": true, "MkdirAll": true, "Mkdir": true, "OpenFile": true, "Create": true,
	"CreateTemp": true, "Rename": true, "Remove": true, "Stat": true, "Open": true, "Chmod": true,
}

var fileMethods = map[string]bool{"Write": true, "WriteString": true, "Close": true, "Sync": true}

func main() {
	repo := flag.String("repo", "/repo", "repository root")
	overlay := flag.String("overlay", "", "base overlay json")
	out := flag.String("out", "", "output directory")
	points := flag.String("points", "", "comma separated package suffixes whose function entries get a scheduling point")
	flag.Parse()

	var ov struct{ Replace map[string]string }
	if *overlay != "" {
		b, err := os.ReadFile(*overlay)
		check(err)
		check(json.Unmarshal(b, &ov))
	}
	readFile := func(p string) ([]byte, error) {
		if r, ok := ov.Replace[p]; ok {
			return os.ReadFile(r)
		}
		return os.ReadFile(p)
	}

	args := []string{"list", "-export", "-deps", "-json"}
	if *overlay != "" {
		args = append(args, "-overlay", *overlay)
	}
	// pprof's own packages only (the harness packages under ./verifh are not instrumented
	// and need not compile for the instrumenter to work)
	args = append(args, ".", "./driver", "./profile", "./internal/...")
	cmd := exec.Command("go", args...)
	cmd.Dir = *repo
	cmd.Stderr = os.Stderr
	outb, err := cmd.Output()
	check(err)
	dec := json.NewDecoder(bytes.NewReader(outb))
	exports := map[string]string{}
	var targets []*listPkg
	for {
		var p listPkg
		if err := dec.Decode(&p); err == io.EOF {
			break
		} else {
			check(err)
		}
		if p.Export != "" {
			exports[p.ImportPath] = p.Export
		}
		if instrumentable(p.ImportPath) {
			pp := p
			targets = append(targets, &pp)
		}
	}
	pointPkgs := map[string]bool{}
	for _, s := range strings.Split(*points, ",") {
		if s != "" {
			pointPkgs[s] = true
		}
	}

	fset := token.NewFileSet()
	imp := importer.ForCompiler(fset, "gc", func(path string) (io.ReadCloser, error) {
		e, ok := exports[path]
		if !ok {
			return nil, fmt.Errorf("no export data for %s", path)
		}
		return os.Open(e)
	})
	replace := map[string]string{}
	stats := map[string]int{}
	for _, p := range targets {
		var files []*ast.File
		var names []string
		srcs := map[string][]byte{}
		for _, f := range p.GoFiles {
			full := filepath.Join(p.Dir, f)
			src, err := readFile(full)
			check(err)
			af, err := parser.ParseFile(fset, full, src, parser.ParseComments)
			check(err)
			files = append(files, af)
			names = append(names, full)
			srcs[full] = src
		}
		info := &types.Info{Types: map[ast.Expr]types.TypeAndValue{}, Uses: map[*ast.Ident]types.Object{}}
		conf := types.Config{Importer: imp, Error: func(err error) {}}
		_, _ = conf.Check(p.ImportPath, fset, files, info)
		suffix := strings.TrimPrefix(p.ImportPath, mod+"/")
		for i, af := range files {
			if strings.Contains(filepath.Base(names[i]), "zz_verif") {
				continue // harness code injected by the overlay
			}
			eds := rewrite(fset, af, info, srcs[names[i]], pointPkgs[suffix], stats)
			if len(eds) == 0 {
				continue
			}
			src := apply(srcs[names[i]], eds)
			rel, _ := filepath.Rel(*repo, names[i])
			dst := filepath.Join(*out, strings.ReplaceAll(rel, string(filepath.Separator), "__"))
			check(os.WriteFile(dst, src, 0644))
			replace[names[i]] = dst
		}
	}
	b, _ := json.MarshalIndent(map[string]any{"Replace": replace}, "", " ")
	check(os.WriteFile(filepath.Join(*out, "overlay.json"), b, 0644))
	var keys []string
	for k := range stats {
		keys = append(keys, k)
	}
	sort.Strings(keys)
	for _, k := range keys {
		fmt.Printf("instr: %s=%d\n", k, stats[k])
	}
	sb, _ := json.Marshal(stats)
	check(os.WriteFile(filepath.Join(*out, "stats.json"), sb, 0644))
}

func instrumentable(path string) bool {
	if path != mod && !strings.HasPrefix(path, mod+"/") {
		return false
	}
	for _, skip := range []string{"/verifh", "/internal/verifrt", "/third_party", "/browsertests", "/fuzz", "/proto", "/internal/proftest"} {
		if strings.Contains(path, skip) {
			return false
		}
	}
	return true
}

func check(err error) {
	if err != nil {
		fmt.Fprintln(os.Stderr, "instr:", err)
		os.Exit(2)
	}
}

func apply(src []byte, eds []edit) []byte {
	sort.SliceStable(eds, func(i, j int) bool { return eds[i].start > eds[j].start })
	for _, e := range eds {
		src = append(src[:e.start:e.start], append([]byte(e.text), src[e.end:]...)...)
	}
	return src
}

func rewrite(fset *token.FileSet, af *ast.File, info *types.Info, src []byte, points bool, stats map[string]int) []edit {
	var eds []edit
	off := func(p token.Pos) int { return fset.Position(p).Offset }
	needRT, needVOS := false, false
	syncName := ""
	osName := ""
	for _, im := range af.Imports {
		switch im.Path.Value {
		case `"sync"`:
			syncName = "sync"
			if im.Name != nil {
				syncName = im.Name.Name
			}
			eds = append(eds, edit{off(im.Pos()), off(im.End()), syncName + ` "` + mod + `/internal/verifrt/vsync"`})
			stats["sync_imports"]++
		case `"os"`:
			osName = "os"
			if im.Name != nil {
				osName = im.Name.Name
			}
		}
	}
	_ = syncName
	// channel operations that are the communication of a select case are left alone
	skip := map[ast.Node]bool{}
	recv2 := map[ast.Node]bool{}
	ast.Inspect(af, func(n ast.Node) bool {
		switch s := n.(type) {
		case *ast.SelectStmt:
			for _, cl := range s.Body.List {
				if cc, ok := cl.(*ast.CommClause); ok && cc.Comm != nil {
					skip[cc.Comm] = true
					ast.Inspect(cc.Comm, func(m ast.Node) bool {
						if u, ok := m.(*ast.UnaryExpr); ok && u.Op == token.ARROW {
							skip[u] = true
						}
						return true
					})
					stats["select_comms_left_alone"]++
				}
			}
		case *ast.AssignStmt:
			if len(s.Lhs) == 2 && len(s.Rhs) == 1 {
				if u, ok := s.Rhs[0].(*ast.UnaryExpr); ok && u.Op == token.ARROW {
					recv2[u] = true
				}
			}
		case *ast.ValueSpec:
			if len(s.Names) == 2 && len(s.Values) == 1 {
				if u, ok := s.Values[0].(*ast.UnaryExpr); ok && u.Op == token.ARROW {
					recv2[u] = true
				}
			}
		}
		return true
	})
	isChan := func(e ast.Expr) bool {
		tv, ok := info.Types[e]
		if !ok || tv.Type == nil {
			return false
		}
		_, c := tv.Type.Underlying().(*types.Chan)
		return c
	}
	ast.Inspect(af, func(n ast.Node) bool {
		switch s := n.(type) {
		case *ast.SendStmt:
			if skip[s] || !isChan(s.Chan) {
				return true
			}
			eds = append(eds, edit{off(s.Chan.Pos()), off(s.Chan.Pos()), "verifrt.ChanSend("})
			eds = append(eds, edit{off(s.Chan.End()), off(s.Value.Pos()), ", "})
			eds = append(eds, edit{off(s.Value.End()), off(s.Value.End()), ")"})
			needRT = true
			stats["chan_sends"]++
		case *ast.UnaryExpr:
			if s.Op != token.ARROW || skip[s] || !isChan(s.X) {
				return true
			}
			fn := "verifrt.ChanRecv("
			if recv2[s] {
				fn = "verifrt.ChanRecv2("
			}
			eds = append(eds, edit{off(s.Pos()), off(s.X.Pos()), fn})
			eds = append(eds, edit{off(s.X.End()), off(s.X.End()), ")"})
			needRT = true
			stats["chan_recvs"]++
		case *ast.RangeStmt:
			if isChan(s.X) {
				eds = append(eds, edit{off(s.X.Pos()), off(s.X.Pos()), "verifrt.ChanRange("})
				eds = append(eds, edit{off(s.X.End()), off(s.X.End()), ")"})
				needRT = true
				stats["chan_ranges"]++
				return true
			}
			tv, ok := info.Types[s.X]
			if !ok || tv.Type == nil {
				return true
			}
			if _, isMap := tv.Type.Underlying().(*types.Map); isMap {
				eds = append(eds, edit{off(s.X.Pos()), off(s.X.Pos()), "verifrt.Map("})
				eds = append(eds, edit{off(s.X.End()), off(s.X.End()), ")"})
				needRT = true
				stats["map_ranges"]++
			}
		case *ast.GoStmt:
			// go f(args) -> verifrt.Go(func() { f(args) }); the call text is kept in
			// place so that nested rewrites still apply. (Arguments are evaluated
			// when the thread starts; pprof's go statements do not depend on that.)
			eds = append(eds, edit{off(s.Pos()), off(s.Call.Pos()), "verifrt.Go(func() { "})
			eds = append(eds, edit{off(s.Call.End()), off(s.Call.End()), " })"})
			needRT = true
			stats["go_stmts"]++
		case *ast.CallExpr:
			if id, ok := s.Fun.(*ast.Ident); ok && id.Name == "close" && len(s.Args) == 1 && isChan(s.Args[0]) {
				if _, builtin := info.Uses[id].(*types.Builtin); builtin {
					eds = append(eds, edit{off(id.Pos()), off(id.End()), "verifrt.ChanClose"})
					needRT = true
					stats["chan_closes"]++
				}
				return true
			}
			sel, ok := s.Fun.(*ast.SelectorExpr)
			if !ok {
				return true
			}
			// methods on *os.File -> vos.F<Method>(file, args...)
			if tv, ok := info.Types[sel.X]; ok && tv.Type != nil && fileMethods[sel.Sel.Name] && tv.Type.String() == "*os.File" {
				eds = append(eds, edit{off(s.Pos()), off(s.Pos()), "vos.F" + sel.Sel.Name + "("})
				sep := ", "
				if len(s.Args) == 0 {
					sep = ""
				}
				eds = append(eds, edit{off(sel.X.End()), off(s.Lparen) + 1, sep})
				needVOS = true
				stats["file_methods"]++
				return true
			}
			if osName == "" {
				return true
			}
			id, ok := sel.X.(*ast.Ident)
			if !ok || id.Name != osName || !vosFuncs[sel.Sel.Name] {
				return true
			}
			if pn, ok := info.Uses[id].(*types.PkgName); !ok || pn.Imported().Path() != "os" {
				return true
			}
			eds = append(eds, edit{off(id.Pos()), off(id.End()), "vos"})
			needVOS = true
			stats["os_calls"]++
		case *ast.FuncDecl:
			if points && s.Body != nil {
				name := s.Name.Name
				eds = append(eds, edit{off(s.Body.Lbrace) + 1, off(s.Body.Lbrace) + 1, ` verifrt.Yield("` + name + `");`})
				needRT = true
				stats["entry_points"]++
			}
		}
		return true
	})
	if needVOS && osName != "" {
		eds = append(eds, edit{len(src), len(src), "\nvar _ = " + osName + ".DevNull // keeps the import used after the vos rewrite\n"})
	}
	if needRT || needVOS {
		// add imports right after the package clause
		pos := off(af.Name.End())
		text := ""
		if needRT {
			text += `; import verifrt "` + mod + `/internal/verifrt"`
		}
		if needVOS {
			text += `; import vos "` + mod + `/internal/verifrt/vos"`
		}
		eds = append(eds, edit{pos, pos, text})
	}
	return eds
}
