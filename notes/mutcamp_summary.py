#!/usr/bin/env python3
"""Copies the mutation campaign results (build/mutcamp/*.jsonl, see mutcamp.py) into notes/mutcamp/
as one text file per property plus SUMMARY.md."""
import json, glob, os, collections
V = os.path.dirname(os.path.dirname(os.path.abspath(__file__)))
rows = []
for f in sorted(glob.glob(os.path.join(V, 'build', 'mutcamp', '*.jsonl'))):
    pid = os.path.basename(f)[:-6]
    cnt = collections.Counter(); lines = []
    for l in open(f):
        m = json.loads(l); cnt[m['result']] += 1
        lines.append('%-16s %s %s' % (m['result'], m['desc'], ','.join(m.get('classes', [])[:2])))
    open(os.path.join(V, 'notes', 'mutcamp', pid + '.txt'), 'w').write('\n'.join(lines) + '\n')
    rows.append('| %s | %d | %d | %d | %d | %d |' % (pid, sum(cnt.values()), cnt['caught'] + cnt['timeout'] + cnt['machinery'], cnt['killed-by-suite'], cnt['SURVIVOR'], cnt['nocompile']))
open(os.path.join(V, 'notes', 'mutcamp', 'SUMMARY.md'), 'w').write(
    '| property | mutants | reported by the check (incl. hangs/worker deaths) | passed the check, killed by pprof\'s suite | survivors (read, see DESIGN 0.5b) | did not compile |\n|---|---|---|---|---|---|\n' + '\n'.join(rows) + '\n')
print('\n'.join(rows))
