"""Research notes, not framework code: candidate repairs for the defects listed in
DESIGN.md section 5, expressed as exact-text substitutions on the pinned tree.

Usage:  python3 candidate_fixes.py F1,F2,...   -> prints the path of a `go build -overlay`
JSON that applies the selected candidates WITHOUT touching /repo; then e.g.
    cd /repo && go test -overlay <json> -vet=off -count=1 ./...
Result on 2026-10-02 (pinned commit): every candidate below passes the existing suite
alone and all together, EXCEPT F4 (changes Profile.ScaleN; breaks
TestNormalizeByDifferentProfile, which silently relies on the dropped sample) and F7a
(breaks the heap goldens of driver TestParse, which encode the defect). F4alt is the
narrower repair in measurement.ScaleProfiles that passes. F5d, F11c and F15 were added
later and pass as well (21 candidates pass together).
"""
import json,sys,os
R='/repo/'
FIX={}
def fx(name, rel, subs): FIX.setdefault(name,[]).append((rel,subs))
fx('F1','profile/merge.go',[("""			lines[i*2] = strconv.FormatUint(line.Function.ID, 16)
		}
		lines[i*2+1] = strconv.FormatInt(line.Line, 16)
		lines[i*2+2] = strconv.FormatInt(line.Column, 16)""","""			lines[i*3] = strconv.FormatUint(line.Function.ID, 16)
		}
		lines[i*3+1] = strconv.FormatInt(line.Line, 16)
		lines[i*3+2] = strconv.FormatInt(line.Column, 16)""")])
fx('F2','profile/merge.go',[("""		if timeNanos == 0 || s.TimeNanos < timeNanos {""","""		if s.TimeNanos != 0 && (timeNanos == 0 || s.TimeNanos < timeNanos) {""")])
fx('F3','profile/merge.go',[("""		PeriodType:    srcs[0].PeriodType,""","""		PeriodType:    copyValueType(srcs[0].PeriodType),"""),
 ("""	copy(p.SampleType, srcs[0].SampleType)
	return p, nil
}""","""	for i, st := range srcs[0].SampleType {
		p.SampleType[i] = copyValueType(st)
	}
	return p, nil
}

// copyValueType returns a copy of vt that shares no memory with it.
func copyValueType(vt *ValueType) *ValueType {
	if vt == nil {
		return nil
	}
	return &ValueType{Type: vt.Type, Unit: vt.Unit}
}""")])
fx('F4','profile/profile.go',[("""		for i, v := range s.Value {
			if ratios[i] != 1 {
				val := int64(math.Round(float64(v) * ratios[i]))
				s.Value[i] = val
				keepSample = keepSample || val != 0
			}
		}""","""		for i, v := range s.Value {
			if ratios[i] != 1 {
				v = int64(math.Round(float64(v) * ratios[i]))
				s.Value[i] = v
			}
			keepSample = keepSample || v != 0
		}""")])
fx('F5a','internal/graph/graph.go',[("""		if t.t[i].Cum != t.t[j].Cum {
			return abs64(t.t[i].Cum) > abs64(t.t[j].Cum)
		}
	}
	if t.t[i].Flat != t.t[j].Flat {
		return abs64(t.t[i].Flat) > abs64(t.t[j].Flat)
	}""","""		if abs64(t.t[i].Cum) != abs64(t.t[j].Cum) {
			return abs64(t.t[i].Cum) > abs64(t.t[j].Cum)
		}
	}
	if abs64(t.t[i].Flat) != abs64(t.t[j].Flat) {
		return abs64(t.t[i].Flat) > abs64(t.t[j].Flat)
	}"""),
 ("""	if el[i].Weight != el[j].Weight {
		return abs64(el[i].Weight) > abs64(el[j].Weight)
	}""","""	if abs64(el[i].Weight) != abs64(el[j].Weight) {
		return abs64(el[i].Weight) > abs64(el[j].Weight)
	}""")])
fx('F6a','internal/driver/fetch.go',[("""				fileNames = append(fileNames, filepath.Join(path, m.BuildID[:2], m.BuildID[2:]+".debug"))""","""				if len(m.BuildID) > 2 {
					fileNames = append(fileNames, filepath.Join(path, m.BuildID[:2], m.BuildID[2:]+".debug"))
				}""")])
fx('F6b','internal/driver/driver_focus.go',[("""	v, err := strconv.ParseInt(ranges[0][1], 10, 64)
	if err != nil {
		panic(fmt.Errorf("failed to parse int %s: %v", ranges[0][1], err))
	}""","""	v, err := strconv.ParseInt(ranges[0][1], 10, 64)
	if err != nil {
		return nil // Not representable as a range bound; treat as a regexp.
	}"""),("""	if v, err = strconv.ParseInt(ranges[1][1], 10, 64); err != nil {
		panic(fmt.Errorf("failed to parse int %s: %v", ranges[1][1], err))
	}""","""	if v, err = strconv.ParseInt(ranges[1][1], 10, 64); err != nil {
		return nil // Not representable as a range bound; treat as a regexp.
	}""")])
fx('F7a','profile/prune.go',[("""			if !foundUser {
				continue
			}""","""			if !foundUser && (prune[id] || !pruneBeneath[id]) {
				continue
			}""")])
fx('F8a','internal/symbolizer/symbolizer.go',[("""	functions := map[profile.Function]*profile.Function{}
	addFunction := func(f *profile.Function) *profile.Function {
		if fp := functions[*f]; fp != nil {
			return fp
		}
		functions[*f] = f
		f.ID = uint64(len(prof.Function)) + 1""","""	var maxFunctionID uint64
	for _, f := range prof.Function {
		if f.ID > maxFunctionID {
			maxFunctionID = f.ID
		}
	}
	functions := map[profile.Function]*profile.Function{}
	addFunction := func(f *profile.Function) *profile.Function {
		if fp := functions[*f]; fp != nil {
			return fp
		}
		functions[*f] = f
		maxFunctionID++
		f.ID = maxFunctionID""")])
fx('F8a','internal/symbolz/symbolz.go',[("""	lines := make(map[uint64]profile.Line)
	functions := make(map[string]*profile.Function)
""","""	lines := make(map[uint64]profile.Line)
	functions := make(map[string]*profile.Function)
	var maxFunctionID uint64
	for _, f := range p.Function {
		if f.ID > maxFunctionID {
			maxFunctionID = f.ID
		}
	}
"""),("""				fn = &profile.Function{
					ID:         uint64(len(p.Function) + 1),""","""				maxFunctionID++
				fn = &profile.Function{
					ID:         maxFunctionID,""")])
fx('F8b','internal/symbolizer/symbolizer.go',[("""	fn.Name = name
}""","""	if name != "" {
		fn.Name = name
	}
}""")])
fx('F9','internal/measurement/measurement.go',[("""	unit = strings.ToLower(unit)
	if len(unit) > 2 {""","""	unit = strings.ToLower(unit)
	if u := ut.findByAlias(unit); u != nil {
		return u
	}
	if len(unit) > 2 {""")])
fx('F10','internal/report/stacks.go',[("""			loc := sample.Location[i]
			for j := len(loc.Line) - 1; j >= 0; j-- {
				line := loc.Line[j]
				inlined := (j != len(loc.Line)-1)""","""			loc := sample.Location[i]
			lines := loc.Line
			if len(lines) == 0 {
				lines = []profile.Line{{}} // Keep a frame for unsymbolized locations.
			}
			for j := len(lines) - 1; j >= 0; j-- {
				line := lines[j]
				inlined := (j != len(lines)-1)""")])
fx('F13','internal/report/report.go',[("""			fmt.Fprintf(w, "%50s %s |   %s%s\\n", rpt.formatValue(in.Weight),
				measurement.Percentage(in.Weight, cum), in.Src.Info.PrintableName(), inline)""","""			fmt.Fprintf(w, "%50s %s |   %s%s\\n", rpt.formatValue(in.WeightValue()),
				measurement.Percentage(in.WeightValue(), cum), in.Src.Info.PrintableName(), inline)"""),
 ("""			fmt.Fprintf(w, "%50s %s |   %s%s\\n", rpt.formatValue(out.Weight),
				measurement.Percentage(out.Weight, cum), out.Dest.Info.PrintableName(), inline)""","""			fmt.Fprintf(w, "%50s %s |   %s%s\\n", rpt.formatValue(out.WeightValue()),
				measurement.Percentage(out.WeightValue(), cum), out.Dest.Info.PrintableName(), inline)"""),
 ("""			c, _ := measurement.Scale(out.Weight, o.SampleUnit, o.OutputUnit)""","""			c, _ := measurement.Scale(out.WeightValue(), o.SampleUnit, o.OutputUnit)""")])
fx('F12c','internal/driver/config.go',[("""		"showcolumns":          "showcolumns",
	}""","""		"showcolumns":          "showcolumns",
		"tagroot":              "tagroot",
		"tagleaf":              "tagleaf",
	}""")])

fx('F5c','internal/driver/driver.go',[("""	for k, units := range ignoredUnits {
		ui.PrintErr(fmt.Sprintf("For tag %s used unit %s, also encountered unit(s) %s", k, numLabelUnits[k], strings.Join(units, ", ")))
	}""","""	keys := make([]string, 0, len(ignoredUnits))
	for k := range ignoredUnits {
		keys = append(keys, k)
	}
	sort.Strings(keys)
	for _, k := range keys {
		ui.PrintErr(fmt.Sprintf("For tag %s used unit %s, also encountered unit(s) %s", k, numLabelUnits[k], strings.Join(ignoredUnits[k], ", ")))
	}"""),("""	"regexp"
	"strings"
""","""	"regexp"
	"sort"
	"strings"
""")])
fx('F11a','internal/graph/dotgraph.go',[("""	fmt.Fprintln(b, `digraph "`+graphname+`" {`)""","""	fmt.Fprintln(b, `digraph "`+escapeForDot(graphname)+`" {`)"""),
 ("""		fmt.Fprintf(b, ` tooltip="%s"`, b.config.Title)""","""		fmt.Fprintf(b, ` tooltip="%s"`, escapeForDot(b.config.Title))"""),
 ("""	if infoCopy.File != "" {
		infoCopy.File = filepath.Base(infoCopy.File)
	}""","""	if infoCopy.File != "" {
		infoCopy.File = escapeForDot(filepath.Base(infoCopy.File))
	}
	infoCopy.Objfile = escapeForDot(infoCopy.Objfile)"""),
 ("""		nodelets += fmt.Sprintf(`N%d_%d [label = "%s" id="N%d_%d" fontsize=8 shape=box3d tooltip="%s"]`+"\\n", nodeID, i, t.Name, nodeID, i, weight)""","""		nodelets += fmt.Sprintf(`N%d_%d [label = "%s" id="N%d_%d" fontsize=8 shape=box3d tooltip="%s"]`+"\\n", nodeID, i, escapeLabelTagForDot(t.Name), nodeID, i, weight)"""),
 ("""			nodelets += fmt.Sprintf(`N%s_%d [label = "%s" id="N%s_%d" fontsize=8 shape=box3d tooltip="%s"]`+"\\n", source, j, t.Name, source, j, weight)""","""			nodelets += fmt.Sprintf(`N%s_%d [label = "%s" id="N%s_%d" fontsize=8 shape=box3d tooltip="%s"]`+"\\n", source, j, escapeForDot(t.Name), source, j, weight)"""),
 ("""// escapeAllForDot applies escapeForDot to all strings in the given slice.""","""// escapeLabelTagForDot escapes a joined label tag name, keeping the `\\n`
// separators inserted by joinLabels as DOT line breaks.
func escapeLabelTagForDot(name string) string {
	return strings.ReplaceAll(escapeForDot(name), `\\\\n`, `\\n`)
}

// escapeAllForDot applies escapeForDot to all strings in the given slice.""")])
fx('F12ab','internal/driver/settings.go',[("""	if err := os.WriteFile(fname, data, 0644); err != nil {
		return fmt.Errorf("failed to write settings: %w", err)
	}
	return nil
}""","""	// Write to a temporary file and rename it into place, so that an
	// interrupted or failed write never leaves a truncated settings file.
	tmp, err := os.CreateTemp(filepath.Dir(fname), filepath.Base(fname)+".tmp*")
	if err != nil {
		return fmt.Errorf("failed to write settings: %w", err)
	}
	_, err = tmp.Write(data)
	if cerr := tmp.Close(); err == nil {
		err = cerr
	}
	if err == nil {
		err = os.Chmod(tmp.Name(), 0644)
	}
	if err == nil {
		err = os.Rename(tmp.Name(), fname)
	}
	if err != nil {
		os.Remove(tmp.Name())
		return fmt.Errorf("failed to write settings: %w", err)
	}
	return nil
}"""),("""func editSettings(fname string, fn func(s *settings) error) error {
	settings, err := readSettings(fname)""","""func editSettings(fname string, fn func(s *settings) error) error {
	// Serialize read-modify-write cycles of concurrent requests.
	settingsMu.Lock()
	defer settingsMu.Unlock()
	settings, err := readSettings(fname)"""),("""// editSettings edits settings by applying fn to them.""","""// settingsMu guards the settings file against concurrent edits.
var settingsMu sync.Mutex

// editSettings edits settings by applying fn to them."""),("""	"path/filepath"
""","""	"path/filepath"
	"sync"
""")])
fx('F14','internal/report/report.go',[("""	prof := rpt.prof
	for _, f := range prof.Function {
		f.Filename = trimPath(f.Filename, o.TrimPath, o.SourcePath)
	}""","""	prof := rpt.prof
	if !rpt.pathsTrimmed {
		// Trim only once: trimPath is not idempotent, and the graph may be
		// rebuilt several times from the same profile while trimming nodes.
		for _, f := range prof.Function {
			f.Filename = trimPath(f.Filename, o.TrimPath, o.SourcePath)
		}
		rpt.pathsTrimmed = true
	}"""),("""	return &Report{prof, computeTotal(prof, o.SampleValue, o.SampleMeanDivisor),
		o, format}""","""	return &Report{prof, computeTotal(prof, o.SampleValue, o.SampleMeanDivisor),
		o, format, false}"""),("""	formatValue func(int64) string
}""","""	formatValue func(int64) string

	pathsTrimmed bool // whether function file names have been trimmed already
}""")])
fx('F5b','internal/graph/graph.go',[("""func compareNodes(l, r *Node) bool {
	return fmt.Sprint(l.Info) < fmt.Sprint(r.Info)
}""","""func compareNodes(l, r *Node) bool {
	// Nodes of a call tree may share their Info with nodes reached through a
	// different path; fall back to comparing the (single) parents.
	for l != nil && r != nil && l != r {
		if li, ri := fmt.Sprint(l.Info), fmt.Sprint(r.Info); li != ri {
			return li < ri
		}
		l, r = soleParent(l), soleParent(r)
	}
	return l == nil && r != nil
}

// soleParent returns the only caller of n, or nil if there is none or several.
func soleParent(n *Node) *Node {
	if len(n.In) != 1 {
		return nil
	}
	for p := range n.In {
		return p
	}
	return nil
}"""),("""	to1 := el[i].Dest.Info.PrintableName()
	to2 := el[j].Dest.Info.PrintableName()

	return to1 < to2
}""","""	to1 := el[i].Dest.Info.PrintableName()
	to2 := el[j].Dest.Info.PrintableName()
	if to1 != to2 {
		return to1 < to2
	}
	if el[i].Src != el[j].Src {
		return compareNodes(el[i].Src, el[j].Src)
	}
	return compareNodes(el[i].Dest, el[j].Dest)
}""")])


fx('F4alt','internal/measurement/measurement.go',[("""		if err := p.ScaleN(ratios); err != nil {
			return fmt.Errorf("scale: %v", err)
		}""","""		// Scale in place rather than through Profile.ScaleN, which drops
		// samples based on the scaled columns only. Samples that are zero in
		// every column are removed by the merge that follows.
		for _, s := range p.Sample {
			for i, v := range s.Value {
				if ratios[i] != 1 {
					s.Value[i] = int64(math.Round(float64(v) * ratios[i]))
				}
			}
		}""")])


fx('F15','profile/filter.go',[("""		if show != nil {
			l.Line = l.matchedLines(show)
			if len(l.Line) == 0 {
				hidden[l.ID] = true
			} else {
				hnm = true
			}
		}""","""		if show != nil {
			if m := l.Mapping; m != nil && show.MatchString(m.File) {
				// The whole location is shown, even if it carries no line
				// information (unsymbolized).
				hnm = true
			} else {
				l.Line = l.matchedLines(show)
				if len(l.Line) == 0 {
					hidden[l.ID] = true
				} else {
					hnm = true
				}
			}
		}""")])
fx('F11c','internal/report/report.go',[("""func callgrindName(names map[string]int, name string) string {
	if name == "" {
		return ""
	}""","""func callgrindName(names map[string]int, name string) string {
	if name == "" {
		return ""
	}
	// A line break would split the position specification.
	name = strings.NewReplacer("\\r", " ", "\\n", " ").Replace(name)""")])
fx('F5d','internal/graph/graph.go',[("""	score := float64(0)
	total := self
	for _, e := range edges {
		if e.Weight > 0 {
			total += abs64(e.Weight)
		}
	}
	if total != 0 {
		for _, e := range edges {
			frac := float64(abs64(e.Weight)) / float64(total)
			score += -frac * math.Log2(frac)
		}""","""	score := float64(0)
	total := self
	for _, e := range edges {
		if e.Weight > 0 {
			total += abs64(e.Weight)
		}
	}
	if total != 0 {
		// Add the terms in a fixed order: floating-point addition is not
		// associative and map iteration order is random.
		for _, e := range edges.Sort() {
			frac := float64(abs64(e.Weight)) / float64(total)
			score += -frac * math.Log2(frac)
		}""")])

apply_mode = len(sys.argv) > 2 and sys.argv[2] == '--apply'
which=sys.argv[1].split(',')
out={}
for name in which:
    for rel,subs in FIX[name]:
        s=out.get(rel) or open(R+rel).read()
        for old,new in subs:
            assert old in s,(name,rel,old[:50])
            s=s.replace(old,new,1)
        out[rel]=s
if apply_mode:
    for rel,t in out.items():
        open(R+rel,'w').write(t)
    print('applied', which, 'to', sorted(out))
    sys.exit(0)
ov={}
d='/tmp/fix/'+'_'.join(which)  # scratch output, outside /repo and /verif
os.makedirs(d,exist_ok=True)
for rel,s in out.items():
    dst=d+'/'+rel.replace('/','__')
    open(dst,'w').write(s); ov[R+rel]=dst
json.dump({"Replace":ov},open(d+'/overlay.json','w'))
print(d+'/overlay.json')
