#!/usr/bin/env python3
"""mkseedprompts.py <round> [ids...]: instantiate notes/seed_prompt.txt for every property (or the ids
given) as build/t/seed-CNN-<round>.txt, create the scratch worktree /tmp/seed-CNN-<round> (detached at
/repo HEAD) and /tmp/seed-CNN-<round>-out. The prompt holds the property text only, plus one-paragraph
summaries of the changes other engineers already delivered for the property (so that a new change
differs); nothing of /verif's machinery."""
import json, os, subprocess, sys, glob
rnd = sys.argv[1]; only = sys.argv[2:]
tpl = open('/verif/notes/seed_prompt.txt').read()
os.makedirs('/verif/build/t', exist_ok=True)
for l in open('/verif/properties.jsonl'):
    p = json.loads(l); pid = p['id']
    if only and pid not in only: continue
    tag = 'seed-%s-%s' % (pid, rnd); wt = '/tmp/' + tag
    mech = '; '.join('%s (%s)' % (m['name'], m['where']) for m in p['anchors']['mechanism'])
    text = 'id: %s\ntitle: %s\nstatement: %s\nquantified over: %s\nwhy the existing tests cannot settle it: %s\nanchors (files): %s\nmechanisms: %s' % (
        pid, p['title'], p['statement'], p['quantifier']['text'], p['why_tests_cant'], ', '.join(p['anchors']['files']), mech)
    s = tpl.replace('{WT}', wt).replace('{TAG}', tag).replace('{PROP}', text).replace('{ID}', pid)
    prev = []
    for d in sorted(glob.glob('/verif/seeded/seed-%s-*' % pid)):
        try:
            m = json.load(open(d + '/meta.json'))
            prev.append((m.get('summary', ''), m.get('needs', '')))
        except Exception: pass
    if prev:
        s += '\nNOTE: other engineers have already delivered the following changes for the same property, so yours must use a DIFFERENT mechanism, code site and trigger from ALL of them (look for a part of the property statement, or an anchored file or mechanism, that none touches):\n'
        for i, (a, b) in enumerate(prev):
            s += '   %d. "%s"\n      (needed: %s)\n' % (i + 1, a, b)
    open('/verif/build/t/%s.txt' % tag, 'w').write(s)
    subprocess.run(['git', '-C', '/repo', 'worktree', 'remove', '--force', wt], capture_output=True)
    subprocess.run(['rm', '-rf', wt, wt + '-out'])
    r = subprocess.run(['git', '-C', '/repo', 'worktree', 'add', '--detach', wt, 'HEAD'], capture_output=True, text=True)
    os.makedirs(wt + '-out', exist_ok=True)
    print(tag, 'ok' if r.returncode == 0 else r.stderr[-200:])
