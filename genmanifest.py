#!/usr/bin/env python3
"""Generates MANIFEST.json from checks_meta.json (single source of per-property texts)."""
import json, os
V = os.path.dirname(os.path.abspath(__file__))
meta = json.load(open(os.path.join(V, 'checks_meta.json')))
props = [json.loads(l)['id'] for l in open(os.path.join(V, 'properties.jsonl'))]
checks, na = [], []
for p in props:
    m = meta.get(p)
    if not m or not m.get('claimed'):
        na.append({'property_id': p, 'reason': (m or {}).get('na_reason', 'check not built yet in this round; see DESIGN.md section 3 for the planned model-checking decision procedure')})
        continue
    checks.append({
        'property_id': p,
        'quick_cmd': './pmc check %s --tier quick' % p,
        'thorough_cmd': './pmc check %s --tier thorough' % p,
        'evidence_file': '/verif/evidence/%s.json' % p,
        'replay_cmd_template': './pmc replay {path}',
        'engine': m.get('engine', 'pmc'),
        'level_claimed': {'category': 'model_checking', 'text': m['level_text'], 'design_ref': 'DESIGN.md section 3, ' + p},
        'level_note': m['level_note'],
        'technique': m['technique'],
    })
man = {
    'version': 1,
    'setup_cmd': './pmc setup',
    'hooks': {
        'guard': 'none: no hook code is committed to /repo; instrumentation is injected at build time with go build -overlay (generated from the current working tree on every check)',
        'enable': 'cd /repo && go build -overlay /verif/build/overlay-<plain|instr>.json ./verifh/cmd/worker (done by ./pmc check)',
        'baseline_off_cmd': 'cd /repo && go test -vet=off -count=1 ./...',
        'source_commits': [],
        'add_only': True,
    },
    'engines': [
        {'name': 'pmc', 'path': '/verif/pmc', 'serves_properties': [c['property_id'] for c in checks],
         'kind_free_text': 'runner: overlay build of the harness inside pprof module, shards bounded-exhaustive enumerations over worker processes, merges counters, classifies violations against known_findings.json'},
        {'name': 'verifrt', 'path': '/verif/rt', 'serves_properties': [c['property_id'] for c in checks if meta[c['property_id']].get('explorer')],
         'kind_free_text': 'hand-written stateless explorer: one Choose(n) primitive; controlled goroutine scheduler with preemption bound, map-iteration-order seam, environment/fault answer menus; deviation-bounded DFS with replay'},
        {'name': 'instr', 'path': '/verif/cmd/instr', 'serves_properties': [c['property_id'] for c in checks if meta[c['property_id']].get('explorer')],
         'kind_free_text': 'type-directed source-to-source instrumenter (go/types): map range -> verifrt.Map, sync -> vsync, go stmt -> verifrt.Go, os file ops -> vos'},
    ],
    'checks': checks,
    'not_applicable': na,
    'notes': 'All checks decide by exhaustive enumeration within stated bounds (see evidence coverage.notes / caps_hit). known_findings.json lists genuine defects (known / fixed).',
}
json.dump(man, open(os.path.join(V, 'MANIFEST.json'), 'w'), indent=1)
print('claimed', len(checks), 'not_applicable', len(na))
