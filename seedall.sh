#!/bin/sh
# Re-evaluates every kept seeded change against the current checks (regression of the
# detection results). Usage: ./seedall.sh [--inplace]
cd "$(dirname "$0")"
for d in seeded/*/; do
  t=$(basename $d)
  checks=$(python3 -c "import json;m=json.load(open('seeded/$t/meta.json'));print(','.join(m.get('confirmation',{}).get('checks',{}).keys()) or m['property'])")
  ./seedeval.py $t --checks $checks "$@" > build/t/seedall_$t.log 2>&1
  python3 - "$t" <<'PY'
import json,sys
t=sys.argv[1]
m=json.load(open('/verif/seeded/%s/meta.json'%t))
ch=m.get('confirmation',{}).get('checks',{})
print(t,'confirmed' if m.get('confirmed') else 'NOT-CONFIRMED',' '.join('%s=%s'%(k,'caught' if v['detected'] else 'MISSED(exit %s)'%v['exit']) for k,v in ch.items()))
PY
done
