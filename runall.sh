#!/bin/sh
# runs every claimed check's quick (or $1) tier in sequence; summary lines only
tier=${1:-quick}
cd "$(dirname "$0")"
for id in $(python3 -c "import json;print(' '.join(c['property_id'] for c in json.load(open('MANIFEST.json'))['checks']))"); do
  s=$(date +%s)
  ./pmc check $id --tier $tier > build/runall_$id.log 2>&1
  rc=$?
  e=$(date +%s)
  echo "$id rc=$rc $((e-s))s $(head -1 build/runall_$id.log | cut -c1-160)"
  grep -a "^VIOLATION\|MACHINERY\|VACUOUS" build/runall_$id.log | head -5
done
