#!/usr/bin/env python3
"""mutcamp.py <ID> [--max N] [--funcs a,b] [--all-funcs] [--nosuite]
Development aid: a mutation campaign against one check. Single-edit mutants (cmd/mutgen) of the
functions named in the property's anchors.mechanism (restricted to statements the check's quick
tier executes, if build/cov/<ID>.txt exists - see cov.sh) are run, one at a time, through
`./pmc check <ID> --solo --extra <overlay>`; /repo is never touched. A mutant the check lets
through is then run through pprof's own suite: only a mutant that passes the suite AND the check
is a SURVIVOR worth reading (equivalent mutant, outside the statement, or a gap in the check).
Results: build/mutcamp/<ID>.jsonl (one line per mutant) and a summary on stdout."""
import json, os, re, subprocess, sys, collections, shutil, time
V = '/verif'
ENV = dict(os.environ, GOFLAGS='-mod=mod', GOPROXY='off', GOSUMDB='off', GOTOOLCHAIN='local', VERIF_PMC_BUILD='/verif/build/mc')
pid = sys.argv[1]
args = sys.argv[2:]
maxn, funcs_arg, allfuncs, nosuite = 40, None, False, False
i = 0
while i < len(args):
    if args[i] == '--max': maxn = int(args[i + 1]); i += 2
    elif args[i] == '--funcs': funcs_arg = args[i + 1].split(','); i += 2
    elif args[i] == '--all-funcs': allfuncs = True; i += 1
    elif args[i] == '--nosuite': nosuite = True; i += 1
    else: i += 1
prop = [json.loads(l) for l in open(V + '/properties.jsonl') if json.loads(l)['id'] == pid][0]
files = [f for f in prop['anchors']['files'] if f.endswith('.go') and not f.endswith('_test.go') and os.path.exists('/repo/' + f)]
names = set()
for m in prop['anchors']['mechanism']:
    for w in re.findall(r'[A-Za-z_][A-Za-z0-9_.]*', m['where']):
        names.add(w.split('.')[-1])
if funcs_arg: names = set(funcs_arg)
subprocess.run(['go', 'build', '-o', V + '/build/mutgen', '.'], cwd=V + '/cmd/mutgen', env=ENV, check=True)
if not os.path.exists('/verif/build/mc/instr'):
    subprocess.run([V + '/pmc', 'setup'], cwd=V, env=ENV, capture_output=True)
# coverage: file -> list of (l0,c0,l1,c1,count)
cov = collections.defaultdict(list)
cp = V + '/build/cov/%s.txt' % pid
if os.path.exists(cp):
    for l in open(cp):
        m = re.match(r'github.com/google/pprof/(\S+):(\d+)\.(\d+),(\d+)\.(\d+) (\d+) (\d+)', l)
        if m: cov[m.group(1)].append((int(m.group(2)), int(m.group(4)), int(m.group(7))))
def covered(f, line):
    if f not in cov: return True
    return any(a <= line <= b and c > 0 for a, b, c in cov[f])
muts = []
for f in files:
    cmd = [V + '/build/mutgen', '-file', '/repo/' + f]
    if not allfuncs: cmd += ['-funcs', ','.join(sorted(names))]
    r = subprocess.run(cmd, capture_output=True, text=True)
    for l in r.stdout.splitlines():
        m = json.loads(l); m['file'] = f
        if covered(f, m['line']): muts.append(m)
total = len(muts)
if len(muts) > maxn:
    step = len(muts) / maxn
    muts = [muts[int(k * step)] for k in range(maxn)]
print('mutcamp %s: %d candidate mutants in covered code of %d functions, running %d' % (pid, total, len(names), len(muts)), flush=True)
root = '/tmp/verif-mutcamp/' + pid
shutil.rmtree(root, ignore_errors=True)
os.makedirs(V + '/build/mutcamp', exist_ok=True)
res = []
out = open(V + '/build/mutcamp/%s.jsonl' % pid, 'w')
for k, m in enumerate(muts):
    d = '%s/m%d' % (root, k); os.makedirs(d)
    src = open('/repo/' + m['file'], 'rb').read()
    new = src[:m['off']] + m['new'].encode() + src[m['end']:]
    fp = os.path.join(d, os.path.basename(m['file'])); open(fp, 'wb').write(new)
    ov = os.path.join(d, 'overlay.json'); json.dump({'Replace': {'/repo/' + m['file']: fp}}, open(ov, 'w'))
    pkg = './' + os.path.dirname(m['file'])
    r = subprocess.run(['go', 'build', '-overlay', ov, pkg], cwd='/repo', env=ENV, capture_output=True, text=True)
    m['desc'] = '%s:%d %s %s: %r -> %r' % (m['file'], m['line'], m['func'], m['kind'], m['old'][:70], m['new'])
    if r.returncode != 0:
        m['result'] = 'nocompile'
    else:
        t0 = time.time()
        try:
            r = subprocess.run([V + '/pmc', 'check', pid, '--solo', '--extra', ov], cwd=V, env=ENV, capture_output=True, text=True, timeout=600)
            rc = r.returncode
            m['classes'] = [l.split('class=')[1].split(' cases=')[0] for l in r.stdout.split('\n') if 'class=' in l and 'cases=' in l][:4]
        except subprocess.TimeoutExpired:
            rc = -1
        m['check_s'] = round(time.time() - t0)
        if rc == 1: m['result'] = 'caught'
        elif rc == -1: m['result'] = 'timeout'
        elif rc == 2: m['result'] = 'machinery'; m['tail'] = r.stdout[-600:]
        else:
            m['result'] = 'survived-check'
            if not nosuite:
                r = subprocess.run('go test -overlay %s -vet=off -count=1 ./... 2>&1 | tail -30' % ov, shell=True, cwd='/repo', env=ENV, capture_output=True, text=True, timeout=1800)
                failed = [l for l in r.stdout.split('\n') if l.startswith('FAIL') or l.startswith('--- FAIL') or 'panic:' in l]
                m['result'] = 'killed-by-suite' if failed else 'SURVIVOR'
    print('%3d/%d %-16s %s %s' % (k + 1, len(muts), m['result'], m['desc'], m.get('classes', '')), flush=True)
    out.write(json.dumps(m) + '\n'); out.flush()
    res.append(m)
    shutil.rmtree(d, ignore_errors=True)
cnt = collections.Counter(m['result'] for m in res)
print('SUMMARY %s %s' % (pid, dict(cnt)))
shutil.rmtree(root, ignore_errors=True)
