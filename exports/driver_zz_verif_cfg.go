//go:build verif_all || verif_c19 || verif_c20

package driver

// Injected by the /verif overlay (never committed to the repository).

import (
	"encoding/json"
	"net/url"
)

// VerifConfigure sets one option of the current configuration.
func VerifConfigure(name, value string) error { return configure(name, value) }

// VerifConfigGet returns the current value of a config field by name.
func VerifConfigGet(name string) (string, bool) {
	f, ok := configFieldMap[name]
	if !ok {
		return "", false
	}
	cfg := currentConfig()
	return cfg.get(f), true
}

// VerifConfigFields lists (name, urlparam, saved, default) of every config field.
func VerifConfigFields() [][4]string {
	var out [][4]string
	for _, f := range configFields {
		s := "false"
		if f.saved {
			s = "true"
		}
		out = append(out, [4]string{f.name, f.urlparam, s, f.defaultValue})
	}
	return out
}

// VerifURLRoundTrip applies the query to a default config, and renders it as URL again.
func VerifURLRoundTrip(q url.Values) (map[string]string, url.Values, error) {
	cfg := defaultConfig()
	if err := cfg.applyURL(q); err != nil {
		return nil, nil, err
	}
	fields := map[string]string{}
	for _, f := range configFields {
		fields[f.name] = cfg.get(f)
	}
	u, _ := cfg.makeURL(url.URL{})
	return fields, u.Query(), nil
}

// VerifURLToJSON applies the query to a default config and returns the config
// in the form the settings file stores (no string codec of pprof in between).
func VerifURLToJSON(q url.Values) (string, error) {
	cfg := defaultConfig()
	if err := cfg.applyURL(q); err != nil {
		return "", err
	}
	b, err := json.Marshal(cfg)
	return string(b), err
}

// VerifSettingsFileName exposes settingsFileName.
var VerifSettingsFileName = settingsFileName

// VerifSetConfig / VerifRemoveConfig expose the settings operations.
func VerifSetConfig(fname string, request url.URL) error { return setConfig(fname, request) }
func VerifRemoveConfig(fname, config string) error       { return removeConfig(fname, config) }
