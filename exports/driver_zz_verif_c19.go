//go:build verif_all || verif_c19 || verif_c20

package driver

import "net/url"

// VerifConfigMenu returns (name, url) of the config menu entries the web UI offers.
func VerifConfigMenu(fname string) [][2]string {
	var out [][2]string
	for _, e := range configMenu(fname, url.URL{}) {
		out = append(out, [2]string{e.Name, e.URL})
	}
	return out
}

// VerifURLOnCurrent applies the query to the current configuration (what
// setConfig saves) and returns the resulting field values.
func VerifURLOnCurrent(q url.Values) (map[string]string, url.Values, error) {
	cfg := currentConfig()
	if err := cfg.applyURL(q); err != nil {
		return nil, nil, err
	}
	fields := map[string]string{}
	for _, f := range configFields {
		fields[f.name] = cfg.get(f)
	}
	return fields, nil, nil
}

// VerifReadSettings returns, per saved configuration name, the field values as strings.
func VerifReadSettings(fname string) (map[string]map[string]string, error) {
	s, err := readSettings(fname)
	if err != nil {
		return nil, err
	}
	out := map[string]map[string]string{}
	for _, c := range s.Configs {
		m := map[string]string{}
		for _, f := range configFields {
			cfg := c.config
			m[f.name] = cfg.get(f)
		}
		out[c.Name] = m
	}
	return out, nil
}

// VerifConfigMenuOn is VerifConfigMenu for a page whose URL carries the given query
// (the menu links restore a configuration on top of the page currently shown).
func VerifConfigMenuOn(fname, rawQuery string) [][2]string {
	var out [][2]string
	for _, e := range configMenu(fname, url.URL{Path: "/top", RawQuery: rawQuery}) {
		out = append(out, [2]string{e.Name, e.URL})
	}
	return out
}
