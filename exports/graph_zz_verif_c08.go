//go:build verif_all || verif_c08

package graph

// Injected by the /verif overlay (never committed to the repository).

// Comparator seams for the C08 law checks.

// VerifEdgeLess is edgeList.Less on a two-element list.
func VerifEdgeLess(a, b *Edge) bool { return edgeList{a, b}.Less(0, 1) }

// VerifTagLess is tags.Less on a two-element list.
func VerifTagLess(a, b *Tag, flat bool) bool { return tags{[]*Tag{a, b}, flat}.Less(0, 1) }

// VerifNodeOrders lists the node orders.
var VerifNodeOrders = []NodeOrder{FlatNameOrder, FlatCumNameOrder, CumNameOrder, NameOrder, FileOrder, AddressOrder, EntropyOrder}

// VerifSortedFirst sorts the two nodes by the given order and reports whether a comes first.
func VerifSortedFirst(a, b *Node, o NodeOrder) (aFirst bool, err error) {
	ns := Nodes{a, b}
	if err := ns.Sort(o); err != nil {
		return false, err
	}
	return ns[0] == a, nil
}
