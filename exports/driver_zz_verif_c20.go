//go:build verif_all || verif_c20

package driver

// Injected by the /verif overlay (never committed to the repository).

import (
	"github.com/google/pprof/internal/plugin"
	"github.com/google/pprof/profile"
)

// VerifNewTempFile exposes newTempFile.
var VerifNewTempFile = newTempFile

// VerifGrab exposes the concurrent fetch of sources and bases.
func VerifFetchProfiles(sources, bases []string, diffBase, normalize bool, o *plugin.Options) (*profile.Profile, error) {
	s := &source{Sources: sources, Base: bases, DiffBase: diffBase, Normalize: normalize, Symbolize: "none"}
	return fetchProfiles(s, setDefaults(o))
}

// VerifDeferDeleteTempFile and VerifCleanupTempFiles expose the registry of
// temporary files to delete on exit.
var VerifDeferDeleteTempFile = deferDeleteTempFile
var VerifCleanupTempFiles = cleanupTempFiles
