//go:build verif_all || verif_c13

package binutils

// Injected by the /verif overlay for check C13 (never committed to the
// repository). Exposes the ELF path of binutils without real files or tool
// processes: elfOpen is replaced by a function returning a synthetic *elf.File
// and the tools are replaced at the lineReaderWriter seam.

import (
	"debug/elf"
	"io"
	"strings"

	"github.com/google/pprof/internal/plugin"
)

// VerifSetELF makes every elfOpen return ef.
func VerifSetELF(ef *elf.File) {
	elfOpen = func(string) (*elf.File, error) { return ef, nil }
}

// VerifOpenELF runs the real openELF for a mapping. fast selects the nm
// flavour (fileNM), otherwise fileAddr2Line.
func VerifOpenELF(name string, fast bool, start, limit, offset uint64) (plugin.ObjFile, error) {
	b := &binrep{fast: fast, addr2lineFound: !fast, llvmSymbolizerFound: !fast}
	return b.openELF(name, start, limit, offset, "")
}

// VerifBase returns the base computed so far for an object returned by
// VerifOpenELF.
func VerifBase(o plugin.ObjFile) uint64 {
	switch f := o.(type) {
	case *fileNM:
		return f.base
	case *fileAddr2Line:
		return f.base
	}
	return 0
}

// VerifAttachNM gives a fileNM its symbol table the way fileNM.SourceLine does
// once the base is known (newAddr2LinerNM minus the nm process).
func VerifAttachNM(o plugin.ObjFile, nmOutput string) error {
	f := o.(*fileNM)
	a, err := parseAddr2LinerNM(f.base, strings.NewReader(nmOutput))
	if err != nil {
		return err
	}
	f.addr2linernm = a
	return nil
}

// VerifAttachTool gives a fileAddr2Line its tool connection the way
// fileAddr2Line.init does once the base is known (minus the tool process).
// kind is "llvm" or "addr2line".
func VerifAttachTool(o plugin.ObjFile, kind string, rw *VerifRW) {
	f := o.(*fileAddr2Line)
	f.once.Do(func() {})
	f.llvmSymbolizer, f.addr2liner = nil, nil
	switch kind {
	case "llvm":
		f.llvmSymbolizer = &llvmSymbolizer{filename: f.name, rw: rw, base: f.base, isData: f.isData}
	case "addr2line":
		f.addr2liner = &addr2Liner{rw: rw, base: f.base}
	}
}

// VerifRW is a lineReaderWriter that is answered by a function.
type VerifRW struct {
	Written []string
	Answer  func(in string) []string // lines produced by the tool for one input line
	lines   []string
}

func (m *VerifRW) write(s string) error {
	m.Written = append(m.Written, s)
	if m.Answer != nil {
		m.lines = append(m.lines, m.Answer(s)...)
	}
	return nil
}

func (m *VerifRW) readLine() (string, error) {
	if len(m.lines) == 0 {
		return "", io.EOF
	}
	l := m.lines[0]
	m.lines = m.lines[1:]
	return l, nil
}

func (m *VerifRW) close() {}

// VerifNM is a parsed nm symbol table.
type VerifNM struct{ a *addr2LinerNM }

// VerifParseNM runs parseAddr2LinerNM.
func VerifParseNM(base uint64, nmOutput string) (*VerifNM, error) {
	a, err := parseAddr2LinerNM(base, strings.NewReader(nmOutput))
	if err != nil {
		return nil, err
	}
	return &VerifNM{a}, nil
}

// Len returns the number of symbols parsed.
func (n *VerifNM) Len() int { return len(n.a.m) }

// AddrInfo runs addr2LinerNM.addrInfo.
func (n *VerifNM) AddrInfo(addr uint64) ([]plugin.Frame, error) { return n.a.addrInfo(addr) }

// VerifAddr2LineAddrInfo runs addr2Liner.addrInfo over rw with the given base.
func VerifAddr2LineAddrInfo(rw *VerifRW, base, addr uint64) ([]plugin.Frame, error) {
	return (&addr2Liner{rw: rw, base: base}).addrInfo(addr)
}

// VerifLLVMAddrInfo runs llvmSymbolizer.addrInfo over rw with the given base.
func VerifLLVMAddrInfo(rw *VerifRW, file string, base, addr uint64) ([]plugin.Frame, error) {
	return (&llvmSymbolizer{filename: file, rw: rw, base: base}).addrInfo(addr)
}

// VerifOpenELFNM is VerifOpenELF for the nm flavour with the nm command given:
// SourceLine then starts that command itself (newAddr2LinerNM unmodified).
func VerifOpenELFNM(name, nm string, start, limit, offset uint64) (plugin.ObjFile, error) {
	b := &binrep{fast: true, nm: nm, nmFound: true}
	return b.openELF(name, start, limit, offset, "")
}

// VerifAttachToolNM gives the addr2line connection of a fileAddr2Line the nm
// table it uses to improve function names, built with the object's base the
// way fileAddr2Line.init does.
func VerifAttachToolNM(o plugin.ObjFile, nmOutput string) error {
	f := o.(*fileAddr2Line)
	a, err := parseAddr2LinerNM(f.base, strings.NewReader(nmOutput))
	if err != nil {
		return err
	}
	f.addr2liner.nm = a
	return nil
}
