//go:build verif_all || verif_c02

package driver

// Injected by the /verif overlay (never committed to the repository).

import (
	"github.com/google/pprof/internal/plugin"
	"github.com/google/pprof/profile"
)

// VerifGrabProfile runs, in the calling goroutine, exactly what the driver runs
// in a goroutine of its own for every profile source (fetch through the
// Fetcher plug-in, validity gate, binary lookup). A panic there would kill the
// process; run here first, it can be recovered and reported.
func VerifGrabProfile(src string, o *plugin.Options) (*profile.Profile, error) {
	o = setDefaults(o)
	s := &source{Sources: []string{src}, Symbolize: "none"}
	p, _, _, err := grabProfile(s, src, o.Fetch, o.Obj, o.UI, o.HTTPTransport)
	return p, err
}
