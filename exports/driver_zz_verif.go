package driver

// Injected by the /verif overlay (never committed to the repository): exposes
// what the harness needs and has no public seam.

var (
	verifShortcuts0 = shortcuts{}
	verifHelp0      = map[string]string{}
)

func init() {
	for k, v := range pprofShortcuts {
		verifShortcuts0[k] = v
	}
	for k, v := range configHelp {
		verifHelp0[k] = v
	}
}

// VerifReset restores the process-global driver state to what a fresh process has.
func VerifReset() {
	setCurrentConfig(defaultConfig())
	interactiveMode = false
	for k := range pprofShortcuts {
		delete(pprofShortcuts, k)
	}
	for k, v := range verifShortcuts0 {
		pprofShortcuts[k] = v
	}
	for k := range configHelp {
		delete(configHelp, k)
	}
	for k, v := range verifHelp0 {
		configHelp[k] = v
	}
	tempFilesMu.Lock()
	tempFiles = nil
	tempFilesMu.Unlock()
}
