package driver

// Injected by the /verif overlay (never committed to the repository): exposes
// what the harness needs and has no public seam.

import (
	"net/url"

	"github.com/google/pprof/internal/plugin"
	"github.com/google/pprof/profile"
)

var (
	verifShortcuts0 = shortcuts{}
	verifHelp0      = map[string]string{}
)

func init() {
	for k, v := range pprofShortcuts {
		verifShortcuts0[k] = v
	}
	for k, v := range configHelp {
		verifHelp0[k] = v
	}
}

// VerifReset restores the process-global driver state to what a fresh process has.
func VerifReset() {
	setCurrentConfig(defaultConfig())
	interactiveMode = false
	for k := range pprofShortcuts {
		delete(pprofShortcuts, k)
	}
	for k, v := range verifShortcuts0 {
		pprofShortcuts[k] = v
	}
	for k := range configHelp {
		delete(configHelp, k)
	}
	for k, v := range verifHelp0 {
		configHelp[k] = v
	}
	tempFilesMu.Lock()
	tempFiles = nil
	tempFilesMu.Unlock()
}

// VerifConfigure sets one option of the current configuration.
func VerifConfigure(name, value string) error { return configure(name, value) }

// VerifConfigGet returns the current value of a config field by name.
func VerifConfigGet(name string) (string, bool) {
	f, ok := configFieldMap[name]
	if !ok {
		return "", false
	}
	cfg := currentConfig()
	return cfg.get(f), true
}

// VerifConfigFields lists (name, urlparam, saved, default) of every config field.
func VerifConfigFields() [][4]string {
	var out [][4]string
	for _, f := range configFields {
		s := "false"
		if f.saved {
			s = "true"
		}
		out = append(out, [4]string{f.name, f.urlparam, s, f.defaultValue})
	}
	return out
}

// VerifConfigState is a canonical rendering of all option values.
func VerifConfigState() string {
	cfg := currentConfig()
	s := ""
	for _, f := range configFields {
		s += f.name + "=" + cfg.get(f) + ";"
	}
	return s
}

// VerifURLRoundTrip applies the query to a default config, and renders it as URL again.
func VerifURLRoundTrip(q url.Values) (map[string]string, url.Values, error) {
	cfg := defaultConfig()
	if err := cfg.applyURL(q); err != nil {
		return nil, nil, err
	}
	fields := map[string]string{}
	for _, f := range configFields {
		fields[f.name] = cfg.get(f)
	}
	u, _ := cfg.makeURL(url.URL{})
	return fields, u.Query(), nil
}

// VerifNewTempFile exposes newTempFile.
var VerifNewTempFile = newTempFile

// VerifSettingsFileName exposes settingsFileName.
var VerifSettingsFileName = settingsFileName

// VerifSetConfig / VerifRemoveConfig expose the settings operations.
func VerifSetConfig(fname string, request url.URL) error { return setConfig(fname, request) }
func VerifRemoveConfig(fname, config string) error       { return removeConfig(fname, config) }

// VerifGrab exposes the concurrent fetch of sources and bases.
func VerifFetchProfiles(sources, bases []string, diffBase, normalize bool, o *plugin.Options) (*profile.Profile, error) {
	s := &source{Sources: sources, Base: bases, DiffBase: diffBase, Normalize: normalize, Symbolize: "none"}
	return fetchProfiles(s, setDefaults(o))
}
