//go:build verif_all || verif_c20

package binutils

// Injected by the /verif overlay (never committed): seams for the C20 scenarios.

import (
	"debug/elf"

	"github.com/google/pprof/internal/plugin"
)

// VerifC20RW is the tool pipe as seen by the harness.
type VerifC20RW interface {
	Write(string) error
	ReadLine() (string, error)
	Close()
}

type verifC20rw struct{ r VerifC20RW }

func (a verifC20rw) write(s string) error      { return a.r.Write(s) }
func (a verifC20rw) readLine() (string, error) { return a.r.ReadLine() }
func (a verifC20rw) close()                    { a.r.Close() }

// VerifC20Addr2Liner returns the address lookup of an addr2Liner talking to rw.
func VerifC20Addr2Liner(rw VerifC20RW, base uint64) func(addr uint64) ([]plugin.Frame, error) {
	d := &addr2Liner{rw: verifC20rw{rw}, base: base}
	return d.addrInfo
}

// VerifC20LLVM returns the address lookup of an llvmSymbolizer talking to rw.
func VerifC20LLVM(rw VerifC20RW, file string, base uint64, isData bool) func(addr uint64) ([]plugin.Frame, error) {
	d := &llvmSymbolizer{rw: verifC20rw{rw}, filename: file, base: base, isData: isData}
	return d.addrInfo
}

// VerifC20OpenELF opens a synthetic ELF object (a position-independent file with one
// executable PT_LOAD segment at link-time address 0, length size) mapped at start:
// the object file a symbolizer shares between goroutines. The relocation base is
// computed lazily, once, from the first address asked about.
func VerifC20OpenELF(start, size uint64) (plugin.ObjFile, error) {
	ef := &elf.File{}
	ef.Type, ef.Class, ef.Data, ef.Machine = elf.ET_DYN, elf.ELFCLASS64, elf.ELFDATA2LSB, elf.EM_X86_64
	ef.Progs = []*elf.Prog{{ProgHeader: elf.ProgHeader{Type: elf.PT_LOAD, Flags: elf.PF_R | elf.PF_X, Off: 0, Vaddr: 0, Paddr: 0, Filesz: size, Memsz: size, Align: 4096}}}
	old := elfOpen
	elfOpen = func(string) (*elf.File, error) { return ef, nil }
	_ = old
	b := &binrep{fast: true}
	return b.openELF("/c20/lib.so", start, start+size, 0, "")
}
