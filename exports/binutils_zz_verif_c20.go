package binutils

// Injected by the /verif overlay (never committed): seams for the C20 scenarios.

import "github.com/google/pprof/internal/plugin"

// VerifC20RW is the tool pipe as seen by the harness.
type VerifC20RW interface {
	Write(string) error
	ReadLine() (string, error)
	Close()
}

type verifC20rw struct{ r VerifC20RW }

func (a verifC20rw) write(s string) error      { return a.r.Write(s) }
func (a verifC20rw) readLine() (string, error) { return a.r.ReadLine() }
func (a verifC20rw) close()                    { a.r.Close() }

// VerifC20Addr2Liner returns the address lookup of an addr2Liner talking to rw.
func VerifC20Addr2Liner(rw VerifC20RW, base uint64) func(addr uint64) ([]plugin.Frame, error) {
	d := &addr2Liner{rw: verifC20rw{rw}, base: base}
	return d.addrInfo
}

// VerifC20LLVM returns the address lookup of an llvmSymbolizer talking to rw.
func VerifC20LLVM(rw VerifC20RW, file string, base uint64, isData bool) func(addr uint64) ([]plugin.Frame, error) {
	d := &llvmSymbolizer{rw: verifC20rw{rw}, filename: file, base: base, isData: isData}
	return d.addrInfo
}
