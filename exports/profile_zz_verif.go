//go:build verif_all || verif_c08 || verif_c10 || verif_c16 || verif_c19 || verif_c20

package profile

// Injected by the /verif overlay (never committed to the repository).

import (
	"fmt"

	"github.com/google/pprof/internal/verifrt"
)

func init() {
	verifrt.RegisterKeyKeyer((*Location)(nil), func(k, v any) string {
		l := k.(*Location)
		if l == nil {
			return "<nil>"
		}
		return fmt.Sprintf("L%020d", l.ID)
	})
	verifrt.RegisterKeyKeyer((*Function)(nil), func(k, v any) string {
		f := k.(*Function)
		if f == nil {
			return "<nil>"
		}
		return fmt.Sprintf("F%020d", f.ID)
	})
	verifrt.RegisterKeyKeyer((*Mapping)(nil), func(k, v any) string {
		m := k.(*Mapping)
		if m == nil {
			return "<nil>"
		}
		return fmt.Sprintf("M%020d", m.ID)
	})
}
