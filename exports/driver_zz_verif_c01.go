//go:build verif_all || verif_c01

package driver

// Injected by the /verif overlay (never committed to the repository).

import "github.com/google/pprof/profile"

// VerifProfileCopier exposes makeProfileCopier/newCopy: the source of every
// profile a web or interactive session reports on.
func VerifProfileCopier(src *profile.Profile) func() *profile.Profile {
	return makeProfileCopier(src).newCopy
}
