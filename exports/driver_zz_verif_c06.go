//go:build verif_all || verif_c06

package driver

// Injected by the /verif overlay for check C06 (never committed to the
// repository): the two unexported entry points of the sample filters.

import (
	"fmt"

	"github.com/google/pprof/internal/plugin"
	"github.com/google/pprof/profile"
)

// VerifApplyFocus runs applyFocus on prof exactly as generateRawReport does:
// numeric label units are identified on the profile, then every filter option
// named in opts (focus, ignore, hide, show, show_from, tagfocus, tagignore,
// tagshow, taghide) is set on a default configuration.
func VerifApplyFocus(prof *profile.Profile, opts map[string]string, ui plugin.UI) error {
	cfg := defaultConfig()
	for name, value := range opts {
		f, ok := configFieldMap[name]
		if !ok || f.name != name {
			return fmt.Errorf("verif: unknown config field %q", name)
		}
		if err := cfg.set(f, value); err != nil {
			return err
		}
	}
	return applyFocus(prof, identifyNumLabelUnits(prof, ui), cfg, ui)
}

// VerifCompileTagFilter exposes compileTagFilter.
func VerifCompileTagFilter(name, value string, numLabelUnits map[string]string, ui plugin.UI) (func(*profile.Sample) bool, error) {
	return compileTagFilter(name, value, numLabelUnits, ui, nil)
}
