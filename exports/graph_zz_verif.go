//go:build verif_all || verif_c08 || verif_c10 || verif_c16 || verif_c19 || verif_c20

package graph

// Injected by the /verif overlay (never committed to the repository).

import (
	"fmt"

	"github.com/google/pprof/internal/verifrt"
)

// verifNodeKey describes a node by content: its info and, as long as there is a
// single caller, the infos of its callers (call-tree nodes share infos).
func verifNodeKey(n *Node) string {
	if n == nil {
		return "<nil>"
	}
	s := fmt.Sprintf("%q", fmt.Sprint(n.Info))
	cur := n
	for depth := 0; depth < 64 && len(cur.In) == 1; depth++ {
		var p *Node
		for _, e := range cur.In {
			p = e.Src
		}
		if p == nil || p == cur {
			break
		}
		s += "<" + fmt.Sprintf("%q", fmt.Sprint(p.Info))
		cur = p
	}
	return s
}

// VerifNodeKey exports verifNodeKey.
func VerifNodeKey(n *Node) string { return verifNodeKey(n) }

func init() {
	verifrt.RegisterMapKeyer(EdgeMap{}, func(k, v any) string {
		e := v.(*Edge)
		if e == nil {
			return verifNodeKey(k.(*Node))
		}
		return verifNodeKey(e.Src) + "->" + verifNodeKey(e.Dest)
	})
	verifrt.RegisterKeyKeyer((*Node)(nil), func(k, v any) string { return verifNodeKey(k.(*Node)) })
	verifrt.RegisterKeyKeyer(nodePair{}, func(k, v any) string {
		p := k.(nodePair)
		return verifNodeKey(p.src) + "|" + verifNodeKey(p.dest)
	})
}
