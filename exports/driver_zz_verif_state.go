//go:build verif_all || verif_c10 || verif_c20

package driver

// Injected by the /verif overlay (never committed to the repository).

// VerifConfigState is a canonical rendering of all option values.
func VerifConfigState() string {
	cfg := currentConfig()
	s := ""
	for _, f := range configFields {
		s += f.name + "=" + cfg.get(f) + ";"
	}
	return s
}
