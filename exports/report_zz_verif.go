//go:build verif_all || verif_c08 || verif_c10 || verif_c16 || verif_c19 || verif_c20

package report

// Injected by the /verif overlay (never committed to the repository).

import (
	"fmt"

	"github.com/google/pprof/internal/verifrt"
)

func init() {
	verifrt.RegisterKeyKeyer((*objSymbol)(nil), func(k, v any) string {
		s := k.(*objSymbol)
		if s == nil || s.sym == nil {
			return "<nil>"
		}
		return fmt.Sprintf("%q %x %x %q", s.sym.Name, s.sym.Start, s.sym.End, s.sym.File)
	})
}
