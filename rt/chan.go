package verifrt

import "reflect"

// Channel operations of pprof's own code are routed here by the instrumenter
// (send statements, receive expressions, close, range over a channel; `select`
// is not rewritten). Outside explorations they are the plain operations. Under
// an exploration each is a scheduling point with an enabledness predicate, so a
// thread blocked on a channel hands the baton on instead of blocking the whole
// process. Buffered channels use the real channel (len/cap decide enabledness);
// unbuffered channels use a mailbox rendezvous.

type chanState struct {
	closed      bool
	recvWaiting int
	mailbox     []any // unbuffered hand-over
}

var chans = map[uintptr]*chanState{}

func stateOf(ch any) *chanState {
	p := reflect.ValueOf(ch).Pointer()
	s := chans[p]
	if s == nil {
		s = &chanState{}
		chans[p] = s
	}
	return s
}

// resetChans forgets channel bookkeeping between executions.
func resetChans() { chans = map[uintptr]*chanState{} }

// ChanSend is `ch <- v`.
func ChanSend[T any](ch chan<- T, v T) {
	if !Active() || Unwinding() || ch == nil {
		ch <- v
		return
	}
	s := stateOf(ch)
	if s.closed {
		panic("send on closed channel")
	}
	if cap(ch) > 0 {
		SchedPoint(func() bool { return len(ch) < cap(ch) || s.closed }, "chan send@"+callerSite())
		if Unwinding() {
			return
		}
		if s.closed {
			panic("send on closed channel")
		}
		ch <- v
		return
	}
	SchedPoint(func() bool { return s.recvWaiting > len(s.mailbox) || s.closed }, "chan send (unbuffered)@"+callerSite())
	if Unwinding() {
		return
	}
	if s.closed {
		panic("send on closed channel")
	}
	s.mailbox = append(s.mailbox, v)
	SchedPoint(nil, "chan send done")
}

func recv[T any](ch <-chan T) (v T, ok bool) {
	if !Active() || Unwinding() || ch == nil {
		v, ok = <-ch
		return
	}
	s := stateOf(ch)
	if cap(ch) > 0 {
		SchedPoint(func() bool { return len(ch) > 0 || s.closed }, "chan recv@"+callerSite())
		if Unwinding() {
			return
		}
		if len(ch) > 0 {
			v, ok = <-ch
			return
		}
		return v, false // closed and drained
	}
	s.recvWaiting++
	SchedPoint(func() bool { return len(s.mailbox) > 0 || s.closed }, "chan recv (unbuffered)@"+callerSite())
	s.recvWaiting--
	if Unwinding() {
		return
	}
	if len(s.mailbox) > 0 {
		v = s.mailbox[0].(T)
		s.mailbox = s.mailbox[1:]
		return v, true
	}
	return v, false
}

// ChanRecv is `<-ch`.
func ChanRecv[T any](ch <-chan T) T {
	v, _ := recv(ch)
	return v
}

// ChanRecv2 is `v, ok := <-ch`.
func ChanRecv2[T any](ch <-chan T) (T, bool) { return recv(ch) }

// ChanClose is close(ch).
func ChanClose[T any](ch chan<- T) {
	if Active() && !Unwinding() && ch != nil {
		s := stateOf(ch)
		if s.closed {
			panic("close of closed channel")
		}
		s.closed = true
		if cap(ch) == 0 {
			SchedPoint(nil, "chan close")
			return // unbuffered channels live in the mailbox model; the real channel is left alone
		}
		close(ch)
		SchedPoint(nil, "chan close")
		return
	}
	close(ch)
}

// ChanRange is `for v := range ch`.
func ChanRange[T any](ch <-chan T) func(yield func(T) bool) {
	return func(yield func(T) bool) {
		for {
			v, ok := recv(ch)
			if !ok {
				return
			}
			if !yield(v) {
				return
			}
		}
	}
}
