package verifrt

import (
	"fmt"
	"iter"
	"reflect"
	"sort"
	"strconv"
)

// MapStats counts what the map-order seam saw (read by the C08 check).
var MapStats struct {
	Ranges       int64 // map ranges executed
	Multi        int64 // ... with >= 2 keys
	Uncontrolled int64 // ... with >= 2 keys whose canonical order has ties or no keyer (native order kept)
	Partial      int64 // ... with more keys than the full-permutation limit (menu of permutations only)
}

// UncontrolledSites lists source sites whose keys could not be ordered canonically.
var UncontrolledSites = map[string]int{}

// LastTie is the key string of the most recent tie (diagnostics).
var LastTie string

// MaxFullPerm: ranges with at most this many keys get all n! orders, larger
// ones a menu of n rotations + reversal + adjacent transpositions.
var MaxFullPerm = 4

type keyer func(k, v any) string

var (
	keyersByMap = map[reflect.Type]keyer{}
	keyersByKey = map[reflect.Type]keyer{}
)

// RegisterMapKeyer registers a canonical-key function for all maps of the type
// of sample (keys may be pointers; f must describe the entry by content).
func RegisterMapKeyer(sample any, f func(k, v any) string) {
	keyersByMap[reflect.TypeOf(sample)] = f
}

// RegisterKeyKeyer registers a canonical-key function for a key type.
func RegisterKeyKeyer(sample any, f func(k, v any) string) {
	keyersByKey[reflect.TypeOf(sample)] = f
}

func scalarKey(k any) (string, bool) {
	switch x := k.(type) {
	case string:
		return "s" + x, true
	case int:
		return fmt.Sprintf("i%020d", int64(x)+1<<62), true
	case int64:
		return fmt.Sprintf("i%020d", uint64(x)+1<<63), true
	case uint64:
		return fmt.Sprintf("u%020d", x), true
	case uint32:
		return fmt.Sprintf("u%020d", uint64(x)), true
	case int32:
		return fmt.Sprintf("i%020d", int64(x)+1<<40), true
	case uintptr:
		return fmt.Sprintf("u%020d", uint64(x)), true
	case bool:
		return strconv.FormatBool(x), true
	case float64:
		return fmt.Sprintf("f%030.10f", x), true
	}
	return "", false
}

func hasPointer(t reflect.Type, depth int) bool {
	if depth > 6 {
		return true
	}
	switch t.Kind() {
	case reflect.Ptr, reflect.UnsafePointer, reflect.Chan, reflect.Func, reflect.Map, reflect.Interface, reflect.Slice:
		return true
	case reflect.Struct:
		for i := 0; i < t.NumField(); i++ {
			if hasPointer(t.Field(i).Type, depth+1) {
				return true
			}
		}
	case reflect.Array:
		return hasPointer(t.Elem(), depth+1)
	}
	return false
}

var pointerFree = map[reflect.Type]bool{}

// Map is the seam every `range m` over a map in pprof's packages goes through
// in the instrumented build. It snapshots the keys, orders them canonically
// (by content), lets the explorer pick a permutation, and yields (k, m[k]) for
// the keys still present, which preserves Go's semantics for deletion during
// iteration (entries added during iteration are not visited, which Go allows).
func Map[M ~map[K]V, K comparable, V any](m M) iter.Seq2[K, V] {
	return func(yield func(K, V) bool) {
		n := len(m)
		if n == 0 {
			return
		}
		MapStats.Ranges++
		if n == 1 {
			for k, v := range m {
				yield(k, v)
				return
			}
		}
		MapStats.Multi++
		keys := make([]K, 0, n)
		for k := range m {
			keys = append(keys, k)
		}
		strs := make([]string, len(keys))
		ok := true
		var kf keyer
		mt := reflect.TypeOf(m)
		if f := keyersByMap[mt]; f != nil {
			kf = f
		} else if f := keyersByKey[mt.Key()]; f != nil {
			kf = f
		}
		for i, k := range keys {
			if kf != nil {
				strs[i] = kf(k, m[k])
				continue
			}
			if s, isScalar := scalarKey(any(k)); isScalar {
				strs[i] = s
				continue
			}
			kt := mt.Key()
			pf, seen := pointerFree[kt]
			if !seen {
				pf = !hasPointer(kt, 0)
				pointerFree[kt] = pf
			}
			if !pf {
				ok = false
				break
			}
			strs[i] = fmt.Sprintf("%#v", k)
		}
		if ok {
			idx := make([]int, len(keys))
			for i := range idx {
				idx[i] = i
			}
			sort.SliceStable(idx, func(a, b int) bool { return strs[idx[a]] < strs[idx[b]] })
			for i := 1; i < len(idx); i++ {
				if strs[idx[i]] == strs[idx[i-1]] {
					ok = false // ties: the canonical order would depend on the native order
					LastTie = strs[idx[i]]
					break
				}
			}
			if ok {
				sorted := make([]K, len(keys))
				for i, j := range idx {
					sorted[i] = keys[j]
				}
				keys = sorted
			}
		}
		if !ok {
			MapStats.Uncontrolled++
			UncontrolledSites[callerSite()]++
		} else if Active() {
			perm := choosePerm(len(keys))
			if perm != nil {
				p := make([]K, len(keys))
				for i, j := range perm {
					p[i] = keys[j]
				}
				keys = p
			}
		}
		for _, k := range keys {
			v, present := m[k]
			if !present {
				continue
			}
			if !yield(k, v) {
				return
			}
		}
	}
}

// choosePerm asks the explorer for a permutation of n elements; nil = identity.
func choosePerm(n int) []int {
	x := active
	if x == nil || !x.kinds[KMap] {
		return nil
	}
	site := callerSite()
	if n <= MaxFullPerm {
		total := 1
		for i := 2; i <= n; i++ {
			total *= i
		}
		c := Choose(total, KMap, site)
		if c == 0 {
			return nil
		}
		return nthPerm(n, c)
	}
	MapStats.Partial++
	// menu: identity, reversal, rotations by 1..n-1, adjacent transpositions
	menu := 1 + 1 + (n - 1) + (n - 1)
	c := Choose(menu, KMap, site)
	if c == 0 {
		return nil
	}
	p := make([]int, n)
	for i := range p {
		p[i] = i
	}
	switch {
	case c == 1:
		for i := range p {
			p[i] = n - 1 - i
		}
	case c < 1+n:
		r := c - 1
		for i := range p {
			p[i] = (i + r) % n
		}
	default:
		t := c - (1 + n)
		p[t], p[t+1] = p[t+1], p[t]
	}
	return p
}

// nthPerm returns the c-th permutation of 0..n-1 in lexicographic order.
func nthPerm(n, c int) []int {
	elems := make([]int, n)
	for i := range elems {
		elems[i] = i
	}
	fact := 1
	for i := 2; i < n; i++ {
		fact *= i
	}
	out := make([]int, 0, n)
	for i := n - 1; i >= 0; i-- {
		j := c / fact
		c %= fact
		out = append(out, elems[j])
		elems = append(elems[:j], elems[j+1:]...)
		if i > 0 {
			fact /= i
		}
	}
	return out
}
