// Package vsync is a drop-in replacement for the parts of package sync that
// pprof uses. Under an exploration every operation is a scheduling point of the
// controlled scheduler; outside explorations the types behave like sync's.
package vsync

import (
	"sync"

	"github.com/google/pprof/internal/verifrt"
)

// Locker is sync.Locker.
type Locker = sync.Locker

// Pool, Map, Cond are passed through.
type (
	Pool = sync.Pool
	Map  = sync.Map
	Cond = sync.Cond
)

// NewCond is sync.NewCond.
func NewCond(l Locker) *Cond { return sync.NewCond(l) }

// Mutex is a mutual exclusion lock.
type Mutex struct {
	real sync.Mutex
	held bool // model state, used under exploration
}

func (m *Mutex) Lock() {
	if !verifrt.Active() {
		m.real.Lock()
		return
	}
	if verifrt.Unwinding() {
		return
	}
	verifrt.SchedPoint(func() bool { return !m.held }, "Mutex.Lock@"+verifrt.Site())
	if verifrt.Unwinding() {
		return
	}
	m.held = true
}

func (m *Mutex) TryLock() bool {
	if !verifrt.Active() {
		return m.real.TryLock()
	}
	verifrt.SchedPoint(nil, "Mutex.TryLock")
	if m.held {
		return false
	}
	m.held = true
	return true
}

func (m *Mutex) Unlock() {
	if !verifrt.Active() {
		m.real.Unlock()
		return
	}
	if verifrt.Unwinding() {
		m.held = false
		return
	}
	if !m.held {
		panic("vsync: unlock of unlocked mutex")
	}
	m.held = false
	verifrt.SchedPoint(nil, "Mutex.Unlock")
}

// RWMutex is a reader/writer lock.
type RWMutex struct {
	real    sync.RWMutex
	writer  bool
	readers int
}

func (m *RWMutex) Lock() {
	if !verifrt.Active() {
		m.real.Lock()
		return
	}
	if verifrt.Unwinding() {
		return
	}
	verifrt.SchedPoint(func() bool { return !m.writer && m.readers == 0 }, "RWMutex.Lock")
	if verifrt.Unwinding() {
		return
	}
	m.writer = true
}

func (m *RWMutex) Unlock() {
	if !verifrt.Active() {
		m.real.Unlock()
		return
	}
	m.writer = false
	if verifrt.Unwinding() {
		return
	}
	verifrt.SchedPoint(nil, "RWMutex.Unlock")
}

func (m *RWMutex) RLock() {
	if !verifrt.Active() {
		m.real.RLock()
		return
	}
	if verifrt.Unwinding() {
		return
	}
	verifrt.SchedPoint(func() bool { return !m.writer }, "RWMutex.RLock")
	if verifrt.Unwinding() {
		return
	}
	m.readers++
}

func (m *RWMutex) RUnlock() {
	if !verifrt.Active() {
		m.real.RUnlock()
		return
	}
	m.readers--
	if verifrt.Unwinding() {
		return
	}
	verifrt.SchedPoint(nil, "RWMutex.RUnlock")
}

// Once performs exactly one action.
type Once struct {
	real    sync.Once
	done    bool
	running bool
}

func (o *Once) Do(f func()) {
	if !verifrt.Active() {
		if o.done {
			return
		}
		o.real.Do(func() { f(); o.done = true })
		return
	}
	if verifrt.Unwinding() {
		return
	}
	verifrt.SchedPoint(func() bool { return !o.running }, "Once.Do@"+verifrt.Site())
	if verifrt.Unwinding() || o.done {
		return
	}
	o.running = true
	defer func() {
		o.done = true
		o.running = false
	}()
	f()
}

// WaitGroup waits for a collection of threads to finish.
type WaitGroup struct {
	real sync.WaitGroup
	n    int
}

func (w *WaitGroup) Add(delta int) {
	if !verifrt.Active() {
		w.real.Add(delta)
		return
	}
	w.n += delta
	if w.n < 0 {
		panic("vsync: negative WaitGroup counter")
	}
}

func (w *WaitGroup) Done() {
	if !verifrt.Active() {
		w.real.Done()
		return
	}
	w.n--
	if verifrt.Unwinding() {
		return
	}
	if w.n < 0 {
		panic("vsync: negative WaitGroup counter")
	}
	verifrt.SchedPoint(nil, "WaitGroup.Done")
}

func (w *WaitGroup) Wait() {
	if !verifrt.Active() {
		w.real.Wait()
		return
	}
	if verifrt.Unwinding() {
		return
	}
	verifrt.SchedPoint(func() bool { return w.n <= 0 }, "WaitGroup.Wait@"+verifrt.Site())
}

// OnceFunc, OnceValue mirror sync's helpers (built on the real sync.Once; not
// scheduling points).
func OnceFunc(f func()) func() { return sync.OnceFunc(f) }
