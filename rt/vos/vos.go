// Package vos wraps the os file operations pprof performs. Every operation
// does the real thing on the real file system (the harness points pprof at a
// sandbox directory). Under an exploration that enables fault choices, each
// operation is first a scheduling point and then asks the explorer whether to
// inject an error, a short write, or a crash (process kill: a prefix of the
// operation's effect persists, then every controlled thread stops; deferred
// functions do not touch the file system any more).
package vos

import (
	"errors"
	"io/fs"
	"os"

	"github.com/google/pprof/internal/verifrt"
)

// Log records the operations performed by the current execution (for reports).
var Log []string

// ErrInjected is the error returned by injected failures.
var ErrInjected = errors.New("vos: injected I/O error (no space left on device)")

// Reset clears the operation log.
func Reset() { Log = nil }

func logf(s string) {
	if verifrt.Active() {
		Log = append(Log, s)
	}
}

// dead reports whether the "process" was killed: no further effects.
func dead() bool { return verifrt.Unwinding() }

// simple runs a scheduling point and a 3-way fault choice: ok / error / crash-before.
func simple(what string) (fail bool) {
	if !verifrt.Active() {
		return false
	}
	verifrt.Yield(what)
	if dead() {
		return true
	}
	switch verifrt.Choose(3, verifrt.KFault, what) {
	case 1:
		logf(what + " -> injected error")
		return true
	case 2:
		logf(what + " -> crash before")
		verifrt.Crash("before " + what)
		return true
	}
	logf(what)
	return false
}

func WriteFile(name string, data []byte, perm fs.FileMode) error {
	if !verifrt.Active() {
		return os.WriteFile(name, data, perm)
	}
	what := "WriteFile(" + name + ")"
	verifrt.Yield(what)
	if dead() {
		return ErrInjected
	}
	// 0 ok; 1 error before anything; 2 crash before; 3+k (k<len): crash after
	// truncation and k bytes; 3+len+k (k<len): short write of k bytes then error.
	n := len(data)
	c := verifrt.Choose(3+2*n, verifrt.KFault, what)
	switch {
	case c == 0:
		logf(what)
		return os.WriteFile(name, data, perm)
	case c == 1:
		logf(what + " -> injected error")
		return ErrInjected
	case c == 2:
		logf(what + " -> crash before")
		verifrt.Crash("before " + what)
		return ErrInjected
	case c < 3+n:
		k := c - 3
		os.WriteFile(name, data[:k], perm)
		logf(what + " -> crash after truncate+" + itoa(k) + " bytes")
		verifrt.Crash("inside " + what)
		return ErrInjected
	default:
		k := c - 3 - n
		os.WriteFile(name, data[:k], perm)
		logf(what + " -> short write of " + itoa(k) + " bytes, error")
		return ErrInjected
	}
}

func itoa(i int) string {
	if i == 0 {
		return "0"
	}
	s := ""
	for i > 0 {
		s = string(rune('0'+i%10)) + s
		i /= 10
	}
	return s
}

func ReadFile(name string) ([]byte, error) {
	if verifrt.Active() {
		verifrt.Yield("ReadFile(" + name + ")")
		if dead() {
			return nil, ErrInjected
		}
		logf("ReadFile(" + name + ")")
	}
	return os.ReadFile(name)
}

func MkdirAll(path string, perm fs.FileMode) error {
	if simple("MkdirAll(" + path + ")") {
		return ErrInjected
	}
	return os.MkdirAll(path, perm)
}

func Mkdir(path string, perm fs.FileMode) error {
	if simple("Mkdir(" + path + ")") {
		return ErrInjected
	}
	return os.Mkdir(path, perm)
}

func OpenFile(name string, flag int, perm fs.FileMode) (*os.File, error) {
	if flag&(os.O_CREATE|os.O_WRONLY|os.O_RDWR|os.O_TRUNC) != 0 {
		if simple("OpenFile(" + name + ")") {
			return nil, ErrInjected
		}
	} else if verifrt.Active() {
		verifrt.Yield("OpenFile(" + name + ")")
		if dead() {
			return nil, ErrInjected
		}
	}
	return os.OpenFile(name, flag, perm)
}

func Create(name string) (*os.File, error) {
	if simple("Create(" + name + ")") {
		return nil, ErrInjected
	}
	return os.Create(name)
}

func CreateTemp(dir, pattern string) (*os.File, error) {
	if simple("CreateTemp(" + dir + "," + pattern + ")") {
		return nil, ErrInjected
	}
	return os.CreateTemp(dir, pattern)
}

func Rename(oldpath, newpath string) error {
	if simple("Rename(" + oldpath + "," + newpath + ")") {
		return ErrInjected
	}
	return os.Rename(oldpath, newpath)
}

func Remove(name string) error {
	if verifrt.Active() {
		verifrt.Yield("Remove(" + name + ")")
		if dead() {
			return ErrInjected
		}
		logf("Remove(" + name + ")")
	}
	return os.Remove(name)
}

func Chmod(name string, mode fs.FileMode) error {
	if simple("Chmod(" + name + ")") {
		return ErrInjected
	}
	return os.Chmod(name, mode)
}

func Stat(name string) (fs.FileInfo, error) {
	if verifrt.Active() {
		verifrt.Yield("Stat(" + name + ")")
		if dead() {
			return nil, ErrInjected
		}
	}
	return os.Stat(name)
}

func Open(name string) (*os.File, error) {
	if verifrt.Active() {
		verifrt.Yield("Open(" + name + ")")
		if dead() {
			return nil, ErrInjected
		}
	}
	return os.Open(name)
}

// FWrite is (*os.File).Write.
func FWrite(f *os.File, b []byte) (int, error) {
	if !verifrt.Active() {
		return f.Write(b)
	}
	what := "Write(" + f.Name() + ")"
	verifrt.Yield(what)
	if dead() {
		return 0, ErrInjected
	}
	n := len(b)
	// 0 ok; 1 error, nothing written; 2 crash before; 3+k (1<=k<len → index k-1): crash after k bytes;
	// then short write of k bytes + error.
	c := verifrt.Choose(3+2*n, verifrt.KFault, what)
	switch {
	case c == 0:
		logf(what)
		return f.Write(b)
	case c == 1:
		logf(what + " -> injected error")
		return 0, ErrInjected
	case c == 2:
		logf(what + " -> crash before")
		verifrt.Crash("before " + what)
		return 0, ErrInjected
	case c < 3+n:
		k := c - 3
		f.Write(b[:k])
		logf(what + " -> crash after " + itoa(k) + " bytes")
		verifrt.Crash("inside " + what)
		return k, ErrInjected
	default:
		k := c - 3 - n
		f.Write(b[:k])
		logf(what + " -> short write of " + itoa(k) + " bytes, error")
		return k, ErrInjected
	}
}

// FWriteString is (*os.File).WriteString.
func FWriteString(f *os.File, s string) (int, error) { return FWrite(f, []byte(s)) }

// FClose is (*os.File).Close.
func FClose(f *os.File) error {
	if !verifrt.Active() {
		return f.Close()
	}
	if dead() {
		f.Close()
		return ErrInjected
	}
	what := "Close(" + f.Name() + ")"
	verifrt.Yield(what)
	if dead() {
		f.Close()
		return ErrInjected
	}
	switch verifrt.Choose(3, verifrt.KFault, what) {
	case 1:
		f.Close()
		logf(what + " -> injected error")
		return ErrInjected
	case 2:
		logf(what + " -> crash before")
		f.Close()
		verifrt.Crash("before " + what)
		return ErrInjected
	}
	logf(what)
	return f.Close()
}

// FSync is (*os.File).Sync.
func FSync(f *os.File) error {
	if simple("Sync(" + f.Name() + ")") {
		return ErrInjected
	}
	return f.Sync()
}
