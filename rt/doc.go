// Package verifrt is the explorer runtime injected into pprof's module by the
// /verif overlay: the single choice primitive, the controlled scheduler, the
// map-order seam, and (in sub-packages) the sync and os shims.
package verifrt
