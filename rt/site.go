package verifrt

import (
	"fmt"
	"path/filepath"
	"runtime"
	"strings"
)

var rtDir = func() string {
	_, f, _, _ := runtime.Caller(0)
	return filepath.Dir(f)
}()

// callerSite returns file:line of the nearest caller outside this package
// (generic iterator closures may be inlined into their caller and then carry
// the caller's function name, so frames are filtered by source directory).
func callerSite() string {
	var pcs [16]uintptr
	n := runtime.Callers(2, pcs[:])
	frames := runtime.CallersFrames(pcs[:n])
	for {
		f, more := frames.Next()
		if !strings.HasPrefix(f.File, rtDir) {
			return fmt.Sprintf("%s:%d", filepath.Base(f.File), f.Line)
		}
		if !more {
			return "?"
		}
	}
}

// Site is callerSite for sub-packages.
func Site() string { return callerSite() }
