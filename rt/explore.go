package verifrt

import (
	"fmt"
	"runtime"
	"strings"
	"sync"
	"time"
)

// Kinds of choice points. A deviation is a non-default choice that costs; the
// explorer bounds the number of deviations per kind.
const (
	KSched  = "sched"  // thread to run next (deviation = preemption of a runnable thread)
	KMap    = "map"    // iteration order of one map range (deviation = non-canonical order)
	KFault  = "fault"  // injected environment fault / crash (deviation = any fault)
	KEnv    = "env"    // benign environment answer menu (deviation = non-default answer)
	KSwitch = "switch" // thread to run next when the running thread blocked or ended (deviation = not the lowest enabled id)
	KFree   = "free"   // alternatives cost nothing (harness choices such as completion orders)
)

// Point is one executed choice point.
type Point struct {
	N    int    // number of alternatives
	Kind string // cost kind of the alternatives != 0 (KFree: none)
	Site string // where (for reports)
}

// Exec is one controlled execution.
type Exec struct {
	prefix  []int
	Choices []int
	Points  []Point
	// Diverged is set when a replayed choice was out of range.
	Diverged string
	Deadlock string
	Panics   []string
	Aborted  bool
	Crashed  string // set by Crash: the simulated process kill point
	Hung     string // set when the execution exceeded HangLimit (uninstrumented blocking)
	lastSite string
	Steps    int
	// limits: which kinds are choice points at all in this exploration
	kinds   map[string]bool
	noSched bool // scheduling is deterministic (always the first enabled thread), not a choice
	quiet   int  // >0: inside Quiet: no choice of any kind is offered

	// scheduler
	threads []*thread
	cur     *thread
	done    chan struct{}
	horizon int
}

var (
	active   *Exec // the running execution, nil outside explorations
	activeMu sync.Mutex
)

// Active reports whether an exploration execution is running.
func Active() bool { return active != nil }

// Choose is the single choice primitive: it returns a number in [0,n). Outside
// an exploration, or when the kind is not being explored, it returns 0.
func Choose(n int, kind, site string) int {
	x := active
	if x == nil || n <= 1 || x.Aborted {
		return 0
	}
	if kind != KSched && kind != KSwitch && kind != KFree && !x.kinds[kind] {
		return 0
	}
	return x.choose(n, kind, site)
}

func (x *Exec) choose(n int, kind, site string) int {
	if x.quiet > 0 {
		return 0
	}
	if x.noSched && (kind == KSched || kind == KSwitch) {
		return 0
	}
	i := len(x.Choices)
	c := 0
	if i < len(x.prefix) {
		c = x.prefix[i]
		if c >= n {
			x.Diverged = fmt.Sprintf("choice %d: replayed alternative %d but only %d available at %s", i, c, n, site)
			x.abort()
			c = 0
		}
	}
	x.Choices = append(x.Choices, c)
	x.lastSite = site
	x.Points = append(x.Points, Point{N: n, Kind: kind, Site: site})
	x.Steps++
	if x.Steps > x.horizon && !x.Aborted {
		x.Deadlock = fmt.Sprintf("horizon of %d choice points exceeded (livelock?) at %s", x.horizon, site)
		x.abort()
	}
	return c
}

// HangLimit is the wall-clock limit of one execution. Executions take
// milliseconds; the limit only turns a process-level hang into a report.
var HangLimit = 120 * time.Second

// Bounds maps a kind to the number of deviations allowed.
type Bounds map[string]int

// Explorer enumerates all executions of Body with at most Bounds deviations.
type Explorer struct {
	Bounds  Bounds
	Horizon int // max choice points per execution (default 20000)
	// Body is run once per execution, in controlled thread 0.
	Body func()
	// Check is called after every execution (in the exploring goroutine).
	// Returning false stops the exploration.
	Check func(x *Exec) bool
	// NoSched makes thread scheduling deterministic instead of a choice.
	NoSched bool
	// MaxExecs caps the exploration (0 = none); Capped reports whether it hit.
	MaxExecs int
	Capped   bool

	Execs       int
	Transitions int64
	MaxDepth    int
	Completed   map[string]int // per kind: bound completed
}

// Run explores. It must be called from an ordinary (uncontrolled) goroutine.
func (e *Explorer) Run() {
	if e.Horizon == 0 {
		e.Horizon = 20000
	}
	e.explore(nil)
}

func (e *Explorer) kindsMap() map[string]bool {
	m := map[string]bool{}
	for k := range e.Bounds {
		m[k] = true
	}
	return m
}

// RunOne executes Body once under the given choice prefix.
func (e *Explorer) RunOne(prefix []int) *Exec {
	if e.Horizon == 0 {
		e.Horizon = 20000
	}
	x := &Exec{prefix: prefix, kinds: e.kindsMap(), horizon: e.Horizon, done: make(chan struct{}), noSched: e.NoSched}
	activeMu.Lock()
	resetChans()
	active = x
	x.runBody(e.Body)
	active = nil
	activeMu.Unlock()
	return x
}

func (e *Explorer) explore(prefix []int) bool {
	if e.MaxExecs > 0 && e.Execs >= e.MaxExecs {
		e.Capped = true
		return false
	}
	x := e.RunOne(prefix)
	e.Execs++
	e.Transitions += int64(len(x.Points))
	if len(x.Points) > e.MaxDepth {
		e.MaxDepth = len(x.Points)
	}
	if e.Check != nil && !e.Check(x) {
		return false
	}
	if x.Diverged != "" {
		return true // reported by Check; do not branch from a diverged run
	}
	// cost used before each point
	used := map[string]int{}
	costBefore := make([]map[string]int, 0)
	_ = costBefore
	for i := 0; i < len(x.Points); i++ {
		p := x.Points[i]
		if i >= len(prefix) {
			for alt := 1; alt < p.N; alt++ {
				if p.Kind != KFree {
					if used[p.Kind]+1 > e.Bounds[p.Kind] {
						break
					}
				}
				np := make([]int, i+1)
				copy(np, x.Choices[:i])
				np[i] = alt
				if !e.explore(np) {
					return false
				}
			}
		}
		if x.Choices[i] != 0 && p.Kind != KFree {
			used[p.Kind]++
		}
	}
	return true
}

// ---------------------------------------------------------------------------
// Controlled threads
//
// Invariant: exactly one controlled thread runs at any time (it holds the
// baton, x.cur); all others are parked on their wake channel. A thread gives
// the baton away only inside schedPoint or when it ends (handoff).
//
// Abort (deadlock, horizon, divergence): the running thread panics with
// abortSignal, its deferred functions run (shim operations are no-ops while
// unwinding), it ends, and handoff wakes the remaining threads one at a time so
// that each unwinds alone.

type thread struct {
	id        int
	wake      chan struct{}
	pred      func() bool // nil = runnable; else runnable iff pred()
	finished  bool
	unwinding bool
	what      string
}

func (x *Exec) runBody(body func()) {
	t0 := &thread{id: 0, wake: make(chan struct{}, 1)}
	x.threads = []*thread{t0}
	x.cur = t0
	go x.threadMain(t0, body)
	select {
	case <-x.done:
	case <-time.After(HangLimit):
		// A controlled thread is blocked in an operation the scheduler does not own
		// (a channel used in a select, a real lock of the standard library, I/O):
		// the execution cannot be completed. The goroutines of this execution are
		// abandoned; the result is reported as a hang of the code under test.
		x.Hung = fmt.Sprintf("execution did not finish within %v: a thread is blocked outside the scheduler's control; last scheduling point: %s", HangLimit, x.lastSite)
		x.Aborted = true
	}
}

// threadMain runs f as thread t and hands the baton on when it ends.
func (x *Exec) threadMain(t *thread, f func()) {
	defer func() {
		if r := recover(); r != nil {
			if _, ok := r.(abortSignal); !ok {
				x.Panics = append(x.Panics, fmt.Sprintf("thread %d: %v\n%s", t.id, r, shortStack()))
			}
		}
		t.finished = true
		x.handoff()
	}()
	f()
}

type abortSignal struct{}

// handoff is called by a thread that ended: pass the baton or end the execution.
func (x *Exec) handoff() {
	if x.Aborted {
		for _, t := range x.threads {
			if !t.finished {
				x.cur = t
				t.wake <- struct{}{}
				return
			}
		}
		close(x.done)
		return
	}
	en := x.enabled(nil)
	if len(en) == 0 {
		if x.unfinished() > 0 {
			x.Deadlock = "deadlock: " + x.describeBlocked()
			x.Aborted = true
			x.handoff()
			return
		}
		close(x.done)
		return
	}
	c := 0
	if len(en) > 1 {
		c = x.choose(len(en), KSwitch, "thread-exit")
		if x.Aborted {
			x.handoff()
			return
		}
	}
	x.cur = en[c]
	en[c].wake <- struct{}{}
}

func (x *Exec) unfinished() int {
	n := 0
	for _, t := range x.threads {
		if !t.finished {
			n++
		}
	}
	return n
}

func (x *Exec) describeBlocked() string {
	var s []string
	for _, t := range x.threads {
		if !t.finished {
			s = append(s, fmt.Sprintf("thread %d at %s", t.id, t.what))
		}
	}
	return strings.Join(s, "; ")
}

// enabled lists runnable threads: self first (if runnable), then ascending id.
func (x *Exec) enabled(self *thread) []*thread {
	var en []*thread
	if self != nil && !self.finished && (self.pred == nil || self.pred()) {
		en = append(en, self)
	}
	for _, t := range x.threads {
		if t == self || t.finished {
			continue
		}
		if t.pred == nil || t.pred() {
			en = append(en, t)
		}
	}
	return en
}

// abort marks the execution as aborted; the running thread unwinds at its next
// scheduling point.
func (x *Exec) abort() { x.Aborted = true }

// Unwinding reports whether the current thread is unwinding after an abort;
// shim operations are no-ops then.
func Unwinding() bool {
	x := active
	return x != nil && x.Aborted
}

// SchedPoint is a scheduling point of the current thread: pred (may be nil)
// says when the thread can continue; what names the operation for reports.
func SchedPoint(pred func() bool, what string) {
	x := active
	if x == nil {
		return
	}
	x.schedPoint(pred, what)
}

func (x *Exec) unwind(t *thread) {
	if t.unwinding {
		return
	}
	t.unwinding = true
	panic(abortSignal{})
}

func (x *Exec) schedPoint(pred func() bool, what string) {
	t := x.cur
	if t == nil {
		return
	}
	if x.Aborted {
		x.unwind(t)
		return
	}
	t.pred, t.what = pred, what
	en := x.enabled(t)
	if len(en) == 0 {
		x.Deadlock = "deadlock: " + x.describeBlocked()
		x.Aborted = true
		t.pred = nil
		x.unwind(t)
		return
	}
	c := 0
	if len(en) > 1 {
		kind := KSched
		if en[0] != t {
			kind = KSwitch // the running thread is blocked: switching is not a preemption
		}
		c = x.choose(len(en), kind, what)
		if x.Aborted {
			t.pred = nil
			x.unwind(t)
			return
		}
	}
	next := en[c]
	if next != t {
		x.cur = next
		next.wake <- struct{}{}
		<-t.wake
		if x.Aborted {
			t.pred = nil
			x.unwind(t)
			return
		}
	}
	t.pred = nil
}

// Crash simulates a process kill at this point: the execution is aborted, every
// thread unwinds and shim operations have no further effect.
func Crash(what string) {
	x := active
	if x == nil || x.Aborted {
		return
	}
	x.Crashed = what
	x.Aborted = true
	if t := x.cur; t != nil {
		x.unwind(t)
	}
}

// Quiet runs f with every choice taking its default and not being recorded
// (scenario set-up inside a controlled execution).
func Quiet(f func()) {
	x := active
	if x == nil {
		f()
		return
	}
	x.quiet++
	defer func() { x.quiet-- }()
	f()
}

// Yield is an explicit scheduling point.
func Yield(what string) { SchedPoint(nil, what) }

// Go starts f as a controlled thread (or as a plain goroutine outside explorations).
func Go(f func()) {
	x := active
	if x == nil || x.cur == nil {
		go f()
		return
	}
	if x.Aborted {
		return // the execution is being torn down
	}
	t := &thread{id: len(x.threads), wake: make(chan struct{}, 1), what: "start"}
	x.threads = append(x.threads, t)
	go func() {
		<-t.wake
		if x.Aborted {
			t.finished = true
			x.handoff()
			return
		}
		x.threadMain(t, f)
	}()
	x.schedPoint(nil, "go")
}

// CurrentThread returns the id of the running controlled thread, or -1.
func CurrentThread() int {
	x := active
	if x == nil || x.cur == nil {
		return -1
	}
	return x.cur.id
}

func shortStack() string {
	b := make([]byte, 8<<10)
	n := runtime.Stack(b, false)
	var out []string
	for _, l := range strings.Split(string(b[:n]), "\n") {
		if strings.Contains(l, "github.com/google/pprof") && !strings.Contains(l, "verifrt") {
			out = append(out, strings.TrimSpace(l))
		}
		if len(out) >= 8 {
			break
		}
	}
	return strings.Join(out, "\n")
}
