#!/usr/bin/env python3
"""Regenerates DESIGN.md section 0.6 from seeded/*/meta.json."""
import json, glob, os, re
V = os.path.dirname(os.path.abspath(__file__))
rows = []
for f in sorted(glob.glob(os.path.join(V, 'seeded', '*', 'meta.json'))):
    m = json.load(open(f))
    tag = os.path.basename(os.path.dirname(f))
    ch = m.get('confirmation', {}).get('checks', {})
    det = []
    for c, v in ch.items():
        if v.get('detected'):
            det.append('%s: %s' % (c, ', '.join('`%s`' % x for x in v['violation_classes'][:3])))
        else:
            det.append('%s: **missed**' % c)
    note = m.get('first_run', '')
    rows.append('| %s | %s | %s | %s | %s | %s |' % (tag, m['property'], m['summary'].replace('|', '\\|')[:260], m.get('needs', '').replace('|', '\\|')[:200],
                                                   'yes' if m.get('confirmed') else 'NO', '; '.join(det) + ((' — ' + note) if note else '')))
text = '''### 0.6 Independently written breaking changes (`seeded/`)

Each change was written by a fresh sub-agent that was given only the text of one
property and a scratch git worktree of /repo (nothing from /verif). It was kept only
after `seedeval.py` confirmed, in another scratch worktree, that pprof's unedited suite
passes with it and that the agent's demonstration fails with it and passes without it
("confirmed"). The checks were then run against the patched tree (as a build overlay of
the patched files; /repo itself is not touched). "first run" notes record checks that
missed a change at first and what was strengthened; the table shows the final state.

| tag | property | change | needs | confirmed | caught by (classes) |
|---|---|---|---|---|---|
''' + '\n'.join(rows) + '\n\n'
p = os.path.join(V, 'DESIGN.md')
s = open(p).read()
if '### 0.6 ' in s:
    i = s.index('### 0.6 ')
    j = s.index('---------------------------------------------------------------------------', i)
    s = s[:i] + text + s[j:]
else:
    i = s.index('Summary (details in §3; F-numbers in §5)')
    s = s[:i] + text + '---------------------------------------------------------------------------\n\n' + s[i:]
open(p, 'w').write(s)
print(len(rows), 'rows')
