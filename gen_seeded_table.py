#!/usr/bin/env python3
"""Regenerates DESIGN.md section 0.6 from seeded/*/meta.json."""
import json, glob, os, re
V = os.path.dirname(os.path.abspath(__file__))
rows = []
for f in sorted(glob.glob(os.path.join(V, 'seeded', '*', 'meta.json'))):
    m = json.load(open(f))
    tag = os.path.basename(os.path.dirname(f))
    ch = m.get('confirmation', {}).get('checks', {})
    det = []
    for c, v in ch.items():
        if v.get('detected'):
            det.append('%s: %s' % (c, ', '.join('`%s`' % x for x in v['violation_classes'][:3])))
        else:
            det.append('%s: **missed**' % c)
    note = m.get('first_run', '')
    rows.append('| %s | %s | %s | %s | %s | %s |' % (tag, m['property'], m['summary'].replace('|', '\\|')[:260], m.get('needs', '').replace('|', '\\|')[:200],
                                                   'yes' if m.get('confirmed') else 'NO', '; '.join(det) + ((' — ' + note) if note else '')))
import collections
_n, _c = collections.Counter(), collections.Counter()
for tag in sorted(os.listdir(os.path.join(V, 'seeded'))):
    mp = os.path.join(V, 'seeded', tag, 'meta.json')
    if not os.path.exists(mp):
        continue
    mm = json.load(open(mp))
    r = int(tag.split('-')[-1])
    _n[r] += 1
    if 'missed' in mm.get('first_run', '').lower():
        _c[r] += 1
summary = """%d rounds, %d changes (one per property and round; the last round covers ten properties), all confirmed and all reported now.
%d of them were missed by the property's check when first run (per round: %s);
the share did not fall from round to round because every sub-agent was told what the earlier ones
had delivered for its property and had to find a different mechanism, site and trigger - the later
changes sit in ever remoter corners (a float sum whose order matters, a function that is called
"root", the unit table's display names, an exclusive creator in another process, a URL longer than
any file name, the request after a failed one). Every miss was
turned into a wider alphabet, a new scenario or a new clause (`first run:` notes in the last column),
and the whole set is re-run as a regression (`seedeval.py --checkonly`) after changes to the checks.
Reading a miss also uncovered genuine defects of the unchanged tree (F24, F25, F26) and weaknesses of
oracles that had been tolerant (C04 dot edges, C05 cut that removes everything, C06 option-order
readings, C15 "0" labels).""" % (len(_n), sum(_n.values()), sum(_c.values()), ', '.join(str(_c[r]) for r in sorted(_n)))
text = '''### 0.6 Independently written breaking changes (`seeded/`)

Each change was written by a fresh sub-agent that was given only the text of one
property and a scratch git worktree of /repo (nothing from /verif). It was kept only
after `seedeval.py` confirmed, in another scratch worktree, that pprof's unedited suite
passes with it and that the agent's demonstration fails with it and passes without it
("confirmed"). The checks were then run against the patched tree (as a build overlay of
the patched files; /repo itself is not touched). "first run" notes record checks that
missed a change at first and what was strengthened; the table shows the final state.

%(summary)s

| tag | property | change | needs | confirmed | caught by (classes) |
|---|---|---|---|---|---|
''' % {'summary': summary} + '\n'.join(rows) + '\n\n'
p = os.path.join(V, 'DESIGN.md')
s = open(p).read()
if '### 0.6 ' in s:
    i = s.index('### 0.6 ')
    j = s.index('---------------------------------------------------------------------------', i)
    s = s[:i] + text + s[j:]
else:
    i = s.index('Summary (details in §3; F-numbers in §5)')
    s = s[:i] + text + '---------------------------------------------------------------------------\n\n' + s[i:]
open(p, 'w').write(s)
print(len(rows), 'rows')
