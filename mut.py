#!/usr/bin/env python3
"""mut.py <name> <relfile> <old> <new> [<relfile> <old> <new> ...]
Builds an overlay json (printed) that replaces files of /repo by copies with the exact-text
substitutions applied; /repo itself is untouched. Used for detection demos and candidate fixes:
   ov=$(./mut.py nolock internal/binutils/addr2liner.go 'd.mu.Lock()' '')
   ./pmc check C20 --solo --extra $ov ;  ./pmc suite --extra $ov
"""
import json, os, sys
name = sys.argv[1]
args = sys.argv[2:]
d = '/tmp/verif-mut/' + name
os.makedirs(d, exist_ok=True)
out = {}
for i in range(0, len(args), 3):
    rel, old, new = args[i:i + 3]
    s = out.get(rel) or open('/repo/' + rel).read()
    if old not in s:
        sys.exit('mut.py: text not found in %s: %r' % (rel, old[:60]))
    out[rel] = s.replace(old, new, 1)
rep = {}
for rel, s in out.items():
    dst = os.path.join(d, rel.replace('/', '__'))
    open(dst, 'w').write(s)
    rep['/repo/' + rel] = dst
json.dump({'Replace': rep}, open(os.path.join(d, 'overlay.json'), 'w'))
print(os.path.join(d, 'overlay.json'))
