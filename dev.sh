#!/bin/sh
# dev helper: regenerate the overlay and build the worker (flavour $1, default plain)
set -e
export GOFLAGS=-mod=mod GOPROXY=off GOSUMDB=off GOTOOLCHAIN=local
fl=${1:-plain}
ov=$(/verif/pmc overlay --flavour $fl)
cd /repo && go build -overlay $ov -o /verif/build/worker-$fl ./verifh/cmd/worker
