#!/bin/sh
# dev helper: ./dev.sh <ID> [flavour] builds build/worker-<flavour>-<ID> containing only that check
set -e
export GOFLAGS=-mod=mod GOPROXY=off GOSUMDB=off GOTOOLCHAIN=local
id=$1
fl=${2:-plain}
lc=$(echo $id | tr A-Z a-z)
ov=$(/verif/pmc overlay --flavour $fl --solo $id)
cd /repo && go build -overlay $ov -tags verif_$lc -o /verif/build/worker-$fl-$id ./verifh/cmd/worker
