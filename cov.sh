#!/bin/sh
# cov.sh <ID> [tier]  - development aid: statement coverage of pprof's packages under one
# check (a scratch copy of /repo with the overlay materialised, built with -cover).
# Prints, for the files the property is anchored in, the functions that are not fully covered.
set -e
id=$1; tier=${2:-quick}
lc=$(echo $id | tr A-Z a-z)
export GOFLAGS=-mod=mod GOPROXY=off GOSUMDB=off GOTOOLCHAIN=local
fl=$(python3 -c "import re;s=open('/verif/pmc').read();import ast;m=re.search(r\"'$id': \('(\w+)'\",s);print(m.group(1))")
ov=$(/verif/pmc overlay --flavour $fl --solo $id)
d=/tmp/verif-cov-$id
rm -rf $d; mkdir -p $d
rsync -a --exclude .git /repo/ $d/repo/
python3 - "$ov" "$d/repo" <<'PY'
import json,sys,os,shutil
ov=json.load(open(sys.argv[1]))['Replace']; root=sys.argv[2]
for dst,src in ov.items():
    rel=os.path.relpath(dst,'/repo'); t=os.path.join(root,rel)
    os.makedirs(os.path.dirname(t),exist_ok=True); shutil.copy(src,t)
PY
cd $d/repo
pk=github.com/google/pprof
go build -cover -coverpkg=$pk/verifh/cmd/worker,$pk/profile,$pk/internal/driver,$pk/internal/report,$pk/internal/graph,$pk/internal/measurement,$pk/internal/symbolizer,$pk/internal/symbolz,$pk/internal/binutils,$pk/internal/elfexec -tags verif_$lc -o $d/worker ./verifh/cmd/worker
mkdir -p $d/cov $d/sbx
n=8
for i in $(seq 0 $((n-1))); do
  (cd $d/sbx && VERIF_SANDBOX=$d/sbx GOCOVERDIR=$d/cov GOGC=400 $d/worker -prop $id -tier $tier -shard $i -nshards $n -out $d/r$i.json -budget 200s >$d/log$i.txt 2>&1) &
done
wait
go tool covdata textfmt -i=$d/cov -o $d/cov.txt
files=$(python3 -c "
import json
for l in open('/verif/properties.jsonl'):
    p=json.loads(l)
    if p['id']=='$id': print('|'.join(f for f in p['anchors']['files'] if f.endswith('.go')))")
echo "== $id: functions of the anchored files that are not fully covered"
go tool cover -func=$d/cov.txt | grep -E "$files" | awk '$NF+0 < 100.0' | sed "s|github.com/google/pprof/||" 
mkdir -p /verif/build/cov; cp $d/cov.txt /verif/build/cov/$id.txt
[ -n "$KEEP" ] || rm -rf $d
