import json,sys
r=json.load(open(sys.argv[1] if len(sys.argv)>1 else '/verif/build/t/r.json'))
print({k:r[k] for k in ['evaluations','distinct_nontrivial','states','transitions','outcomes','counters','caps','notes','vacuity','wall_s']})
for v in r['violations'] or []:
    print('##',v['class'],v['count'],json.dumps(v['witness'])[:800]);print(v['detail'][:int(sys.argv[2]) if len(sys.argv)>2 else 1200])
