// Package c02: parsing is total — for any input bytes profile.ParseData /
// profile.Parse terminate promptly without panicking and return an error or a
// profile that satisfies the validity contract; an accepted profile can be
// printed, written, copied, compacted and turned into every text report
// without a crash.
//
// Bounded-exhaustive enumeration of byte strings: (a) all strings over a
// 20-byte wire-format alphabet up to a length bound, bare and behind the gzip
// magic and behind every legacy header; all word sequences behind the legacy
// binary CPU header; (b) every single (thorough: double) point mutation,
// truncation, deletion and insertion of ~30 valid seed encodings; (c) every
// single (double) deviation of a wire-message tree from its well-formed
// encoding; (d) concatenations of seeds; (e) gzip wrappers. Every case runs
// the real parser; every accepted profile runs the downstream operations;
// every distinct accepted profile shape runs the real driver for each report.
package c02

import (
	"bytes"
	"compress/gzip"
	"encoding/hex"
	"encoding/json"
	"fmt"
	"hash/fnv"
	"io"
	"runtime/metrics"
	"strings"
	"syscall"
	"time"

	"github.com/google/pprof/internal/driver"
	"github.com/google/pprof/internal/plugin"
	"github.com/google/pprof/profile"

	"github.com/google/pprof/verifh/drive"
	"github.com/google/pprof/verifh/reg"
	"github.com/google/pprof/verifh/vk"
)

func init() { reg.Register("C02", Run) }

// Case is the witness of one enumerated input: generator coordinates and the bytes.
type Case struct {
	Phase string
	Seed  string
	Op    string
	Op2   string
	A, B  int64
	Cmd   string
	data  []byte
}

// MarshalJSON writes the coordinates and the input bytes in hex.
func (k *Case) MarshalJSON() ([]byte, error) {
	m := map[string]any{"phase": k.Phase, "len": len(k.data)}
	if k.Seed != "" {
		m["seed"] = k.Seed
	}
	if k.Op != "" {
		m["op"] = k.Op
		m["a"], m["b"] = k.A, k.B
	}
	if k.Op2 != "" {
		m["op2"] = k.Op2
	}
	if k.Cmd != "" {
		m["cmd"] = k.Cmd
	}
	d := k.data
	if len(d) > 2048 {
		m["truncated"] = true
		d = d[:2048]
	}
	m["hex"] = hex.EncodeToString(d)
	return json.Marshal(m)
}

const (
	maxInput  = 1 << 16         // size cap on generated inputs (all are far smaller)
	slowLimit = 3 * time.Second // "promptly" for inputs of at most a few hundred bytes
	allocBase = 64 << 20        // bytes a single parse may allocate before it is a finding
)

type checker struct {
	c       *vk.Ctx
	idx     int64
	mined   int64
	shapes  map[uint64]bool
	msample []metrics.Sample
	stop    bool
	phase   string
	acc     int64
	rej     int64
	reports int64
	outputs int64
}

func (k *checker) allocs() uint64 {
	metrics.Read(k.msample)
	return k.msample[0].Value.Uint64()
}

// next advances the global enumeration index and reports whether the case
// belongs to this shard (and the budget is not used up).
func (k *checker) next() bool {
	i := k.idx
	k.idx++
	if k.stop || !k.c.Mine(i) {
		return false
	}
	k.mined++
	if k.mined&1023 == 0 {
		if k.c.Expired() {
			k.c.Cap(fmt.Sprintf("time budget: stopped in phase %s at index %d", k.phase, i))
			k.stop = true
			return false
		}
	}
	return true
}

func (k *checker) begin(phase string) {
	k.phase = phase
	k.acc, k.rej = 0, 0
	k.c.Journal("parse/"+phase, map[string]any{"phase": phase, "from_index": k.idx})
}

func (k *checker) end() {
	k.c.Count("cases/"+k.phase+"/accepted", k.acc)
	k.c.Count("cases/"+k.phase+"/rejected", k.rej)
}

func fnv64(s string) uint64 {
	h := fnv.New64a()
	h.Write([]byte(s))
	return h.Sum64()
}

func errStage(err error) string {
	s := err.Error()
	for _, p := range []string{"decompressing profile", "parsing profile", "malformed profile"} {
		if strings.HasPrefix(s, p) {
			return p
		}
	}
	return "other"
}

// quiet runs f and reports whether it returned without panicking.
func quiet(f func()) (ok bool) {
	defer func() {
		if recover() != nil {
			ok = false
		}
	}()
	f()
	return true
}

// gunzipped returns the decompressed input if it is a complete gzip stream, else the input.
func gunzipped(data []byte) []byte {
	if len(data) >= 2 && data[0] == 0x1f && data[1] == 0x8b {
		if zr, err := gzip.NewReader(bytes.NewReader(data)); err == nil {
			if d, err := io.ReadAll(zr); err == nil {
				return d
			}
		}
	}
	return data
}

// check is the oracle for one input.
func (k *checker) check(kind string, cs *Case) {
	c := k.c
	data := cs.data
	if len(data) > maxInput {
		c.Count("skipped/too-large", 1)
		return
	}
	c.Eval()
	c.Journal("parse/"+kind, cs) // a fatal error or a hang of the parser is attributed to this input
	var p *profile.Profile
	var err error
	a0 := k.allocs()
	t0 := time.Now()
	ok := quiet(func() { p, err = profile.ParseData(data) })
	dt := time.Since(t0)
	da := k.allocs() - a0
	if dt > slowLimit {
		// wall time is unreliable on a loaded machine: an alarm needs three more slow runs
		min := dt
		for i := 0; i < 3 && min > slowLimit; i++ {
			t := time.Now()
			func() {
				defer func() { recover() }()
				profile.ParseData(data)
			}()
			if d := time.Since(t); d < min {
				min = d
			}
		}
		if min > slowLimit {
			c.Violationf("slow/parse/"+kind, cs, "ParseData took %v (fastest of 4 runs) on %d bytes", min, len(data))
		} else {
			c.Count("slow/not-reproduced", 1)
		}
	}
	if da > allocBase+4096*uint64(len(data)) {
		c.Violationf("alloc/parse/"+kind, cs, "ParseData allocated %d bytes on %d bytes of input", da, len(data))
	}
	if !ok {
		// Which public entry point panics names the class: the wire decoder on
		// its own (every input passes through it first), or only the whole
		// parser on this input family. The re-run records the violation.
		cls := kind
		if !quiet(func() { profile.ParseUncompressed(gunzipped(data)) }) {
			cls = "proto"
		}
		if c.Guard("parse/"+cls, cs, func() { profile.ParseData(data) }) {
			c.Violation("panic/parse-not-reproduced", cs, "ParseData panicked once and not when run again")
		}
		return
	}
	if err != nil {
		k.rej++
		c.Outcome(kind + "/error/" + errStage(err))
		return
	}
	if p == nil {
		c.Violation("result/nil-profile", cs, "ParseData returned (nil, nil)")
		return
	}
	k.acc++
	c.Nontrivial(string(data))
	if clause, detail := invalid(p); clause != "" {
		c.Violation("validity/"+clause, cs, "accepted profile violates the validity contract: "+detail)
		return
	}
	// The reader entry point: same contract (no agreement is demanded).
	var p2 *profile.Profile
	var err2 error
	if c.Guard("parse-reader/"+kind, cs, func() { p2, err2 = profile.Parse(bytes.NewReader(data)) }) {
		if err2 != nil || p2 == nil {
			c.Count("entry/parse-rejects-what-parsedata-accepts", 1)
		} else if clause, detail := invalid(p2); clause != "" {
			c.Violation("validity/"+clause, cs, "profile accepted by Parse violates the validity contract: "+detail)
		}
	}
	// Downstream totality on the very object the parser returned.
	c.Journal("downstream/"+kind, cs)
	c.Guard("string", cs, func() { _ = p.String() })
	c.Guard("write", cs, func() {
		var b bytes.Buffer
		if err := p.WriteUncompressed(&b); err != nil {
			c.Violationf("write/error", cs, "WriteUncompressed: %v", err)
		}
	})
	c.Guard("copy", cs, func() {
		if q := p.Copy(); q == nil {
			c.Violation("copy/nil", cs, "Copy returned nil")
		}
	})
	c.Guard("compact", cs, func() {
		if q := p.Compact(); q == nil {
			c.Count("compact/nil-result", 1)
		}
	})
	sh := shape(p)
	h := fnv64(sh)
	c.Outcome(kind + "/ok/" + sh)
	if k.shapes[h] {
		return
	}
	k.shapes[h] = true
	c.Count("shapes/new-in/"+k.phase, 1)
	if c.WantSample() && len(p.Sample) > 0 {
		c.Sample(map[string]any{"case": cs, "shape": sh})
	}
	c.Guard("write", cs, func() {
		var b bytes.Buffer
		if err := p.Write(&b); err != nil {
			c.Violationf("write/error", cs, "Write: %v", err)
		}
	})
	k.report(cs, p)
}

// reportCmds are the text reports (and the textual graph/profile outputs),
// with the granularities and modes that select different printer code.
var reportCmds = [][]string{
	{"top"}, {"top", "lines"}, {"top", "files"}, {"top", "addresses"}, {"top", "noinlines"}, {"top", "mean"},
	{"tree"}, {"traces"}, {"raw"}, {"tags"}, {"comments"},
	{"peek=."}, {"list=."}, {"disasm=."},
	{"dot"}, {"dot", "call_tree"}, {"callgrind"}, {"topproto"}, {"proto"},
}

// report runs every report of the real driver on the profile the parser
// returned for cs.data. The Fetcher hands the driver a freshly parsed profile
// each time, exactly what profile.ParseData returns.
func (k *checker) report(cs *Case, p0 *profile.Profile) {
	c := k.c
	data := cs.data
	mk := func() *profile.Profile {
		p, _ := profile.ParseData(data)
		return p
	}
	fetch := &drive.Fetcher{Prof: map[string]func() *profile.Profile{"p": mk}}
	// The driver fetches in goroutines of its own, where a panic cannot be
	// recovered; run the same stage synchronously first.
	rc := *cs
	rc.Cmd = "fetch"
	c.Journal("report/fetch", &rc)
	c.Eval()
	pre := c.Guard("fetch"+fetchPredicate(p0), &rc, func() {
		driver.VerifGrabProfile("p", &plugin.Options{Fetch: fetch, Obj: drive.NoObj{}, UI: &drive.UI{}, Sym: drive.NopSym{},
			Flagset: drive.MkFlags([]string{"p"}), Writer: &drive.Writer{}})
	})
	if !pre {
		c.Count("reports/skipped-after-fetch-panic", 1)
		return
	}
	for _, cmd := range reportCmds {
		rc := *cs
		rc.Cmd = strings.Join(cmd, ",")
		c.Journal("report/"+cmd[0], &rc)
		c.Eval()
		r := drive.Run(&drive.Session{Fetch: fetch, Flags: drive.MkFlags([]string{"p"}, cmd...)})
		k.reports++
		name := cmd[0]
		if i := strings.IndexByte(name, '='); i >= 0 {
			name = name[:i]
		}
		switch {
		case r.Panic != nil:
			c.Violationf("panic/report/"+name, &rc, "panic: %v\n%s", r.Panic, r.Stack)
		case r.Err != nil:
			c.Count("reports/error", 1)
		default:
			c.Count("reports/output", 1)
			if len(r.Out) > 0 {
				k.outputs++
			}
		}
	}
}

func fetchPredicate(p *profile.Profile) string {
	if shortBuildID(p) {
		return "/build-id-of-one-char"
	}
	return ""
}

// soups enumerates pre + s + suf for every string s over alpha with len(s) <= maxLen.
func (k *checker) soups(phase, kind string, pre seed, alpha []byte, maxLen int, suf []byte) {
	od := make([]int, maxLen)
	for L := 0; L <= maxLen; L++ {
		for i := range od {
			od[i] = 0
		}
		for {
			if k.next() {
				d := make([]byte, 0, len(pre.data)+L+len(suf))
				d = append(d, pre.data...)
				for i := 0; i < L; i++ {
					d = append(d, alpha[od[i]])
				}
				d = append(d, suf...)
				k.check(kind, &Case{Phase: phase, Seed: pre.name, data: d})
			}
			// advance the odometer
			i := L - 1
			for ; i >= 0; i-- {
				od[i]++
				if od[i] < len(alpha) {
					break
				}
				od[i] = 0
			}
			if i < 0 || k.stop {
				break
			}
		}
	}
}

var protoRepl = []byte{0x00, 0x01, 0x02, 0x08, 0x0a, 0x12, 0x22, 0x7f, 0x80, 0xff}
var textRepl = []byte("09fx \n-:@[\x00\xff")
var inserts = [][]byte{{0x00}, {0x80}, {0xff}, {0x0a, 0x00}, {0x0a, 0x02}, {0x12, 0x01, 0x00}, {0x08, 0x80, 0x01}, []byte("\n"), []byte(" 0x"), []byte("---"), []byte("\n1 "), []byte("@ 0")}

func replSet(s seed, orig byte) []byte {
	base := protoRepl
	if s.text {
		base = textRepl
	}
	out := make([]byte, 0, len(base)+3)
	for _, b := range append(append([]byte(nil), base...), orig^1, orig+1, orig-1) {
		if b == orig || bytes.IndexByte(out, b) >= 0 {
			continue
		}
		out = append(out, b)
	}
	return out
}

// mutate1 enumerates every single-point mutation of a seed.
func (k *checker) mutate1(phase string, s seed) {
	n := len(s.data)
	for pos := 0; pos < n; pos++ {
		for _, b := range replSet(s, s.data[pos]) {
			if k.next() {
				d := append([]byte(nil), s.data...)
				d[pos] = b
				k.check(s.kind, &Case{Phase: phase, Seed: s.name, Op: "replace", A: int64(pos), B: int64(b), data: d})
			}
		}
	}
	for cut := 0; cut < n; cut++ {
		if k.next() {
			k.check(s.kind, &Case{Phase: phase, Seed: s.name, Op: "truncate", A: int64(cut), data: append([]byte(nil), s.data[:cut]...)})
		}
	}
	for pos := 0; pos < n; pos++ {
		if k.next() {
			d := append(append([]byte(nil), s.data[:pos]...), s.data[pos+1:]...)
			k.check(s.kind, &Case{Phase: phase, Seed: s.name, Op: "delete", A: int64(pos), data: d})
		}
	}
	for pos := 0; pos <= n; pos++ {
		for j, ins := range inserts {
			if k.next() {
				d := append(append(append([]byte(nil), s.data[:pos]...), ins...), s.data[pos:]...)
				k.check(s.kind, &Case{Phase: phase, Seed: s.name, Op: "insert", A: int64(pos), B: int64(j), data: d})
			}
		}
	}
}

// mutate2 enumerates every pair of byte replacements of a (short) seed.
func (k *checker) mutate2(phase string, s seed) {
	n := len(s.data)
	for p1 := 0; p1 < n; p1++ {
		r1 := replSet(s, s.data[p1])
		for p2 := p1 + 1; p2 < n; p2++ {
			r2 := replSet(s, s.data[p2])
			for _, b1 := range r1 {
				for _, b2 := range r2 {
					if k.next() {
						d := append([]byte(nil), s.data...)
						d[p1], d[p2] = b1, b2
						k.check(s.kind, &Case{Phase: phase, Seed: s.name, Op: "replace2", A: int64(p1)<<16 | int64(b1), B: int64(p2)<<16 | int64(b2), data: d})
					}
				}
			}
		}
	}
}

// grammar enumerates all encodings of the tree that deviate from the
// well-formed one in at most depth points.
func (k *checker) grammar(phase, name string, top []*node, nstrings, depth int) {
	flat := flatten(top, nil)
	devs := deviations(flat, nstrings)
	if k.c.Shard == 0 {
		k.c.Count("grammar/"+name+"/nodes", int64(len(flat)))
		k.c.Count("grammar/"+name+"/deviations", int64(len(devs)))
	}
	if k.next() {
		reset(flat)
		k.check("proto", &Case{Phase: phase, Seed: name, Op: "none", data: encode(top)})
	}
	for i := range devs {
		if k.next() {
			reset(flat)
			devs[i].apply(&flat[devs[i].node].d)
			k.check("proto", &Case{Phase: phase, Seed: name, Op: devs[i].label, data: encode(top)})
		}
	}
	if depth < 2 {
		return
	}
	for i := range devs {
		for j := i + 1; j < len(devs); j++ {
			if k.stop {
				return
			}
			if k.next() {
				reset(flat)
				devs[i].apply(&flat[devs[i].node].d)
				devs[j].apply(&flat[devs[j].node].d)
				k.check("proto", &Case{Phase: phase + "2", Seed: name, Op: devs[i].label, Op2: devs[j].label, data: encode(top)})
			}
		}
	}
}

func words(size int) []uint64 {
	max := uint64(0xffffffff)
	if size == 8 {
		max = ^uint64(0)
	}
	return []uint64{0, 1, 2, 3, 5, max}
}

// cpuSoups enumerates all word sequences behind the legacy binary CPU header.
func (k *checker) cpuSoups(phase string, maxWords int) {
	for _, e := range cpuEncs {
		for _, java := range []bool{false, true} {
			kind, tail := "cpu", "10-20 r-xp 0 0:0 0 /x\n"
			if java {
				kind, tail = "javacpu", " 0x1 f (a.java:1)\n 0x2 g\n"
			}
			w := words(e.size)
			od := make([]int, maxWords)
			for L := 0; L <= maxWords; L++ {
				for i := range od {
					od[i] = 0
				}
				for {
					for t, tl := range []string{"", tail, "\x01"} {
						if k.next() {
							ws := make([]uint64, L)
							for i := range ws {
								ws[i] = w[od[i]]
							}
							k.check(kind, &Case{Phase: phase, Seed: kind + e.name, Op: "words", A: int64(L), B: int64(t), data: cpuSeed(e.size, e.ord, java, ws, tl)})
						}
					}
					i := L - 1
					for ; i >= 0; i-- {
						od[i]++
						if od[i] < len(w) {
							break
						}
						od[i] = 0
					}
					if i < 0 || k.stop {
						break
					}
				}
			}
		}
	}
}

// gzipCases enumerates gzip wrappers of the seeds.
func (k *checker) gzipCases(phase string, seeds []seed) {
	run := func(s seed, op string, a int64, d []byte) {
		if k.next() {
			k.check("gzip", &Case{Phase: phase, Seed: s.name, Op: op, A: a, data: d})
		}
	}
	none := seed{name: "-"}
	run(none, "magic-only", 0, []byte{0x1f, 0x8b})
	run(none, "empty-stream", 0, gz(nil))
	for _, s := range seeds {
		z := gz(s.data)
		run(s, "valid", 0, z)
		run(s, "double", 0, gz(z))
		run(s, "twice", 0, append(append([]byte(nil), z...), z...))
		run(s, "then-garbage", 0, append(append([]byte(nil), z...), 0x00, 0x01))
		run(s, "then-plain", 0, append(append([]byte(nil), z...), s.data...))
		for _, off := range []int{8, 7, 6, 5, 4, 3, 2, 1} { // CRC32 and ISIZE trailer bytes
			d := append([]byte(nil), z...)
			d[len(d)-off] ^= 0x01
			run(s, "trailer-flip", int64(off), d)
		}
		for i := 2; i < 10; i++ { // header: method, flags, mtime, xfl, os
			for _, b := range []byte{0x00, 0x01, 0x02, 0x04, 0x08, 0x10, 0x1f, 0xff} {
				if z[i] == b {
					continue
				}
				d := append([]byte(nil), z...)
				d[i] = b
				run(s, "header", int64(i)<<8|int64(b), d)
			}
		}
		for cut := 0; cut < len(z); cut++ {
			run(s, "truncate", int64(cut), append([]byte(nil), z[:cut]...))
		}
		for pos := 10; pos < len(z)-8; pos++ { // the deflate stream
			for _, b := range []byte{0x00, 0xff, z[pos] ^ 1, z[pos] ^ 0x80} {
				if b == z[pos] {
					continue
				}
				d := append([]byte(nil), z...)
				d[pos] = b
				run(s, "deflate", int64(pos)<<8|int64(b), d)
			}
		}
	}
}

// Run is the check.
func Run(c *vk.Ctx) {
	// A parser that trusts a length field could ask for tens of gigabytes; the
	// address-space limit turns that into the death of this worker (attributed
	// through the journal) instead of an out-of-memory condition of the machine.
	syscall.Setrlimit(syscall.RLIMIT_AS, &syscall.Rlimit{Cur: 3 << 30, Max: 3 << 30})
	k := &checker{c: c, shapes: map[uint64]bool{}, msample: []metrics.Sample{{Name: "/gc/heap/allocs:bytes"}}}
	th := c.Thorough()
	pick := func(q, t int) int {
		if th {
			return t
		}
		return q
	}
	seeds := allSeeds()
	c.Note(fmt.Sprintf("(a) byte strings over a %d-byte wire alphabet: bare len<=%d; behind gzip magic / a full gzip header len<=%d; behind %d legacy text contexts over a %d-byte text alphabet len<=%d and over the wire alphabet len<=%d; legacy binary CPU header (4 encodings x C++/Java) + all sequences of <=%d words over 6 values x 3 tails",
		len(protoAlphabet), pick(4, 5), pick(3, 4), len(legacyPrefixes), len(textAlphabet), pick(3, 4), pick(2, 3), pick(5, 7)))
	c.Note(fmt.Sprintf("(b) %d seeds (5 wire, %d legacy text, 8 legacy binary, short ones): every byte x ~12 replacements, every truncation, deletion, %d insertions at every offset; pairs of replacements for seeds <= %d bytes (thorough: <= 64)", len(seeds)+len(tinySeeds), len(legacyText), len(inserts), pick(24, 64)))
	c.Note(fmt.Sprintf("(c) wire-message trees (full: every field of every message; labels: every label shape; small; sym; types; min): every single deviation (other wire type, value alphabet per field kind, length prefix +-1/0/huge, dup, drop, padded varints, string menu); all pairs for small/sym/types/min (thorough: also full)"))
	c.Note("(d) every ordered pair of seeds concatenated; (e) gzip wrappers of every seed: valid, double, multi-member, trailing bytes, every trailer/header byte changed, truncated at every byte, deflate stream byte changes")
	c.Note(fmt.Sprintf("reports per distinct accepted profile shape: %d driver invocations %v", len(reportCmds), reportCmds))

	// seeds must be accepted as they are (otherwise the mutation families are vacuous)
	for _, s := range append(append([]seed(nil), seeds...), tinySeeds...) {
		var err error
		c.Guard("parse/"+s.kind, &Case{Phase: "seed", Seed: s.name, data: s.data}, func() { _, err = profile.ParseData(s.data) })
		if err != nil {
			c.Vacuous(fmt.Sprintf("seed %s is rejected by the parser: %v", s.name, err))
		}
	}

	// (c) grammar first: the richest accepted shapes come from here
	k.begin("grammar")
	k.grammar("grammar", "min", baseMin(), 1, 2)
	k.grammar("grammar", "types", baseTypes(), 3, 2)
	k.grammar("grammar", "small", baseSmall(), 3, 2)
	k.grammar("grammar", "sym", baseSym(), 3, 2)
	k.grammar("grammar", "labels", baseLabels(), 7, pick(1, 2))
	k.grammar("grammar", "full", baseFull(), len(baseStrings), pick(1, 2))
	k.end()

	// (a) byte soups
	k.begin("soup")
	k.soups("soup", "proto", seed{name: "bare"}, protoAlphabet, pick(4, 5), nil)
	k.end()
	k.begin("soup-gzip")
	k.soups("soup-gzip", "gzip", seed{name: "gzip-magic", data: []byte{0x1f, 0x8b}}, protoAlphabet, pick(3, 4), nil)
	k.soups("soup-gzip", "gzip", seed{name: "gzip-header", data: []byte{0x1f, 0x8b, 0x08, 0, 0, 0, 0, 0, 0, 0xff}}, protoAlphabet, pick(3, 4), nil)
	k.end()
	k.begin("soup-legacy")
	for _, pre := range legacyPrefixes {
		k.soups("soup-legacy", pre.kind, pre, textAlphabet, pick(3, 4), nil)
		k.soups("soup-legacy", pre.kind, pre, protoAlphabet, pick(2, 3), nil)
	}
	k.end()
	k.begin("soup-cpu")
	k.cpuSoups("soup-cpu", pick(5, 7))
	k.end()

	// (b) point mutations of seeds
	k.begin("mutate")
	for _, s := range append(append([]seed(nil), seeds...), tinySeeds...) {
		k.mutate1("mutate", s)
	}
	k.end()
	k.begin("mutate2")
	for _, s := range append(append([]seed(nil), seeds...), tinySeeds...) {
		if len(s.data) <= pick(24, 64) {
			k.c.Count("mutate2/seeds", 1)
			k.mutate2("mutate2", s)
		}
	}
	k.end()

	// (f) memory-map line grammar: every legacy parser's map section with one
	// mapping line assembled from small menus (address ranges, permissions,
	// offsets, object names incl. "(deleted)" markers and bracketed pseudo files)
	k.begin("mapline")
	{
		names := []string{"", "(deleted)", " (deleted)", "/bin/x (deleted)", "(deleted) (deleted)", "[vdso]", "[", "]", "(", "//", " ", "a b", "./x", "x.so", "x.so.1 (deleted)", "[vdso] (deleted)", "/bin/prog", "\t", "-"}
		perms := []string{"r-xp", "rw-p", "---p", "r-x", ""}
		ranges := []string{"00400000-00500000", "0-0", "00500000-00400000", "ffffffffffffffff-0", "400000-500000"}
		hdrs := []struct{ kind, pre string }{
			{"heap", "heap profile: 1: 2 [1: 2] @ heapprofile\n1: 2 [1: 2] @ 0x401000\nMAPPED_LIBRARIES:\n"},
			{"heap", "heap profile: 1: 2 [1: 2] @ heap_v2/1\n1: 2 [1: 2] @ 0x401000\n--- Memory map: ---\n"},
			{"count", "goroutine profile: total 1\n1 @ 0x401001\n--- Memory map: ---\n"},
			{"thread", "--- Thread 1 (name: a/1) stack: ---\n 0x401000\n--- Memory map: ---\n"},
			{"contention", "--- contentionz 1 ---\nsampling period = 1\n1 1 @ 0x401000\n--- Memory map: ---\n"},
		}
		for _, h := range hdrs {
			for _, rg := range ranges {
				for _, pm := range perms {
					for _, nm := range names {
						if !k.next() {
							continue
						}
						lines := []string{
							rg + " " + pm + " 00000000 08:01 1234 " + nm + "\n", // /proc/maps style
							"  " + rg + ": " + nm + "\n",                         // brief style
							"  " + rg + ": " + nm + " (@0) abcdef\n",
						}
						for _, l := range lines {
							k.check(h.kind, &Case{Phase: "mapline", Seed: h.kind + ":" + nm, data: []byte(h.pre + l)})
						}
					}
				}
			}
		}
	}
	k.end()

	// (d) concatenations
	k.begin("concat")
	for _, a := range seeds {
		for _, b := range seeds {
			if k.next() {
				k.check("concat", &Case{Phase: "concat", Seed: a.name + "+" + b.name, data: append(append([]byte(nil), a.data...), b.data...)})
			}
		}
	}
	k.end()

	// (e) gzip wrappers
	k.begin("gzip")
	k.gzipCases("gzip", seeds)
	k.soupsGz("gzip", pick(2, 3))
	k.end()

	c.Count("cases/enumerated", k.idx)
	c.Count("shapes/distinct-in-shard", int64(len(k.shapes)))
	c.Count("reports/run", k.reports)
	c.Count("reports/with-output", k.outputs)
	if !k.stop {
		for _, ph := range []string{"grammar", "soup", "soup-legacy", "soup-cpu", "mutate", "gzip"} {
			if c.Counter("cases/"+ph+"/accepted") == 0 {
				c.Vacuous("no input of phase " + ph + " was accepted")
			}
			if c.Counter("cases/"+ph+"/rejected") == 0 {
				c.Vacuous("no input of phase " + ph + " was rejected")
			}
		}
		if k.outputs == 0 && !c.HasViolation("panic/parse/proto") {
			c.Vacuous("no report produced output")
		}
	}
}

// soupsGz wraps every wire soup up to a length in a valid gzip stream.
func (k *checker) soupsGz(phase string, maxLen int) {
	od := make([]int, maxLen)
	for L := 0; L <= maxLen; L++ {
		for i := range od {
			od[i] = 0
		}
		for {
			if k.next() {
				d := make([]byte, L)
				for i := 0; i < L; i++ {
					d[i] = protoAlphabet[od[i]]
				}
				k.check("gzip", &Case{Phase: phase, Seed: "gz(soup)", Op: hex.EncodeToString(d), data: gz(d)})
			}
			i := L - 1
			for ; i >= 0; i-- {
				od[i]++
				if od[i] < len(protoAlphabet) {
					break
				}
				od[i] = 0
			}
			if i < 0 || k.stop {
				break
			}
		}
	}
}
