package c02

// A wire-format message tree with per-node deviations. It is written
// independently of pprof's own encoder (profile/proto.go, encode.go) so that
// malformed encodings, which pprof can never emit, can be built on purpose.

import (
	"fmt"
)

// value kinds of varint leaves (select the alphabet of deviating values)
const (
	kStrx = "strx" // index into the string table
	kID   = "id"   // id of a mapping / location / function
	kRef  = "ref"  // reference to such an id
	kNum  = "num"  // plain number
	kBool = "bool"
)

type node struct {
	name string
	num  uint64
	wt   int // 0 varint leaf, 2 length-delimited (string, packed, message)
	kind string
	val  uint64
	str  []byte
	sub  []*node
	msg  bool
	isS  bool // string payload (string table entry)
	d    dev
}

// dev is the deviation of one node from the well-formed encoding.
type dev struct {
	hasVal  bool
	val     uint64
	hasWT   bool
	wt      int
	lenMode int // 0 exact, 1 +1, 2 -1, 3 2^31, 4 2^63, 5 2^64-1, 6 = 0
	dup     bool
	drop    bool
	hasStr  bool
	str     []byte
	keyPad  int // varint padding of the key: 0 minimal, 1 one extra byte, 2 eleven bytes
	valPad  int
	lenPad  int
}

func appendVarint(out []byte, x uint64, pad int) []byte {
	n := 0
	for x >= 128 {
		out = append(out, byte(x)|0x80)
		x >>= 7
		n++
	}
	switch pad {
	case 0:
		return append(out, byte(x))
	case 1:
		return append(out, byte(x)|0x80, 0x00)
	default:
		out = append(out, byte(x)|0x80)
		n++
		for n < 10 {
			out = append(out, 0x80)
			n++
		}
		return append(out, 0x00) // 11th byte: longer than any uint64 varint
	}
}

func (n *node) payload() []byte {
	switch {
	case n.d.hasStr:
		return n.d.str
	case n.msg:
		var b []byte
		for _, s := range n.sub {
			b = s.enc(b)
		}
		return b
	case n.wt == 0:
		// a scalar re-typed as length-delimited: its varint, like a packed field of one
		v := n.val
		if n.d.hasVal {
			v = n.d.val
		}
		return appendVarint(nil, v, 0)
	}
	return n.str
}

func (n *node) enc(out []byte) []byte {
	if n.d.drop {
		return out
	}
	times := 1
	if n.d.dup {
		times = 2
	}
	for ; times > 0; times-- {
		wt := n.wt
		if n.d.hasWT {
			wt = n.d.wt
		}
		out = appendVarint(out, n.num<<3|uint64(wt), n.d.keyPad)
		v := n.val
		if n.wt != 0 {
			v = 1
		}
		if n.d.hasVal {
			v = n.d.val
		}
		switch wt {
		case 0:
			out = appendVarint(out, v, n.d.valPad)
		case 1:
			for i := 0; i < 8; i++ {
				out = append(out, byte(v>>(8*uint(i))))
			}
		case 5:
			for i := 0; i < 4; i++ {
				out = append(out, byte(v>>(8*uint(i))))
			}
		case 2:
			p := n.payload()
			l := uint64(len(p))
			switch n.d.lenMode {
			case 1:
				l++
			case 2:
				l--
			case 3:
				l = 1 << 31
			case 4:
				l = 1 << 63
			case 5:
				l = ^uint64(0)
			case 6:
				l = 0
			}
			out = appendVarint(out, l, n.d.lenPad)
			out = append(out, p...)
		default: // 3, 4, 6, 7: group markers / undefined
			out = appendVarint(out, v, 0)
		}
	}
	return out
}

func encode(top []*node) []byte {
	var b []byte
	for _, n := range top {
		b = n.enc(b)
	}
	return b
}

func flatten(ns []*node, out []*node) []*node {
	for _, n := range ns {
		out = append(out, n)
		if n.msg {
			out = flatten(n.sub, out)
		}
	}
	return out
}

// constructors
func vi(name string, num uint64, kind string, val uint64) *node {
	return &node{name: name, num: num, wt: 0, kind: kind, val: val}
}
func st(name string, num uint64, s string) *node {
	return &node{name: name, num: num, wt: 2, str: []byte(s), isS: true}
}
func pk(name string, num uint64, kind string, vals ...uint64) *node {
	var b []byte
	for _, v := range vals {
		b = appendVarint(b, v, 0)
	}
	return &node{name: name, num: num, wt: 2, kind: kind, str: b}
}
func ms(name string, num uint64, sub ...*node) *node {
	for _, s := range flatten(sub, nil) {
		s.name = name + "." + s.name
	}
	return &node{name: name, num: num, wt: 2, msg: true, sub: sub}
}

// baseStrings is the string table of the full base profile.
var baseStrings = []string{"", "cpu", "ns", "k", "v", "n", "u", "/bin/x", "abcd", "f", "f.go", "g", "c1"}

// baseFull is a small profile that uses every field of every message once.
func baseFull() []*node {
	top := []*node{
		ms("sample_type", 1, vi("type", 1, kStrx, 1), vi("unit", 2, kStrx, 2)),
		ms("sample_type", 1, vi("type", 1, kStrx, 5), vi("unit", 2, kStrx, 6)),
		ms("sample", 2,
			vi("location_id", 1, kRef, 1), vi("location_id", 1, kRef, 2),
			vi("value", 2, kNum, 3), vi("value", 2, kNum, 4),
			ms("label", 3, vi("key", 1, kStrx, 3), vi("str", 2, kStrx, 4)),
			ms("label", 3, vi("key", 1, kStrx, 5), vi("num", 3, kNum, 7), vi("num_unit", 4, kStrx, 6))),
		ms("sample", 2, pk("location_id", 1, kRef, 2, 1, 2), pk("value", 2, kNum, 5, 0)),
		ms("mapping", 3, vi("id", 1, kID, 1), vi("memory_start", 2, kNum, 0x1000), vi("memory_limit", 3, kNum, 0x2000),
			vi("file_offset", 4, kNum, 0x10), vi("filename", 5, kStrx, 7), vi("build_id", 6, kStrx, 8),
			vi("has_functions", 7, kBool, 1), vi("has_filenames", 8, kBool, 1), vi("has_line_numbers", 9, kBool, 1), vi("has_inline_frames", 10, kBool, 1)),
		ms("location", 4, vi("id", 1, kID, 1), vi("mapping_id", 2, kRef, 1), vi("address", 3, kNum, 0x1100),
			ms("line", 4, vi("function_id", 1, kRef, 1), vi("line", 2, kNum, 5), vi("column", 3, kNum, 2))),
		ms("location", 4, vi("id", 1, kID, 2), vi("mapping_id", 2, kRef, 1), vi("address", 3, kNum, 0x1200),
			ms("line", 4, vi("function_id", 1, kRef, 2), vi("line", 2, kNum, 7)),
			ms("line", 4, vi("function_id", 1, kRef, 1), vi("line", 2, kNum, 9)),
			vi("is_folded", 5, kBool, 1)),
		ms("function", 5, vi("id", 1, kID, 1), vi("name", 2, kStrx, 9), vi("system_name", 3, kStrx, 9), vi("filename", 4, kStrx, 10), vi("start_line", 5, kNum, 3)),
		ms("function", 5, vi("id", 1, kID, 2), vi("name", 2, kStrx, 11)),
	}
	for _, s := range baseStrings {
		top = append(top, st("string_table", 6, s))
	}
	top = append(top,
		vi("drop_frames", 7, kStrx, 11), vi("keep_frames", 8, kStrx, 9),
		vi("time_nanos", 9, kNum, 1e9), vi("duration_nanos", 10, kNum, 1e9),
		ms("period_type", 11, vi("type", 1, kStrx, 1), vi("unit", 2, kStrx, 2)),
		vi("period", 12, kNum, 10),
		vi("comment", 13, kStrx, 12), vi("comment", 13, kStrx, 4),
		vi("default_sample_type", 14, kStrx, 5), vi("doc_url", 15, kStrx, 12),
	)
	return top
}

// baseSmall is a profile of one sample with one unsymbolized location.
func baseSmall() []*node {
	return []*node{
		ms("sample_type", 1, vi("type", 1, kStrx, 1), vi("unit", 2, kStrx, 2)),
		ms("sample", 2, vi("location_id", 1, kRef, 1), vi("value", 2, kNum, 3)),
		ms("location", 4, vi("id", 1, kID, 1), vi("address", 3, kNum, 0x1100)),
		st("string_table", 6, ""), st("string_table", 6, "cpu"), st("string_table", 6, "ns"),
	}
}

// baseSym is a profile of one sample with one symbolized location and no mapping.
func baseSym() []*node {
	return []*node{
		ms("sample_type", 1, vi("type", 1, kStrx, 1), vi("unit", 2, kStrx, 2)),
		ms("sample", 2, vi("location_id", 1, kRef, 1), vi("value", 2, kNum, 3)),
		ms("location", 4, vi("id", 1, kID, 1), ms("line", 4, vi("function_id", 1, kRef, 1), vi("line", 2, kNum, 1))),
		ms("function", 5, vi("id", 1, kID, 1), vi("name", 2, kStrx, 1)),
		st("string_table", 6, ""), st("string_table", 6, "cpu"), st("string_table", 6, "ns"),
	}
}

// baseLabels is a one-sample profile whose sample carries every label shape:
// repeated string keys, numeric labels of one key with and without units in
// every relative order, zero values, a unit on a string label.
func baseLabels() []*node {
	lab := func(sub ...*node) *node { return ms("label", 3, sub...) }
	return []*node{
		ms("sample_type", 1, vi("type", 1, kStrx, 1), vi("unit", 2, kStrx, 2)),
		ms("sample", 2, vi("location_id", 1, kRef, 1), vi("value", 2, kNum, 3),
			lab(vi("key", 1, kStrx, 3), vi("str", 2, kStrx, 4)),
			lab(vi("key", 1, kStrx, 3), vi("str", 2, kStrx, 1)),
			lab(vi("key", 1, kStrx, 5), vi("num", 3, kNum, 7), vi("num_unit", 4, kStrx, 6)),
			lab(vi("key", 1, kStrx, 5), vi("num", 3, kNum, 8)),
			lab(vi("key", 1, kStrx, 5), vi("num", 3, kNum, 0), vi("num_unit", 4, kStrx, 6)),
			lab(vi("key", 1, kStrx, 6), vi("num", 3, kNum, 9)),
			lab(vi("key", 1, kStrx, 6), vi("num", 3, kNum, 1), vi("num_unit", 4, kStrx, 2)),
			lab(vi("key", 1, kStrx, 6), vi("num", 3, kNum, 2)),
			lab(vi("key", 1, kStrx, 4), vi("str", 2, kStrx, 4), vi("num_unit", 4, kStrx, 6))),
		ms("location", 4, vi("id", 1, kID, 1), vi("address", 3, kNum, 0x1100)),
		st("string_table", 6, ""), st("string_table", 6, "cpu"), st("string_table", 6, "ns"), st("string_table", 6, "k"),
		st("string_table", 6, "v"), st("string_table", 6, "n"), st("string_table", 6, "u"),
	}
}

// baseMin is the smallest valid profile: just the mandatory empty string.
func baseMin() []*node { return []*node{st("string_table", 6, "")} }

// baseTypes has sample types but no samples.
func baseTypes() []*node {
	return []*node{
		ms("sample_type", 1, vi("type", 1, kStrx, 1), vi("unit", 2, kStrx, 2)),
		st("string_table", 6, ""), st("string_table", 6, "cpu"), st("string_table", 6, "ns"),
		vi("time_nanos", 9, kNum, 5),
	}
}

// deviation is one single-point malformation: a node and a change of its encoding.
type deviation struct {
	node  int // index into the flattened tree
	label string
	apply func(d *dev)
}

// deviations lists every single-point malformation of the tree: for every
// node, every other wire type, every deviating value of its alphabet,
// every wrong length prefix, duplication, omission, padded varints, and for
// strings a menu of contents.
func deviations(flat []*node, nstrings int) []deviation {
	var out []deviation
	add := func(i int, label string, f func(d *dev)) {
		out = append(out, deviation{node: i, label: flat[i].name + ":" + label, apply: f})
	}
	for i, n := range flat {
		i, n := i, n
		for wt := 0; wt < 8; wt++ {
			if wt == n.wt {
				continue
			}
			wt := wt
			add(i, fmt.Sprintf("wiretype=%d", wt), func(d *dev) { d.hasWT, d.wt = true, wt })
		}
		add(i, "dup", func(d *dev) { d.dup = true })
		add(i, "drop", func(d *dev) { d.drop = true })
		add(i, "keypad=1", func(d *dev) { d.keyPad = 1 })
		add(i, "keypad=11", func(d *dev) { d.keyPad = 2 })
		if n.wt == 0 {
			add(i, "valpad=1", func(d *dev) { d.valPad = 1 })
			add(i, "valpad=11", func(d *dev) { d.valPad = 2 })
			var alpha []uint64
			N := uint64(nstrings)
			switch n.kind {
			case kStrx:
				alpha = []uint64{0, 1, N - 1, N, N + 1, 1 << 31, 1 << 32, 1 << 63, ^uint64(0)}
			case kID, kRef:
				alpha = []uint64{0, 1, 2, 3, 99, 1 << 32, 1 << 63, ^uint64(0)}
			case kBool:
				alpha = []uint64{0, 2, ^uint64(0)}
			default:
				alpha = []uint64{0, 1, 1 << 31, 1 << 63, 1<<63 - 1, ^uint64(0)}
			}
			for _, v := range alpha {
				if v == n.val {
					continue
				}
				v := v
				add(i, fmt.Sprintf("value=%#x", v), func(d *dev) { d.hasVal, d.val = true, v })
			}
		} else {
			for m := 1; m <= 6; m++ {
				m := m
				add(i, fmt.Sprintf("len=%s", [...]string{"", "+1", "-1", "2^31", "2^63", "2^64-1", "0"}[m]), func(d *dev) { d.lenMode = m })
			}
			add(i, "lenpad=1", func(d *dev) { d.lenPad = 1 })
			add(i, "lenpad=11", func(d *dev) { d.lenPad = 2 })
			if n.isS {
				for _, s := range stringMenu {
					if string(n.str) == s {
						continue
					}
					s := s
					add(i, fmt.Sprintf("string=%q", trunc(s, 24)), func(d *dev) { d.hasStr, d.str = true, []byte(s) })
				}
			}
		}
	}
	return out
}

var stringMenu = []string{"", "a", "x", "\xff\xfe", "a\nb\"c\\<", "[kernel.kallsyms]_text", "(", ".*", long200}

var long200 = func() string {
	b := make([]byte, 200)
	for i := range b {
		b[i] = 'a' + byte(i%26)
	}
	return string(b)
}()

func trunc(s string, n int) string {
	if len(s) > n {
		return s[:n] + "…"
	}
	return s
}

func reset(flat []*node) {
	for _, n := range flat {
		n.d = dev{}
	}
}
