package c02

import (
	"bytes"
	"compress/gzip"
	"encoding/binary"
)

// seed is one valid encoding; kind names the input family (used in violation
// classes), text tells the mutators which replacement alphabet to use.
type seed struct {
	name string
	kind string
	text bool
	data []byte
}

const memMap = "--- Memory map: ---\n" +
	"  00400000-00500000: /bin/prog (@0) abcdef\n" +
	"  7f0000000000-7f0000001000: /lib/libc.so.6\n"

const procMap = "MAPPED_LIBRARIES:\n" +
	"00400000-00500000 r-xp 00000000 fd:01 1234 /bin/prog\n" +
	"7f0000000000-7f0000001000 r-xp 00001000 fd:01 99 /lib/libc.so.6\n" +
	"7f0000002000-7f0000003000 rw-p 00000000 00:00 0 [heap]\n"

// legacy text seeds: one or more per legacy parser and header variant.
var legacyText = []seed{
	{"heap_v2", "heap", true, []byte("heap profile: 2: 2048 [3: 4096] @ heapz_v2/524288\n" +
		"1: 1024 [1: 1024] @ 0x401000 0x402000\n" +
		"1: 1024 [2: 3072] @ 0x401000 0x403000\n\n" + procMap)},
	{"heap_v2_noalloc", "heap", true, []byte("heap profile: 2: 2048 [2: 2048] @ heap_v2/1\n" +
		"     1:     1024 [     1:     1024] @ 0x401000 0x402000\n" +
		"     1:     1024 [     1:     1024] @ 0x403000\n" + memMap)},
	{"heapprofile", "heap", true, []byte("heap profile: 1: 16 [1: 16] @ heapprofile\n" +
		"1: 16 [1: 16] @ 0x401000 0x402000\n" + procMap)},
	{"goheap", "heap", true, []byte("heap profile: 1: 32 [5: 64] @ heap/1048576\n" +
		"1: 32 [5: 64] @ 0x401000 0x402000 0x403000\n" +
		"0: 0 [1: 8] @ 0x401000\n\n# runtime.MemStats\n# Alloc = 1\n")},
	{"growthz", "heap", true, []byte("heap profile: 1: 2048 [1: 2048] @ growthz\n" +
		"1: 2048 [1: 2048] @ 0x401000 0x402000\n" + memMap)},
	{"fragmentationz", "heap", true, []byte("heap profile: 1: 2048 [1: 2048] @ fragmentationz\n" +
		"1: 2048 [1: 2048] @ 0x401000\n" + memMap)},
	{"goroutine", "count", true, []byte("goroutine profile: total 3\n" +
		"2 @ 0x401001 0x402001\n" +
		"1 @ 0x401001\n\n")},
	{"threadcreate_map", "count", true, []byte("# c\nthreadcreate profile: total 1\n" +
		"1 @ 0x401001 0x402001 0x403001\n" + memMap)},
	{"threadz", "thread", true, []byte("--- threadz 1 ---\n\n" +
		"--- Thread 7f0000000001 (name: main/1) stack: ---\n" +
		"  PC:  0x00401000: main\n" +
		"  0x00402000: start\n" +
		"--- Thread 7f0000000002 (name: t2/2) stack: ---\n" +
		"  [same as previous thread]\n" +
		"--- Thread 7f0000000003 (name: t3/3) stack: ---\n" +
		"  PC:  0x00403000: wait\n" +
		"      creator: 0x401001 0x402001\n" + memMap)},
	{"thread_direct", "thread", true, []byte("--- Thread 7f0000000001 (name: main/1) stack: ---\n" +
		"  0x00401000 0x00401001\n" +
		"---- no stack trace for thread 7 ----\n" + memMap)},
	{"contentionz", "contention", true, []byte("--- contentionz 1 ---\n" +
		"cycles/second = 1000000000\n" +
		"sampling period = 100\n" +
		"ms since reset = 5\n" +
		"discarded samples = 0\n" +
		"  1000        2 @ 0x401001 0x402001\n" +
		"   500        1 @ 0x401001\n" + memMap)},
	{"gomutex", "contention", true, []byte("--- mutex:\n" +
		"cycles/second=1000\n" +
		"sampling period=1\n" +
		"10 1 @ 0x401001 0x402001\n")},
	{"javaheap", "java", true, []byte("--- heapz 1 ---\n" +
		"format = java\n" +
		"resolution = bytes\n" +
		"   1024     2 @ 0x00000003 0x00000004\n" +
		"     16     1 @ 0x00000003\n\n\n" +
		" 0x0000003 com.example.f3 (source.java:3)\n" +
		" 0x0000004 com.example.f4 (/lib/libx.so)\n" +
		" 0x0000005 GC\n")},
	{"javacontention", "java", true, []byte("--- contentionz 1 ---\n" +
		"format = java\n" +
		"resolution = microseconds\n" +
		"sampling period = 100\n" +
		"ms since reset = 6000\n" +
		"      1     1 @ 0x00000003 0x00000004\n" +
		"      2     3 @ 0x00000004\n\n" +
		" 0x0000003 com.example.f3 (source.java:3)\n" +
		" 0x0000004 [generated stub/JIT]\n")},
}

// legacyPrefixes are the contexts behind which byte strings are enumerated:
// for every legacy parser, its header alone and its header followed by one
// sample (and the section markers).
var legacyPrefixes = []seed{
	{"heap:hdr", "heap", true, []byte("heap profile: 1: 2 [3: 4] @ heap/2\n")},
	{"heap:sample", "heap", true, []byte("heap profile: 1: 2 [1: 2] @ heapz_v2/8\n1: 2 [1: 2] @ 0x1")},
	{"heap:map", "heap", true, []byte("heap profile: 1: 2 [1: 2] @ heapprofile\n1: 2 [1: 2] @ 0x11\nMAPPED_LIBRARIES:\n10-20")},
	{"growth:hdr", "heap", true, []byte("heap profile: 1: 2 [1: 2] @ growthz\n")},
	{"count:hdr", "count", true, []byte("goroutine profile: total 1\n")},
	{"count:sample", "count", true, []byte("goroutine profile: total 1\n1 @ 0x1")},
	{"thread:hdr", "thread", true, []byte("--- threadz 1 ---\n")},
	{"thread:sample", "thread", true, []byte("--- Thread 1 (name: a/1) stack: ---\n 0x1")},
	{"thread:map", "thread", true, []byte("--- Thread 1 (name: a/1) stack: ---\n 0x11\n--- Memory map: ---\n")},
	{"contention:hdr", "contention", true, []byte("--- contentionz 1 ---\n")},
	{"contention:sample", "contention", true, []byte("--- mutex:\nsampling period=2\n1 1 @ 0x1")},
	{"javaheap:hdr", "java", true, []byte("--- heapz 1 ---\nformat = java\n")},
	{"javaheap:sample", "java", true, []byte("--- heapz 1 ---\nresolution=b\n 2 1 @ 0x1")},
	{"javacontention:loc", "java", true, []byte("--- contentionz 1 ---\nresolution=us\n 2 1 @ 0x1\n\n 0x1 f")},
}

// textAlphabet is the byte alphabet for strings behind legacy text prefixes.
var textAlphabet = []byte("019xaf \n@:[]-/=#().\xff")

// protoAlphabet is the byte alphabet for wire-format soups: field keys 1..15
// with wire types 0 and 2, varint continuations, small lengths and values.
var protoAlphabet = []byte{0x00, 0x01, 0x02, 0x08, 0x0a, 0x10, 0x12, 0x1a, 0x22, 0x2a, 0x32, 0x38, 0x48, 0x5a, 0x6a, 0x70, 0x7a, 0x7f, 0x80, 0xff}

// cpuSeed builds a legacy binary CPU profile: header (0, 3, java?, period, 0),
// samples (count, n, pcs...), the end marker (0, 1, 0) and trailing text.
func cpuSeed(wordSize int, order binary.AppendByteOrder, java bool, words []uint64, tail string) []byte {
	var b []byte
	put := func(w uint64) {
		if wordSize == 4 {
			b = order.AppendUint32(b, uint32(w))
		} else {
			b = order.AppendUint64(b, w)
		}
	}
	j := uint64(0)
	if java {
		j = 1
	}
	for _, w := range []uint64{0, 3, j, 10000, 0} {
		put(w)
	}
	for _, w := range words {
		put(w)
	}
	return append(b, tail...)
}

type cpuEnc struct {
	name string
	size int
	ord  binary.AppendByteOrder
}

var cpuEncs = []cpuEnc{{"32l", 4, binary.LittleEndian}, {"32b", 4, binary.BigEndian}, {"64l", 8, binary.LittleEndian}, {"64b", 8, binary.BigEndian}}

const javaLocs = " 0x0000003 com.example.f3 (source.java:3)\n 0x0000004 com.example.f4 (/lib/libx.so)\n"

func cpuSeeds() []seed {
	var out []seed
	for _, e := range cpuEncs {
		out = append(out, seed{"cpu" + e.name, "cpu", false,
			cpuSeed(e.size, e.ord, false, []uint64{2, 3, 0x401000, 0x402001, 0x403001, 1, 2, 0x401000, 0x402001, 0, 1, 0}, "00400000-00500000 r-xp 00000000 fd:01 1234 /bin/prog\n")})
		out = append(out, seed{"javacpu" + e.name, "javacpu", false,
			cpuSeed(e.size, e.ord, true, []uint64{2, 2, 3, 4, 1, 1, 3, 0, 1, 0}, javaLocs)})
	}
	return out
}

// protoSeeds are valid wire encodings produced by the independent encoder.
func protoSeeds() []seed {
	return []seed{
		{"min", "proto", false, encode(baseMin())},
		{"types", "proto", false, encode(baseTypes())},
		{"small", "proto", false, encode(baseSmall())},
		{"sym", "proto", false, encode(baseSym())},
		{"full", "proto", false, encode(baseFull())},
		{"labels", "proto", false, encode(baseLabels())},
	}
}

func gz(b []byte) []byte {
	var w bytes.Buffer
	zw, _ := gzip.NewWriterLevel(&w, gzip.BestSpeed)
	zw.Write(b)
	zw.Close()
	return w.Bytes()
}

func allSeeds() []seed {
	var out []seed
	out = append(out, protoSeeds()...)
	out = append(out, legacyText...)
	out = append(out, cpuSeeds()...)
	return out
}

// tinySeeds are minimal legacy documents, short enough for double mutations.
var tinySeeds = []seed{
	{"tiny-count", "count", true, []byte("goroutine profile: total 1\n1 @ 0x1\n")},
	{"tiny-mutex", "contention", true, []byte("--- mutex:\n1 1 @ 0x1\n")},
	{"tiny-heap", "heap", true, []byte("heap profile: 1: 2 [1: 2] @ heap/2\n1: 2 [1: 2] @ 0x1\n")},
	{"tiny-thread", "thread", true, []byte("--- Thread 1 (name: a/1) stack: ---\n 0x1\n--- Memory map: ---\n")},
	{"tiny-java", "java", true, []byte("--- heapz 1 ---\nresolution=b\n 2 1 @ 0x1\n 0x1 f\n")},
	{"tiny-cpu", "cpu", false, cpuSeed(4, binary.LittleEndian, false, []uint64{2, 1, 0x11, 0, 1, 0}, "")},
	{"tiny-javacpu", "javacpu", false, cpuSeed(4, binary.BigEndian, true, []uint64{2, 1, 3, 0, 1, 0}, " 0x3 f\n")},
}
