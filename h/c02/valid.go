package c02

import (
	"fmt"
	"regexp"
	"sort"
	"strings"
	"unicode/utf8"

	"github.com/google/pprof/profile"
)

// invalid checks the validity contract of the property statement, written
// from the statement and not from (*Profile).CheckValid:
//
//	every sample has exactly one value per sample type, and every location,
//	function and mapping it references exists once with a non-zero id.
//
// It returns the violated clause ("" = valid) and a description.
func invalid(p *profile.Profile) (clause, detail string) {
	nt := len(p.SampleType)
	for _, t := range p.SampleType {
		if t == nil {
			return "sample-type/nil", "nil sample type"
		}
	}
	// how often does each id occur in its table, and which entry carries it
	locN, fnN, mapN := map[uint64]int{}, map[uint64]int{}, map[uint64]int{}
	locAt, fnAt, mapAt := map[uint64]*profile.Location{}, map[uint64]*profile.Function{}, map[uint64]*profile.Mapping{}
	for _, l := range p.Location {
		if l != nil {
			locN[l.ID]++
			locAt[l.ID] = l
		}
	}
	for _, f := range p.Function {
		if f != nil {
			fnN[f.ID]++
			fnAt[f.ID] = f
		}
	}
	for _, m := range p.Mapping {
		if m != nil {
			mapN[m.ID]++
			mapAt[m.ID] = m
		}
	}
	checkLoc := func(l *profile.Location, via string) (string, string) {
		if l.ID == 0 {
			return "location/id-zero", via + " references a location with id 0"
		}
		if locN[l.ID] != 1 || locAt[l.ID] != l {
			return "location/not-once", fmt.Sprintf("%s references location id %d which occurs %d times in the location table (same object: %v)", via, l.ID, locN[l.ID], locAt[l.ID] == l)
		}
		if m := l.Mapping; m != nil {
			if m.ID == 0 {
				return "mapping/id-zero", fmt.Sprintf("location %d references a mapping with id 0", l.ID)
			}
			if mapN[m.ID] != 1 || mapAt[m.ID] != m {
				return "mapping/not-once", fmt.Sprintf("location %d references mapping id %d which occurs %d times in the mapping table (same object: %v)", l.ID, m.ID, mapN[m.ID], mapAt[m.ID] == m)
			}
		}
		for _, ln := range l.Line {
			f := ln.Function
			if f == nil {
				continue // a line that references no function: not fixed by the statement
			}
			if f.ID == 0 {
				return "function/id-zero", fmt.Sprintf("location %d references a function with id 0", l.ID)
			}
			if fnN[f.ID] != 1 || fnAt[f.ID] != f {
				return "function/not-once", fmt.Sprintf("location %d references function id %d which occurs %d times in the function table (same object: %v)", l.ID, f.ID, fnN[f.ID], fnAt[f.ID] == f)
			}
		}
		return "", ""
	}
	for i, s := range p.Sample {
		if s == nil {
			return "sample/nil", fmt.Sprintf("sample %d is nil", i)
		}
		if len(s.Value) != nt {
			return "sample/values-per-type", fmt.Sprintf("sample %d has %d values for %d sample types", i, len(s.Value), nt)
		}
		for j, l := range s.Location {
			if l == nil {
				return "location/missing", fmt.Sprintf("sample %d location %d does not exist (nil)", i, j)
			}
			if c, d := checkLoc(l, fmt.Sprintf("sample %d", i)); c != "" {
				return c, d
			}
		}
	}
	// locations in the table that no sample uses still reference functions and mappings
	for _, l := range p.Location {
		if l == nil {
			continue
		}
		if m := l.Mapping; m != nil {
			if m.ID == 0 {
				return "mapping/id-zero", fmt.Sprintf("location %d references a mapping with id 0", l.ID)
			}
			if mapN[m.ID] != 1 || mapAt[m.ID] != m {
				return "mapping/not-once", fmt.Sprintf("location %d references mapping id %d occurring %d times", l.ID, m.ID, mapN[m.ID])
			}
		}
		for _, ln := range l.Line {
			if f := ln.Function; f != nil {
				if f.ID == 0 {
					return "function/id-zero", fmt.Sprintf("location %d references a function with id 0", l.ID)
				}
				if fnN[f.ID] != 1 || fnAt[f.ID] != f {
					return "function/not-once", fmt.Sprintf("location %d references function id %d occurring %d times", l.ID, f.ID, fnN[f.ID])
				}
			}
		}
	}
	return "", ""
}

// strClass abstracts a string to what can matter to a printer or a filter.
func strClass(s string) string {
	switch {
	case s == "":
		return "e"
	case !utf8.ValidString(s):
		return "x"
	case strings.ContainsAny(s, "\n\"\\<>\x00"):
		return "q"
	case len(s) == 1:
		return "1"
	case len(s) > 64:
		return "L"
	}
	return "p"
}

func rxClass(s string) string {
	if s == "" {
		return "e"
	}
	if _, err := regexp.Compile("^(" + s + ")$"); err != nil {
		return "bad"
	}
	return "ok"
}

func sgn(v int64) string {
	switch {
	case v == 0:
		return "0"
	case v < 0:
		return "-"
	}
	return "+"
}

func capn(n, c int) int {
	if n > c {
		return c
	}
	return n
}

// shape is a structural abstraction of a parsed profile: counts (capped),
// which references are present, signs of numbers and classes of strings; no
// concrete values. Reports are run once per distinct shape.
func shape(p *profile.Profile) string {
	var b strings.Builder
	w := func(f string, a ...any) { fmt.Fprintf(&b, f, a...) }
	w("T%d", capn(len(p.SampleType), 5))
	dflt := false
	for i, t := range p.SampleType {
		if i < 4 {
			w("(%s%s)", strClass(t.Type), strClass(t.Unit))
		}
		if t.Type == p.DefaultSampleType {
			dflt = true
		}
	}
	w("|H%s%s%s", sgn(p.Period), sgn(p.TimeNanos), sgn(p.DurationNanos))
	if pt := p.PeriodType; pt != nil {
		w("pt(%s%s)", strClass(pt.Type), strClass(pt.Unit))
	}
	w("d%s%v,df%s,kf%s,u%s,c%d", strClass(p.DefaultSampleType), dflt, rxClass(p.DropFrames), rxClass(p.KeepFrames), strClass(p.DocURL), capn(len(p.Comments), 3))
	for i, c := range p.Comments {
		if i < 3 {
			w("%s", strClass(c))
		}
	}
	locIdx := map[*profile.Location]int{}
	for i, l := range p.Location {
		locIdx[l] = i
	}
	fnIdx := map[*profile.Function]int{}
	for i, f := range p.Function {
		fnIdx[f] = i
	}
	mapIdx := map[*profile.Mapping]int{}
	for i, m := range p.Mapping {
		mapIdx[m] = i
	}
	w("|S%d", capn(len(p.Sample), 4))
	for i, s := range p.Sample {
		if i >= 3 {
			break
		}
		w("[l%d:", capn(len(s.Location), 4))
		for j, l := range s.Location {
			if j < 4 {
				w("%d,", capn(locIdx[l], 4))
			}
		}
		w("v")
		for j, v := range s.Value {
			if j < 4 {
				w("%s", sgn(v))
			}
		}
		keys := make([]string, 0, len(s.Label))
		for k := range s.Label {
			keys = append(keys, k)
		}
		sort.Strings(keys)
		w(";L%d", capn(len(keys), 3))
		for j, k := range keys {
			if j < 2 {
				w("(%s:%d", strClass(k), capn(len(s.Label[k]), 3))
				for x, v := range s.Label[k] {
					if x < 2 {
						w("%s", strClass(v))
					}
				}
				w(")")
			}
		}
		keys = keys[:0]
		for k := range s.NumLabel {
			keys = append(keys, k)
		}
		sort.Strings(keys)
		w(";N%d", capn(len(keys), 3))
		for j, k := range keys {
			if j < 2 {
				w("(%s:%d", strClass(k), capn(len(s.NumLabel[k]), 3))
				for x, v := range s.NumLabel[k] {
					if x < 2 {
						w("%s", sgn(v))
					}
				}
				w("u%d", capn(len(s.NumUnit[k]), 3))
				for x, u := range s.NumUnit[k] {
					if x < 2 {
						w("%s", strClass(u))
					}
				}
				w(")")
			}
		}
		w("]")
	}
	w("|L%d", capn(len(p.Location), 4))
	for i, l := range p.Location {
		if i >= 4 {
			break
		}
		w("[")
		if m := l.Mapping; m != nil {
			in := "o"
			if m.Start <= l.Address && l.Address < m.Limit {
				in = "i"
			}
			w("m%d%s", capn(mapIdx[m], 3), in)
		}
		if l.Address == 0 {
			w("a0")
		}
		if l.IsFolded {
			w("F")
		}
		w("n%d", capn(len(l.Line), 3))
		for j, ln := range l.Line {
			if j < 3 {
				if ln.Function != nil {
					w("f%d", capn(fnIdx[ln.Function], 3))
				} else {
					w("f-")
				}
				w("%s%s", sgn(ln.Line), sgn(ln.Column))
			}
		}
		w("]")
	}
	w("|F%d", capn(len(p.Function), 4))
	for i, f := range p.Function {
		if i < 3 {
			w("[%s%v%s%s]", strClass(f.Name), f.Name == f.SystemName, strClass(f.Filename), sgn(f.StartLine))
		}
	}
	w("|M%d", capn(len(p.Mapping), 4))
	for i, m := range p.Mapping {
		if i >= 3 {
			break
		}
		bid := "2"
		switch len(m.BuildID) {
		case 0:
			bid = "0"
		case 1:
			bid = "1"
		}
		fc := strClass(m.File)
		if m.KernelRelocationSymbol != "" || strings.HasPrefix(m.File, "[") {
			fc += "k"
		}
		w("[%s,b%s%s,%v%v%v%v,%v,%v]", fc, bid, strClass(m.BuildID), m.HasFunctions, m.HasFilenames, m.HasLineNumbers, m.HasInlineFrames, m.Start < m.Limit, m.Offset == 0)
	}
	return b.String()
}

// shortBuildID reports whether some mapping has a build id of one character
// (structural predicate used to name the class of a fetch-stage crash).
func shortBuildID(p *profile.Profile) bool {
	for _, m := range p.Mapping {
		if m != nil && len(m.BuildID) == 1 {
			return true
		}
	}
	return false
}
