// Package c20: shared profile and tool state is safe under concurrent use.
//
// Each scenario starts 2-3 controlled threads that perform the concurrent
// operations pprof itself performs or permits, on the real code in the
// instrumented build (sync -> vsync, go -> verifrt.Go, os -> vos, function-entry
// scheduling points in package profile and internal/binutils). The explorer
// enumerates every interleaving with at most `bound` preemptions (plus a bound
// on non-default switches at blocking points). Oracle per execution: no
// deadlock, no panic, and every thread's result equals the result of the same
// operation run alone (outputs byte-equal; tool replies not crossed; file names
// distinct). Data races proper are decided by the separate free-running -race
// pass of the same bodies (race.go; run by pmc).
package c20

import (
	"bytes"
	"fmt"
	"os"
	"path/filepath"
	"sort"
	"strings"

	"github.com/google/pprof/internal/binutils"
	"github.com/google/pprof/internal/driver"
	"github.com/google/pprof/internal/plugin"
	"github.com/google/pprof/internal/verifrt"
	"github.com/google/pprof/internal/verifrt/vos"
	"github.com/google/pprof/profile"
	"github.com/google/pprof/verifh/ap"
	"github.com/google/pprof/verifh/drive"
	"github.com/google/pprof/verifh/enum"
	"github.com/google/pprof/verifh/reg"
	"github.com/google/pprof/verifh/vk"
)

func init() { reg.Register("C20", Run) }

// A Scenario is a set of operations run concurrently on a fresh shared state.
type Scenario struct {
	Name string
	// Setup builds the shared state and returns the operations; each returns a
	// printable result. Final (optional) returns an observation of the shared
	// state after all operations ended.
	Setup func() (ops []func() string, final func() string)
	// Accept decides whether the per-thread results and the final observation are
	// one of the results of running the operations one at a time in some order.
	// nil = each result must equal the operation's solo result (computed once).
	Accept func(results []string, final string) string
	// MaxPreempt caps the preemption bound for scenarios with very many
	// scheduling points (0 = the tier's bound).
	MaxPreempt int
}

// tinyProfile keeps the number of function-entry scheduling points small.
func tinyProfile() *profile.Profile {
	a := &ap.AP{Types: []ap.VT{{Type: "n", Unit: "count"}}, Maps: enum.Maps2[:1], Period: 1}
	l := ap.Loc{Addr: 0x1010, Map: 0, Lines: []ap.Line{{Func: "f", File: "f.go", Line: 1}}}
	a.Stacks = []ap.Stack{{Locs: []ap.Loc{l}, Values: []int64{1}, Labels: map[string][]string{"k": {"v"}}}}
	return ap.Concretize(a, ap.Opts{})
}

func testProfile() *profile.Profile {
	sigma := enum.Sigma6
	a := &ap.AP{Types: []ap.VT{{Type: "n", Unit: "count"}, {Type: "v", Unit: "count"}}, Maps: enum.Maps2, PeriodType: &ap.VT{Type: "n", Unit: "count"}, Period: 1}
	shapes := enum.Shapes(sigma, 2)
	for i, sh := range shapes {
		if i%9 != 0 {
			continue
		}
		st := sh.Stack(sigma, []int64{int64(i + 1), int64(2*i + 1)})
		st.Labels = map[string][]string{"k": {fmt.Sprint("v", i%3)}}
		st.NumLabel = map[string][]int64{"bytes": {int64(i)}}
		st.NumUnit = map[string][]string{"bytes": {"bytes"}}
		a.Stacks = append(a.Stacks, st)
	}
	return ap.Concretize(a, ap.Opts{})
}

type witness struct {
	Scenario string `json:"scenario"`
	Choices  []int  `json:"choices,omitempty"`
}

// Scenarios lists all scenarios.
func Scenarios() []Scenario {
	var out []Scenario

	// S1: Write || WriteUncompressed || Copy on one profile (function-entry
	// scheduling points in package profile make a missing lock visible as a torn encoding)
	enc := func(p *profile.Profile) func() string {
		return func() string {
			var b bytes.Buffer
			if err := p.WriteUncompressed(&b); err != nil {
				return "err " + err.Error()
			}
			return fmt.Sprintf("%x", b.Bytes())
		}
	}
	cp := func(p *profile.Profile) func() string {
		return func() string {
			q := p.Copy()
			var b bytes.Buffer
			q.WriteUncompressed(&b)
			return fmt.Sprintf("%x", b.Bytes())
		}
	}
	out = append(out, Scenario{Name: "S1/write-write", Setup: func() ([]func() string, func() string) {
		p := tinyProfile()
		return []func() string{enc(p), enc(p)}, nil
	}})
	out = append(out, Scenario{Name: "S1/write-copy", MaxPreempt: 1, Setup: func() ([]func() string, func() string) {
		p := tinyProfile()
		return []func() string{enc(p), cp(p)}, nil
	}})
	out = append(out, Scenario{Name: "S1/write-write-copy", MaxPreempt: 1, Setup: func() ([]func() string, func() string) {
		p := tinyProfile()
		return []func() string{enc(p), enc(p), cp(p)}, nil
	}})
	out = append(out, Scenario{Name: "S1/gzip-write-string", MaxPreempt: 1, Setup: func() ([]func() string, func() string) {
		p := tinyProfile()
		return []func() string{
			func() string {
				var b bytes.Buffer
				p.Write(&b)
				q, err := profile.ParseData(b.Bytes())
				if err != nil {
					return "err " + err.Error()
				}
				return q.String()
			},
			func() string { return p.Copy().String() },
		}, nil
	}})

	// S1c: a Write whose destination stalls until another user of the same profile
	// is done (a slow client, a pipe whose reader first copies the profile): the
	// other operation must not be blocked by the stalled write
	out = append(out, Scenario{Name: "S1/write-to-stalled-sink", MaxPreempt: 1, Setup: func() ([]func() string, func() string) {
		p := tinyProfile()
		otherDone := false
		return []func() string{
			func() string {
				w := &stallingWriter{until: func() bool { return otherDone }}
				if err := p.Write(w); err != nil {
					return "err " + err.Error()
				}
				q, err := profile.ParseData(w.buf.Bytes())
				if err != nil {
					return "err " + err.Error()
				}
				return q.String()
			},
			func() string {
				defer func() { otherDone = true }()
				return p.Copy().String()
			},
		}, nil
	}})

	// S4: three concurrent newTempFile with one prefix
	out = append(out, Scenario{Name: "S4/tempfiles", Setup: func() ([]func() string, func() string) {
		dir := filepath.Join(drive.Sandbox(), "tmp", "s4")
		os.RemoveAll(dir)
		os.MkdirAll(dir, 0755)
		mk := func(content string) func() string {
			return func() string {
				f, err := driver.VerifNewTempFile(dir, "pprof.", ".pb.gz")
				if err != nil {
					return "err " + err.Error()
				}
				f.WriteString(content)
				f.Close()
				return f.Name()
			}
		}
		final := func() string {
			ents, _ := os.ReadDir(dir)
			var s []string
			for _, e := range ents {
				b, _ := os.ReadFile(filepath.Join(dir, e.Name()))
				s = append(s, e.Name()+"="+string(b))
			}
			sort.Strings(s)
			return strings.Join(s, ",")
		}
		return []func() string{mk("A"), mk("B"), mk("C")}, final
	}, Accept: func(res []string, final string) string {
		seen := map[string]bool{}
		for _, r := range res {
			if strings.HasPrefix(r, "err") {
				return "temp file creation failed: " + r
			}
			if seen[r] {
				return "two temp files got the same name " + r
			}
			seen[r] = true
		}
		// three files, contents A, B, C each once
		var contents []string
		for _, kv := range strings.Split(final, ",") {
			if i := strings.IndexByte(kv, '='); i >= 0 {
				contents = append(contents, kv[i+1:])
			}
		}
		sort.Strings(contents)
		if strings.Join(contents, "") != "ABC" {
			return "files on disk: " + final + " (a file was overwritten or lost)"
		}
		return ""
	}})

	// S4c: the registry of temporary files to delete: one goroutine cleans up (the deferred cleanup of a
	// finished run) while two others register new files; whatever the interleaving, a file is deleted by the
	// first cleanup that starts after its registration - here at the latest by the one in the final step
	out = append(out, Scenario{Name: "S4c/tempfile-registry", Setup: func() ([]func() string, func() string) {
		dir := filepath.Join(drive.Sandbox(), "tmp", "s4c")
		driver.VerifCleanupTempFiles()
		os.RemoveAll(dir)
		os.MkdirAll(dir, 0755)
		reg := func(name string) func() string {
			return func() string {
				p := filepath.Join(dir, name)
				if err := os.WriteFile(p, []byte(name), 0644); err != nil {
					return "err " + err.Error()
				}
				driver.VerifDeferDeleteTempFile(p)
				return "registered"
			}
		}
		reg("early1")()
		reg("early2")()
		cleanup := func() string {
			if err := driver.VerifCleanupTempFiles(); err != nil {
				return "err " + err.Error()
			}
			return "cleaned"
		}
		final := func() string {
			r := cleanup()
			ents, _ := os.ReadDir(dir)
			var s []string
			for _, e := range ents {
				s = append(s, e.Name())
			}
			sort.Strings(s)
			return r + " left:" + strings.Join(s, ",")
		}
		return []func() string{cleanup, reg("late1"), reg("late2")}, final
	}, Accept: func(res []string, final string) string {
		for _, r := range res {
			if strings.HasPrefix(r, "err") {
				return "an operation failed: " + r
			}
		}
		if final != "cleaned left:" {
			return "after a cleanup that started when all registrations were done: " + final + " (a registered file was forgotten, or deleted twice)"
		}
		return ""
	}})

	// S4b: a temporary file is created while somebody who does not share pprof's locks (another pprof
	// process saving into the same directory) takes names of the same series with exclusive creates:
	// nobody ends up owning a name the other one owns, and no content is overwritten
	out = append(out, Scenario{Name: "S4b/tempfile-vs-other-process", Setup: func() ([]func() string, func() string) {
		dir := filepath.Join(drive.Sandbox(), "tmp", "s4b")
		os.RemoveAll(dir)
		os.MkdirAll(dir, 0755)
		ours := func() string {
			f, err := driver.VerifNewTempFile(dir, "pprof.", ".pb.gz")
			if err != nil {
				return "err " + err.Error()
			}
			f.WriteString("ours")
			f.Close()
			return f.Name()
		}
		other := func() string {
			for i := 1; i <= 4; i++ {
				name := filepath.Join(dir, fmt.Sprintf("pprof.%03d.pb.gz", i))
				f, err := vos.OpenFile(name, os.O_RDWR|os.O_CREATE|os.O_EXCL, 0666)
				if err != nil {
					continue
				}
				f.WriteString("theirs")
				f.Close()
				return name
			}
			return "err no free name"
		}
		final := func() string {
			ents, _ := os.ReadDir(dir)
			var s []string
			for _, e := range ents {
				b, _ := os.ReadFile(filepath.Join(dir, e.Name()))
				s = append(s, e.Name()+"="+string(b))
			}
			sort.Strings(s)
			return strings.Join(s, ",")
		}
		return []func() string{ours, other}, final
	}, Accept: func(res []string, final string) string {
		if strings.HasPrefix(res[0], "err") || strings.HasPrefix(res[1], "err") {
			return "a creation failed: " + res[0] + " / " + res[1]
		}
		if res[0] == res[1] {
			return "pprof and the other process both own " + res[0] + "; on disk: " + final
		}
		if !strings.Contains(final, "=ours") || !strings.Contains(final, "=theirs") {
			return "a file was overwritten or lost; on disk: " + final
		}
		return ""
	}})

	// S5: Binutils.SetTools || SetFastSymbolization || String
	out = append(out, Scenario{Name: "S5/binutils-config", Setup: func() ([]func() string, func() string) {
		bu := &binutils.Binutils{}
		return []func() string{
				func() string { bu.SetTools("addr2line:/nonexistent/a2l"); return "" },
				func() string { bu.SetFastSymbolization(true); return "" },
				func() string { s := bu.String(); _ = s; return "" },
			}, func() string {
				return bu.String()
			}
	}, Accept: func(res []string, final string) string {
		if !strings.Contains(final, "fast=true") {
			return "SetFastSymbolization(true) was lost: " + final
		}
		return ""
	}})

	// S6: two lookups through one addr2line / llvm-symbolizer pipe
	out = append(out, Scenario{Name: "S6/addr2line-pipe", Setup: func() ([]func() string, func() string) {
		tool := &mockAddr2line{}
		look := binutils.VerifC20Addr2Liner(tool, 0)
		op := func(addr uint64) func() string {
			return func() string {
				fr, err := look(addr)
				return fmt.Sprint(fr, err)
			}
		}
		return []func() string{op(0x1000), op(0x2000), op(0x3000)}, nil
	}})
	out = append(out, Scenario{Name: "S6b/llvm-symbolizer-pipe", Setup: func() ([]func() string, func() string) {
		tool := &mockLLVM{}
		look := binutils.VerifC20LLVM(tool, "bin", 0, false)
		op := func(addr uint64) func() string {
			return func() string {
				fr, err := look(addr)
				return fmt.Sprint(fr, err)
			}
		}
		return []func() string{op(0x1000), op(0x2000), op(0x3000)}, nil
	}})
	// S7: three different sources fetched in parallel by one invocation: whichever fetch finishes first,
	// the merged profile is the one obtained when they finish in command-line order
	out = append(out, Scenario{Name: "S7/parallel-fetch", MaxPreempt: 1, Setup: func() ([]func() string, func() string) {
		prof := map[string]func() *profile.Profile{}
		var names []string
		for i := 0; i < 3; i++ {
			a := &ap.AP{Types: []ap.VT{{Type: "n", Unit: "count"}}, Maps: enum.Maps2[:1], Period: 1, Comments: []string{fmt.Sprint("c", i)}}
			l := ap.Loc{Addr: 0x1010 + uint64(i)*0x10, Map: 0, Lines: []ap.Line{{Func: fmt.Sprint("f", i), File: "f.go", Line: int64(i + 1)}}}
			a.Stacks = []ap.Stack{{Locs: []ap.Loc{l}, Values: []int64{int64(i + 1)}}}
			n := fmt.Sprint("s", i)
			names = append(names, n)
			prof[n] = func() *profile.Profile { return ap.Concretize(a, ap.Opts{}) } // pre-parsed: few scheduling points per fetch
		}
		op := func() string {
			f := &drive.Fetcher{Prof: prof, Hook: func(src string) { verifrt.Yield("fetch " + src) }, After: func(src string) { verifrt.Yield("fetched " + src) }}
			p, err := driver.VerifFetchProfiles(names, nil, false, false, &plugin.Options{Fetch: f, UI: &drive.UI{}, Sym: drive.NopSym{}, Obj: drive.NoObj{}, Flagset: drive.MkFlags(names), Writer: &drive.Writer{}})
			if err != nil {
				return "err " + err.Error()
			}
			return fmt.Sprintf("%x", drive.Encode(p))
		}
		return []func() string{op}, nil
	}})
	// S8: the first addresses of a freshly opened object file asked about by three goroutines at once: the
	// relocation base is computed once, and nobody may translate an address before it is known
	out = append(out, Scenario{Name: "S8/first-objaddr", Setup: func() ([]func() string, func() string) {
		o, err := binutils.VerifC20OpenELF(0x5000000, 0x2000)
		op := func(addr uint64) func() string {
			return func() string {
				if err != nil {
					return "open: " + err.Error()
				}
				v, e := o.ObjAddr(addr)
				return fmt.Sprintf("%#x %v", v, e)
			}
		}
		return []func() string{op(0x5000c04), op(0x5001010), op(0x5000000)}, nil
	}})
	out = append(out, webScenarios()...)
	return out
}

// mockAddr2line simulates an addr2line -aif process: it answers every input
// line with "0x<addr>", a function name and file:line. Every pipe operation is
// a scheduling point.
type mockAddr2line struct{ out []string }

func (m *mockAddr2line) Write(s string) error {
	verifrt.Yield("pipe.write")
	s = strings.TrimSpace(s)
	if s == "ffffffffffffffff" {
		m.out = append(m.out, "0x"+s, "??", "??:0")
	} else {
		m.out = append(m.out, "0x"+s, "fn_"+s, "file_"+s+".c:"+fmt.Sprint(len(s)))
	}
	return nil
}

func (m *mockAddr2line) ReadLine() (string, error) {
	verifrt.Yield("pipe.read")
	if len(m.out) == 0 {
		return "", fmt.Errorf("EOF")
	}
	l := m.out[0]
	m.out = m.out[1:]
	return l, nil
}
func (m *mockAddr2line) Close() {}

type mockLLVM struct{ out []string }

func (m *mockLLVM) Write(s string) error {
	verifrt.Yield("pipe.write")
	f := strings.Fields(s)
	addr := f[len(f)-1]
	m.out = append(m.out, fmt.Sprintf(`{"Address":"%s","ModuleName":"bin","Symbol":[{"Line":1,"Column":2,"FunctionName":"fn_%s","FileName":"f.c","StartLine":1}]}`, addr, addr))
	return nil
}
func (m *mockLLVM) ReadLine() (string, error) {
	verifrt.Yield("pipe.read")
	if len(m.out) == 0 {
		return "", fmt.Errorf("EOF")
	}
	l := m.out[0]
	m.out = m.out[1:]
	return l, nil
}
func (m *mockLLVM) Close() {}

// Run is the check.
func Run(c *vk.Ctx) {
	if verifrt.Flavour != "instr" {
		c.Violation("harness/wrong-build", nil, "C20 needs the instrumented build")
		return
	}
	preempt, sw := 2, 1
	if c.Thorough() {
		preempt, sw = 3, 2
	}
	scs := Scenarios()
	c.Note(fmt.Sprintf("%d scenarios, preemption bound %d, non-default switches at blocking points <= %d", len(scs), preempt, sw))
	for i, sc := range scs {
		if !c.Mine(int64(i)) {
			continue
		}
		explore(c, sc, preempt, sw)
	}
}

func explore(c *vk.Ctx, sc Scenario, preempt, sw int) {
	if sc.MaxPreempt > 0 && preempt > sc.MaxPreempt {
		preempt = sc.MaxPreempt
	}
	// solo results: each operation alone on a fresh state
	ops0, _ := sc.Setup()
	solo := make([]string, len(ops0))
	for i := range ops0 {
		ops, _ := sc.Setup()
		solo[i] = ops[i]()
	}
	var results []string
	var final string
	body := func() {
		ops, fin := sc.Setup()
		results = make([]string, len(ops))
		done := 0
		for i := range ops {
			i := i
			verifrt.Go(func() {
				results[i] = ops[i]()
				done++
			})
		}
		verifrt.SchedPoint(func() bool { return done == len(ops) }, "join")
		final = ""
		if fin != nil {
			final = fin()
		}
	}
	e := &verifrt.Explorer{Bounds: verifrt.Bounds{verifrt.KSched: preempt, verifrt.KSwitch: sw}, Body: body, Horizon: 100000}
	// determinism self-check
	x0 := e.RunOne(nil)
	r0 := fmt.Sprint(results, final)
	x1 := e.RunOne(nil)
	if r0 != fmt.Sprint(results, final) || fmt.Sprint(x0.Choices) != fmt.Sprint(x1.Choices) || len(x0.Points) != len(x1.Points) {
		c.Violation("harness/nondeterministic-default-run", witness{Scenario: sc.Name}, "the default schedule executed twice gives different observations")
		return
	}
	outcomes := map[string]bool{}
	blockedSwitches := 0
	e.Check = func(x *verifrt.Exec) bool {
		c.Eval()
		c.Trace(1)
		w := witness{Scenario: sc.Name, Choices: trim(x.Choices)}
		for _, p := range x.Points {
			if p.Kind == verifrt.KSwitch && strings.Contains(p.Site, "Lock") {
				blockedSwitches++
			}
		}
		switch {
		case x.Diverged != "":
			c.Violation("harness/divergence", w, x.Diverged)
			return true
		case x.Hung != "":
			c.Violation("hang/"+sc.Name, w, x.Hung)
			return false
		case x.Deadlock != "":
			c.Violation("deadlock/"+sc.Name, w, x.Deadlock)
			return true
		case len(x.Panics) > 0:
			c.Violation("panic/"+sc.Name, w, strings.Join(x.Panics, "\n"))
			return true
		}
		outcomes[fmt.Sprint(results, final)] = true
		if sc.Accept != nil {
			if msg := sc.Accept(results, final); msg != "" {
				c.Violation("not-serializable/"+sc.Name, w, msg)
			}
		} else {
			for i := range results {
				if results[i] != solo[i] {
					c.Violationf("differs-from-solo/"+sc.Name, w, "operation %d: concurrent result differs from its result when run alone\n solo: %.300s\n conc: %.300s", i, solo[i], results[i])
					break
				}
			}
		}
		return !c.Expired()
	}
	e.Run()
	if c.Expired() {
		c.Cap("time budget hit in " + sc.Name)
	}
	if e.Capped {
		c.Cap("execution cap hit in " + sc.Name)
	}
	c.Transition(e.Transitions)
	c.State(sc.Name)
	c.Outcome(fmt.Sprint(len(outcomes)))
	if e.Execs > 10 {
		c.Nontrivial(sc.Name)
	}
	c.Count("executions/"+sc.Name, int64(e.Execs))
	c.Count("lock-contention-points/"+sc.Name, int64(blockedSwitches))
	c.Sample(map[string]any{"scenario": sc.Name, "threads": len(ops0), "preemption_bound": preempt, "schedules": e.Execs, "max_choice_points": e.MaxDepth, "distinct_outcomes": len(outcomes)})
}

func trim(ch []int) []int {
	n := len(ch)
	for n > 0 && ch[n-1] == 0 {
		n--
	}
	return ch[:n]
}

// stallingWriter blocks its first Write until the predicate holds.
type stallingWriter struct {
	buf     bytes.Buffer
	until   func() bool
	stalled bool
}

func (w *stallingWriter) Write(b []byte) (int, error) {
	if !w.stalled {
		w.stalled = true
		verifrt.SchedPoint(w.until, "stalled sink")
	}
	return w.buf.Write(b)
}
