package c20

import (
	"fmt"
	"net/http"
	"os"
	"path/filepath"
	"strings"

	"github.com/google/pprof/internal/driver"
	"github.com/google/pprof/internal/verifrt"
	"github.com/google/pprof/verifh/drive"
)

func settingsFile() string { return filepath.Join(drive.Sandbox(), "cfg", "pprof", "settings.json") }

func webUI() map[string]http.Handler {
	var h map[string]http.Handler
	verifrt.Quiet(func() {
		os.RemoveAll(filepath.Dir(settingsFile()))
		data := drive.Encode(tinyProfile())
		r := drive.Web(map[string][]byte{"p": data}, []string{"p"})
		h = r.Handlers
	})
	return h
}

func request(h map[string]http.Handler, target string) func() string {
	return func() string {
		code, body, pan := drive.Get(h, "GET", target)
		if pan != nil {
			return fmt.Sprintf("PANIC %v", pan)
		}
		return fmt.Sprintf("%d\n%s", code, body)
	}
}

func savedNames() string {
	b, err := os.ReadFile(settingsFile())
	if err != nil {
		return "<absent>"
	}
	var names []string
	for _, part := range strings.Split(string(b), `"name": "`)[1:] {
		names = append(names, part[:strings.IndexByte(part, '"')])
	}
	return strings.Join(names, ",")
}

// webScenarios: S2 mixes of concurrent web requests (read-only mixes: every
// response equals its solo response; save/delete mixes: the settings file ends
// in a state some sequential order produces) and S3 option get/set.
func webScenarios() []Scenario {
	var out []Scenario
	out = append(out, Scenario{Name: "S2/top-flamegraph-download", MaxPreempt: 1, Setup: func() ([]func() string, func() string) {
		h := webUI()
		return []func() string{request(h, "/top?f=f"), request(h, "/flamegraph"), request(h, "/download")}, nil
	}})
	out = append(out, Scenario{Name: "S2/peek-top-with-url-options", MaxPreempt: 1, Setup: func() ([]func() string, func() string) {
		h := webUI()
		return []func() string{request(h, "/peek?f=f"), request(h, "/top?g=lines&n=1")}, nil
	}})
	out = append(out, Scenario{Name: "S2/saveconfig-saveconfig", Setup: func() ([]func() string, func() string) {
		h := webUI()
		return []func() string{request(h, "/saveconfig?config=A&f=f"), request(h, "/saveconfig?config=B&n=7")}, savedNames
	}, Accept: func(res []string, final string) string {
		for _, r := range res {
			if !strings.HasPrefix(r, "200") {
				return "a save request failed: " + strings.SplitN(r, "\n", 2)[0]
			}
		}
		if final != "A,B" && final != "B,A" {
			return "after two concurrent saves the settings hold: " + final
		}
		return ""
	}})
	out = append(out, Scenario{Name: "S2/saveconfig-deleteconfig", Setup: func() ([]func() string, func() string) {
		h := webUI()
		verifrt.Quiet(func() { request(h, "/saveconfig?config=A&f=f")() })
		return []func() string{request(h, "/saveconfig?config=B&n=7"), request(h, "/deleteconfig?config=A")}, savedNames
	}, Accept: func(res []string, final string) string {
		if final != "B" {
			return "after save(B) || delete(A) on [A] the settings hold: " + final
		}
		return ""
	}})
	// a page is rendered (its configuration menu reads the settings file) while a configuration is
	// saved: the menu is the one before or the one after the save - never one without the
	// configurations that were there all along
	out = append(out, Scenario{Name: "S2/saveconfig-menu", Setup: func() ([]func() string, func() string) {
		h := webUI()
		verifrt.Quiet(func() { request(h, "/saveconfig?config=A&f=f")() })
		menu := func() string {
			var names []string
			for _, e := range driver.VerifConfigMenu(settingsFile()) {
				names = append(names, e[0])
			}
			return strings.Join(names, ",")
		}
		return []func() string{request(h, "/saveconfig?config=B&n=7"), menu, menu}, savedNames
	}, Accept: func(res []string, final string) string {
		for _, m := range res[1:] {
			if m != "Default,A" && m != "Default,A,B" {
				return "a page rendered while configuration B was being saved offers the configurations: " + m
			}
		}
		if final != "A,B" {
			return "after save(B) on [A] the settings hold: " + final
		}
		return ""
	}})
	// S3: options are read while being set
	out = append(out, Scenario{Name: "S3/configure-configure-read", Setup: func() ([]func() string, func() string) {
		verifrt.Quiet(func() { driver.VerifReset() })
		return []func() string{
				func() string { return fmt.Sprint(driver.VerifConfigure("focus", "a")) },
				func() string { return fmt.Sprint(driver.VerifConfigure("nodecount", "7")) },
				func() string {
					s := driver.VerifConfigState()
					f, n := strings.Contains(s, "focus=a;"), strings.Contains(s, "nodecount=7;")
					return fmt.Sprint(f, n)
				},
			}, func() string {
				s := driver.VerifConfigState()
				return fmt.Sprint(strings.Contains(s, "focus=a;"), strings.Contains(s, "nodecount=7;"))
			}
	}, Accept: func(res []string, final string) string {
		if res[0] != "<nil>" || res[1] != "<nil>" {
			return "configure failed: " + res[0] + " " + res[1]
		}
		if final != "true true" {
			return "an option assignment was lost: focus/nodecount set = " + final
		}
		return ""
	}})
	// S3b: an assignment that is refused (a choice name with a value that is not true, an unknown name, a
	// value of the wrong type) next to one that is accepted and a reader: the refused ones leave the option
	// store as it was and usable - nobody waits for ever
	for _, bad := range [][2]string{{"cum", "false"}, {"lines", "0"}, {"flat", "maybe"}, {"nosuchoption", "1"}, {"nodecount", "many"}, {"granularity", "cheese"}} {
		bad := bad
		out = append(out, Scenario{Name: "S3b/refused-assignment/" + bad[0] + "=" + bad[1], Setup: func() ([]func() string, func() string) {
			verifrt.Quiet(func() { driver.VerifReset() })
			return []func() string{
					func() string { return fmt.Sprint(driver.VerifConfigure(bad[0], bad[1]) != nil) },
					func() string { return fmt.Sprint(driver.VerifConfigure("nodecount", "7")) },
					func() string { return fmt.Sprint(len(driver.VerifConfigState()) > 0) },
				}, func() string {
					e := driver.VerifConfigure("focus", "a")
					s := driver.VerifConfigState()
					return fmt.Sprint(e, strings.Contains(s, "focus=a;"), strings.Contains(s, "nodecount=7;"))
				}
		}, Accept: func(res []string, final string) string {
			if res[0] != "true" {
				return "the assignment " + bad[0] + "=" + bad[1] + " was not refused"
			}
			if res[1] != "<nil>" || final != "<nil> true true" {
				return "after the refused assignment: configure(nodecount)=" + res[1] + ", then configure(focus)/state: " + final
			}
			return ""
		}})
	}
	return out
}
