package c20

// webScenarios: mixes of concurrent web requests, each compared with its solo
// response (S2). Added in web.go once the web harness exists.
func webScenarios() []Scenario { return nil }
