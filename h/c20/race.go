package c20

import (
	"fmt"
	"sync"

	"github.com/google/pprof/verifh/reg"
	"github.com/google/pprof/verifh/vk"
)

func init() { reg.Register("C20R", RunRace) }

// RunRace is the free-running pass: the bodies of all scenarios are executed
// with real goroutines and the real sync package in a binary built with -race.
// Under the cooperative scheduler every hand-off is a happens-before edge, so
// the race detector is blind there; this pass is its documented complement. It
// is dynamic detection, not exhaustive. Race reports are collected from the
// process's stderr by the runner.
func RunRace(c *vk.Ctx) {
	iters := 60
	if c.Thorough() {
		iters = 300
	}
	scs := Scenarios()
	for si, sc := range scs {
		if !c.Mine(int64(si)) {
			continue
		}
		for it := 0; it < iters; it++ {
			ops, fin := sc.Setup()
			var wg sync.WaitGroup
			start := make(chan struct{})
			for i := range ops {
				wg.Add(1)
				go func(i int) {
					defer wg.Done()
					<-start
					ops[i]()
				}(i)
			}
			close(start)
			wg.Wait()
			if fin != nil {
				fin()
			}
			c.Eval()
		}
		c.Nontrivial(sc.Name)
		c.Sample(map[string]any{"scenario": sc.Name, "free_running_iterations": iters})
	}
	c.Note(fmt.Sprintf("race pass: %d scenarios x %d iterations, GOMAXPROCS>1, -race build", len(scs), iters))
}
