// Package enum holds the deterministic, simplest-first enumerators of small
// inputs shared by the checks.
package enum

import (
	"github.com/google/pprof/verifh/ap"
)

// Kind is a line-level frame kind of the stack alphabet. Unsym marks an
// unsymbolized address (a location without lines).
type Kind struct {
	Line  ap.Line
	Map   int
	Unsym bool
	Tag   string // short name used in witnesses
}

// Sigma6 is the default alphabet: every granularity merges or splits something.
//
//	a1, a2: same function a, lines 1 and 2 of f1.go (functions merges them, lines splits)
//	b, c:   different functions on the same file and line (files merges, functions splits); c has a column
//	d:      a function with an empty name (identity falls back to binary and start line)
//	u:      an unsymbolized address in binary m2
var Sigma6 = []Kind{
	{Line: ap.Line{Func: "a", Sys: "a_sys", File: "f1.go", Start: 1, Line: 1}, Map: 0, Tag: "a1"},
	{Line: ap.Line{Func: "a", Sys: "a_sys", File: "f1.go", Start: 1, Line: 2}, Map: 0, Tag: "a2"},
	{Line: ap.Line{Func: "b", Sys: "b_sys", File: "f2.go", Start: 1, Line: 1}, Map: 0, Tag: "b"},
	{Line: ap.Line{Func: "c", Sys: "c_sys", File: "f2.go", Start: 1, Line: 1, Col: 3}, Map: 1, Tag: "c"},
	{Line: ap.Line{Func: "", File: "f3.go", Start: 5, Line: 7}, Map: 1, Tag: "d"},
	{Unsym: true, Map: 1, Tag: "u"},
}

// Maps2 are the two binaries of the alphabet.
var Maps2 = []ap.Map{
	{Start: 0x1000, Limit: 0x5000, File: "/bin/m1", HasFunctions: true, HasFilenames: true, HasLineNumbers: true, HasInlineFrames: true},
	{Start: 0x8000, Limit: 0xc000, File: "/lib/m2", HasFunctions: true, HasFilenames: true, HasLineNumbers: true, HasInlineFrames: true},
}

// Shape is a stack shape: a sequence of inline groups of kind indices, root first.
type Shape [][]int

// Tag renders a shape, e.g. "a1|b+c|u" (| separates locations, + joins inlined frames).
func (s Shape) Tag(sigma []Kind) string {
	t := ""
	for i, g := range s {
		if i > 0 {
			t += "|"
		}
		for j, k := range g {
			if j > 0 {
				t += "+"
			}
			t += sigma[k].Tag
		}
	}
	if t == "" {
		return "<empty>"
	}
	return t
}

// Shapes enumerates all stack shapes over sigma with at most depth frames:
// every frame sequence times every composition into locations (an unsymbolized
// kind is always alone in its location). Simplest first.
func Shapes(sigma []Kind, depth int) []Shape {
	var out []Shape
	for d := 0; d <= depth; d++ {
		seq := make([]int, d)
		var rec func(i int)
		rec = func(i int) {
			if i == d {
				out = append(out, compositions(sigma, seq)...)
				return
			}
			for k := range sigma {
				seq[i] = k
				rec(i + 1)
			}
		}
		rec(0)
	}
	return out
}

func compositions(sigma []Kind, seq []int) []Shape {
	if len(seq) == 0 {
		return []Shape{{}}
	}
	var out []Shape
	n := len(seq)
	for mask := 0; mask < 1<<(n-1); mask++ {
		// bit i set = frame i+1 is inlined into the same location as frame i
		ok := true
		var sh Shape
		cur := []int{seq[0]}
		for i := 1; i < n; i++ {
			if mask&(1<<(i-1)) != 0 {
				if sigma[seq[i]].Unsym || sigma[seq[i-1]].Unsym {
					ok = false
					break
				}
				cur = append(cur, seq[i])
			} else {
				sh = append(sh, cur)
				cur = []int{seq[i]}
			}
		}
		if !ok {
			continue
		}
		sh = append(sh, cur)
		out = append(out, sh)
	}
	return out
}

// Stack builds the abstract stack of a shape. The address of a location is a
// function of its contents, so equal groups are one shared location.
func (s Shape) Stack(sigma []Kind, values []int64) ap.Stack {
	st := ap.Stack{Values: append([]int64(nil), values...)}
	for _, g := range s {
		l := ap.Loc{Map: sigma[g[0]].Map}
		code := uint64(0)
		for _, k := range g {
			code = code*uint64(len(sigma)+1) + uint64(k+1)
			if !sigma[k].Unsym {
				l.Lines = append(l.Lines, sigma[k].Line)
			}
		}
		base := uint64(0x1000)
		if l.Map == 1 {
			base = 0x8000
		}
		l.Addr = base + 0x10*code
		st.Locs = append(st.Locs, l)
	}
	return st
}
