package c13

import (
	"fmt"
	"strings"
)

// Sym is one line of `nm --numeric-sort --print-size --format=posix`.
type Sym struct {
	Name string
	Type string // nm type letter
	Addr uint64 // link-time address
	Size uint64
}

func isData(t string) bool { return strings.ContainsAny(t, "bBdDrRvVW") }

// nmText prints a table the way nm does.
func nmText(t []Sym) string {
	var b strings.Builder
	for _, s := range t {
		fmt.Fprintf(&b, "%s %s %016x %016x\n", s.Name, s.Type, s.Addr, s.Size)
	}
	return b.String()
}

// Lookup verdicts.
type lookupWant struct {
	names  map[string]bool // acceptable non-nil answers
	nilOK  bool
	reason string // why nil is acceptable
}

// refLookup is the reference: the symbol with the greatest start not above a;
// a data symbol only within its size. Symbols with equal starts are
// interchangeable. No answer is acceptable below the first start, at or beyond
// the end of the table's last symbol (nothing is known there), or when a
// candidate is a data symbol not containing a.
func refLookup(t []Sym, a uint64) lookupWant {
	w := lookupWant{names: map[string]bool{}}
	have := false
	var g uint64
	for _, s := range t {
		if s.Addr <= a && (!have || s.Addr > g) {
			g, have = s.Addr, true
		}
	}
	if !have {
		w.nilOK, w.reason = true, "below-first"
		return w
	}
	for _, s := range t {
		if s.Addr != g {
			continue
		}
		if isData(s.Type) && a >= s.Addr+s.Size {
			w.nilOK, w.reason = true, "outside-data-symbol"
			continue
		}
		w.names[s.Name] = true
	}
	// beyond the end of the last symbol(s) of the table
	var mx uint64
	for _, s := range t {
		if s.Addr > mx {
			mx = s.Addr
		}
	}
	for _, s := range t {
		if s.Addr == mx && a >= s.Addr+s.Size {
			if !w.nilOK {
				w.reason = "beyond-last-end"
			}
			w.nilOK = true
		}
	}
	return w
}

// EachTable enumerates all tables of 0..n symbols, sorted by address
// (non-decreasing; every order of the other attributes among equal addresses),
// over the given alphabets.
func EachTable(n int, addrs, sizes []uint64, types []string, f func(idx int64, t []Sym) bool) int64 {
	var idx int64
	per := len(sizes) * len(types)
	for k := 0; k <= n; k++ {
		t := make([]Sym, k)
		var rec func(pos, minA int) bool
		rec = func(pos, minA int) bool {
			if pos == k {
				ok := f(idx, t)
				idx++
				return ok
			}
			for ai := minA; ai < len(addrs); ai++ {
				for v := 0; v < per; v++ {
					t[pos] = Sym{Name: fmt.Sprintf("s%d", pos), Type: types[v%len(types)], Addr: addrs[ai], Size: sizes[v/len(types)]}
					if !rec(pos+1, ai) {
						return false
					}
				}
			}
			return true
		}
		if !rec(0, 0) {
			return idx
		}
	}
	return idx
}
