package c13

import (
	"debug/elf"
	"fmt"
	"sort"
)

// ---------------------------------------------------------------------------
// Loader model: what a linker emits and what the system loader makes of it.
// ---------------------------------------------------------------------------

const (
	page = 0x1000
	huge = 0x200000
)

func down(x, a uint64) uint64 { return x &^ (a - 1) }
func up(x, a uint64) uint64   { return (x + a - 1) &^ (a - 1) }

// Seg is one PT_LOAD segment.
type Seg struct{ Off, Vaddr, Filesz, Memsz uint64 }

// Placement styles of a segment after its predecessor.
const (
	gapContigPage = iota // file-contiguous, next virtual page (off = vaddr mod 4K); shares a file page
	gapContigHuge        // file-contiguous, next 2M boundary (off = vaddr mod 2M); shares a file page
	gapSepPage           // file offset and vaddr rounded up to a page (separate-code)
	gapSepHuge           // file offset and vaddr rounded up to 2M (huge-page aligned)
	nGaps
)

var gapName = [...]string{"contig+4K", "contig+2M", "aligned4K", "aligned2M"}

// Bss variants.
const (
	bssNone      = iota
	bssLastSmall // last segment, +0x20 (inside its last page)
	bssLastBig   // last segment, +0x3000
	bssMidSmall  // segment n-2, +0x20: its memory extent overlaps the next segment's file range
	bssMidBig    // segment n-2, +0x3000
	bssPureEnd   // extra PT_LOAD with Filesz 0 placed after the file image
	bssPureZero  // extra PT_LOAD with Filesz 0 and file offset 0 (offset of such headers is arbitrary)
	nBss
)

var bssName = [...]string{"none", "last+0x20", "last+0x3000", "mid+0x20", "mid+0x3000", "pure-bss@end", "pure-bss@0"}

var sizeAlphabet = []uint64{0x80, 0x6fc, 0x1000, 0x1800, 0x2400}
var v0Alphabet = []uint64{0, 0x200000, 0x400000}

// Layout is the generator coordinate of one linked file.
type Layout struct {
	Dyn   bool
	V0    uint64
	Sizes []uint64
	Gaps  []int
	Bss   int
}

func (l *Layout) String() string {
	t := "EXEC"
	if l.Dyn {
		t = "DYN"
	}
	g := []string{}
	for _, x := range l.Gaps {
		g = append(g, gapName[x])
	}
	return fmt.Sprintf("%s v0=%#x sizes=%x gaps=%v bss=%s", t, l.V0, l.Sizes, g, bssName[l.Bss])
}

// Segs lays the segments out.
func (l *Layout) Segs() []Seg {
	n := len(l.Sizes)
	segs := make([]Seg, 0, n+1)
	for k := 0; k < n; k++ {
		s := Seg{Filesz: l.Sizes[k], Memsz: l.Sizes[k]}
		if k == 0 {
			s.Off, s.Vaddr = 0, l.V0
		} else {
			p := segs[k-1]
			fend, vend := p.Off+p.Filesz, p.Vaddr+p.Memsz
			switch l.Gaps[k-1] {
			case gapContigPage:
				s.Off = fend
				s.Vaddr = up(vend, page) + s.Off%page
			case gapContigHuge:
				s.Off = fend
				s.Vaddr = up(vend, huge) + s.Off%huge
			case gapSepPage:
				s.Off = up(fend, page)
				s.Vaddr = up(vend, page)
			case gapSepHuge:
				s.Off = up(fend, huge)
				s.Vaddr = up(vend, huge)
			}
		}
		switch {
		case l.Bss == bssLastSmall && k == n-1, l.Bss == bssMidSmall && k == n-2:
			s.Memsz += 0x20
		case l.Bss == bssLastBig && k == n-1, l.Bss == bssMidBig && k == n-2:
			s.Memsz += 0x3000
		}
		segs = append(segs, s)
	}
	if l.Bss == bssPureEnd || l.Bss == bssPureZero {
		p := segs[n-1]
		s := Seg{Off: p.Off + p.Filesz, Vaddr: up(p.Vaddr+p.Memsz, page) + (p.Off+p.Filesz)%page, Filesz: 0, Memsz: 0x2000}
		if l.Bss == bssPureZero {
			s.Off = 0
			s.Vaddr = up(p.Vaddr+p.Memsz, page)
		}
		segs = append(segs, s)
	}
	for _, s := range segs {
		if s.Off%page != s.Vaddr%page {
			panic(fmt.Sprintf("c13 model: offset and vaddr not congruent: %+v in %v", s, l))
		}
	}
	return segs
}

// EachLayout enumerates the layouts with nmin..nmax sized segments, simplest
// first. Layouts of up to mixUpTo segments take every combination of placement
// styles per gap; larger ones one style for all their gaps. The callback gets a
// running index.
func EachLayout(nmin, nmax, mixUpTo int, sizes []uint64, f func(idx int64, l *Layout) bool) int64 {
	var idx int64
	for n := nmin; n <= nmax; n++ {
		allGaps := n <= mixUpTo
		nsz := 1
		for i := 0; i < n; i++ {
			nsz *= len(sizes)
		}
		ngap := 1
		if n > 1 {
			ngap = nGaps
			if allGaps {
				for i := 2; i < n; i++ {
					ngap *= nGaps
				}
			}
		}
		for si := 0; si < nsz; si++ {
			sz := make([]uint64, n)
			for i, x := 0, si; i < n; i++ {
				sz[i] = sizes[x%len(sizes)]
				x /= len(sizes)
			}
			for gi := 0; gi < ngap; gi++ {
				gaps := make([]int, n-1)
				for i, x := 0, gi; i < n-1; i++ {
					if allGaps {
						gaps[i] = x % nGaps
						x /= nGaps
					} else {
						gaps[i] = gi
					}
				}
				for bss := 0; bss < nBss; bss++ {
					if (bss == bssMidSmall || bss == bssMidBig) && n < 2 {
						continue
					}
					for _, dyn := range []bool{false, true} {
						v0s := v0Alphabet
						if !dyn {
							// a fixed-address executable linked high in the user half of the address space
							// (5-level paging, arm64/s390x layouts): still user space, still the same formula
							v0s = append(append([]uint64{}, v0Alphabet...), 1<<48)
						}
						for _, v0 := range v0s {
							if !dyn && v0 == 0 {
								continue // a fixed-address executable is never linked at page 0
							}
							l := &Layout{Dyn: dyn, V0: v0, Sizes: sz, Gaps: gaps, Bss: bss}
							if !f(idx, l) {
								return idx
							}
							idx++
						}
					}
				}
			}
		}
	}
	return idx
}

// Biases returns the page-aligned load biases tried for a layout. A
// fixed-address executable is loaded where it was linked. For a shared object:
// the usual PIE and library areas, zero (loaded at its preferred address, as
// prelinked objects are), two small biases, and a negative one.
func (l *Layout) Biases() []uint64 {
	if !l.Dyn {
		return []uint64{0}
	}
	out := []uint64{0x555555554000, 0x7f0000000000, 1 << 48}
	for _, b := range []uint64{0, 0x1000, 0x200000, ^uint64(huge) + 1} {
		lo := l.V0 + b // start of the lowest mapping
		if lo == 0 || lo >= 1<<62 {
			continue // nothing is mapped at page 0; no wrap-around
		}
		out = append(out, b)
	}
	return out
}

// Mapping is a runtime mapping of a piece of the file.
type Mapping struct{ Start, Limit, Offset uint64 }

// Image is the whole-segment file mapping the loader creates for segment s
// under a bias, in link-time addresses: [vs, ve) at file offset off. A segment
// without file contents has none (its memory is anonymous).
func (s Seg) Image() (vs, ve, off uint64, ok bool) {
	if s.Filesz == 0 {
		return 0, 0, 0, false
	}
	return down(s.Vaddr, page), up(s.Vaddr+s.Filesz, page), down(s.Off, page), true
}

// Pieces returns every run of consecutive pages of a segment image: the whole
// mapping first, then every piece any split at interior page boundaries can
// produce. Link-time coordinates (ps, pe, file offset).
func (s Seg) Pieces() [][3]uint64 {
	vs, ve, off, ok := s.Image()
	if !ok {
		return nil
	}
	n := (ve - vs) / page
	out := [][3]uint64{{vs, ve, off}}
	for ln := n - 1; ln >= 1; ln-- {
		for i := uint64(0); i+ln <= n; i++ {
			out = append(out, [3]uint64{vs + i*page, vs + (i+ln)*page, off + i*page})
		}
	}
	return out
}

// Addrs returns the link-time addresses probed inside piece [ps, pe) of
// segment s: both ends, +-1 around every page edge, around the segment's
// start, the end of its file contents and the end of its memory, the middle.
func (s Seg) Addrs(ps, pe uint64) []uint64 {
	c := []uint64{ps, ps + 1, pe - 1, pe - 2, ps + (pe-ps)/2 + 4,
		s.Vaddr - 1, s.Vaddr, s.Vaddr + 1,
		s.Vaddr + s.Filesz - 1, s.Vaddr + s.Filesz, s.Vaddr + s.Filesz + 1,
		s.Vaddr + s.Memsz - 1, s.Vaddr + s.Memsz}
	for p := ps + page; p < pe; p += page {
		c = append(c, p-1, p, p+1)
	}
	sort.Slice(c, func(i, j int) bool { return c[i] < c[j] })
	out := c[:0]
	for i, a := range c {
		if a < ps || a >= pe || (i > 0 && a == c[i-1]) {
			continue
		}
		out = append(out, a)
	}
	return out
}

// Kind of an address of a mapping of segment k.
const (
	kindUnique    = iota // inside the segment; its file offset lies in no other segment's extent
	kindNonUnique        // inside the segment; its file offset also lies in another segment's extent
	kindPadding          // in the mapping but outside the segment (page rounding): loaded from no link-time address
)

// Classify says what link-time address la of a mapping of segment k is.
// "Extent" of a segment in the file is [Off, Off+Memsz) for segments with file
// contents: a symbolization binary may have been stripped of contents, so the
// memory size is what can be trusted.
func Classify(segs []Seg, k int, la uint64) int {
	s := segs[k]
	if la < s.Vaddr || la >= s.Vaddr+s.Memsz {
		return kindPadding
	}
	fo := s.Off + (la - s.Vaddr)
	owners := 0
	for _, t := range segs {
		if t.Filesz > 0 && fo >= t.Off && fo < t.Off+t.Memsz {
			owners++
		}
	}
	if owners > 1 {
		return kindNonUnique
	}
	return kindUnique
}

// ---------------------------------------------------------------------------
// Concretisation as debug/elf structures.
// ---------------------------------------------------------------------------

// ELF builds the file header and program headers of a layout with segment x
// as the executable one. Non-loadable headers a linker also emits (PT_PHDR,
// PT_DYNAMIC/PT_GNU_RELRO over the last segment, PT_GNU_STACK) are included.
func ELF(l *Layout, segs []Seg, x int) (*elf.File, []elf.ProgHeader) {
	ef := &elf.File{}
	ef.Type = elf.ET_EXEC
	if l.Dyn {
		ef.Type = elf.ET_DYN
	}
	ef.Class, ef.Data, ef.Machine = elf.ELFCLASS64, elf.ELFDATA2LSB, elf.EM_X86_64
	var hs []elf.ProgHeader
	hs = append(hs, elf.ProgHeader{Type: elf.PT_PHDR, Flags: elf.PF_R, Off: 0x40, Vaddr: l.V0 + 0x40, Paddr: l.V0 + 0x40, Filesz: 0x40, Memsz: 0x40, Align: 8})
	for k, s := range segs {
		fl := elf.PF_R
		switch {
		case k == x:
			fl |= elf.PF_X
			if s.Memsz > s.Filesz {
				fl |= elf.PF_W
			}
		case k > x || s.Memsz > s.Filesz:
			fl |= elf.PF_W
		}
		al := uint64(page)
		if k > 0 && k-1 < len(l.Gaps) && (l.Gaps[k-1] == gapContigHuge || l.Gaps[k-1] == gapSepHuge) {
			al = huge
		}
		hs = append(hs, elf.ProgHeader{Type: elf.PT_LOAD, Flags: fl, Off: s.Off, Vaddr: s.Vaddr, Paddr: s.Vaddr, Filesz: s.Filesz, Memsz: s.Memsz, Align: al})
	}
	last := segs[len(l.Sizes)-1]
	dsz := last.Filesz
	if dsz > 0x40 {
		dsz = 0x40
	}
	hs = append(hs, elf.ProgHeader{Type: elf.PT_DYNAMIC, Flags: elf.PF_R | elf.PF_W, Off: last.Off, Vaddr: last.Vaddr, Paddr: last.Vaddr, Filesz: dsz, Memsz: dsz, Align: 8})
	hs = append(hs, elf.ProgHeader{Type: elf.PT_GNU_RELRO, Flags: elf.PF_R, Off: last.Off, Vaddr: last.Vaddr, Paddr: last.Vaddr, Filesz: dsz, Memsz: dsz, Align: 1})
	hs = append(hs, elf.ProgHeader{Type: elf.PT_GNU_STACK, Flags: elf.PF_R | elf.PF_W, Align: 16})
	for i := range hs {
		ef.Progs = append(ef.Progs, &elf.Prog{ProgHeader: hs[i]})
	}
	return ef, hs
}

// ---------------------------------------------------------------------------
// Witness rendering.
// ---------------------------------------------------------------------------

// Witness is a failing (or sampled) case, printed in hex.
type Witness struct {
	Layout  string   `json:"layout"`
	Type    string   `json:"type"`
	Loads   []string `json:"pt_load"`
	ExecSeg int      `json:"exec_segment"`
	Bias    string   `json:"bias"`
	Mapping string   `json:"mapping"`
	Split   bool     `json:"split"`
	First   string   `json:"first_address,omitempty"`
	Addr    string   `json:"address"`
	Want    string   `json:"link_time_address"`
	Kind    string   `json:"address_kind"`
	Via     string   `json:"via"`
}

var kindName = [...]string{"in segment, owner unique", "in segment, file offset in the extent of another segment", "page padding outside the segment"}

func mkWitness(l *Layout, segs []Seg, x int, bias uint64, m Mapping, split bool, addr uint64, kind int, via string) *Witness {
	w := &Witness{Layout: l.String(), Type: "ET_EXEC", ExecSeg: x, Bias: fmt.Sprintf("%#x", bias),
		Mapping: fmt.Sprintf("start=%#x limit=%#x offset=%#x", m.Start, m.Limit, m.Offset), Split: split,
		Addr: fmt.Sprintf("%#x", addr), Want: fmt.Sprintf("%#x", addr-bias), Kind: kindName[kind], Via: via}
	if l.Dyn {
		w.Type = "ET_DYN"
	}
	for _, s := range segs {
		w.Loads = append(w.Loads, fmt.Sprintf("off=%#x vaddr=%#x filesz=%#x memsz=%#x", s.Off, s.Vaddr, s.Filesz, s.Memsz))
	}
	return w
}
