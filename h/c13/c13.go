// Package c13: sample addresses map to the right link-time address in ELF
// binaries.
//
// A loader model (ELF type, 1..4 linker-shaped PT_LOAD segments, a page-aligned
// load bias, the file mappings mmap creates for a segment, whole or any run of
// its pages, and the addresses around every edge of the mapping and of the
// segment) is enumerated exhaustively and pushed through the real code:
// directly through elfexec.ProgramHeadersForMapping / HeaderForFileOffset /
// GetBase, through binutils' openELF + file.ObjAddr with a synthetic *elf.File
// behind elfOpen, and down to the tool seam (nm table, addr2line and
// llvm-symbolizer behind a mock lineReaderWriter). The oracle is the model's
// "runtime address - bias"; an error is accepted only where the model says the
// owning segment is not unique; any other address is a violation.
//
// A second part enumerates all small sorted nm symbol tables and all addresses
// on a grid and compares addrInfo with the definition of the lookup.
package c13

import (
	"debug/elf"
	"errors"
	"fmt"
	"runtime/debug"
	"strconv"
	"strings"

	"github.com/google/pprof/internal/binutils"
	"github.com/google/pprof/internal/elfexec"
	"github.com/google/pprof/internal/plugin"

	"github.com/google/pprof/verifh/reg"
	"github.com/google/pprof/verifh/vk"
)

func init() { reg.Register("C13", Run) }

// Run is the check.
func Run(c *vk.Ctx) {
	// The live heap is tiny and every case allocates a few short-lived objects
	// inside pprof: collect less often.
	defer debug.SetGCPercent(debug.SetGCPercent(2000))
	runTranslate(c)
	runToolSeam(c)
	runNMProcess(c)
	runSymtab(c)
}

// ---------------------------------------------------------------------------
// Part 1: address translation.
// ---------------------------------------------------------------------------

var errNoHeader = errors.New("no program header matches mapping info")

// outcome of one translation.
type res struct {
	v   uint64
	err bool
}

func (r res) String() string {
	if r.err {
		return "error"
	}
	return fmt.Sprintf("%#x", r.v)
}

// direct translates through the three exported elfexec functions, composed the
// way their documentation says (candidate headers of the mapping; the sample's
// file offset picks one if there are several; base from that header).
func direct(fh *elf.FileHeader, cands []*elf.ProgHeader, m Mapping, addr uint64) res {
	var ph *elf.ProgHeader
	switch len(cands) {
	case 0:
		return res{err: true}
	case 1:
		ph = cands[0]
	default:
		var err error
		if ph, err = elfexec.HeaderForFileOffset(cands, addr-m.Start+m.Offset); err != nil {
			return res{err: true}
		}
	}
	base, err := elfexec.GetBase(fh, ph, nil, m.Start, m.Limit, m.Offset)
	if err != nil {
		return res{err: true}
	}
	return res{v: addr - base}
}

const binName = "/c13/bin"

func open(fast bool, m Mapping) (plugin.ObjFile, bool) {
	o, err := binutils.VerifOpenELF(binName, fast, m.Start, m.Limit, m.Offset)
	return o, err == nil
}

func objAddr(o plugin.ObjFile, ok bool, addr uint64) res {
	if !ok {
		return res{err: true}
	}
	v, err := o.ObjAddr(addr)
	if err != nil {
		return res{err: true}
	}
	return res{v: v}
}

// judge applies the oracle to one translation of an address of kind k. It
// returns "" or the violation class suffix.
func judge(kind int, dyn, split, coincide bool, want uint64, r res) string {
	if kind == kindPadding {
		return "" // loaded from no link-time address: the statement fixes nothing
	}
	t := "exec"
	if dyn {
		t = "dyn"
	}
	sp := ".whole-mapping"
	if split {
		sp = ".split-mapping"
	}
	co := ""
	if coincide {
		// structural predicate of the witness: the mapping's start minus its file
		// offset happens to equal the segment's link-time address (the bias equals
		// the segment's page-aligned file offset)
		co = ".start-minus-offset-equals-segment-vaddr"
	}
	switch {
	case r.err && kind == kindUnique:
		return "error-although-segment-unique/" + t + sp + co
	case r.err:
		return ""
	case r.v != want:
		return "wrong-address/" + t + sp + co
	}
	return ""
}

func a2lAnswer(in string) []string {
	if in == "ffffffffffffffff" {
		return []string{"0xffffffffffffffff", "??", "??:0"}
	}
	return []string{"0x" + in, "L" + in, "src.c:7"}
}

func llvmAnswer(in string) []string {
	f := strings.Fields(in)
	a := f[len(f)-1]
	return []string{`{"Address":"` + a + `","ModuleName":"` + f[0] + `","Symbol":[{"Line":7,"Column":1,"FunctionName":"L` + strings.TrimPrefix(a, "0x") + `","FileName":"src.c","StartLine":3}]}`}
}

// toolSaw extracts the address a tool was asked about from the first line
// written to it.
func toolSaw(kind string, rw *binutils.VerifRW) (uint64, bool) {
	if len(rw.Written) == 0 {
		return 0, false
	}
	s := rw.Written[0]
	if kind == "llvm" {
		f := strings.Fields(s)
		if len(f) != 2 || f[0] != binName || !strings.HasPrefix(f[1], "0x") {
			return 0, false
		}
		s = f[1][2:]
	}
	v, err := strconv.ParseUint(s, 16, 64)
	return v, err == nil
}

func runTranslate(c *vk.Ctx) {
	nmax, mixUpTo := 3, 2
	if c.Thorough() {
		nmax, mixUpTo = 4, 3
	}
	c.Note(fmt.Sprintf("translation: ELF type {EXEC, DYN}; 1..%d PT_LOAD segments; first vaddr %x; file sizes %x; placement of each next segment %v (%s); bss %v; every segment in turn as the executable one; bias: EXEC 0, DYN {0x555555554000, 0x7f0000000000, 0, 0x1000, 0x200000, -0x200000} where the lowest mapping stays above page 0; mappings: the page-rounded file mapping of the segment and every run of its pages; addresses: both ends, +-1 around every page edge, around segment start / end of file contents / end of memory, middle; each address through elfexec directly, through openELF+ObjAddr on a fresh object, as the first address of an object followed by the ends of the mapping and the first/last uniquely owned and first not uniquely owned address, and (whole mapping and its last page) through the nm / addr2line / llvm-symbolizer seams",
		nmax, v0Alphabet, sizeAlphabet, gapName, fmt.Sprintf("all combinations up to %d segments, one style per layout above", mixUpTo), bssName))

	var nmText0 string
	total := EachLayout(1, nmax, mixUpTo, sizeAlphabet, func(idx int64, l *Layout) bool {
		if !c.Mine(idx) {
			return true
		}
		if c.Expired() {
			c.Cap(fmt.Sprintf("time budget: translation stopped at layout index %d", idx))
			return false
		}
		segs := l.Segs()
		c.Count("translate/layouts", 1)
		interesting := false
		for x := range segs {
			if segs[x].Filesz == 0 {
				continue
			}
			ef, hs := ELF(l, segs, x)
			binutils.VerifSetELF(ef)
			// nm table: one symbol per segment, the executable one a function.
			var syms []Sym
			for k, s := range segs {
				ty := "D"
				if k == x {
					ty = "T"
				}
				syms = append(syms, Sym{Name: fmt.Sprintf("seg%d", k), Type: ty, Addr: s.Vaddr, Size: s.Memsz})
			}
			nmText0 = nmText(syms)
			wantSym := fmt.Sprintf("seg%d", x)

			pieces := segs[x].Pieces()
			for _, bias := range l.Biases() {
				for pi, p := range pieces {
					split := pi > 0
					// the tool seams see only (base, address): the whole mapping and its
					// last single page suffice
					toolsHere := pi == 0 || pi == len(pieces)-1
					m := Mapping{Start: p[0] + bias, Limit: p[1] + bias, Offset: p[2]}
					las := segs[x].Addrs(p[0], p[1])
					kinds := make([]int, len(las))
					for i, la := range las {
						kinds[i] = Classify(segs, x, la)
					}
					// followers of a first address (the object keeps the base of its first
					// address, so a few suffice): both ends of the mapping, the first and
					// last address owned uniquely, the first one not owned uniquely.
					followers := []int{0, len(las) - 1}
					fu, lu, fn := -1, -1, -1
					for i, k := range kinds {
						if k == kindUnique {
							if fu < 0 {
								fu = i
							}
							lu = i
						}
						if k == kindNonUnique && fn < 0 {
							fn = i
						}
					}
					for _, i := range []int{fu, lu, fn} {
						if i > 0 && i < len(las)-1 && (len(followers) < 3 || followers[len(followers)-1] != i) {
							followers = append(followers, i)
						}
					}
					cands := elfexec.ProgramHeadersForMapping(hs, m.Offset, m.Limit-m.Start)
					coincide := m.Start-m.Offset == segs[x].Vaddr
					c.Count("translate/mappings", 1)
					if split {
						c.Count("translate/mappings.split", 1)
					}
					if len(cands) > 1 {
						c.Count("translate/mappings.several-candidate-segments", 1)
						interesting = true
					}
					reportf := func(class string, i int, via string, first int, format string, args ...any) {
						if c.HasViolation(class) {
							c.Violation(class, nil, "")
							return
						}
						w := mkWitness(l, segs, x, bias, m, split, las[i]+bias, kinds[i], via)
						if first >= 0 {
							w.First = fmt.Sprintf("%#x (%s)", las[first]+bias, kindName[kinds[first]])
						}
						c.Violation(class, w, fmt.Sprintf(format, args...))
					}
					report := func(class string, i int, via string, first int, r res) {
						reportf(class, i, via, first, "want %#x (or an error only if the owning segment is not unique), got %v", las[i], r)
					}
					// (c0) an object first asked about an address just outside its mapping (the limit itself,
					// one below the start) never answers an address inside with a value other than the one a
					// fresh object gives. pprof computes the base once, from the first address, and keeps the
					// error if that address was out of range: a kept error is what the statement prefers to a
					// wrong address, so it is tolerated (and counted), like the kept error of (c)
					for _, out := range []uint64{m.Limit, m.Start - 1} {
						o0, ok0 := open(true, m)
						r0 := objAddr(o0, ok0, out)
						c.Eval()
						for _, j := range followers {
							fo, fok := open(true, m)
							want := objAddr(fo, fok, las[j]+bias)
							got := objAddr(o0, ok0, las[j]+bias)
							c.Eval()
							if got.err && r0.err {
								if !want.err {
									c.Count("sequence/error-kept-after-first-address-outside-the-mapping(tolerated)", 1)
								}
								continue
							}
							if got != want {
								reportf("sequence/answer-changed-by-earlier-address-outside-the-mapping", j, "binutils openELF+ObjAddr after ObjAddr of an address outside the mapping", -1,
									"first asked about %#x (outside [%#x,%#x), answer %v); then %#x: fresh object says %v, this object %v", out, m.Start, m.Limit, r0, las[j]+bias, want, got)
							}
						}
						c.Count("sequence/outside-first", 1)
					}
					for i, la := range las {
						addr, kind := la+bias, kinds[i]
						// (a) elfexec directly
						rd := direct(&ef.FileHeader, cands, m, addr)
						c.Eval()
						switch {
						case kind == kindPadding:
							c.Count("translate/padding-address", 1)
							switch {
							case rd.err:
								c.Outcome("padding:error")
							case rd.v == la:
								c.Outcome("padding:exact")
							default:
								c.Outcome("padding:other")
								c.Count("translate/padding-address.other-result(tolerated)", 1)
							}
						case rd.err:
							c.Outcome(kindName[kind] + ":error")
						case rd.v == la:
							c.Outcome(kindName[kind] + ":exact")
							c.Count("translate/exact", 1)
						}
						if kind == kindNonUnique {
							interesting = true
							c.Count("translate/segment-not-unique", 1)
							if rd.err {
								c.Count("translate/segment-not-unique.error", 1)
								if c.WantSample() && c.Counter("sampled-nonunique") == 0 {
									c.Count("sampled-nonunique", 1)
									c.Sample(mkWitness(l, segs, x, bias, m, split, addr, kind, "elfexec: error (accepted)"))
								}
							}
						}
						if cl := judge(kind, l.Dyn, split, coincide, la, rd); cl != "" {
							report("translate/"+cl, i, "elfexec.ProgramHeadersForMapping+HeaderForFileOffset+GetBase", -1, rd)
						}
						// (b) binutils: openELF + ObjAddr on a fresh object
						o, ok := open(true, m)
						ro := objAddr(o, ok, addr)
						c.Eval()
						if ro != rd {
							c.Count("objaddr/differs-from-elfexec", 1)
							if cl := judge(kind, l.Dyn, split, coincide, la, ro); cl != "" {
								report("objaddr/"+cl, i, "binutils openELF+ObjAddr", -1, ro)
							}
						}
						// (c) the same object asked about every other address afterwards
						for _, j := range followers {
							if j == i {
								continue
							}
							lb := las[j]
							rs := objAddr(o, ok, lb+bias)
							c.Eval()
							if ro.err {
								// The object could not place its first address and keeps
								// failing (no address is ever reported). If the first address
								// was a unique one this was reported above; otherwise the
								// statement allows the first error and the followers are
								// tolerated, but counted.
								if rs.err && kinds[j] == kindUnique && kind != kindUnique {
									c.Count("sequence/error-kept-after-unplaceable-first-address(tolerated)", 1)
								}
								if rs.err {
									continue
								}
							}
							if kind == kindPadding {
								if !rs.err && rs.v != lb && kinds[j] != kindPadding {
									c.Count("sequence/wrong-after-first-address-in-padding(tolerated)", 1)
								}
								continue
							}
							if !ro.err && ro.v != la {
								continue // the first address was already reported; the base is kept
							}
							if cl := judge(kinds[j], l.Dyn, split, coincide, lb, rs); cl != "" {
								report("sequence/"+cl, j, "binutils openELF+ObjAddr, second address of the object", i, rs)
							}
						}
						if ro.err || kind == kindPadding || !toolsHere {
							continue
						}
						// (d) nm flavour: table installed with the object's base
						if err := binutils.VerifAttachNM(o, nmText0); err == nil {
							fr, err := o.SourceLine(addr)
							c.Eval()
							if ro.v == la && (err != nil || len(fr) != 1 || fr[0].Func != wantSym) {
								reportf("tool/nm/symbol-of-other-segment", i, "fileNM.SourceLine", -1, "ObjAddr gave %#x; nm table (link-time addresses) %q; want symbol %s, got frames %v err %v", ro.v, nmText0, wantSym, fr, err)
							}
						}
						// (e) addr2line and llvm-symbolizer flavours
						for _, tool := range []string{"addr2line", "llvm", "addr2line+nm"} {
							o2, ok2 := open(false, m)
							r2 := objAddr(o2, ok2, addr)
							if r2 != ro {
								reportf("tool/"+tool+"/objaddr-differs-between-flavours", i, "fileAddr2Line.ObjAddr", -1, "fileNM.ObjAddr gave %v, fileAddr2Line.ObjAddr %v", ro, r2)
								continue
							}
							rw := &binutils.VerifRW{Answer: a2lAnswer}
							if tool == "llvm" {
								rw.Answer = llvmAnswer
							}
							binutils.VerifAttachTool(o2, strings.TrimSuffix(tool, "+nm"), rw)
							wantFunc := fmt.Sprintf("L%x", ro.v)
							if tool == "addr2line+nm" {
								// addr2line with the nm table that improves its names: the table holds run-time
								// addresses, and a longer nm name replaces the one addr2line gave
								var long []Sym
								for _, sy := range syms {
									long = append(long, Sym{Name: "name_known_to_nm_only_" + sy.Name, Type: sy.Type, Addr: sy.Addr, Size: sy.Size})
								}
								if binutils.VerifAttachToolNM(o2, nmText(long)) != nil || ro.v != la {
									continue
								}
								wantFunc = "name_known_to_nm_only_" + wantSym
							}
							fr, err := o2.SourceLine(addr)
							c.Eval()
							saw, okSaw := toolSaw(tool, rw)
							if !okSaw || saw != ro.v {
								reportf("tool/"+tool+"/address-sent-differs-from-objaddr", i, "fileAddr2Line.SourceLine", -1, "ObjAddr gave %#x, the tool was sent %q", ro.v, rw.Written)
								continue
							}
							if err != nil || len(fr) != 1 || fr[0].Func != wantFunc || fr[0].Line != 7 {
								reportf("tool/"+tool+"/answer-lost", i, "fileAddr2Line.SourceLine", -1, "the tool answered function L%x line 7 for %#x (want function %s); got frames %v err %v", ro.v, ro.v, wantFunc, fr, err)
							}
						}
					}
				}
			}
		}
		if interesting {
			c.Nontrivial(fmt.Sprint(idx))
		}
		return true
	})
	if c.Shard == 0 {
		c.Count("translate/layouts-in-space", total)
	}
}

// runToolSeam drives the two tool wrappers directly over a product of bases and
// addresses: the address sent is addr-base modulo 2^64.
func runToolSeam(c *vk.Ctx) {
	bases := []uint64{0, 0x1000, 0x400000, 0x555555554000, 0x7f0000000000, ^uint64(huge) + 1, 0xffffffff80000000}
	links := []uint64{0, 1, 0xfff, 0x1000, 0x400000, 0x401abc, 0x7fffffffffff, 0xffffffff81000198, ^uint64(0) - 1}
	var idx int64
	for _, b := range bases {
		for _, la := range links {
			idx++
			if !c.Mine(idx) {
				continue
			}
			addr := la + b
			for _, tool := range []string{"addr2line", "llvm"} {
				rw := &binutils.VerifRW{Answer: a2lAnswer}
				var fr []plugin.Frame
				var err error
				if tool == "llvm" {
					rw.Answer = llvmAnswer
					fr, err = binutils.VerifLLVMAddrInfo(rw, binName, b, addr)
				} else {
					fr, err = binutils.VerifAddr2LineAddrInfo(rw, b, addr)
				}
				c.Eval()
				c.Count("toolseam/cases", 1)
				saw, ok := toolSaw(tool, rw)
				if !ok || saw != la || err != nil || len(fr) != 1 || fr[0].Func != fmt.Sprintf("L%x", la) {
					c.Violationf("tool/"+tool+"/address-sent", map[string]string{"base": fmt.Sprintf("%#x", b), "addr": fmt.Sprintf("%#x", addr)},
						"want the tool to be asked about %#x, it was asked %q; frames %v err %v", la, rw.Written, fr, err)
				}
			}
		}
	}
}

// ---------------------------------------------------------------------------
// Part 2: symbol table lookup.
// ---------------------------------------------------------------------------

func runSymtab(c *vk.Ctx) {
	n := 3
	addrs := []uint64{0x1000, 0x1004, 0x1008, 0x1010}
	sizes := []uint64{0, 4, 8}
	types := []string{"T", "D"}
	if c.Thorough() {
		n = 4
		types = []string{"T", "D", "b"}
		sizes = []uint64{0, 4, 8, 0x10}
	}
	bases := []uint64{0, 0x555555554000}
	lo, hi := uint64(0xff8), uint64(0x1024)
	c.Note(fmt.Sprintf("symbol tables: all address-sorted tables of 0..%d symbols over addresses %x x sizes %x x nm types %v (equal addresses in every order), parsed from nm text with base in %x; lookups at every 4-byte step in [%#x, %#x] plus the bytes next to each symbol start and end", n, addrs, sizes, types, bases, lo, hi))
	table := func(idx int64, t []Sym) bool {
		if !c.Mine(idx) {
			return true
		}
		if idx%1024 == 0 && c.Expired() {
			c.Cap(fmt.Sprintf("time budget: symbol tables stopped at index %d", idx))
			return false
		}
		text := nmText(t)
		// lookup addresses
		var look []uint64
		for a := lo; a <= hi; a += 4 {
			look = append(look, a)
		}
		for _, s := range t {
			look = append(look, s.Addr+1, s.Addr+s.Size-1, s.Addr+s.Size+1)
		}
		c.Count("symtab/tables", 1)
		for _, base := range bases {
			tab, err := binutils.VerifParseNM(base, text)
			if err != nil || tab.Len() != len(t) {
				c.Violationf("symtab/parse", map[string]any{"nm": text}, "parsed %v symbols of %d, err %v", tab, len(t), err)
				continue
			}
			for _, a := range look {
				want := refLookup(t, a)
				fr, err := tab.AddrInfo(a + base)
				c.Eval()
				wit := func() any {
					return map[string]any{"nm_output": strings.Split(strings.TrimSpace(text), "\n"), "base": fmt.Sprintf("%#x", base), "address": fmt.Sprintf("%#x", a+base), "link_time_address": fmt.Sprintf("%#x", a)}
				}
				names := func() []string {
					var o []string
					for k := range want.names {
						o = append(o, k)
					}
					return o
				}
				switch {
				case err != nil || len(fr) > 1:
					c.Violationf("symtab/error", wit(), "frames %v err %v", fr, err)
				case len(fr) == 0:
					if !want.nilOK {
						c.Violationf("symtab/no-answer", wit(), "no symbol returned; want one of %v", names())
					} else {
						c.Outcome("nil:" + want.reason)
						c.Count("symtab/nil."+want.reason, 1)
						if want.reason == "beyond-last-end" && len(want.names) > 0 {
							c.Count("symtab/nil.beyond-last-end.while-a-function-starts-at-or-below(tolerated)", 1)
						}
					}
				default:
					if !want.names[fr[0].Func] {
						pred := "function"
						for _, s := range t {
							if s.Name == fr[0].Func && isData(s.Type) {
								pred = "data"
							}
						}
						c.Violationf("symtab/wrong-symbol/"+pred, wit(), "got %s; want one of %v (nil acceptable: %v)", fr[0].Func, names(), want.nilOK)
					} else {
						c.Outcome("found")
						c.Count("symtab/found", 1)
					}
				}
			}
		}
		if len(t) >= 2 {
			c.Nontrivial("t" + fmt.Sprint(idx))
		}
		return true
	}
	last := EachTable(n, addrs, sizes, types, table)
	// every type letter nm prints, in the first and in a middle position of a table with gaps after it:
	// the documented data letters (bss, data, read-only, weak) answer only within their size
	for _, letter := range strings.Split("A B b C c D d G g I i N n p R r S s T t U u V v W w ? -", " ") {
		last++
		table(last, []Sym{{Name: "s0", Type: letter, Addr: 0x1000, Size: 4}, {Name: "s1", Type: "T", Addr: 0x1010, Size: 8}})
		last++
		table(last, []Sym{{Name: "s0", Type: "T", Addr: 0x1000, Size: 4}, {Name: "s1", Type: letter, Addr: 0x1008, Size: 4}, {Name: "s2", Type: "t", Addr: 0x1018, Size: 8}})
	}
	if c.Counter("symtab/found") == 0 || c.Counter("symtab/nil.outside-data-symbol") == 0 {
		c.Vacuous("symbol lookup never found a symbol or never rejected an address outside a data symbol")
	}
}
