package c13

import (
	"fmt"
	"os"
	"path/filepath"
	"strings"

	"github.com/google/pprof/internal/binutils"
	"github.com/google/pprof/verifh/drive"
	"github.com/google/pprof/verifh/vk"
)

// runNMProcess: the nm flavour with its process seam left in place. A shell
// script stands in for nm and prints the table of a position-independent binary
// with one loadable segment; the binary is opened for mappings at different load
// biases one after another in one process (two runs of a PIE in merged profiles,
// two processes in a system-wide profile): every history of <= 3 opens over the
// biases, each followed by a lookup of the segment's first and last address, must
// name the segment's symbol - whatever was opened before.
func runNMProcess(c *vk.Ctx) {
	if c.Shard != 0 {
		return
	}
	dir := filepath.Join(drive.Sandbox(), "c13nm")
	os.MkdirAll(dir, 0o755)
	var lay *Layout
	EachLayout(1, 1, 1, sizeAlphabet, func(idx int64, l *Layout) bool {
		if l.Dyn && l.Segs()[0].Filesz > 0x100 && lay == nil {
			cp := *l
			lay = &cp
		}
		return lay == nil
	})
	if lay == nil {
		c.Violation("harness/no-layout", nil, "no position-independent single-segment layout in the space")
		return
	}
	segs := lay.Segs()
	ef, _ := ELF(lay, segs, 0)
	binutils.VerifSetELF(ef)
	s := segs[0]
	table := nmText([]Sym{{Name: "seg0", Type: "T", Addr: s.Vaddr, Size: s.Memsz}})
	nm := filepath.Join(dir, "nm")
	// shell built-ins only: the worker runs with an empty PATH
	script := "#!/bin/sh\n"
	for _, l := range strings.Split(strings.TrimSuffix(table, "\n"), "\n") {
		script += "echo '" + l + "'\n"
	}
	if err := os.WriteFile(nm, []byte(script), 0o755); err != nil {
		c.Violation("harness/nm-script", nil, err.Error())
		return
	}
	p := s.Pieces()[0]
	var biases []uint64
	for _, b := range lay.Biases() {
		if len(biases) < 3 {
			biases = append(biases, b)
		}
	}
	var rec func(h []uint64)
	rec = func(h []uint64) {
		if len(h) > 0 {
			c.Eval()
			w := map[string]any{"layout": lay.String(), "biases_opened_in_order": fmt.Sprintf("%#x", h)}
			for k, bias := range h {
				o, err := binutils.VerifOpenELFNM(binName, nm, p[0]+bias, p[1]+bias, p[2])
				if err != nil {
					c.Violationf("harness/nm-open", w, "%v", err)
					return
				}
				for _, la := range []uint64{s.Vaddr, s.Vaddr + s.Filesz - 1} {
					fr, err := o.SourceLine(la + bias)
					if err != nil || len(fr) != 1 || fr[0].Func != "seg0" {
						c.Violationf("tool/nm-process/symbol-depends-on-earlier-opens", w, "open %d (bias %#x): address %#x (link-time %#x): want seg0, got frames %v err %v", k, bias, la+bias, la, fr, err)
						return
					}
				}
			}
			if len(h) >= 2 {
				c.Nontrivial(fmt.Sprintf("nmproc %x", h))
			}
			c.Count("nm-process/histories", 1)
		}
		if len(h) == 3 {
			return
		}
		for _, b := range biases {
			rec(append(append([]uint64(nil), h...), b))
		}
	}
	rec(nil)
}
