// Package c09: no profile content, option value or typed command crashes pprof.
//
// Families (all exhaustive over their menus):
//
//	A  odd-but-valid profiles (one odd attribute at a time; pairs in thorough),
//	   delivered as bytes through the parser, x every report command;
//	B  a rich profile x every option x its value menu (out-of-range numbers,
//	   broken regexps, ranges, unknown units, empty values) x every command
//	   (pairs of options in thorough);
//	C  list / weblist / disasm against a fake object tool answering from a menu
//	   (every answer sequence with <= 1 (2) non-default answers);
//	D  interactive histories of <= 2 (3) lines over a command grammar plus noise,
//	   each followed by a sentinel command that must still answer;
//	E  every web handler x a query-string menu, then a sentinel request;
//	F  odd profiles x the options acting on the fetched profile; G option pairs
//	   on a diamond call graph; H list/weblist/disasm/peek with address arguments.
//
// Oracle: the outcome is output or an error; no panic (also none in goroutines
// pprof starts itself: each case is journalled so that a dying worker is
// attributed to it), and the session stays usable.
package c09

import (
	"errors"
	"fmt"
	"regexp"
	"strings"

	"github.com/google/pprof/internal/plugin"
	"github.com/google/pprof/profile"
	"github.com/google/pprof/verifh/ap"
	"github.com/google/pprof/verifh/drive"
	"github.com/google/pprof/verifh/enum"
	"github.com/google/pprof/verifh/reg"
	"github.com/google/pprof/verifh/vk"
)

func init() { reg.Register("C09", Run) }

func richAP() *ap.AP {
	ln := func(fn, file string, line int64) ap.Line {
		return ap.Line{Func: fn, Sys: fn + "_sys", File: file, Line: line, Start: 1}
	}
	L := func(m int, addr uint64, lines ...ap.Line) ap.Loc { return ap.Loc{Map: m, Addr: addr, Lines: lines} }
	a := &ap.AP{Types: []ap.VT{{Type: "n", Unit: "count"}, {Type: "t", Unit: "nanoseconds"}}, Maps: enum.Maps2, PeriodType: &ap.VT{Type: "t", Unit: "nanoseconds"}, Period: 10,
		Comments: []string{"c1"}, DefaultSampleType: "t"}
	x, y, z := ln("a", "/src/a.go", 1), ln("b", "/src/b.go", 2), ln("c", "c.go", 3)
	a.Stacks = []ap.Stack{
		{Locs: []ap.Loc{L(0, 0x1010, x), L(0, 0x1020, y)}, Values: []int64{1, 100}, Labels: map[string][]string{"k": {"v"}}, NumLabel: map[string][]int64{"bytes": {1024}}, NumUnit: map[string][]string{"bytes": {"bytes"}}},
		{Locs: []ap.Loc{L(0, 0x1010, x), L(1, 0x8030, y, z)}, Values: []int64{2, -50}, Labels: map[string][]string{"k": {"w", "v"}}},
		{Locs: []ap.Loc{{Map: 1, Addr: 0x8040}}, Values: []int64{3, 7}, NumLabel: map[string][]int64{"q": {5, 6}}},
		// zero in the count column (the mean divisor), zero in the selected column, a frameless sample
		{Locs: []ap.Loc{L(0, 0x1020, y)}, Values: []int64{0, 9}},
		{Locs: []ap.Loc{L(0, 0x1020, y), L(0, 0x1010, x)}, Values: []int64{4, 0}},
		{Values: []int64{0, 0}},
	}
	return a
}

// odd is one odd-but-valid attribute applied to the concrete profile.
type odd struct {
	name string
	f    func(p *profile.Profile)
}

func odds() []odd {
	var o []odd
	add := func(n string, f func(p *profile.Profile)) { o = append(o, odd{n, f}) }
	for _, b := range []string{"", "a", "ab", "abc", "/", "..", "../../x", "a b", strings.Repeat("f", 300)} {
		b := b
		add("buildid="+trunc(b), func(p *profile.Profile) { p.Mapping[0].BuildID = b })
	}
	for _, f := range []string{"", "/", "[vdso]", "//anon", "http://h/p", "a b", "[kernel.kallsyms]_x", "C:\\x\\y", "\x00", "é", strings.Repeat("d/", 200)} {
		f := f
		add("mapfile="+trunc(f), func(p *profile.Profile) { p.Mapping[0].File = f })
	}
	add("no-samples", func(p *profile.Profile) { p.Sample = nil })
	add("empty-stack", func(p *profile.Profile) { p.Sample[0].Location = nil })
	add("all-empty-stacks", func(p *profile.Profile) {
		for _, s := range p.Sample {
			s.Location = nil
		}
	})
	add("no-mappings", func(p *profile.Profile) {
		p.Mapping = nil
		for _, l := range p.Location {
			l.Mapping = nil
		}
	})
	add("no-mappings-no-locations", func(p *profile.Profile) {
		p.Mapping, p.Location, p.Function = nil, nil, nil
		for _, s := range p.Sample {
			s.Location = nil
		}
	})
	add("nothing-but-sample-types", func(p *profile.Profile) { p.Mapping, p.Location, p.Function, p.Sample = nil, nil, nil, nil })
	add("location-without-mapping", func(p *profile.Profile) { p.Location[0].Mapping = nil })
	add("all-unsymbolized", func(p *profile.Profile) {
		for _, l := range p.Location {
			l.Line = nil
		}
		p.Function = nil
	})
	for _, n := range []int64{-1, 0, 1 << 40, -1 << 62} {
		n := n
		add(fmt.Sprint("line=", n), func(p *profile.Profile) { p.Location[0].Line[0].Line = n })
		add(fmt.Sprint("startline=", n), func(p *profile.Profile) { p.Function[0].StartLine = n })
		add(fmt.Sprint("value=", n), func(p *profile.Profile) { p.Sample[0].Value[1] = n })
		add(fmt.Sprint("period=", n), func(p *profile.Profile) { p.Period = n })
		add(fmt.Sprint("duration=", n), func(p *profile.Profile) { p.DurationNanos = n; p.TimeNanos = n })
		add(fmt.Sprint("numlabel=", n), func(p *profile.Profile) { p.Sample[0].NumLabel["bytes"] = []int64{n} })
	}
	for _, ad := range []uint64{0, 1, 1<<64 - 1, 1 << 63} {
		ad := ad
		add(fmt.Sprintf("address=%x", ad), func(p *profile.Profile) { p.Location[0].Address = ad })
		add(fmt.Sprintf("mapstart=%x", ad), func(p *profile.Profile) { p.Mapping[0].Start = ad })
		add(fmt.Sprintf("maplimit=%x", ad), func(p *profile.Profile) { p.Mapping[0].Limit = ad })
	}
	add("huge-ids", func(p *profile.Profile) {
		p.Location[0].ID = 1<<64 - 1
		p.Function[0].ID = 1<<63 + 5
		p.Mapping[0].ID = 1 << 40
	})
	// names that look like demangled C++ with brackets that do not match (operators, comparisons, debris):
	// the demangling pass of pprof's own symbolizer strips parameter lists from such names
	for _, k := range []string{"ns::Ptr::operator->", "ns::Ptr::operator>>(int)", "std::operator>=(a, b)", "a > b", "weird::name)", "ns::f(", "v<int", "a::b]", "x::y((", "::", "<>", ")("} {
		k := k
		add("cxxname="+k, func(p *profile.Profile) { p.Function[0].Name = k; p.Function[0].SystemName = k })
	}
	for _, k := range []string{"", "pprof::base", "bytes", "a\nb", "é", "\"", "<b>"} {
		k := k
		add("labelkey="+trunc(k), func(p *profile.Profile) { p.Sample[0].Label = map[string][]string{k: {"v"}} })
		add("numlabelkey="+trunc(k), func(p *profile.Profile) {
			p.Sample[0].NumLabel = map[string][]int64{k: {5}}
			p.Sample[0].NumUnit = map[string][]string{k: {"kb"}}
		})
		add("funcname="+trunc(k), func(p *profile.Profile) { p.Function[0].Name = k; p.Function[0].SystemName = k })
		add("filename="+trunc(k), func(p *profile.Profile) { p.Function[0].Filename = k })
		add("sampletype="+trunc(k), func(p *profile.Profile) { p.SampleType[1].Type = k })
		add("comment="+trunc(k), func(p *profile.Profile) { p.Comments = []string{k} })
	}
	for _, u := range []string{"", "weird", "MB", "μs", "%", "s s", "nanogcu"} {
		u := u
		add("unit="+u, func(p *profile.Profile) { p.SampleType[1].Unit = u })
		add("numunit="+u, func(p *profile.Profile) { p.Sample[0].NumUnit = map[string][]string{"bytes": {u}} })
		add("periodunit="+u, func(p *profile.Profile) { p.PeriodType.Unit = u })
	}
	// numeric labels with several values per key and units on some of them only
	for _, us := range [][]string{{"kilobytes", ""}, {"", "kilobytes"}, {"kb", "mb"}, {"", ""}, {"bytes", "seconds"}} {
		us := us
		add("numlabel-units="+strings.Join(us, "|"), func(p *profile.Profile) {
			p.Sample[0].NumLabel = map[string][]int64{"bytes": {4, 2048}}
			p.Sample[0].NumUnit = map[string][]string{"bytes": us}
		})
	}
	add("numlabel-zero-with-unit", func(p *profile.Profile) {
		p.Sample[0].NumLabel = map[string][]int64{"bytes": {0, 0}}
		p.Sample[0].NumUnit = map[string][]string{"bytes": {"kb", ""}}
	})
	add("label-many-values", func(p *profile.Profile) {
		p.Sample[0].Label = map[string][]string{"k": {"", "a", "a", strings.Repeat("x", 1000)}}
	})
	add("no-period-type", func(p *profile.Profile) { p.PeriodType = nil })
	add("default-sample-type-unknown", func(p *profile.Profile) { p.DefaultSampleType = "nope" })
	add("dropframes=(", func(p *profile.Profile) { p.DropFrames = "(" })
	add("dropframes=.*", func(p *profile.Profile) { p.DropFrames = ".*"; p.KeepFrames = "(" })
	add("docurl=odd", func(p *profile.Profile) { p.DocURL = "javascript:alert(1)" })
	add("one-sample-type", func(p *profile.Profile) {
		p.SampleType = p.SampleType[:1]
		for _, s := range p.Sample {
			s.Value = s.Value[:1]
		}
		p.DefaultSampleType = ""
	})
	add("deep-stack", func(p *profile.Profile) {
		l := p.Sample[0].Location
		for i := 0; i < 9; i++ {
			l = append(l, l...)
		}
		p.Sample[0].Location = l
	})
	add("folded", func(p *profile.Profile) { p.Location[0].IsFolded = true })
	return o
}

func trunc(s string) string {
	if len(s) > 12 {
		return s[:12] + "…"
	}
	return s
}

var commands = [][]string{{"top"}, {"tree"}, {"peek=."}, {"traces"}, {"tags"}, {"dot"}, {"dot", "call_tree"}, {"callgrind"}, {"raw"}, {"proto"}, {"topproto"}, {"comments"},
	{"list=."}, {"weblist=."}, {"disasm=."}, {"top", "lines"}, {"top", "files"}, {"top", "addresses", "noinlines"}}

// option menus
var regexps = []string{"", "a", "(", "*", "[", "a|", "\\", ".*", "(?i)A", "\x00", "é", "a{1000}", "(a|b)*c",
	// longer than the 80 bytes a legend line may take: in bytes but not in characters, at the cut, in both
	strings.Repeat("é", 45), strings.Repeat("a", 73) + "é", strings.Repeat("日本語|", 9) + "x", strings.Repeat("a", 100), strings.Repeat("é", 100)}
var tagFilters = []string{"", "v", "k=v", "k=v,w", "v,w", "k:v", "5", "5:", ":5", "2:8", "k=2:8", "5kb", "k=1mb:", "1b:2kb", "99999999999999999999", "-5kb:", "1:2:3", ":", "=", "k=", "=v", "5xb:6yb", "1e9", "0x10:", "9223372036854775807kb:", strings.Repeat("é", 45), "k=" + strings.Repeat("日本", 15)}

func optionMenu() map[string][]string {
	m := map[string][]string{}
	for _, o := range []string{"focus", "ignore", "hide", "show", "show_from", "prune_from", "tagshow", "taghide"} {
		m[o] = regexps
	}
	m["tagfocus"], m["tagignore"] = tagFilters, tagFilters
	m["tagroot"] = []string{"k", "bytes", "nope", ",", "k,,bytes", ""}
	m["tagleaf"] = m["tagroot"]
	m["nodecount"] = []string{"-5", "0", "1", "1000000000"}
	m["nodefraction"] = []string{"-1", "0", "0.5", "1", "2", "1e9", "NaN", "Inf", "-Inf"}
	m["edgefraction"] = m["nodefraction"]
	m["divide_by"] = []string{"0", "-1", "1e-300", "1e300", "NaN", "Inf"}
	m["sample_index"] = []string{"0", "1", "99", "-1", "nope", "t", "", "n"}
	m["unit"] = []string{"", "minimum", "auto", "kb", "nope", "hrs", "μs", "MB"}
	m["sort"] = []string{"flat", "cum", "nope", ""}
	m["granularity"] = []string{"functions", "nope", ""}
	m["trim_path"] = []string{"/src", ":", "::", "/", ""}
	m["source_path"] = m["trim_path"]
	m["add_comment"] = []string{"x", "a\nb"}
	m["symbolize"] = []string{"none", "bogus", "demangle=bogus", "local:remote:force", ":", "", "demangle=default", "demangle=none", "demangle=full", "demangle=templates",
		"local:demangle=default", "demangle=full:demangle=default", "fastlocal", "remote", "force:demangle=templates", "DEMANGLE=DEFAULT", "default"}
	m["buildid"] = []string{"a", "", "zz"}
	for _, b := range []string{"mean", "call_tree", "drop_negative", "relative_percentages", "compact_labels", "noinlines", "showcolumns", "trim", "normalize", "intel_syntax"} {
		m[b] = []string{"true", "false"}
	}
	return m
}

type witness struct {
	Family  string   `json:"family"`
	Profile string   `json:"profile,omitempty"`
	Command []string `json:"command,omitempty"`
	Options []string `json:"options,omitempty"`
	Lines   []string `json:"lines,omitempty"`
	Request string   `json:"request,omitempty"`
	Tool    []int    `json:"tool_answers,omitempty"`
}

func runOne(c *vk.Ctx, w witness, data []byte, cmd []string, opts []string, obj plugin.ObjTool, class string) {
	c.Eval()
	c.Journal(class, w)
	fl := drive.MkFlags([]string{"p"}, append(append([]string{}, cmd...), opts...)...)
	// options given as name=value where the driver declares a typed flag must go to the right map
	s := &drive.Session{Fetch: &drive.Fetcher{Data: map[string][]byte{"p": data}}, Flags: fl, Obj: obj}
	for _, o := range opts {
		if strings.HasPrefix(o, "symbolize=") {
			// pprof's own symbolizer (mode parsing, local symbolization through a fake object tool,
			// remote symbolization against a transport that refuses, demangling)
			s.RealSym = true
			if obj == nil {
				s.Obj = drive.FakeObj{}
			}
		}
	}
	r := drive.Run(s)
	if r.Panic != nil {
		c.Violationf("panic/"+class, w, "%v\n%s", r.Panic, r.Stack)
		return
	}
	if r.Err == nil {
		c.Outcome("ok")
	} else {
		c.Outcome("error")
	}
}

func classOfOdd(n string) string {
	if i := strings.IndexByte(n, '='); i >= 0 {
		return n[:i]
	}
	return n
}

// Run is the check.
func Run(c *vk.Ctx) {
	base := richAP()
	od := odds()
	menu := optionMenu()
	var optNames []string
	for k := range menu {
		optNames = append(optNames, k)
	}
	sortStrings(optNames)
	c.Note(fmt.Sprintf("A: %d odd attributes x %d commands; B: %d options with value menus x %d commands; C: fake object tool menus; D: interactive grammar; E: web handlers x query menu", len(od), len(commands), len(optNames), len(commands)))
	var idx int64
	encode := func(mods ...odd) (data []byte, ok bool) {
		p := ap.Concretize(base, ap.Opts{})
		// two odd attributes may not be applicable together (one empties a table
		// the other indexes): such a combination is simply not a profile of the space
		applied := func() (fine bool) {
			defer func() {
				if recover() != nil {
					fine = false
				}
			}()
			for _, m := range mods {
				m.f(p)
			}
			return true
		}()
		if !applied {
			c.Count("odd-combination-not-applicable", 1)
			return nil, false
		}
		if p.CheckValid() != nil {
			return nil, false
		}
		b := drive.Encode(p)
		if _, err := profile.ParseData(b); err != nil {
			return nil, false
		}
		return b, true
	}
	// F: odd profiles x the options that act on the fetched profile before any report (build id and
	// executable overrides, symbolization mode, comment), command top
	srcOpts := [][]string{{"buildid=abc"}, {"buildid="}, {"EXEC"}, {"EXEC", "buildid=abc"}, {"symbolize=local"}, {"symbolize=force"}, {"add_comment=x"}, {"EXEC", "symbolize=remote"}}
	for _, o := range od {
		data, ok := encode(o)
		if !ok {
			continue
		}
		for _, so := range srcOpts {
			if c.Mine(idx) {
				w := witness{Family: "F", Profile: o.name, Command: []string{"top"}, Options: so}
				class := "odd-profile-with-source-option/" + classOfOdd(o.name)
				c.Eval()
				c.Journal(class, w)
				args := []string{"p"}
				var opts []string
				for _, x := range so {
					if x == "EXEC" {
						args = []string{"/bin/some-executable", "p"}
					} else {
						opts = append(opts, x)
					}
				}
				fl := drive.MkFlags(args, append([]string{"top"}, opts...)...)
				realSym := false
				for _, x := range opts {
					realSym = realSym || strings.HasPrefix(x, "symbolize=")
				}
				r := drive.Run(&drive.Session{Fetch: &drive.Fetcher{Data: map[string][]byte{"p": data}}, Flags: fl, Obj: drive.FakeObj{}, RealSym: realSym})
				if r.Panic != nil {
					c.Violationf("panic/"+class, w, "%v\n%s", r.Panic, r.Stack)
				}
				c.Nontrivial("F|" + o.name + strings.Join(so, ","))
			}
			idx++
		}
	}
	// G: a call graph with a diamond (c has two callers), a heavy and a negligible branch (default trimming
	// removes d), a label and a negative sample; every pair of report-shaping options x every command
	{
		ln := func(fn string, line int64) ap.Line { return ap.Line{Func: fn, Sys: fn + "_sys", File: "/src/" + fn + ".go", Line: line, Start: 1} }
		L := func(addr uint64, l ap.Line) ap.Loc { return ap.Loc{Map: 0, Addr: addr, Lines: []ap.Line{l}} }
		mainF, fa, fb, fc, fd := ln("main", 1), ln("a", 2), ln("b", 3), ln("c", 4), ln("d", 5)
		g := &ap.AP{Types: []ap.VT{{Type: "n", Unit: "count"}, {Type: "t", Unit: "nanoseconds"}}, Maps: enum.Maps2, PeriodType: &ap.VT{Type: "t", Unit: "nanoseconds"}, Period: 10}
		g.Stacks = []ap.Stack{
			{Locs: []ap.Loc{L(0x1010, mainF), L(0x1020, fa), L(0x1040, fc)}, Values: []int64{5, 500}, Labels: map[string][]string{"k": {"v"}}},
			{Locs: []ap.Loc{L(0x1010, mainF), L(0x1030, fb), L(0x1040, fc)}, Values: []int64{4, 400}, Labels: map[string][]string{"k": {"w"}}},
			{Locs: []ap.Loc{L(0x1010, mainF), L(0x1050, fd)}, Values: []int64{1, 1}},
			{Locs: []ap.Loc{L(0x1010, mainF), L(0x1030, fb)}, Values: []int64{1, -30}},
		}
		gdata := drive.Encode(ap.Concretize(g, ap.Opts{}))
		shaping := []string{"call_tree", "mean", "nodecount=1", "nodecount=3", "nodefraction=0.3", "edgefraction=0.3", "noinlines", "lines", "files", "addresses",
			"cum", "drop_negative", "relative_percentages", "trim=false", "compact_labels", "sample_index=0", "tagroot=k", "tagleaf=k", "focus=c", "hide=a", "show_from=b", "ignore=d"}
		for i := -1; i < len(shaping); i++ {
			for j := i + 1; j < len(shaping); j++ {
				var opts []string
				if i >= 0 {
					opts = append(opts, shaping[i])
				}
				opts = append(opts, shaping[j])
				for _, cmd := range commands {
					if c.Mine(idx) {
						runOne(c, witness{Family: "G", Profile: "diamond", Command: cmd, Options: opts}, gdata, cmd, opts, nil, "option-pair/"+cmd[0])
						c.Nontrivial("G|" + strings.Join(opts, ",") + strings.Join(cmd, ","))
					}
					idx++
				}
			}
		}
	}
	// A: odd profiles x commands
	for _, o := range od {
		data, ok := encode(o)
		if !ok {
			c.Count("odd-profile-not-valid/"+classOfOdd(o.name), 1)
			continue
		}
		for _, cmd := range commands {
			if c.Mine(idx) {
				runOne(c, witness{Family: "A", Profile: o.name, Command: cmd}, data, cmd, nil, nil, "odd-profile/"+classOfOdd(o.name))
				c.Nontrivial("A|" + o.name + strings.Join(cmd, ","))
			}
			idx++
		}
	}
	if c.Thorough() {
		for i := range od {
			for j := i + 1; j < len(od); j++ {
				if classOfOdd(od[i].name) == classOfOdd(od[j].name) {
					continue
				}
				if !c.Mine(idx) {
					idx++
					continue
				}
				idx++
				if c.Expired() {
					c.Cap("time budget in odd pairs")
					return
				}
				data, ok := encode(od[i], od[j])
				if !ok {
					continue
				}
				for _, cmd := range [][]string{{"top"}, {"dot"}, {"tags"}, {"traces"}, {"callgrind"}} {
					runOne(c, witness{Family: "A2", Profile: od[i].name + " + " + od[j].name, Command: cmd}, data, cmd, nil, nil, "odd-profile-pair")
				}
			}
		}
	}
	// B: options
	rich, _ := encode()
	for _, on := range optNames {
		for _, v := range menu[on] {
			for _, cmd := range commands {
				if c.Mine(idx) {
					opt := on + "=" + v
					runOne(c, witness{Family: "B", Command: cmd, Options: []string{opt}}, rich, cmd, []string{opt}, nil, "option/"+on)
					c.Nontrivial("B|" + opt + strings.Join(cmd, ","))
				}
				idx++
			}
		}
	}
	if c.Thorough() {
		for i, o1 := range optNames {
			for _, o2 := range optNames[i+1:] {
				for _, v1 := range menu[o1] {
					for _, v2 := range menu[o2] {
						if !c.Mine(idx) {
							idx++
							continue
						}
						idx++
						if c.Expired() {
							c.Cap("time budget in option pairs")
							return
						}
						for _, cmd := range [][]string{{"top"}, {"dot"}, {"tags"}} {
							runOne(c, witness{Family: "B2", Command: cmd, Options: []string{o1 + "=" + v1, o2 + "=" + v2}}, rich, cmd, []string{o1 + "=" + v1, o2 + "=" + v2}, nil, "option-pair")
						}
					}
				}
			}
		}
	}
	// H: the commands that take a symbol take an address too: every address of the rich profile (symbolized,
	// inlined, unsymbolized), in hex and decimal, addresses outside it, and the small numbers given to
	// locations without an address, x every odd profile, with and without an object tool
	addrArgs := []string{"0x1010", "0x1020", "0x8030", "0x8040", "32832", "4112", "0x9999", "0", "0x0", "1", "2", "3", "18446744073709551615", "0x10000000000000000"}
	addrProfiles := []struct {
		name string
		data []byte
	}{{"rich", rich}}
	for _, o := range od {
		if data, ok := encode(o); ok {
			addrProfiles = append(addrProfiles, struct {
				name string
				data []byte
			}{o.name, data})
		}
	}
	for _, ap := range addrProfiles {
		for _, verb := range []string{"list", "weblist", "disasm", "peek"} {
			for _, arg := range addrArgs {
				for _, obj := range []plugin.ObjTool{nil, drive.FakeObj{}} {
					if c.Mine(idx) {
						cmd := []string{verb + "=" + arg}
						runOne(c, witness{Family: "H", Profile: ap.name, Command: cmd, Tool: []int{map[bool]int{false: 0, true: 1}[obj != nil]}}, ap.data, cmd, nil, obj, "address-argument/"+verb)
						c.Nontrivial("H|" + ap.name + verb + arg + fmt.Sprint(obj != nil))
						c.Count("family/address-argument", 1)
					}
					idx++
				}
			}
		}
	}
	toolFamily(c, rich, &idx)
	interactiveFamily(c, rich, &idx)
	webFamily(c, rich, &idx)
}

func sortStrings(s []string) {
	for i := range s {
		for j := i + 1; j < len(s); j++ {
			if s[j] < s[i] {
				s[i], s[j] = s[j], s[i]
			}
		}
	}
}

// ---------------------------------------------------------------------------
// C: fake object tool. Every call consumes the next answer of a sequence
// (default 0); the search enumerates all sequences with <= k non-default answers.

type tool struct {
	answers []int
	pos     int
	calls   []int // number of alternatives of each call made
}

func (t *tool) next(n int) int {
	a := 0
	if t.pos < len(t.answers) {
		a = t.answers[t.pos]
	}
	t.pos++
	t.calls = append(t.calls, n)
	if a >= n {
		a = 0
	}
	return a
}

type toolFile struct {
	t    *tool
	name string
}

func (t *tool) Open(file string, start, limit, offset uint64, relocationSymbol string) (plugin.ObjFile, error) {
	if t.next(2) == 1 {
		return nil, errors.New("cannot open")
	}
	return &toolFile{t, file}, nil
}

func (t *tool) Disasm(file string, start, end uint64, intelSyntax bool) ([]plugin.Inst, error) {
	switch t.next(7) {
	case 1:
		return nil, errors.New("disasm failed")
	case 2:
		return nil, nil
	case 3: // zero line numbers, no files
		return []plugin.Inst{{Addr: start, Text: "nop"}, {Addr: start + 4, Text: "ret"}}, nil
	case 4: // unsorted addresses
		return []plugin.Inst{{Addr: start + 8, Text: "b", Function: "a", File: "/src/a.go", Line: 2}, {Addr: start, Text: "a", Function: "a", File: "/src/a.go", Line: 1}}, nil
	case 5: // duplicate addresses, addresses outside the range
		return []plugin.Inst{{Addr: start, Text: "a", Line: 1}, {Addr: start, Text: "a2", Line: 1}, {Addr: end + 100, Text: "far", Line: -3}}, nil
	case 6: // huge line numbers
		return []plugin.Inst{{Addr: start, Text: "x", Function: "a", File: "/src/a.go", Line: 1 << 30}}, nil
	}
	return []plugin.Inst{{Addr: start, Text: "push", Function: "a", File: "/src/a.go", Line: 1}, {Addr: start + 0x10, Text: "call", Function: "a", File: "/src/a.go", Line: 2}}, nil
}

func (f *toolFile) Name() string { return f.name }
func (f *toolFile) ObjAddr(addr uint64) (uint64, error) {
	switch f.t.next(3) {
	case 1:
		return 0, errors.New("no base")
	case 2:
		return addr - 0x1000, nil
	}
	return addr, nil
}
func (f *toolFile) BuildID() string { return "" }
func (f *toolFile) SourceLine(addr uint64) ([]plugin.Frame, error) {
	switch f.t.next(4) {
	case 1:
		return nil, errors.New("no line info")
	case 2:
		return nil, nil
	case 3:
		return []plugin.Frame{{Func: "inl", File: "/src/a.go", Line: 0}, {Func: "a", File: "", Line: -1}}, nil
	}
	return []plugin.Frame{{Func: "a", File: "/src/a.go", Line: 1}}, nil
}
func (f *toolFile) Symbols(r *regexp.Regexp, addr uint64) ([]*plugin.Sym, error) {
	switch f.t.next(6) {
	case 1:
		return nil, errors.New("nm failed")
	case 2:
		return nil, nil
	case 3: // end before start
		return []*plugin.Sym{{Name: []string{"a"}, File: f.name, Start: 0x1020, End: 0x1000}}, nil
	case 4: // overlapping symbols, several names
		return []*plugin.Sym{{Name: []string{"a", "a_alias"}, File: f.name, Start: 0x1000, End: 0x1fff}, {Name: []string{"b"}, File: f.name, Start: 0x1010, End: 0x1030}}, nil
	case 5: // zero-size symbol at address 0
		return []*plugin.Sym{{Name: []string{"z"}, File: f.name, Start: 0, End: 0}}, nil
	}
	return []*plugin.Sym{{Name: []string{"a"}, File: f.name, Start: 0x1000, End: 0x10ff}, {Name: []string{"b"}, File: f.name, Start: 0x8000, End: 0x80ff}}, nil
}
func (f *toolFile) Close() error { return nil }

func toolFamily(c *vk.Ctx, data []byte, idx *int64) {
	bound := 1
	if c.Thorough() {
		bound = 2
	}
	for _, cmd := range [][]string{{"disasm=."}, {"list=."}, {"weblist=."}, {"disasm=a"}, {"weblist=a", "addresses"}, {"top"}} {
		if !c.Mine(*idx) {
			*idx++
			continue
		}
		*idx++
		var rec func(prefix []int, used int)
		execs := 0
		rec = func(prefix []int, used int) {
			t := &tool{answers: prefix}
			w := witness{Family: "C", Command: cmd, Tool: prefix}
			c.Eval()
			execs++
			c.Journal("object-tool", w)
			fl := drive.MkFlags([]string{"p"}, cmd...)
			delete(fl.Strings, "symbolize") // let local symbolization talk to the fake tool too
			r := drive.Run(&drive.Session{Fetch: &drive.Fetcher{Data: map[string][]byte{"p": data}}, Flags: fl, Obj: t, Sym: nil})
			if r.Panic != nil {
				c.Violationf("panic/object-tool/"+strings.SplitN(cmd[0], "=", 2)[0], w, "%v\n%s", r.Panic, r.Stack)
				return
			}
			if used >= bound {
				return
			}
			for i := len(prefix); i < len(t.calls) && i < 400; i++ {
				for alt := 1; alt < t.calls[i]; alt++ {
					np := make([]int, i+1)
					copy(np, prefix)
					np[i] = alt
					rec(np, used+1)
				}
			}
		}
		rec(nil, 0)
		c.Transition(int64(execs))
		c.Nontrivial("C|" + strings.Join(cmd, ","))
		c.Count("object-tool-answer-sequences", int64(execs))
	}
}
