package c09

import (
	"os"
	"sync"
)

var (
	nullOnce sync.Once
	nullFile *os.File
)

// devnull runs f with the process's stdout pointing at /dev/null: interactive
// commands without a redirect print their report to os.Stdout.
func devnull(f func()) {
	nullOnce.Do(func() { nullFile, _ = os.OpenFile(os.DevNull, os.O_WRONLY, 0) })
	old := os.Stdout
	if nullFile != nil {
		os.Stdout = nullFile
	}
	defer func() { os.Stdout = old }()
	f()
}
