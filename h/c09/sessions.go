package c09

import (
	"fmt"
	"strings"
	"time"

	"github.com/google/pprof/verifh/drive"
	"github.com/google/pprof/verifh/vk"
)

// interactive grammar: commands with arguments, option lines, noise
var interactiveLines = []string{
	"top", "top 5 a", "top -b", "top10", "top -cum 3", "tree a", "peek (", "peek", "list", "list .", "weblist a", "disasm a", "weblist 0x8040", "list 0x1010", "traces", "tags k", "dot", "callgrind", "raw", "proto", "topproto", "comments",
	"focus=(", "focus=a", "ignore=*", "hide=[", "tagfocus=99999999999999999999", "tagfocus=1:2:3", "tagignore=k=", "show_from=(", "prune_from=\\",
	"nodecount=abc", "nodecount=-1", "nodefraction=x", "divide_by=0", "sample_index=99", "sample_index=", "sample_index=t", "unit=nope", "granularity=nope", "sort=nope",
	"mean", "mean=2", "call_tree=maybe", "lines", "files=false", "addresses", "o", "options", "help", "help top", "help nope", "nope", "", " ", "=", "a=b", "top >", "top > ", "top >/nonexistent-dir/x", ":", "::",
	"top | cat", "//: comment", "focus=a //: c", "\x00", "é", "1", "-", ">", "t", "total_t", "mean_t", "n", strings.Repeat("x", 5000),
	// option names without a value, option names used as commands, a spaced redirect, a leading-dash ignore
	"focus", "nodecount", "sample_index", "focus a", "nodecount 5", "top > out.txt", "top -a b", "top a -b -c",
}

func interactiveFamily(c *vk.Ctx, data []byte, idx *int64) {
	depth := 2
	if c.Thorough() {
		depth = 3
	}
	var rec func(h []string)
	rec = func(h []string) {
		if len(h) > 0 {
			if c.Mine(*idx) && !c.Expired() {
				w := witness{Family: "D", Lines: h}
				c.Eval()
				c.Journal("interactive", w)
				ui := &drive.UI{}
				for _, l := range h {
					// commands without an explicit redirect would go to stdout; send them to a file
					ui.Lines = append(ui.Lines, l)
				}
				ui.Lines = append(ui.Lines, "top 1 >SENTINEL")
				fl := drive.MkFlags([]string{"p"})
				delete(fl.Strings, "output")
				wr := &drive.Writer{}
				devnull(func() {
					r := drive.Run(&drive.Session{Fetch: &drive.Fetcher{Data: map[string][]byte{"p": data}}, Flags: fl, UI: ui, W: wr})
					if r.Panic != nil {
						c.Violationf("panic/interactive", w, "%v\n%s", r.Panic, r.Stack)
						return
					}
					ok := false
					for _, f := range wr.Files {
						if f.Name == "SENTINEL" && f.Len() > 0 {
							ok = true
						}
					}
					// the sentinel may legitimately fail if an option line of the history made every report fail
					// (e.g. sample_index=99 is rejected at assignment, but focus=( is stored); the session must
					// still have read all lines
					if !ok {
						c.Count("interactive/sentinel-without-output", 1)
					}
				})
				c.Nontrivial("D|" + strings.Join(h, "\n"))
			}
			*idx++
		}
		if len(h) == depth {
			return
		}
		for _, l := range interactiveLines {
			if len(h) >= 1 && depth == 3 && len(h) == 2 && len(l) > 100 {
				continue
			}
			rec(append(append([]string(nil), h...), l))
		}
	}
	rec(nil)
}

var webQueries = []string{"", "f=(", "f=a", "i=*", "h=[", "s=\\", "sf=(", "tf=99999999999999999999", "tf=1:2:3", "ti=k%3D", "n=abc", "n=-5", "nf=x", "nf=NaN", "ef=Inf", "si=99", "si=", "si=t", "unit=nope", "g=nope", "sort=nope", "mean=2",
	"calltree=maybe", "trim=x", "noinlines=q", "f=%ZZ", "f=%00", "config=", "config=A", "config=..%2F..%2Fx", "f=a&f=b", "p=5", "prunefrom=(", "ts=(", "th=[", "rel=x", "compact=?", "dropneg=1", "f=" + strings.Repeat("a", 5000)}

func webFamily(c *vk.Ctx, data []byte, idx *int64) {
	r0 := drive.Web(map[string][]byte{"p": data}, []string{"p"})
	if r0.Handlers == nil {
		c.Violation("harness/no-web-handlers", nil, fmt.Sprint(r0.Err, r0.Panic))
		return
	}
	paths := drive.Paths(r0.Handlers)
	for _, p := range paths {
		for _, q := range webQueries {
			if !c.Mine(*idx) {
				*idx++
				continue
			}
			*idx++
			target := p
			if q != "" {
				target += "?" + q
			}
			w := witness{Family: "E", Request: target}
			c.Eval()
			c.Journal("web", w)
			hung := !within(60*time.Second, func() {
				devnull(func() {
					r := drive.Web(map[string][]byte{"p": data}, []string{"p"})
					h := r.Handlers
					for _, method := range []string{"GET", "POST"} {
						code, _, pan := drive.Get(h, method, target)
						if pan != nil {
							c.Violationf("panic/web/"+strings.Trim(p, "/"), w, "%s %s: %v", method, target, pan)
							return
						}
						if code == 0 {
							c.Violationf("web/no-status", w, "%s %s", method, target)
						}
					}
					// the session stays usable
					code, body, pan := drive.Get(h, "GET", "/top")
					if pan != nil || code != 200 || len(body) == 0 {
						c.Violationf("web/session-unusable-afterwards", w, "GET /top after %s: code %d panic %v", target, code, pan)
					}
					// settings requests must still be served (a lock left behind would block them)
					for _, t2 := range []string{"/saveconfig?config=verif-sentinel", "/deleteconfig?config=verif-sentinel"} {
						if code, _, pan := drive.Get(h, "GET", t2); pan != nil || code != 200 {
							c.Violationf("web/session-unusable-afterwards", w, "GET %s after %s: code %d panic %v", t2, target, code, pan)
						}
					}
				})
			})
			if hung {
				c.Violationf("hang/web", w, "the request (or the sentinel requests after it) did not return within 60 s")
				return // process-global state is wedged; the remaining cases of this shard cannot be judged
			}
			c.Nontrivial("E|" + target)
		}
	}
}

// within runs f and reports whether it returned within d. A wall-clock bound is
// used only to turn a hang (a request that never returns) into a report; the
// operations bounded here take milliseconds.
func within(d time.Duration, f func()) bool {
	done := make(chan struct{})
	go func() {
		defer close(done)
		f()
	}()
	select {
	case <-done:
		return true
	case <-time.After(d):
		return false
	}
}
