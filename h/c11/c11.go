// Package c11: frame-dropping rules remove only the frames they name.
//
// Exhaustive enumeration of small profiles (every frame sequence over a small
// alphabet of frame kinds up to a depth bound, every grouping of the frames
// into locations, one sample or two samples sharing locations) times a menu of
// drop_frames/keep_frames and prune_from expressions. Each case is run through
// the real (*Profile).RemoveUninteresting / PruneFrom (and, for a slice of the
// space, through the whole driver, observed at `pprof -traces`) and the
// resulting stacks are compared with the statement of the property evaluated
// literally as a scan over frames from the root (model.go).
package c11

import (
	"fmt"
	"reflect"
	"regexp"
	"strings"

	"github.com/google/pprof/internal/plugin"
	"github.com/google/pprof/profile"

	"github.com/google/pprof/verifh/ap"
	"github.com/google/pprof/verifh/drive"
	"github.com/google/pprof/verifh/enum"
	"github.com/google/pprof/verifh/parse"
	"github.com/google/pprof/verifh/reg"
	"github.com/google/pprof/verifh/vk"
)

func init() { reg.Register("C11", Run) }

// Case is the generator coordinates of one evaluated case (the witness).
type Case struct {
	Family string `json:"family"`       // binary | single | pair | spelling | legacy | e2e | e2e-legacy
	S1     string `json:"s1"`           // first stack, root first: | separates locations, + joins inlined frames
	S2     string `json:"s2,omitempty"` // second stack (shares equal locations with the first)
	Op     string `json:"op"`           // drop | prune_from
	Drop   string `json:"drop_frames,omitempty"`
	Keep   string `json:"keep_frames,omitempty"`
	Rx     string `json:"prune_from,omitempty"`
	Ids    string `json:"ids,omitempty"` // id scheme / sharing variant
	Via    string `json:"via,omitempty"` // api | traces
	Sample int    `json:"sample"`        // index of the sample the detail talks about
}

func fn(name string, line int64) ap.Line {
	return ap.Line{Func: name, Sys: name, File: "f.go", Start: 1, Line: line}
}

// Frame kinds. u, x: never named. d: named by "d". k: named by "d|k" and kept
// by keep "k". x is spelled "xd" and m is spelled "dk" so that an expression
// that is not anchored (or anchored without grouping) names them by mistake.
var (
	kU  = enum.Kind{Line: fn("u", 1), Tag: "u"}
	kD  = enum.Kind{Line: fn("d", 2), Tag: "d"}
	kK  = enum.Kind{Line: fn("k", 3), Tag: "k"}
	kX  = enum.Kind{Line: fn("xd", 4), Tag: "xd"}
	kM  = enum.Kind{Line: fn("dk", 5), Tag: "dk"}
	kE  = enum.Kind{Line: ap.Line{Func: "", File: "e.go", Start: 5, Line: 6}, Tag: "''"} // function without a name
	kN  = enum.Kind{Unsym: true, Tag: "?"}                                               // location without lines
	kDa = enum.Kind{Line: fn("d(int)", 7), Tag: "d(int)"}
	kDp = enum.Kind{Line: fn(".d", 8), Tag: ".d"}
	kDn = enum.Kind{Line: fn("(anonymous namespace)::d", 9), Tag: "(anonymous namespace)::d"}

	sigma4  = []enum.Kind{kU, kD, kK, kX}
	sigma10 = []enum.Kind{kU, kD, kK, kX, kM, kE, kN, kDa, kDp, kDn}
)

type dk struct{ drop, keep string }

// Expression menus.
var (
	dropsWide = []dk{
		{"", ""}, {"", "k"}, // no drop expression: untouched
		{"d", ""},
		{"d|k", "k"},
		{"d.*", "k"},
		{".*", ""},
		{".*", "u|xd"},
		{".*::d", ""},
		// expressions that carry their own outer anchors around a top-level alternation:
		// a full match still means the whole name ("d" or "k"), not prefix-d or suffix-k
		{"^d|k$", ""}, {"d.*", "^d|k$"},
		{"(", ""}, {"d", "("}, // invalid
	}
	dropsPair = []dk{{"", ""}, {"d", ""}, {"d|k", "k"}, {".*", ""}, {".*", "u|xd"}}
	fromsWide = []string{"d", "^d$", "d|k", ".*", "zzz", "^$", "^d|k$"}
	fromsPair = []string{"d", "^d$", "d|k"}
)

var (
	types  = []ap.VT{{Type: "n", Unit: "count"}, {Type: "v", Unit: "count"}}
	values = [2][]int64{{1, 3}, {2, -1}}
)

func build(sigma []enum.Kind, s1, s2 enum.Shape) *ap.AP {
	a := &ap.AP{Types: types, Maps: enum.Maps2[:1], PeriodType: &ap.VT{Type: "n", Unit: "count"}, Period: 1}
	st := s1.Stack(sigma, values[0])
	st.Labels = map[string][]string{"k": {"x"}}
	st.NumLabel = map[string][]int64{"bytes": {8}}
	st.NumUnit = map[string][]string{"bytes": {"bytes"}}
	a.Stacks = []ap.Stack{st}
	if s2 != nil {
		st2 := s2.Stack(sigma, values[1])
		st2.Labels = map[string][]string{"k": {"x", "y"}}
		a.Stacks = append(a.Stacks, st2)
	}
	return a
}

type idScheme struct {
	name string
	o    ap.Opts
}

var (
	idsDense  = idScheme{"", ap.Opts{}}
	idsSparse = idScheme{"sparse-reversed", ap.Opts{IDBase: 100, IDStride: 3, Reverse: true}}
	idsSplit  = idScheme{"unshared", ap.Opts{NoShare: true}}
)

func depthOf(s enum.Shape) int {
	n := 0
	for _, g := range s {
		n += len(g)
	}
	return n
}

// Run is the check.
func Run(c *vk.Ctx) {
	d1, d2, dDeep := 3, 3, 6
	if c.Thorough() {
		d1, d2, dDeep = 4, 4, 8
	}
	wide := enum.Shapes(sigma10, d1)
	narrow := enum.Shapes(sigma4, d2)
	c.Note(fmt.Sprintf("single: alphabet=%d kinds (u d k xd dk '' ? d(int) .d (anonymous namespace)::d), depth<=%d, all inline groupings: %d stacks x (%d drop/keep + %d prune_from expressions) x 3 id/sharing schemes; "+
		"pair: alphabet=4 kinds (u d k xd), depth<=%d: %d stacks, all unordered pairs (equal locations shared) x (%d drop/keep + %d prune_from); "+
		"binary: alphabet=2 kinds (u d), depth<=%d, all inline groupings x (drop d, prune_from d); spelling: %d names x %d expressions x 3 positions; legacy: 3 formats x %d names x 4 stack forms; e2e (-traces): alphabet 4, depth<=3 singles and pairs of total depth<=%d",
		len(sigma10), d1, len(wide), len(dropsWide), len(fromsWide), d2, len(narrow), len(dropsPair), len(fromsPair), dDeep, len(spellNames), len(spellDrops), len(legacyNames), e2ePairSum(c)))

	var idx int64
	expired := func() bool {
		if c.Expired() {
			c.Cap(fmt.Sprintf("time budget: stopped at case index %d", idx))
			return true
		}
		return false
	}

	// Family "binary": two kinds only, run first (simplest witnesses) and
	// deeper than the others (the combinations of the root-location patterns
	// need five frames or more).
	sigma2 := []enum.Kind{kU, kD}
	for _, sh := range enum.Shapes(sigma2, dDeep) {
		if c.Mine(idx) {
			if expired() {
				return
			}
			a := build(sigma2, sh, nil)
			cs := Case{Family: "binary", S1: sh.Tag(sigma2)}
			checkDrop(c, cs, a, "d", "", ap.Opts{})
			checkFrom(c, cs, a, "d", ap.Opts{})
		}
		idx++
	}

	// Family "single": one sample, wide alphabet.
	for _, sh := range wide {
		if c.Mine(idx) {
			if expired() {
				return
			}
			a := build(sigma10, sh, nil)
			cs := Case{Family: "single", S1: sh.Tag(sigma10)}
			if c.WantSample() && depthOf(sh) == d1 {
				c.Sample(cs)
			}
			for _, ids := range []idScheme{idsDense, idsSparse, idsSplit} {
				cs.Ids = ids.name
				for _, e := range dropsWide {
					checkDrop(c, cs, a, e.drop, e.keep, ids.o)
				}
				for _, rx := range fromsWide {
					checkFrom(c, cs, a, rx, ids.o)
				}
			}
		}
		idx++
	}

	// The two tiny families below run as a whole on the first shard, so that
	// their non-vacuity guards can be evaluated there.
	small := c.NShards <= 1 || c.Shard == 0

	// Family "spelling": name simplification before matching.
	for _, name := range spellNames {
		if small {
			c.SetCase(idx)
			checkSpelling(c, name)
		}
		idx++
	}

	// Family "legacy": built-in expressions of legacy profiles.
	for fi := range legacyFormats {
		for ni := range legacyNames {
			if small {
				c.SetCase(idx)
				checkLegacy(c, fi, ni)
			}
			idx++
		}
	}

	// Family "e2e": the same rules observed at `pprof -traces`.
	e2eShapes := enum.Shapes(sigma4, 3)
	for _, sh := range e2eShapes {
		if c.Mine(idx) {
			if expired() {
				return
			}
			checkE2E(c, Case{Family: "e2e", S1: sh.Tag(sigma4)}, build(sigma4, sh, nil))
		}
		idx++
	}
	maxSum := e2ePairSum(c)
	for i := range e2eShapes {
		for j := i; j < len(e2eShapes); j++ {
			if depthOf(e2eShapes[i])+depthOf(e2eShapes[j]) > maxSum || depthOf(e2eShapes[i]) == 0 {
				continue
			}
			if c.Mine(idx) {
				if expired() {
					return
				}
				checkE2E(c, Case{Family: "e2e", S1: e2eShapes[i].Tag(sigma4), S2: e2eShapes[j].Tag(sigma4)}, build(sigma4, e2eShapes[i], e2eShapes[j]))
			}
			idx++
		}
	}
	for fi := range legacyFormats {
		if c.Mine(idx) {
			checkE2ELegacy(c, fi)
		}
		idx++
	}

	// Family "pair": two samples sharing locations, narrow alphabet.
	mine := 0
	for i := range narrow {
		for j := i; j < len(narrow); j++ {
			if c.Mine(idx) {
				if mine++; mine&0xff == 0 && expired() {
					return
				}
				a := build(sigma4, narrow[i], narrow[j])
				cs := Case{Family: "pair", S1: narrow[i].Tag(sigma4), S2: narrow[j].Tag(sigma4)}
				for _, e := range dropsPair {
					checkDrop(c, cs, a, e.drop, e.keep, ap.Opts{})
				}
				for _, rx := range fromsPair {
					checkFrom(c, cs, a, rx, ap.Opts{})
				}
			}
			idx++
		}
	}

	// Non-vacuity guards. Every shard sees hundreds of cases of the large
	// families, so these hold per shard; the tiny families are judged where
	// they ran.
	guards := []string{"drop/cut", "drop/cut-inside-location", "drop/cut-at-leaf", "drop/leading-match-kept", "drop/unchanged",
		"drop/no-expression", "drop/invalid-expression", "drop/shared-location-cut-in-one-sample-only",
		"prune_from/cut", "prune_from/cut-inside-location", "prune_from/unchanged", "e2e/traces-compared"}
	if small {
		guards = append(guards, "spelling/named", "spelling/not-named", "legacy/named", "legacy/named-and-kept")
	}
	for _, k := range guards {
		if c.Counter(k) == 0 {
			c.Vacuous("no case with " + k)
		}
	}
}

func e2ePairSum(c *vk.Ctx) int {
	if c.Thorough() {
		return 4
	}
	return 3
}

// ---------------------------------------------------------------------------
// API level: RemoveUninteresting
// ---------------------------------------------------------------------------

func checkDrop(c *vk.Ctx, cs Case, a *ap.AP, drop, keep string, o ap.Opts) {
	b := *a
	b.DropFrames, b.KeepFrames = drop, keep
	p := ap.Concretize(&b, o)
	cs.Op, cs.Drop, cs.Keep, cs.Via = "drop", drop, keep, "api"
	checkDropOn(c, cs, p, func() *profile.Profile { return ap.Concretize(&b, o) })
}

// checkDropOn applies the profile's own expressions to p and checks the result
// against the statement. pristine rebuilds an identical untouched profile (may
// be nil).
func checkDropOn(c *vk.Ctx, cs Case, p *profile.Profile, pristine func() *profile.Profile) {
	drop, keep := p.DropFrames, p.KeepFrames
	in := ap.Abstract(p)
	c.Eval()
	var err error
	if !c.Guard("drop", cs, func() { err = p.RemoveUninteresting() }) {
		return
	}
	out := ap.Abstract(p)
	if !checkCarried(c, cs, in, out) {
		return
	}
	if drop == "" {
		// "a profile without such expressions is left untouched"
		c.Count("drop/no-expression", 1)
		if err != nil {
			c.Violationf("drop/no-expression-error", cs, "RemoveUninteresting failed without a drop expression: %v", err)
		}
		if pristine != nil && !reflect.DeepEqual(p, pristine()) {
			c.Violationf("drop/no-expression-not-untouched", cs, "profile changed although drop_frames is empty:\nbefore %s\nafter  %s", renderAll(in), renderAll(out))
		} else if !reflect.DeepEqual(in, out) {
			c.Violationf("drop/no-expression-not-untouched", cs, "profile changed although drop_frames is empty:\nbefore %s\nafter  %s", renderAll(in), renderAll(out))
		}
		return
	}
	dropF, e1 := newFull(drop)
	var keepF *full
	var e2 error
	if keep != "" {
		keepF, e2 = newFull(keep)
	}
	if e1 != nil || e2 != nil {
		// The statement says nothing about malformed expressions beyond what was
		// checked above (samples, values, labels).
		c.Count("drop/invalid-expression", 1)
		c.Outcome(fmt.Sprintf("drop/invalid/err=%v", err != nil))
		return
	}
	if err != nil {
		c.Violationf("drop/error-on-valid-expression", cs, "RemoveUninteresting(%q,%q): %v", drop, keep, err)
		return
	}
	pred := dropPred(dropF, keepF)
	type fate struct{ seen, whole, gone bool }
	fates := map[string]*[2]fate{}
	for si := range in.Stacks {
		s := &in.Stacks[si]
		got := out.Stacks[si].Locs
		cs.Sample = si
		alts := alternatives(s, pred)
		ok := false
		for _, m := range alts {
			fr := flat(m)
			want := cut(s, refDropKeep(fr))
			if !eqLocs(modelDrop(s, m, false, false), want) {
				c.Violationf("harness/model-self-check", cs, "location-level model %s != frame-level reference %s", render(modelDrop(s, m, false, false)), render(want))
			}
			if eqLocs(got, want) {
				ok = true
			}
		}
		// non-vacuity accounting on the first reading
		m0 := alts[0]
		fr := flat(m0)
		n := refDropKeep(fr)
		want := cut(s, n)
		switch {
		case n < len(fr):
			c.Count("drop/cut", 1)
			c.Nontrivial(cs.Family + cs.S1 + "/" + cs.S2 + "/" + drop + "/" + keep)
			if len(want) > 0 && len(want[len(want)-1].Lines) < len(s.Locs[len(want)-1].Lines) {
				c.Count("drop/cut-inside-location", 1)
			}
			if n+1 == len(fr) {
				c.Count("drop/cut-at-leaf", 1)
			}
		default:
			c.Count("drop/unchanged", 1)
		}
		if len(fr) > 0 && fr[0] {
			c.Count("drop/leading-match-kept", 1)
		}
		if len(alts) > 1 {
			c.Count("drop/two-readings(empty-name)", 1)
		}
		c.Outcome(fmt.Sprintf("drop/%d/%d", n, len(fr)))
		if len(in.Stacks) == 2 {
			for li, l := range s.Locs {
				k := render([]ap.Loc{l})
				f := fates[k]
				if f == nil {
					f = &[2]fate{}
					fates[k] = f
				}
				f[si].seen = true
				if li < len(want) && len(want[li].Lines) == len(l.Lines) {
					f[si].whole = true
				}
				if li >= len(want) {
					f[si].gone = true
				}
			}
		}
		if ok {
			continue
		}
		// Disagreement: classify.
		if len(s.Locs) > 0 && len(got) == 0 {
			c.Violationf("drop/sample-emptied", cs, "stack %s became empty (expected %s)", render(s.Locs), render(want))
			continue
		}
		class := ""
		for _, m := range alts {
			switch {
			case eqLocs(got, modelDrop(s, m, true, false)):
				class = "drop/leaf-side-kept/match-inlined-in-root-location" // F7a
			case eqLocs(got, modelDrop(s, m, false, true)):
				class = "drop/leaf-side-kept/user-frame-inlined-in-matching-root-location"
			case eqLocs(got, modelDrop(s, m, true, true)):
				class = "drop/leaf-side-kept/both-root-location-patterns"
			}
			if class != "" {
				break
			}
		}
		if class == "" {
			switch {
			case properPrefix(got, want):
				class = "drop/removed-too-much"
			case properPrefix(want, got):
				class = "drop/removed-too-little"
			default:
				class = "drop/frames-differ"
			}
		}
		c.Violationf(class, cs, "stack %s, drop_frames=%q keep_frames=%q: expected %s, got %s", render(s.Locs), drop, keep, render(want), render(got))
	}
	for _, f := range fates {
		if f[0].seen && f[1].seen && (f[0].whole && f[1].gone || f[1].whole && f[0].gone) {
			c.Count("drop/shared-location-cut-in-one-sample-only", 1)
			break
		}
	}
}

// checkCarried checks the clauses that hold "in all cases": number of samples,
// values, labels.
func checkCarried(c *vk.Ctx, cs Case, in, out *ap.AP) bool {
	if len(in.Stacks) != len(out.Stacks) {
		c.Violationf(cs.Op+"/sample-count", cs, "%d samples before, %d after", len(in.Stacks), len(out.Stacks))
		return false
	}
	for i := range in.Stacks {
		a, b := &in.Stacks[i], &out.Stacks[i]
		if !reflect.DeepEqual(a.Values, b.Values) {
			cs.Sample = i
			c.Violationf(cs.Op+"/values", cs, "values %v became %v", a.Values, b.Values)
			return false
		}
		if !reflect.DeepEqual(a.Labels, b.Labels) || !reflect.DeepEqual(a.NumLabel, b.NumLabel) || !reflect.DeepEqual(a.NumUnit, b.NumUnit) {
			cs.Sample = i
			c.Violationf(cs.Op+"/labels", cs, "labels %s became %s", a.LabelKey(), b.LabelKey())
			return false
		}
	}
	return true
}

func renderAll(a *ap.AP) string {
	var parts []string
	for i := range a.Stacks {
		parts = append(parts, render(a.Stacks[i].Locs))
	}
	return "[" + strings.Join(parts, " ; ") + "]"
}

// ---------------------------------------------------------------------------
// API level: PruneFrom
// ---------------------------------------------------------------------------

func checkFrom(c *vk.Ctx, cs Case, a *ap.AP, expr string, o ap.Opts) {
	p := ap.Concretize(a, o)
	cs.Op, cs.Rx, cs.Via = "prune_from", expr, "api"
	rx := regexp.MustCompile(expr)
	in := ap.Abstract(p)
	c.Eval()
	if !c.Guard("prune_from", cs, func() { p.PruneFrom(rx) }) {
		return
	}
	out := ap.Abstract(p)
	if !checkCarried(c, cs, in, out) {
		return
	}
	pred := fromPred(rx)
	for si := range in.Stacks {
		s := &in.Stacks[si]
		got := out.Stacks[si].Locs
		cs.Sample = si
		alts := alternatives(s, pred)
		ok := false
		for _, m := range alts {
			want := cut(s, refFromKeep(flat(m)))
			if !eqLocs(modelFrom(s, m, false), want) {
				c.Violationf("harness/model-self-check", cs, "location-level model %s != frame-level reference %s", render(modelFrom(s, m, false)), render(want))
			}
			if eqLocs(got, want) {
				ok = true
			}
		}
		fr := flat(alts[0])
		n := refFromKeep(fr)
		want := cut(s, n)
		if n < len(fr) {
			c.Count("prune_from/cut", 1)
			c.Nontrivial(cs.Family + cs.S1 + "/" + cs.S2 + "/from/" + expr)
			if len(want[len(want)-1].Lines) < len(s.Locs[len(want)-1].Lines) {
				c.Count("prune_from/cut-inside-location", 1)
			}
		} else {
			c.Count("prune_from/unchanged", 1)
		}
		c.Outcome(fmt.Sprintf("from/%d/%d", n, len(fr)))
		if ok {
			continue
		}
		if len(s.Locs) > 0 && len(got) == 0 {
			c.Violationf("prune_from/sample-emptied", cs, "stack %s became empty (expected %s)", render(s.Locs), render(want))
			continue
		}
		class := ""
		for _, m := range alts {
			if eqLocs(got, modelFrom(s, m, true)) {
				class = "prune_from/root-side-location-truncated-at-own-match" // F7c
				break
			}
		}
		if class == "" {
			switch {
			case properPrefix(got, want):
				class = "prune_from/removed-too-much"
			case properPrefix(want, got):
				class = "prune_from/removed-too-little"
			default:
				class = "prune_from/frames-differ"
			}
		}
		c.Violationf(class, cs, "stack %s, prune_from=%q: expected %s, got %s", render(s.Locs), expr, render(want), render(got))
	}
}

// ---------------------------------------------------------------------------
// Family "spelling": simplification of names before matching.
// ---------------------------------------------------------------------------

var spellNames = []string{
	"d", ".d", "..d", "d(int)", ".d(int)", "d(int)(char)", "d()", "d(", "(d)", "d.", "dd", "xd", "D",
	"(anonymous namespace)::d", "(anonymous namespace)::d(int)", ".(anonymous namespace)::d",
	"ns::(anonymous namespace)::d(std::function<void()>)", "(anonymous namespace)", "(anonymous namespace",
	"operator()", "operator()(int)", "d::operator()", "d::operator()(int) const", "operator(", "operator(int)", "xoperator()(a)",
	"operator() (anonymous namespace)(", "d (int)", "d<int>(x)", "(", "",
}

var spellDrops = []string{
	"d", "\\.d", "d\\(int\\)", "\\(anonymous namespace\\)::d", ".*::d", "operator\\(\\)", "d::operator\\(\\)", ".*operator\\(\\)",
	"\\(anonymous namespace\\)", "operator", "d ", "d<int>", "ns::.*", "d.*",
}

func checkSpelling(c *vk.Ctx, name string) {
	mk := func(pos int) *ap.AP {
		// three forms: own location in the middle; inlined into the root
		// location; leaf of a two-location stack
		a := &ap.AP{Types: types, Maps: enum.Maps2[:1], PeriodType: &ap.VT{Type: "n", Unit: "count"}, Period: 1}
		s := fn(name, 5)
		loc := func(addr uint64, ls ...ap.Line) ap.Loc { return ap.Loc{Addr: addr, Map: 0, Lines: ls} }
		var st ap.Stack
		switch pos {
		case 0:
			st.Locs = []ap.Loc{loc(0x1010, fn("u", 1)), loc(0x1020, s), loc(0x1030, fn("xd", 4))}
		case 1:
			st.Locs = []ap.Loc{loc(0x1010, fn("u", 1)), loc(0x1020, fn("xd", 4), s, fn("u", 1))}
		default:
			st.Locs = []ap.Loc{loc(0x1010, fn("u", 1)), loc(0x1020, s)}
		}
		st.Values = values[0]
		a.Stacks = []ap.Stack{st}
		return a
	}
	for pos := 0; pos < 3; pos++ {
		a := mk(pos)
		cs := Case{Family: "spelling", S1: render(a.Stacks[0].Locs)}
		for _, d := range spellDrops {
			f, _ := newFull(d)
			if name != "" {
				if f.match(simplify(name)) {
					c.Count("spelling/named", 1)
				} else {
					c.Count("spelling/not-named", 1)
				}
			}
			checkDrop(c, cs, a, d, "", ap.Opts{})
			checkDrop(c, cs, a, ".*", d, ap.Opts{}) // the same expression in the keep role
			checkFrom(c, cs, a, "^(?:"+d+")$", ap.Opts{})
		}
	}
}

// ---------------------------------------------------------------------------
// Family "legacy": the expressions the legacy parsers attach, on the names
// they are written for (and near misses).
// ---------------------------------------------------------------------------

var legacyFormats = []struct{ name, text string }{
	{"heap", "heap profile: 1: 1024 [1: 1024] @ heapprofile\n1: 1024 [1: 1024] @ %s\n"},
	// allocation totals that differ from the in-use ones: four sample types, still a heap profile
	{"heap+alloc", "heap profile: 1: 1024 [3: 4096] @ heapprofile\n1: 1024 [3: 4096] @ %s\n"},
	{"growth", "heap profile: 1: 1024 [1: 1024] @ growthz\n1: 1024 [1: 1024] @ %s\n"},
	{"contention", "--- contentionz 1 ---\ncycles/second = 1000000000\nsampling period = 1\n100 1 @ %s\n"},
	{"goroutine", "goroutine profile: total 1\n1 @ %s\n"},
}

var legacyNames = []string{
	"malloc", "calloc", "free", "realloc", "posix_memalign", "__posix_memalign", "tc_new", "tc_newarray_nothrow",
	"tcmalloc::ThreadCache::Allocate(unsigned long)", "malloc_zone_malloc", "runtime.mallocgc", "runtime.newobject",
	"runtime.panic", "runtime.reflectcall", "runtime.call32", "runtime.call", "runtime.callers", "BaseArena::Alloc",
	"::do_malloc", "do_malloc_pages", "__builtin_new", "__builtin_vec_delete", "allocate", "std::allocator::allocate",
	"operator new", "operator new(unsigned long)", "operator new[]", "operator new[](unsigned long)", "operator delete",
	".malloc", "mallocx", "my_malloc", "xmalloc(int)",
	"RecordLockProfileData", "base::RecordLockProfileData(long)", "base::Mutex::Unlock()", "Mutex::UnlockSlow", "Unlock",
	"~MutexLock", "base::MutexLock::~MutexLock()", "SpinLock::SlowUnlock", "SpinLockHolder::~SpinLockHolder", "Lock",
	"ProfileData::Add", "ProfileData::Add(int, void const* const*)", "ProfileData::prof_handler", "CpuProfiler::prof_handler(int, siginfo_t*, void*)",
	"__pthread_sighandler", "__restore", "__restore_rt", "main",
}

// legacyProfile parses a legacy document with the given number of frames and
// gives the locations names (leaf first) the way a symbolizer would; lines[i]
// lists the names of location i, leaf-most line first.
func legacyProfile(fi int, lines [][]string) (*profile.Profile, error) {
	var addrs []string
	for i := range lines {
		addrs = append(addrs, fmt.Sprintf("0x%x", 0x1000+0x100*i))
	}
	p, err := profile.ParseData([]byte(fmt.Sprintf(legacyFormats[fi].text, strings.Join(addrs, " "))))
	if err != nil {
		return nil, err
	}
	nameLegacy(p, lines)
	return p, nil
}

func nameLegacy(p *profile.Profile, lines [][]string) {
	if len(p.Sample) != 1 || len(p.Sample[0].Location) != len(lines) {
		return
	}
	funcs := map[string]*profile.Function{}
	for i, l := range p.Sample[0].Location {
		if len(l.Line) > 0 {
			continue
		}
		for _, n := range lines[i] {
			f := funcs[n]
			if f == nil {
				f = &profile.Function{ID: uint64(len(p.Function) + 1), Name: n, SystemName: n}
				funcs[n] = f
				p.Function = append(p.Function, f)
			}
			l.Line = append(l.Line, profile.Line{Function: f})
		}
	}
}

// legacyForms lists stack forms (leaf first, lines leaf first) around name x.
func legacyForms(x string) [][][]string {
	return [][][]string{
		{{"inner"}, {x}, {"main"}},             // main | x | inner
		{{"inner"}, {x}, {"main"}, {x}},        // x | main | x | inner   (leading match is kept)
		{{"inner"}, {x, "work"}, {"main"}},     // main | work+x | inner  (inlined)
		{{"inner", x}, {"work"}, {x}, {"run"}}, // run | x | work | x+inner
	}
}

func checkLegacy(c *vk.Ctx, fi, ni int) {
	x := legacyNames[ni]
	for _, form := range legacyForms(x) {
		p, err := legacyProfile(fi, form)
		if err != nil {
			c.Violationf("harness/legacy-unparsable", Case{Family: "legacy", S1: legacyFormats[fi].name}, "%v", err)
			return
		}
		if len(p.Sample) != 1 || len(p.Sample[0].Location) != len(form) || p.DropFrames == "" {
			c.Count("legacy/not-as-expected", 1)
			continue
		}
		// the built-in table is the one of the profile's kind: allocator frames for heap profiles, lock
		// frames for contention profiles, the CPU profiler's own frames for everything else
		kind := "cpu"
		switch legacyFormats[fi].name {
		case "heap", "heap+alloc", "growth":
			kind = "alloc"
		case "contention":
			kind = "lock"
		}
		for _, rep := range [][2]string{{"alloc", "malloc"}, {"lock", "RecordLockProfileData"}, {"cpu", "ProfileData::Add"}} {
			f, e := newFull(p.DropFrames)
			if e == nil && f.match(rep[1]) != (rep[0] == kind) {
				c.Violationf("legacy/table-of-another-kind", Case{Family: "legacy", Ids: legacyFormats[fi].name, Drop: p.DropFrames}, "a %s profile: drop_frames names %q = %v", legacyFormats[fi].name, rep[1], f.match(rep[1]))
			}
		}
		if k, e := newFull(p.KeepFrames); (p.KeepFrames != "" && e == nil && k.match("runtime.panic")) != (kind == "alloc") {
			c.Violationf("legacy/table-of-another-kind", Case{Family: "legacy", Ids: legacyFormats[fi].name, Keep: p.KeepFrames}, "a %s profile: keep_frames %q", legacyFormats[fi].name, p.KeepFrames)
		}
		if f, e := newFull(p.DropFrames); e == nil && f.match(simplify(x)) {
			c.Count("legacy/named", 1)
			if p.KeepFrames != "" {
				if k, e := newFull(p.KeepFrames); e == nil && k.match(simplify(x)) {
					c.Count("legacy/named-and-kept", 1)
				}
			}
		}
		in := ap.Abstract(p)
		cs := Case{Family: "legacy", S1: render(in.Stacks[0].Locs), Ids: legacyFormats[fi].name, Op: "drop", Drop: "<built-in>", Keep: "<built-in>", Via: "api"}
		checkDropOn(c, cs, p, nil)
	}
}

// ---------------------------------------------------------------------------
// End to end: pprof -traces
// ---------------------------------------------------------------------------

// names returns, for each sample with frames, the function names leaf first.
func names(p *profile.Profile, si int) (stacks [][]string, vals []int64) {
	for _, s := range p.Sample {
		var st []string
		for _, l := range s.Location {
			for _, ln := range l.Line {
				if ln.Function != nil {
					st = append(st, ln.Function.Name)
				} else {
					st = append(st, "")
				}
			}
		}
		if len(st) == 0 {
			continue
		}
		stacks = append(stacks, st)
		vals = append(vals, s.Value[si])
	}
	return
}

func compareTraces(c *vk.Ctx, cs Case, r *drive.Result, want [][]string, wantVals []int64) {
	if r.Panic != nil {
		c.Violationf("panic/traces", cs, "panic: %v\n%s", r.Panic, r.Stack)
		return
	}
	if r.Err != nil {
		c.Violationf("e2e/error", cs, "unexpected error: %v", r.Err)
		return
	}
	vals, stacks, ok := parse.Traces(r.Out)
	if !ok {
		c.Count("unparsed/traces", 1)
		return
	}
	c.Count("e2e/traces-compared", 1)
	if len(stacks) == 0 && len(want) == 0 {
		return
	}
	if !reflect.DeepEqual(stacks, want) {
		c.Violationf("e2e/"+cs.Op+"-not-as-api", cs, "traces show %v (leaf first), the library call gives %v\n%s", stacks, want, r.Out)
		return
	}
	if !reflect.DeepEqual(vals, wantVals) {
		c.Violationf("e2e/"+cs.Op+"-values", cs, "traces show values %v, want %v\n%s", vals, wantVals, r.Out)
	}
}

var (
	e2eDrops = []dk{{"", ""}, {"d", ""}, {"d|k", "k"}, {".*", ""}, {"(", ""}}
	e2eFroms = []string{"d", "d|k", "^xd$"}
)

func checkE2E(c *vk.Ctx, cs Case, a *ap.AP) {
	cs.Via = "traces"
	for _, e := range e2eDrops {
		b := *a
		b.DropFrames, b.KeepFrames = e.drop, e.keep
		data := drive.Encode(ap.Concretize(&b, ap.Opts{}))
		cs.Op, cs.Drop, cs.Keep, cs.Rx = "drop", e.drop, e.keep, ""
		q, err := profile.ParseData(data)
		if err != nil {
			c.Violationf("harness/unparsable", cs, "%v", err)
			return
		}
		q.RemoveUninteresting()
		want, wv := names(q, 1)
		c.Eval()
		r := drive.Report(map[string][]byte{"p": data}, []string{"p"}, "traces")
		compareTraces(c, cs, r, want, wv)
		if e.drop != "d" {
			continue
		}
		// prune_from on top of the profile's own expressions
		for _, rx := range e2eFroms {
			q, _ := profile.ParseData(data)
			q.RemoveUninteresting()
			q.PruneFrom(regexp.MustCompile(rx))
			want, wv := names(q, 1)
			cs.Op, cs.Rx = "prune_from", rx
			c.Eval()
			r := drive.Report(map[string][]byte{"p": data}, []string{"p"}, "traces", "prune_from="+rx)
			compareTraces(c, cs, r, want, wv)
		}
	}
	// prune_from alone
	data := drive.Encode(ap.Concretize(a, ap.Opts{}))
	for _, rx := range e2eFroms {
		q, _ := profile.ParseData(data)
		q.PruneFrom(regexp.MustCompile(rx))
		want, wv := names(q, 1)
		cs.Op, cs.Drop, cs.Keep, cs.Rx = "prune_from", "", "", rx
		c.Eval()
		r := drive.Report(map[string][]byte{"p": data}, []string{"p"}, "traces", "prune_from="+rx)
		compareTraces(c, cs, r, want, wv)
	}
}

type legacySym struct{ lines [][]string }

func (s legacySym) Symbolize(mode string, srcs plugin.MappingSources, p *profile.Profile) error {
	nameLegacy(p, s.lines)
	return nil
}

func checkE2ELegacy(c *vk.Ctx, fi int) {
	for _, x := range legacyNames {
		for _, form := range legacyForms(x)[:3] {
			var addrs []string
			for i := range form {
				addrs = append(addrs, fmt.Sprintf("0x%x", 0x1000+0x100*i))
			}
			text := []byte(fmt.Sprintf(legacyFormats[fi].text, strings.Join(addrs, " ")))
			q, err := legacyProfile(fi, form)
			if err != nil {
				return
			}
			in := ap.Abstract(q)
			q.RemoveUninteresting()
			want, wv := names(q, 0)
			cs := Case{Family: "e2e-legacy", S1: render(in.Stacks[0].Locs), Ids: legacyFormats[fi].name, Op: "drop", Drop: "<built-in>", Keep: "<built-in>", Via: "traces"}
			c.Eval()
			r := drive.Run(&drive.Session{Fetch: &drive.Fetcher{Data: map[string][]byte{"p": text}}, Flags: drive.MkFlags([]string{"p"}, "traces", "sample_index=0"), Sym: legacySym{form}})
			compareTraces(c, cs, r, want, wv)
		}
	}
}
