package c11

import (
	"regexp"
	"strings"

	"github.com/google/pprof/verifh/ap"
)

// ---------------------------------------------------------------------------
// Name simplification and matching (reference side).
// ---------------------------------------------------------------------------

// simplify is the reference name simplification, written from the doc comment
// of profile.simplifyFunc: one leading '.' is dropped (PPC ELF v1), and the
// argument list is removed by cutting at the first '(' that is not part of an
// occurrence of one of the reserved names "(anonymous namespace)" and
// "operator()" (occurrences are found scanning left to right).
func simplify(name string) string {
	s := strings.TrimPrefix(name, ".")
	for i := 0; i < len(s); {
		switch {
		case strings.HasPrefix(s[i:], "(anonymous namespace)"):
			i += len("(anonymous namespace)")
		case strings.HasPrefix(s[i:], "operator()"):
			i += len("operator()")
		case s[i] == '(':
			return s[:i]
		default:
			i++
		}
	}
	return s
}

// full reports whether rx matches the whole of s. It does not rely on textual
// anchoring of the expression: with leftmost-longest semantics a match that
// spans the whole string exists iff the reported match is [0,len(s)].
type full struct{ rx *regexp.Regexp }

func newFull(expr string) (*full, error) {
	rx, err := regexp.Compile(expr)
	if err != nil {
		return nil, err
	}
	rx.Longest()
	return &full{rx}, nil
}

func (f *full) match(s string) bool {
	loc := f.rx.FindStringIndex(s)
	return loc != nil && loc[0] == 0 && loc[1] == len(s)
}

// namePred decides whether a function name (unsimplified) is named by the rule.
type namePred func(name string) bool

// dropPred: the simplified name fully matches drop and does not fully match keep.
func dropPred(drop, keep *full) namePred {
	cache := map[string]bool{}
	return func(name string) bool {
		if r, ok := cache[name]; ok {
			return r
		}
		s := simplify(name)
		r := drop.match(s) && (keep == nil || !keep.match(s))
		cache[name] = r
		return r
	}
}

// fromPred: the simplified name matches the prune_from expression (a plain,
// unanchored regular expression as typed by the user).
func fromPred(rx *regexp.Regexp) namePred {
	cache := map[string]bool{}
	return func(name string) bool {
		if r, ok := cache[name]; ok {
			return r
		}
		r := rx.MatchString(simplify(name))
		cache[name] = r
		return r
	}
}

// marks[l][i] says whether line i (caller first) of location l is named by the
// rule. A location without lines has no marks (it is a frame without a name and
// therefore never named by an expression). A line whose function name is empty
// is marked emptyAs when the expression would match the empty string (the
// statement does not say whether a nameless function can be "named" by an
// expression, so both readings are accepted, see alternatives) and false
// otherwise.
func marks(s *ap.Stack, pred namePred, emptyAs bool) [][]bool {
	out := make([][]bool, len(s.Locs))
	for li, l := range s.Locs {
		m := make([]bool, len(l.Lines))
		for i, ln := range l.Lines {
			if ln.Func == "" {
				m[i] = emptyAs && pred("")
			} else {
				m[i] = pred(ln.Func)
			}
		}
		out[li] = m
	}
	return out
}

// alternatives returns the acceptable readings of the rule on a stack: one,
// or two when a line with an empty function name meets an expression matching
// the empty string. The first reading treats such lines as not named.
func alternatives(s *ap.Stack, pred namePred) [][][]bool {
	alts := [][][]bool{marks(s, pred, false)}
	if pred("") {
		for _, l := range s.Locs {
			for _, ln := range l.Lines {
				if ln.Func == "" {
					return append(alts, marks(s, pred, true))
				}
			}
		}
	}
	return alts
}

// ---------------------------------------------------------------------------
// The reference: the statement, literally, as a scan over frames root -> leaf.
// ---------------------------------------------------------------------------

// flat flattens marks into one bool per frame, root first. A location without
// lines is one (unnamed, hence unmarked) frame.
func flat(m [][]bool) []bool {
	var out []bool
	for _, l := range m {
		if len(l) == 0 {
			out = append(out, false)
			continue
		}
		out = append(out, l...)
	}
	return out
}

// refDropKeep returns how many frames (root first) the drop rule keeps:
// everything on the root side of the first named frame that is preceded by at
// least one frame that is not named; all frames if there is none.
func refDropKeep(fr []bool) int {
	seenOther := false
	for i, m := range fr {
		if !m {
			seenOther = true
			continue
		}
		if seenOther {
			return i
		}
	}
	return len(fr)
}

// refFromKeep returns how many frames prune_from keeps: up to and including
// the lowest (leaf-most) named frame; all frames if there is none.
func refFromKeep(fr []bool) int {
	for i := len(fr) - 1; i >= 0; i-- {
		if fr[i] {
			return i + 1
		}
	}
	return len(fr)
}

// cut keeps the first n frames of a stack (root first), truncating the line
// list of the location the cut falls into.
func cut(s *ap.Stack, n int) []ap.Loc {
	var out []ap.Loc
	for _, l := range s.Locs {
		if n <= 0 {
			break
		}
		w := len(l.Lines)
		if w == 0 {
			w = 1
		}
		if w <= n {
			out = append(out, l)
			n -= w
			continue
		}
		l.Lines = l.Lines[:n]
		out = append(out, l)
		n = 0
	}
	return out
}

// ---------------------------------------------------------------------------
// Location-level models, with the known defects as switches ("defect models").
//
// modelDrop describes the drop rule at the granularity the implementation
// works at (whole locations, the "first user frame" guard), per sample, with
// no sharing. With both switches off it is equivalent to the frame-level
// reference above (asserted on every enumerated case: class
// harness/model-self-check). Each switch builds one known defect in:
//
//	defA (finding F7a): while no location free of named frames has been seen
//	   from the root, a location whose root-most line is NOT named but which
//	   has a named line further in (a match in the middle of its inline chain)
//	   is truncated at that line, but the scan goes on as if nothing had been
//	   found: the locations on its leaf side survive (until a later match
//	   that follows a match-free location).
//	defD (new finding, same guard): while no location free of named frames has
//	   been seen, a location whose root-most line IS named is kept whole and
//	   the frames inlined into it are not looked at: a non-named frame among
//	   them does not count as the "non-matching frame" of the statement, and a
//	   named frame after it (in the same or in a following location) is kept.
//
// A disagreement between the implementation and the reference is attributed to
// a known class only if the implementation's result EQUALS the result of the
// model with exactly that switch (or, third class, only both switches) on.
// ---------------------------------------------------------------------------

func first(m []bool, v bool, from int) int {
	for i := from; i < len(m); i++ {
		if m[i] == v {
			return i
		}
	}
	return -1
}

func trimLoc(l ap.Loc, n int) ap.Loc {
	l.Lines = l.Lines[:n]
	return l
}

func modelDrop(s *ap.Stack, m [][]bool, defA, defD bool) []ap.Loc {
	var out []ap.Loc
	foundUser := false
	for li, l := range s.Locs {
		ml := m[li]
		fm := first(ml, true, 0)
		switch {
		case fm < 0: // no named line: a user location
			foundUser = true
			out = append(out, l)
		case fm > 0: // named line in the middle of the inline chain
			out = append(out, trimLoc(l, fm))
			if foundUser || !defA {
				return out
			}
		default: // root-most line named
			if foundUser {
				return out
			}
			fu := first(ml, false, 0)
			if fu < 0 || defD {
				out = append(out, l)
				continue
			}
			if sm := first(ml, true, fu); sm >= 0 {
				return append(out, trimLoc(l, sm))
			}
			foundUser = true
			out = append(out, l)
		}
	}
	return out
}

// modelFrom describes prune_from per sample. defC (finding F7c) builds in the
// known defect: every location that survives and contains a named line is
// truncated after ITS OWN lowest named line, also when the sample's lowest
// named frame lies in another location further down.
func modelFrom(s *ap.Stack, m [][]bool, defC bool) []ap.Loc {
	last := -1
	for li := len(s.Locs) - 1; li >= 0 && last < 0; li-- {
		if first(m[li], true, 0) >= 0 {
			last = li
		}
	}
	if last < 0 {
		return append([]ap.Loc(nil), s.Locs...)
	}
	var out []ap.Loc
	for li := 0; li <= last; li++ {
		l := s.Locs[li]
		if li == last || defC {
			lm := -1
			for i, v := range m[li] {
				if v {
					lm = i
				}
			}
			if lm >= 0 {
				l = trimLoc(l, lm+1)
			}
		}
		out = append(out, l)
	}
	return out
}

// ---------------------------------------------------------------------------
// Comparison helpers.
// ---------------------------------------------------------------------------

func eqLocs(a, b []ap.Loc) bool {
	if len(a) != len(b) {
		return false
	}
	for i := range a {
		x, y := a[i], b[i]
		if x.Addr != y.Addr || x.Map != y.Map || x.Folded != y.Folded || len(x.Lines) != len(y.Lines) {
			return false
		}
		for j := range x.Lines {
			if x.Lines[j] != y.Lines[j] {
				return false
			}
		}
	}
	return true
}

type fkey struct {
	ap.Line
	addr    uint64
	noLines bool
}

func frameKeys(locs []ap.Loc) []fkey {
	var out []fkey
	for _, l := range locs {
		if len(l.Lines) == 0 {
			out = append(out, fkey{addr: l.Addr, noLines: true})
			continue
		}
		for _, ln := range l.Lines {
			out = append(out, fkey{Line: ln, addr: l.Addr})
		}
	}
	return out
}

// properPrefix reports whether the frames of a are a proper prefix of those of b.
func properPrefix(a, b []ap.Loc) bool {
	fa, fb := frameKeys(a), frameKeys(b)
	if len(fa) >= len(fb) {
		return false
	}
	for i := range fa {
		if fa[i] != fb[i] {
			return false
		}
	}
	return true
}

// render prints a stack as "u|d+k|x" (root first; | between locations, +
// between inlined lines), using function names.
func render(locs []ap.Loc) string {
	if len(locs) == 0 {
		return "<empty>"
	}
	var b strings.Builder
	for i, l := range locs {
		if i > 0 {
			b.WriteByte('|')
		}
		if len(l.Lines) == 0 {
			b.WriteString("?")
		}
		for j, ln := range l.Lines {
			if j > 0 {
				b.WriteByte('+')
			}
			if ln.Func == "" {
				b.WriteString("''")
			} else {
				b.WriteString(ln.Func)
			}
		}
	}
	return b.String()
}
