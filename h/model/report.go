// Package model holds the boring reference models written over the abstract
// profile. This file: flat / cum / edge / total of a report by definition.
package model

import (
	"fmt"
	"path/filepath"
	"sort"
	"strings"

	"github.com/google/pprof/verifh/ap"
)

// Cfg is the part of the report configuration that changes numbers.
type Cfg struct {
	Gran      string // functions, filefunctions, files, lines, addresses
	NoInlines bool
	ShowCols  bool
	SI        int  // sample index
	Mean      bool // divide by the sums of value 0
	CallTree  bool // entries are keyed by path (dot and callgrind only)
	TagRoot   string
	TagLeaf   string
	ObjNames  bool // keep the binary as part of the identity (callgrind, raw, list)
}

func (c Cfg) String() string {
	return fmt.Sprintf("%s noinl=%v cols=%v si=%d mean=%v tree=%v root=%q leaf=%q obj=%v", c.Gran, c.NoInlines, c.ShowCols, c.SI, c.Mean, c.CallTree, c.TagRoot, c.TagLeaf, c.ObjNames)
}

// Key identifies a report entry: the attributes of a frame that survive the
// configured aggregation.
type Key struct {
	Name  string
	File  string
	Line  int64
	Col   int64
	Addr  uint64
	Obj   string
	Start int64
	Path  string // call-tree mode: keys of the callers, root first
}

// Printable is the name under which an entry is shown: address (if any),
// function name, then file:line[:col] or file or [binary] or <unknown>.
func (k Key) Printable() string {
	var parts []string
	if k.Addr != 0 {
		parts = append(parts, fmt.Sprintf("%016x", k.Addr))
	}
	if k.Name != "" {
		parts = append(parts, k.Name)
	}
	switch {
	case k.Line != 0:
		s := fmt.Sprintf("%s:%d", k.File, k.Line)
		if k.Col != 0 {
			s += fmt.Sprintf(":%d", k.Col)
		}
		parts = append(parts, s)
	case k.File != "":
		parts = append(parts, k.File)
	case k.Name != "":
	case k.Obj != "":
		parts = append(parts, "["+filepath.Base(k.Obj)+"]")
	default:
		parts = append(parts, "<unknown>")
	}
	return strings.Join(parts, " ")
}

func (k Key) flat() string {
	return fmt.Sprintf("%q|%q|%d|%d|%x|%q|%d", k.Name, k.File, k.Line, k.Col, k.Addr, k.Obj, k.Start)
}

// Entry holds the raw sums of one entry.
type Entry struct {
	Key                        Key
	Flat, FlatDiv, Cum, CumDiv int64
}

// FlatValue is the shown flat value.
func (e *Entry) FlatValue() int64 { return div(e.Flat, e.FlatDiv) }

// CumValue is the shown cum value.
func (e *Entry) CumValue() int64 { return div(e.Cum, e.CumDiv) }

func div(v, d int64) int64 {
	if d == 0 {
		return v
	}
	return v / d
}

// Edge holds the raw sums of one caller→callee edge.
type Edge struct {
	Src, Dst          Key
	Weight, WeightDiv int64
}

// Value is the shown weight.
func (e *Edge) Value() int64 { return div(e.Weight, e.WeightDiv) }

// Rep is a reference report.
type Rep struct {
	Entries map[Key]*Entry
	Edges   map[[2]Key]*Edge
	Total   int64 // Σ|v| (divided by Σ of value 0 with mean)
	// Traces: per sample, the shown value (v or v/d), in input order, for
	// samples that have at least one frame.
	Traces []int64
	// AllNames: printable names of all entries, including those without weight.
	AllNames []string
}

// SFrame is a frame after tag pseudo-frames were added.
type SFrame struct {
	ap.Frame
	File0 string // mapping file
}

// StackFrames returns the frames of a stack, root first, after tagroot/tagleaf
// pseudo-frames were added and noinlines applied.
func StackFrames(a *ap.AP, s *ap.Stack, c Cfg) []SFrame {
	var out []SFrame
	pseudo := func(key string) SFrame {
		vals := append([]string(nil), s.Labels[key]...)
		nl, nu := s.NumLabel[key], s.NumUnit[key]
		if len(nl) == len(nu) || len(nu) == 0 {
			for i, v := range nl {
				_ = i
				// The harness only uses unit-less numeric labels for tag roots; they
				// are shown as plain integers.
				vals = append(vals, fmt.Sprint(v))
			}
		}
		return SFrame{Frame: ap.Frame{Line: ap.Line{Func: strings.Join(vals, ","), File: key}, Map: -1}}
	}
	for _, k := range splitKeys(c.TagRoot) {
		out = append(out, pseudo(k))
	}
	for _, f := range s.Frames() {
		if c.NoInlines && f.Inlined {
			continue
		}
		out = append(out, SFrame{Frame: f, File0: a.MapFile(f.Map)})
	}
	for _, k := range splitKeys(c.TagLeaf) {
		out = append(out, pseudo(k))
	}
	return out
}

func splitKeys(s string) []string {
	var out []string
	for _, k := range strings.Split(s, ",") {
		if k != "" {
			out = append(out, k)
		}
	}
	return out
}

// KeyOf maps a frame to its entry under the configured granularity.
func KeyOf(f SFrame, c Cfg) Key {
	var function, filename, linenumber, address, column bool
	switch c.Gran {
	case "addresses":
		function, filename, linenumber, address = true, true, true, true
		column = c.ShowCols || !c.NoInlines // no aggregation at all with inlines
	case "lines":
		function, filename, linenumber = true, true, true
		column = c.ShowCols
	case "files":
		filename = true
	case "functions", "":
		function = true
	case "filefunctions":
		function, filename = true, true
	}
	var k Key
	if address {
		k.Addr = f.Addr
	}
	if f.NoLines || f.NoFunc {
		// no line information, or a line without a function: the entry is the binary (and the
		// address, at address granularity); a line number without a function is not shown
		k.Obj = f.File0
		return k
	}
	if function {
		k.Name = f.Func
	}
	if filename && f.File != "" {
		k.File = filepath.Clean(f.File)
	}
	if linenumber {
		k.Line = f.Frame.Line.Line
		if column {
			k.Col = f.Col
		}
	}
	// The system name is never shown; the binary and the start line are part of
	// the identity only when there is no name or for binary-aware formats.
	if c.ObjNames || k.Name == "" {
		k.Obj = f.File0
		k.Start = f.Start
	}
	return k
}

// Report computes the reference report of a profile.
func Report(a *ap.AP, c Cfg) *Rep {
	r := &Rep{Entries: map[Key]*Entry{}, Edges: map[[2]Key]*Edge{}}
	var total, totalDiv int64
	// samples of a diff base (label pprof::base=true, set by -diff_base): when there are any, the
	// total is taken over them alone
	var baseTotal, baseDiv int64
	for si := range a.Stacks {
		s := &a.Stacks[si]
		w := s.Values[c.SI]
		var dw int64
		if c.Mean {
			dw = s.Values[0]
		}
		aw := w
		if aw < 0 {
			aw = -aw
		}
		total += aw
		totalDiv += dw
		for _, v := range s.Labels["pprof::base"] {
			if v == "true" {
				baseTotal += aw
				baseDiv += dw
				break
			}
		}
		frames := StackFrames(a, s, c)
		if len(frames) > 0 {
			r.Traces = append(r.Traces, div(w, dw))
		}
		if w == 0 && dw == 0 {
			continue
		}
		keys := make([]Key, len(frames))
		path := ""
		for i, f := range frames {
			keys[i] = KeyOf(f, c)
			if c.CallTree {
				keys[i].Path = path
				path += "/" + keys[i].flat()
			}
		}
		seen := map[Key]bool{}
		seenE := map[[2]Key]bool{}
		for i, k := range keys {
			e := r.Entries[k]
			if e == nil {
				e = &Entry{Key: k}
				r.Entries[k] = e
			}
			if !seen[k] {
				seen[k] = true
				e.Cum += w
				e.CumDiv += dw
			}
			if i > 0 && keys[i-1] != k {
				ek := [2]Key{keys[i-1], k}
				if !seenE[ek] {
					seenE[ek] = true
					ed := r.Edges[ek]
					if ed == nil {
						ed = &Edge{Src: keys[i-1], Dst: k}
						r.Edges[ek] = ed
					}
					ed.Weight += w
					ed.WeightDiv += dw
				}
			}
			if i == len(keys)-1 {
				e.Flat += w
				e.FlatDiv += dw
			}
		}
	}
	r.Total = div(total, totalDiv)
	if baseTotal > 0 {
		r.Total = div(baseTotal, baseDiv)
	}
	for k, e := range r.Entries {
		r.AllNames = append(r.AllNames, k.Printable())
		if e.Flat == 0 && e.Cum == 0 {
			delete(r.Entries, k) // entries without any weight are not shown
		}
	}
	for k := range r.Edges {
		if r.Entries[k[0]] == nil || r.Entries[k[1]] == nil {
			delete(r.Edges, k)
		}
	}
	return r
}

// Row is an entry as shown: printable name and the two values.
type Row struct {
	Name      string
	Flat, Cum int64
}

// Rows returns the entries as a sorted multiset of rows.
func (r *Rep) Rows() []Row {
	var rows []Row
	for _, e := range r.Entries {
		rows = append(rows, Row{e.Key.Printable(), e.FlatValue(), e.CumValue()})
	}
	SortRows(rows)
	return rows
}

// SortRows sorts rows canonically.
func SortRows(rows []Row) {
	sort.Slice(rows, func(i, j int) bool {
		a, b := rows[i], rows[j]
		if a.Name != b.Name {
			return a.Name < b.Name
		}
		if a.Flat != b.Flat {
			return a.Flat < b.Flat
		}
		return a.Cum < b.Cum
	})
}

// ERow is an edge as shown.
type ERow struct {
	Src, Dst string
	W        int64
}

// EdgeRows returns the edges as a sorted multiset. raw selects the undivided weight.
func (r *Rep) EdgeRows(raw bool) []ERow {
	var rows []ERow
	for _, e := range r.Edges {
		w := e.Value()
		if raw {
			w = e.Weight
		}
		rows = append(rows, ERow{e.Src.Printable(), e.Dst.Printable(), w})
	}
	SortERows(rows)
	return rows
}

// SortERows sorts edge rows canonically.
func SortERows(rows []ERow) {
	sort.Slice(rows, func(i, j int) bool {
		a, b := rows[i], rows[j]
		if a.Src != b.Src {
			return a.Src < b.Src
		}
		if a.Dst != b.Dst {
			return a.Dst < b.Dst
		}
		return a.W < b.W
	})
}
