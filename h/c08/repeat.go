package c08

import (
	"bytes"
	"fmt"

	"github.com/google/pprof/profile"
	"github.com/google/pprof/verifh/ap"
	"github.com/google/pprof/verifh/drive"
	"github.com/google/pprof/verifh/vk"
)

// repeats checks "regardless of how often it has been run in the session":
// within ONE session (one loaded profile object) the same request, command or
// serialization, issued three times, gives the same bytes each time. Every
// input, every web page of the handler table (including /download, which
// re-serializes the session's profile), every report command of the interactive
// shell, and Write / WriteUncompressed / Copy+Write on one in-memory profile.
func repeats(c *vk.Ctx, idx *int64) {
	for _, in := range Inputs() {
		if !c.Mine(*idx) {
			*idx++
			continue
		}
		*idx++
		p := ap.Concretize(in.a, ap.Opts{})
		data := map[string][]byte{"p": drive.Encode(p)}
		w := func(what string) witness { return witness{Input: in.name, Format: "repeat/" + what} }

		// library: the same in-memory profile serialized again and again
		enc := map[string]func(q *profile.Profile) ([]byte, error){
			"WriteUncompressed": func(q *profile.Profile) ([]byte, error) {
				var b bytes.Buffer
				err := q.WriteUncompressed(&b)
				return b.Bytes(), err
			},
			"Copy+WriteUncompressed": func(q *profile.Profile) ([]byte, error) {
				var b bytes.Buffer
				err := q.Copy().WriteUncompressed(&b)
				return b.Bytes(), err
			},
			"String": func(q *profile.Profile) ([]byte, error) { return []byte(q.String()), nil },
		}
		for _, name := range []string{"WriteUncompressed", "Copy+WriteUncompressed", "String"} {
			q, err := profile.ParseData(data["p"])
			if err != nil {
				c.Violation("harness/unparsable-input", w(name), err.Error())
				continue
			}
			var first []byte
			for k := 0; k < 3; k++ {
				c.Eval()
				b, err := enc[name](q)
				if err != nil {
					c.Violationf("repeat/serialize", w(name), "run %d: %v", k+1, err)
					break
				}
				if k == 0 {
					first = b
				} else if !bytes.Equal(b, first) {
					c.Violationf("repeat/serialize", w(name), "run %d of %s on the same profile differs from run 1 (%d vs %d bytes)\n%s", k+1, name, len(b), len(first), diff(string(first), string(b)))
					break
				}
			}
			c.Count("repeat/serialize", 1)
		}

		// web: one server, every page three times
		r := drive.Run(&drive.Session{Fetch: &drive.Fetcher{Data: data}, Flags: webFlags(), Obj: drive.FakeObj{}})
		if r.Handlers == nil {
			c.Violation("harness/no-web-handlers", w("web"), fmt.Sprint(r.Err, r.Panic))
		} else {
			for _, path := range drive.Paths(r.Handlers) {
				if path == "/saveconfig" || path == "/deleteconfig" {
					continue
				}
				target := path
				if path == "/peek" || path == "/source" || path == "/disasm" {
					target += "?f=."
				}
				var first string
				for k := 0; k < 3; k++ {
					c.Eval()
					code, b, pan := drive.Get(r.Handlers, "GET", target)
					got := fmt.Sprintf("%d %v\n%s", code, pan, b)
					if k == 0 {
						first = got
					} else if got != first {
						c.Violationf("repeat/web"+path, w("web"+path), "request %d for %s in one session differs from request 1\n%s", k+1, target, diff(first, got))
						break
					}
				}
				c.Count("repeat/web", 1)
			}
		}

		// interactive: one shell, every report command three times
		cmds := []string{"top", "tree", "peek .", "traces", "tags", "dot", "callgrind", "raw", "proto", "topproto", "comments", "text"}
		ui := &drive.UI{}
		for ci, cmd := range cmds {
			for k := 0; k < 3; k++ {
				ui.Lines = append(ui.Lines, fmt.Sprintf("%s >R%d_%d", cmd, ci, k))
			}
		}
		fl := drive.MkFlags([]string{"p"})
		delete(fl.Strings, "output")
		wr := &drive.Writer{}
		c.Eval()
		ri := drive.Run(&drive.Session{Fetch: &drive.Fetcher{Data: data}, Flags: fl, UI: ui, W: wr})
		if ri.Panic != nil {
			c.Violationf("panic/repeat-interactive", w("interactive"), "%v\n%s", ri.Panic, ri.Stack)
			continue
		}
		by := map[string]string{}
		for _, f := range wr.Files {
			by[f.Name] = f.String()
		}
		for ci, cmd := range cmds {
			first := by[fmt.Sprintf("R%d_0", ci)]
			for k := 1; k < 3; k++ {
				if got := by[fmt.Sprintf("R%d_%d", ci, k)]; got != first {
					c.Violationf("repeat/interactive/"+cmd, w("interactive "+cmd), "run %d of %q in one session differs from run 1\n%s", k+1, cmd, diff(first, got))
					break
				}
			}
			c.Count("repeat/interactive", 1)
		}
		c.Nontrivial("repeat/" + in.name)
	}
}

func webFlags() drive.Flags {
	flw := drive.MkFlags([]string{"p"})
	delete(flw.Strings, "output")
	flw.Strings["http"] = "localhost:8080"
	flw.Bools["no_browser"] = true
	return flw
}
