package c08

import (
	"fmt"
	"strings"

	"github.com/google/pprof/internal/verifrt"
	"github.com/google/pprof/verifh/ap"
	"github.com/google/pprof/verifh/drive"
	"github.com/google/pprof/verifh/vk"
)

// fetchOrders: part 3 of the property - the bytes must not depend on the order in
// which concurrent fetches complete. Two and three sources that differ in
// everything a merge takes from "earlier" inputs (comments, main binary, sample
// and location order), every completion permutation of the fetches (each fake
// fetch blocks until it is its turn) x preemption bound 1, for the formats that
// expose merge order. The byte-identity oracle is the one of part 1. (C16 checks
// the same executions against the merge reference.)
func fetchOrders(c *vk.Ctx, idx *int64) {
	mk := func(i int) []byte {
		a := base()
		fn := fmt.Sprintf("f%d", i)
		a.Maps = append([]ap.Map(nil), a.Maps...)
		a.Maps[0].File = fmt.Sprintf("/bin/prog%d", i)
		a.Comments = []string{fmt.Sprintf("comment-%d", i)}
		a.Stacks = []ap.Stack{
			{Locs: []ap.Loc{loc(0, 0x1010, ln("shared", "s.go", 1))}, Values: []int64{1, 1}},
			{Locs: []ap.Loc{loc(0, 0x1100+uint64(i)*0x10, ln(fn, "o.go", int64(i+1)))}, Values: []int64{int64(i + 2), 1}},
		}
		return drive.Encode(ap.Concretize(a, ap.Opts{}))
	}
	formats := [][]string{{"proto"}, {"raw"}, {"traces"}, {"comments"}, {"top"}, {"dot"}, {"tags"}}
	for _, n := range []int{2, 3} {
		var names []string
		data := map[string][]byte{}
		for i := 0; i < n; i++ {
			nm := fmt.Sprintf("s%d", i)
			names = append(names, nm)
			data[nm] = mk(i)
		}
		ps := permutations(n)
		for _, f := range formats {
			if !c.Mine(*idx) {
				*idx++
				continue
			}
			*idx++
			var last string
			var order []int
			body := func() {
				order = ps[verifrt.Choose(len(ps), verifrt.KFree, "completion-order")]
				turn := make([]int, n)
				for pos, i := range order {
					turn[i] = pos
				}
				completed := 0
				index := map[string]int{}
				for i, nm := range names {
					index[nm] = i
				}
				ft := &drive.Fetcher{Data: data}
				ft.Hook = func(src string) {
					i := index[src]
					verifrt.SchedPoint(func() bool { return turn[i] == completed }, "fetch "+src)
				}
				ft.After = func(string) { completed++ }
				r := drive.Run(&drive.Session{Fetch: ft, Flags: drive.MkFlags(names, f...)})
				last = observe(r)
			}
			e := &verifrt.Explorer{Bounds: verifrt.Bounds{verifrt.KSched: 1}, Body: body}
			ref := ""
			e.Check = func(x *verifrt.Exec) bool {
				c.Eval()
				c.Trace(1)
				w := witness{Input: fmt.Sprintf("%d sources, completion order %v", n, order), Format: strings.Join(f, ","), Trace: trim(x.Choices)}
				switch {
				case x.Hung != "":
					c.Violation("hang/fetch", w, x.Hung)
					return false
				case x.Deadlock != "":
					c.Violation("deadlock/fetch", w, x.Deadlock)
					return true
				case x.Diverged != "":
					c.Violation("harness/divergence", w, x.Diverged)
					return true
				}
				if ref == "" {
					ref = last
					c.State(fmt.Sprint("fetch", n, f, last))
					return true
				}
				if last != ref {
					c.Violation("fetch-order/"+f[0], w, diff(ref, last))
				}
				return !c.Expired()
			}
			e.Run()
			c.Transition(e.Transitions)
			c.Count("executions", int64(e.Execs))
			c.Count("fetch-order-executions", int64(e.Execs))
			c.Nontrivial(fmt.Sprint("fetch-order", n, f))
		}
	}
}

func permutations(n int) [][]int {
	var out [][]int
	p := make([]int, n)
	for i := range p {
		p[i] = i
	}
	var rec func(k int)
	rec = func(k int) {
		if k == n {
			out = append(out, append([]int(nil), p...))
			return
		}
		for i := k; i < n; i++ {
			p[k], p[i] = p[i], p[k]
			rec(k + 1)
			p[k], p[i] = p[i], p[k]
		}
	}
	rec(0)
	return out
}
