// Package c08: identical inputs and options give byte-identical output.
//
// Part 1 (execution-space): in the instrumented build every `range` over a map
// in pprof's packages is a choice point of the explorer. For tie-rich profiles
// and every output format the real driver is re-executed under every
// permutation of every map range (<= MaxFullPerm keys: all n!; more: a menu),
// with at most `bound` non-canonical orders per execution; report bytes and UI
// messages must equal those of the canonical execution.
// Part 2: comparator laws (laws.go).
package c08

import (
	"fmt"
	"strings"

	"github.com/google/pprof/internal/verifrt"
	"github.com/google/pprof/verifh/ap"
	"github.com/google/pprof/verifh/drive"
	"github.com/google/pprof/verifh/enum"
	"github.com/google/pprof/verifh/reg"
	"github.com/google/pprof/verifh/vk"
)

func init() { reg.Register("C08", Run) }

type input struct {
	name string
	a    *ap.AP
}

func ln(fn, file string, line int64) ap.Line {
	return ap.Line{Func: fn, File: file, Line: line, Start: 1}
}

func loc(m int, addr uint64, lines ...ap.Line) ap.Loc {
	return ap.Loc{Map: m, Addr: addr, Lines: lines}
}

func base() *ap.AP {
	return &ap.AP{Types: []ap.VT{{Type: "n", Unit: "count"}, {Type: "v", Unit: "count"}}, Maps: enum.Maps2,
		PeriodType: &ap.VT{Type: "n", Unit: "count"}, Period: 1, Comments: []string{"first comment", "second comment"}}
}

// Inputs returns the tie-rich profiles.
func Inputs() []input {
	var ins []input
	a, b, cc, d, e, f, r := ln("a", "a.go", 1), ln("b", "b.go", 2), ln("c", "c.go", 3), ln("d", "d.go", 4), ln("e", "e.go", 5), ln("f", "f.go", 6), ln("r", "r.go", 9)
	L := func(m int, addr uint64, l ap.Line) ap.Loc { return loc(m, addr, l) }

	// P1: profile diff: equal magnitudes of opposite sign on siblings and on tags
	p := base()
	p.Stacks = []ap.Stack{
		{Locs: []ap.Loc{L(0, 0x1010, r), L(0, 0x1020, a)}, Values: []int64{5, 5}, Labels: map[string][]string{"k": {"x"}}, NumLabel: map[string][]int64{"bytes": {10}}, NumUnit: map[string][]string{"bytes": {"bytes"}}},
		{Locs: []ap.Loc{L(0, 0x1010, r), L(0, 0x1030, b)}, Values: []int64{-5, -5}, Labels: map[string][]string{"k": {"y"}}, NumLabel: map[string][]int64{"bytes": {20}}, NumUnit: map[string][]string{"bytes": {"bytes"}}},
		{Locs: []ap.Loc{L(0, 0x1010, r), L(0, 0x1040, cc)}, Values: []int64{5, -5}, Labels: map[string][]string{"k": {"z"}, "j": {"x"}}},
	}
	ins = append(ins, input{"diff±5", p})

	// P2: duplicate subtrees in call-tree mode
	p = base()
	p.Stacks = []ap.Stack{
		{Locs: []ap.Loc{L(0, 0x1010, r), L(0, 0x1020, a), L(0, 0x1040, cc)}, Values: []int64{1, 1}},
		{Locs: []ap.Loc{L(0, 0x1010, r), L(0, 0x1030, b), L(0, 0x1040, cc)}, Values: []int64{1, 1}},
	}
	ins = append(ins, input{"dup-subtrees", p})

	// P3: equal names at different addresses and binaries, equal values
	p = base()
	p.Stacks = []ap.Stack{
		{Locs: []ap.Loc{L(0, 0x1010, r), L(0, 0x1020, f)}, Values: []int64{2, 2}},
		{Locs: []ap.Loc{L(0, 0x1010, r), L(1, 0x8020, f)}, Values: []int64{2, 2}},
		{Locs: []ap.Loc{L(0, 0x1010, r), L(1, 0x8030, f)}, Values: []int64{2, 2}},
		{Locs: []ap.Loc{loc(1, 0x8040), loc(0, 0x1050)}, Values: []int64{2, 2}}, // unsymbolized
	}
	ins = append(ins, input{"same-names", p})

	// P4: six equal leaves under one root (ranges with > 4 keys)
	p = base()
	for i, l := range []ap.Line{a, b, cc, d, e, f} {
		p.Stacks = append(p.Stacks, ap.Stack{Locs: []ap.Loc{L(0, 0x1010, r), L(0, 0x1100+uint64(i)*0x10, l)}, Values: []int64{1, 1},
			Labels: map[string][]string{"k": {fmt.Sprint("v", i)}}})
	}
	ins = append(ins, input{"six-equal", p})

	// P5: one numeric label key with several units; several keys
	p = base()
	p.Stacks = []ap.Stack{
		{Locs: []ap.Loc{L(0, 0x1020, a)}, Values: []int64{1, 1}, NumLabel: map[string][]int64{"sz": {1}, "al": {8}, "q": {3}}, NumUnit: map[string][]string{"sz": {"bytes"}, "al": {"bytes"}, "q": {"ms"}}},
		{Locs: []ap.Loc{L(0, 0x1030, b)}, Values: []int64{1, 1}, NumLabel: map[string][]int64{"sz": {1}, "al": {8}, "q": {3}}, NumUnit: map[string][]string{"sz": {"kb"}, "al": {"kb"}, "q": {"s"}}},
		{Locs: []ap.Loc{L(0, 0x1040, cc)}, Values: []int64{1, 1}, NumLabel: map[string][]int64{"sz": {1}, "al": {8}}, NumUnit: map[string][]string{"sz": {"mb"}, "al": {"mb"}}},
	}
	ins = append(ins, input{"label-units", p})

	// P6: recursion and inlining with ties
	p = base()
	p.Stacks = []ap.Stack{
		{Locs: []ap.Loc{L(0, 0x1020, a), L(0, 0x1020, a), L(0, 0x1030, b)}, Values: []int64{3, 3}},
		{Locs: []ap.Loc{loc(0, 0x1060, a, b, cc)}, Values: []int64{3, 3}},
		{Locs: []ap.Loc{L(0, 0x1030, b), L(0, 0x1020, a)}, Values: []int64{3, 3}},
	}
	ins = append(ins, input{"recursion-inline", p})

	// P7: three children with different weights under two parents (entropy sums)
	p = base()
	w := []int64{1, 2, 3, 5, 7, 11}
	k := 0
	for _, par := range []ap.Line{a, b} {
		for _, ch := range []ap.Line{cc, d, e} {
			p.Stacks = append(p.Stacks, ap.Stack{Locs: []ap.Loc{L(0, 0x1010, r), L(0, 0x1020+uint64(par.Line)*0x10, par), L(0, 0x1100+uint64(ch.Line)*0x10, ch)}, Values: []int64{w[k], w[k]}})
			k++
		}
	}
	ins = append(ins, input{"entropy", p})

	// P8: names that differ only in letter case, with equal weights: label values and label keys on one
	// node, and sibling functions / files (an order that folds case is not total on these)
	p = base()
	fu, fl := ln("Fn", "X.go", 1), ln("fn", "x.go", 1)
	p.Stacks = []ap.Stack{
		{Locs: []ap.Loc{L(0, 0x1010, r), L(0, 0x1020, a)}, Values: []int64{2, 2}, Labels: map[string][]string{"k": {"GET"}, "Region": {"eu"}}},
		{Locs: []ap.Loc{L(0, 0x1010, r), L(0, 0x1020, a)}, Values: []int64{2, 2}, Labels: map[string][]string{"k": {"get"}, "region": {"eu"}}},
		{Locs: []ap.Loc{L(0, 0x1010, r), L(0, 0x1020, a)}, Values: []int64{2, 2}, Labels: map[string][]string{"k": {"Get"}, "REGION": {"EU"}}},
		{Locs: []ap.Loc{L(0, 0x1010, r), L(0, 0x1070, fu)}, Values: []int64{2, 2}},
		{Locs: []ap.Loc{L(0, 0x1010, r), L(0, 0x1080, fl)}, Values: []int64{2, 2}},
	}
	ins = append(ins, input{"case-only-names", p})

	// P9: entries that differ only in their binary: unsymbolized frames of two libraries with the same base
	// name (equal printable names "[libx.so]"), and one function name defined in both, equal weights
	p = base()
	p.Maps = append(append([]ap.Map{}, enum.Maps2...),
		ap.Map{Start: 0x20000, Limit: 0x21000, File: "/opt/v1/libx.so", HasFunctions: true},
		ap.Map{Start: 0x30000, Limit: 0x31000, File: "/opt/v2/libx.so", HasFunctions: true})
	g := ln("g", "g.go", 3)
	p.Stacks = []ap.Stack{
		{Locs: []ap.Loc{L(0, 0x1010, r), loc(2, 0x20010)}, Values: []int64{2, 2}},
		{Locs: []ap.Loc{L(0, 0x1010, r), loc(3, 0x30010)}, Values: []int64{2, 2}},
		{Locs: []ap.Loc{L(0, 0x1010, r), L(2, 0x20020, g)}, Values: []int64{2, 2}},
		{Locs: []ap.Loc{L(0, 0x1010, r), L(3, 0x30020, g)}, Values: []int64{2, 2}},
	}
	ins = append(ins, input{"same-entry-other-binary", p})

	// P10: two residual edges into one node, each redundant only because of the other (a and b call each
	// other and reach n through frames x and y that default trimming removes), next to a heavy stack:
	// which one a graphical report drops must not depend on iteration order
	p = base()
	xx, yy, nn, hh := ln("x", "x.go", 7), ln("y", "y.go", 8), ln("n", "n.go", 9), ln("heavy", "h.go", 1)
	p.Stacks = []ap.Stack{
		{Locs: []ap.Loc{L(0, 0x1020, a), L(0, 0x1030, b), L(0, 0x1070, xx), L(0, 0x1090, nn)}, Values: []int64{3, 3}},
		{Locs: []ap.Loc{L(0, 0x1030, b), L(0, 0x1020, a), L(0, 0x1080, yy), L(0, 0x1090, nn)}, Values: []int64{4, 4}},
		{Locs: []ap.Loc{L(0, 0x10a0, hh)}, Values: []int64{1000, 1000}},
	}
	ins = append(ins, input{"mutually-redundant-residual-edges", p})

	// P11: a node with three in-edges of large, unequal weights (a floating-point sum over them depends on the
	// order of addition) next to a node whose entropy score equals one of the possible sums exactly
	p = base()
	lock, wa, wb, wc, prod, send := ln("sync.(*Mutex).Lock", "s.go", 40), ln("main.workerA", "s.go", 10), ln("main.workerB", "s.go", 20), ln("main.workerC", "s.go", 30), ln("main.producer", "s.go", 50), ln("runtime.chansend", "s.go", 60)
	p.Stacks = []ap.Stack{
		{Locs: []ap.Loc{L(0, 0x2000, wa), L(0, 0x2300, lock)}, Values: []int64{51680000000, 51680000000}},
		{Locs: []ap.Loc{L(0, 0x2100, wb), L(0, 0x2300, lock)}, Values: []int64{18410000000, 18410000000}},
		{Locs: []ap.Loc{L(0, 0x2200, wc), L(0, 0x2300, lock)}, Values: []int64{17270000000, 17270000000}},
		{Locs: []ap.Loc{L(0, 0x2400, prod), L(0, 0x2500, send)}, Values: []int64{147803951602, 147803951602}},
	}
	ins = append(ins, input{"float-sum-over-edges", p})
	return ins
}

type format struct {
	name  string
	flags []string
}

// Formats lists the output formats and option variants explored.
func Formats(thorough bool) []format {
	fs := []format{
		{"top", []string{"top"}}, {"top,lines", []string{"top", "lines"}}, {"top,cum", []string{"top", "cum"}},
		{"tree", []string{"tree"}}, {"tree,addresses", []string{"tree", "addresses"}},
		{"peek", []string{"peek=."}},
		{"dot", []string{"dot"}}, {"dot,call_tree", []string{"dot", "call_tree"}}, {"dot,lines", []string{"dot", "lines"}},
		{"dot,nodecount=3", []string{"dot", "nodecount=3"}}, {"dot,call_tree,nodecount=3", []string{"dot", "call_tree", "nodecount=3"}},
		{"dot,tagroot", []string{"dot", "tagroot=k"}},
		{"callgrind", []string{"callgrind"}}, {"callgrind,call_tree", []string{"callgrind", "call_tree"}},
		{"tags", []string{"tags"}}, {"traces", []string{"traces"}}, {"raw", []string{"raw"}},
		{"proto", []string{"proto"}}, {"topproto", []string{"topproto"}},
		{"dot,tagleaf", []string{"dot", "tagleaf=k"}}, {"tree,cum,lines", []string{"tree", "cum", "lines"}},
		// pages of the web UI (the body served by the handler)
		{"web/top", []string{"web:/top"}}, {"web/flamegraph", []string{"web:/flamegraph"}}, {"web/peek", []string{"web:/peek?f=."}},
		{"web/top,lines", []string{"web:/top?g=lines"}}, {"web/source", []string{"web:/source?f=."}},
		// reports that consult the object tool (a deterministic fake)
		{"disasm", []string{"obj:disasm=."}}, {"list", []string{"obj:list=."}}, {"weblist", []string{"obj:weblist=."}},
		{"web/disasm", []string{"web:/disasm?f=."}},
	}
	if thorough {
		fs = append(fs, format{"tree,files", []string{"tree", "files"}}, format{"dot,addresses", []string{"dot", "addresses"}},
			format{"top,nodecount=2", []string{"top", "nodecount=2"}}, format{"dot,sample_index=1,mean", []string{"dot", "sample_index=1", "mean"}},
			format{"tags,tagfocus", []string{"tags", "tagfocus=x|y"}})
	}
	return fs
}

type witness struct {
	Input  string `json:"input"`
	Format string `json:"format"`
	Trace  []int  `json:"choices,omitempty"`
	Site   string `json:"site,omitempty"`
}

// Run is the check.
func Run(c *vk.Ctx) {
	if verifrt.Flavour != "instr" {
		c.Violation("harness/wrong-build", nil, "C08 needs the instrumented build")
		return
	}
	bound := 1
	if c.Thorough() {
		bound = 2
		verifrt.MaxFullPerm = 5
	}
	ins := Inputs()
	fs := Formats(c.Thorough())
	c.Note(fmt.Sprintf("inputs=%d formats=%d map-order deviation bound=%d full permutations up to %d keys", len(ins), len(fs), bound, verifrt.MaxFullPerm))
	var idx int64
	for _, in := range ins {
		p := ap.Concretize(in.a, ap.Opts{})
		if err := p.CheckValid(); err != nil {
			c.Violation("harness/invalid-profile", in.name, err.Error())
			return
		}
		data := map[string][]byte{"p": drive.Encode(p)}
		for _, f := range fs {
			if !c.Mine(idx) {
				idx++
				continue
			}
			idx++
			exploreOne(c, in, f, data, bound)
		}
	}
	fetchOrders(c, &idx)
	repeats(c, &idx)
	if c.Shard == 0 {
		Laws(c)
	}
	for site, n := range verifrt.UncontrolledSites {
		c.Count("uncontrolled-site/"+site, int64(n))
	}
	c.Count("map-ranges", verifrt.MapStats.Ranges)
	c.Count("map-ranges-multi", verifrt.MapStats.Multi)
	c.Count("map-ranges-partial-menu", verifrt.MapStats.Partial)
	c.Count("map-ranges-uncontrolled", verifrt.MapStats.Uncontrolled)
}

func observe(r *drive.Result) string {
	var b strings.Builder
	if r.Panic != nil {
		fmt.Fprintf(&b, "PANIC %v\n", r.Panic)
	}
	if r.Err != nil {
		fmt.Fprintf(&b, "ERR %v\n", r.Err)
	}
	b.WriteString("OUT:\n")
	b.Write(r.Out)
	b.WriteString("\nUI:\n")
	for _, l := range r.UI.Out {
		b.WriteString(l + "\n")
	}
	b.WriteString("UIERR:\n")
	for _, l := range r.UI.Errs {
		b.WriteString(l + "\n")
	}
	return b.String()
}

func exploreOne(c *vk.Ctx, in input, f format, data map[string][]byte, bound int) {
	var last string
	body := func() {
		if strings.HasPrefix(f.flags[0], "obj:") {
			fl := drive.MkFlags([]string{"p"}, append([]string{strings.TrimPrefix(f.flags[0], "obj:")}, f.flags[1:]...)...)
			r := drive.Run(&drive.Session{Fetch: &drive.Fetcher{Data: data}, Flags: fl, Obj: drive.FakeObj{}})
			last = observe(r)
			return
		}
		if strings.HasPrefix(f.flags[0], "web:") {
			flw := drive.MkFlags([]string{"p"})
			delete(flw.Strings, "output")
			flw.Strings["http"] = "localhost:8080"
			flw.Bools["no_browser"] = true
			r := drive.Run(&drive.Session{Fetch: &drive.Fetcher{Data: data}, Flags: flw, Obj: drive.FakeObj{}})
			code, b, pan := drive.Get(r.Handlers, "GET", strings.TrimPrefix(f.flags[0], "web:"))
			last = fmt.Sprintf("%d %v\n%s\nUIERR:%v", code, pan, b, r.UI.Errs)
			return
		}
		if false {
			r := drive.Web(data, []string{"p"})
			code, b, pan := drive.Get(r.Handlers, "GET", strings.TrimPrefix(f.flags[0], "web:"))
			last = fmt.Sprintf("%d %v\n%s\nUIERR:%v", code, pan, b, r.UI.Errs)
			return
		}
		r := drive.Report(data, []string{"p"}, f.flags...)
		last = observe(r)
	}
	e := &verifrt.Explorer{Bounds: verifrt.Bounds{verifrt.KMap: bound}, Body: body, NoSched: true}
	// determinism self-check: the canonical execution twice
	x0 := e.RunOne(nil)
	ref := last
	x1 := e.RunOne(nil)
	if last != ref || fmt.Sprint(x0.Choices) != fmt.Sprint(x1.Choices) || len(x0.Points) != len(x1.Points) {
		c.Violation("rerun/"+classOf(f.name), witness{Input: in.name, Format: f.name}, "two runs under the same (canonical) choices differ; a map range with indistinguishable keys is involved: "+verifrt.LastTie+"\n"+diff(ref, last))
		return
	}
	if strings.HasPrefix(ref, "PANIC") {
		c.Violation("panic/"+f.name, witness{Input: in.name, Format: f.name}, ref)
		return
	}
	c.State(in.name + "/" + f.name + "/" + ref)
	outcomes := map[string]bool{ref: true}
	e.Check = func(x *verifrt.Exec) bool {
		c.Eval()
		c.Trace(1)
		if x.Hung != "" {
			c.Violation("hang/"+classOf(f.name), witness{Input: in.name, Format: f.name, Trace: trim(x.Choices)}, x.Hung)
			return false
		}
		if x.Diverged != "" {
			c.Violation("harness/divergence", witness{Input: in.name, Format: f.name, Trace: x.Choices}, x.Diverged)
			return true
		}
		if !outcomes[last] {
			outcomes[last] = true
			c.State(in.name + "/" + f.name + "/" + last)
		}
		if last != ref {
			site := ""
			for i, ch := range x.Choices {
				if ch != 0 {
					site += x.Points[i].Site + " "
				}
			}
			site = strings.TrimSpace(site)
			cls := "maporder/" + classOf(f.name) + "/" + site
			if !c.HasViolation(cls) {
				// re-execute 5x: the same trace must give the same output
				for k := 0; k < 5; k++ {
					was := last
					e.RunOne(x.Choices)
					if last != was {
						c.Violation("rerun/"+classOf(f.name), witness{Input: in.name, Format: f.name, Trace: trim(x.Choices)}, "two runs under the same choices differ; a map range with indistinguishable keys is involved: "+verifrt.LastTie+"\n"+diff(was, last))
						return true
					}
				}
			}
			c.Violation(cls, witness{Input: in.name, Format: f.name, Trace: trim(x.Choices), Site: site}, diff(ref, last))
		}
		return !c.Expired()
	}
	e.Run()
	if c.Expired() {
		c.Cap("time budget hit during " + in.name + "/" + f.name)
	}
	c.Transition(e.Transitions)
	if e.MaxDepth >= 2 {
		c.Nontrivial(in.name + "/" + f.name)
	}
	c.Outcome(fmt.Sprint(len(outcomes)))
	c.Count("executions", int64(e.Execs))
	if c.WantSample() {
		c.Sample(map[string]any{"input": in.name, "format": f.name, "executions": e.Execs, "choice_points_canonical": len(x0.Points), "distinct_outputs": len(outcomes)})
	}
}

func classOf(format string) string {
	if i := strings.IndexByte(format, ','); i >= 0 {
		return format[:i]
	}
	return format
}

func trim(ch []int) []int {
	n := len(ch)
	for n > 0 && ch[n-1] == 0 {
		n--
	}
	return ch[:n]
}

// diff shows the first differing line of two observations.
func diff(a, b string) string {
	la, lb := strings.Split(a, "\n"), strings.Split(b, "\n")
	for i := 0; i < len(la) && i < len(lb); i++ {
		if la[i] != lb[i] {
			return fmt.Sprintf("first difference at line %d:\n  canonical: %s\n  deviating: %s", i+1, la[i], lb[i])
		}
	}
	return fmt.Sprintf("outputs differ in length: %d vs %d lines", len(la), len(lb))
}
