package c08

import (
	"fmt"

	"github.com/google/pprof/internal/graph"
	"github.com/google/pprof/verifh/vk"
)

// Laws checks that the orderings used in output are strict total orders on the
// things they order: irreflexive, asymmetric, transitive, and total on elements
// that can appear together in one output (distinct tag names; distinct
// (caller, callee) pairs; distinct node infos). Exhaustive over small element
// alphabets: all pairs and all triples.
func Laws(c *vk.Ctx) {
	// tags
	var ts []*graph.Tag
	for _, name := range []string{"a", "b", "c"} {
		for _, flat := range []int64{5, -5, 3, 0} {
			for _, cum := range []int64{5, -5, 7} {
				ts = append(ts, &graph.Tag{Name: name, Flat: flat, Cum: cum})
			}
		}
	}
	for _, flat := range []bool{false, true} {
		less := func(i, j int) bool { return graph.VerifTagLess(ts[i], ts[j], flat) }
		distinct := func(i, j int) bool { return ts[i].Name != ts[j].Name }
		laws(c, fmt.Sprintf("tags(flat=%v)", flat), len(ts), less, distinct, func(i int) string { return fmt.Sprintf("%+v", *ts[i]) })
	}
	// edges
	mk := func(name string, addr uint64) *graph.Node {
		return &graph.Node{Info: graph.NodeInfo{Name: name, Address: addr}, In: graph.EdgeMap{}, Out: graph.EdgeMap{}}
	}
	nodes := []*graph.Node{mk("a", 0), mk("b", 0), mk("c", 0)}
	var es []*graph.Edge
	for _, s := range nodes {
		for _, d := range nodes {
			for _, w := range []int64{5, -5, 3} {
				es = append(es, &graph.Edge{Src: s, Dest: d, Weight: w})
			}
		}
	}
	laws(c, "edges", len(es), func(i, j int) bool { return graph.VerifEdgeLess(es[i], es[j]) },
		func(i, j int) bool { return es[i].Src != es[j].Src || es[i].Dest != es[j].Dest },
		func(i int) string {
			return fmt.Sprintf("%s->%s w=%d", es[i].Src.Info.Name, es[i].Dest.Info.Name, es[i].Weight)
		})
	// nodes, every order
	var ns []*graph.Node
	for _, name := range []string{"a", "b"} {
		for _, addr := range []uint64{0, 0x10} {
			for _, file := range []string{"", "f.go"} {
				for _, fc := range [][2]int64{{5, 5}, {-5, 5}, {5, -5}, {0, 5}, {3, 7}} {
					n := mk(name, addr)
					n.Info.File = file
					n.Flat, n.Cum = fc[0], fc[1]
					ns = append(ns, n)
				}
			}
		}
	}
	// every other field of a node's identity, one at a time (the last tie-break must see all of them)
	for _, name := range []string{"a", "b"} {
		for v := 0; v < 6; v++ {
			for _, fc := range [][2]int64{{5, 5}, {3, 7}} {
				n := mk(name, 0x10)
				n.Info.File = "f.go"
				switch v {
				case 1:
					n.Info.Objfile = "/lib/other.so"
				case 2:
					n.Info.Lineno = 7
				case 3:
					n.Info.StartLine = 3
				case 4:
					n.Info.OrigName = name + "_sys"
				case 5:
					n.Info.Columnno = 2
				}
				n.Flat, n.Cum = fc[0], fc[1]
				ns = append(ns, n)
			}
		}
	}
	for _, o := range graph.VerifNodeOrders {
		o := o
		less := func(i, j int) bool {
			if i == j {
				return false
			}
			first, err := graph.VerifSortedFirst(ns[i], ns[j], o)
			if err != nil {
				return false
			}
			// a two-element stable sort puts i first unless j is strictly less
			second, _ := graph.VerifSortedFirst(ns[j], ns[i], o)
			return first && !second
		}
		laws(c, fmt.Sprintf("nodes(order=%d)", o), len(ns), less,
			func(i, j int) bool { return ns[i].Info != ns[j].Info },
			func(i int) string { return fmt.Sprintf("%+v flat=%d cum=%d", ns[i].Info, ns[i].Flat, ns[i].Cum) })
	}
}

func laws(c *vk.Ctx, what string, n int, less func(i, j int) bool, distinct func(i, j int) bool, show func(i int) string) {
	for i := 0; i < n; i++ {
		c.Eval()
		if less(i, i) {
			c.Violationf("laws/"+what+"/irreflexive", show(i), "less(x,x) is true")
		}
		for j := 0; j < n; j++ {
			if i == j {
				continue
			}
			c.Eval()
			ij, ji := less(i, j), less(j, i)
			if ij && ji {
				c.Violationf("laws/"+what+"/asymmetric", []string{show(i), show(j)}, "less(x,y) and less(y,x)")
			}
			if !ij && !ji && distinct(i, j) {
				c.Violationf("laws/"+what+"/total", []string{show(i), show(j)}, "neither less(x,y) nor less(y,x) for elements that can appear together")
			}
			if !ij {
				continue
			}
			for k := 0; k < n; k++ {
				if k == i || k == j {
					continue
				}
				if less(j, k) && !less(i, k) {
					c.Violationf("laws/"+what+"/transitive", []string{show(i), show(j), show(k)}, "x<y, y<z but not x<z")
				}
			}
		}
	}
	c.Nontrivial("laws/" + what)
}
