// Package ap defines the abstract profile: a list of call stacks described by
// what their frames are (no ids, no sharing), with labels and value vectors.
// Reference models are written over it; Concretize builds a *profile.Profile
// from it and Abstract maps a *profile.Profile back.
package ap

import (
	"fmt"
	"sort"
	"strings"

	"github.com/google/pprof/profile"
)

// Line is one (possibly inlined) frame of a location.
type Line struct {
	Func  string `json:"fn"`
	Sys   string `json:"sys,omitempty"`
	File  string `json:"file,omitempty"`
	Start int64  `json:"start,omitempty"`
	Line  int64  `json:"line,omitempty"`
	Col   int64  `json:"col,omitempty"`
	// NoFunc: the line has no Function at all (function id 0 on the wire; CheckValid rejects
	// such a profile, so this only appears when abstracting invalid input); Func, Sys,
	// File and Start are then meaningless and must be empty.
	NoFunc bool `json:"nofn,omitempty"`
}

// Map describes the binary a location belongs to.
type Map struct {
	Start, Limit, Offset uint64
	File, BuildID        string
	HasFunctions         bool
	HasFilenames         bool
	HasLineNumbers       bool
	HasInlineFrames      bool
	KernelRelocSym       string
}

// Loc is one location of a stack. Lines are ordered caller first (root side
// first): Lines[len-1] is the innermost inlined frame. A Loc without Lines is
// an unsymbolized address.
type Loc struct {
	Addr   uint64 `json:"addr,omitempty"`
	Map    int    `json:"map"` // index into AP.Maps, -1 = no mapping
	Folded bool   `json:"folded,omitempty"`
	Lines  []Line `json:"lines,omitempty"`
}

// Stack is one sample. Locs are ordered root first, leaf last.
type Stack struct {
	Locs     []Loc               `json:"locs"`
	Labels   map[string][]string `json:"labels,omitempty"`
	NumLabel map[string][]int64  `json:"num,omitempty"`
	NumUnit  map[string][]string `json:"unit,omitempty"`
	Values   []int64             `json:"v"`
}

// VT is a sample type.
type VT struct{ Type, Unit string }

// AP is an abstract profile.
type AP struct {
	Types  []VT    `json:"types"`
	Maps   []Map   `json:"maps,omitempty"`
	Stacks []Stack `json:"stacks"`

	PeriodType        *VT      `json:"period_type,omitempty"`
	Period            int64    `json:"period,omitempty"`
	TimeNanos         int64    `json:"time,omitempty"`
	DurationNanos     int64    `json:"duration,omitempty"`
	Comments          []string `json:"comments,omitempty"`
	DefaultSampleType string   `json:"default_sample_type,omitempty"`
	DocURL            string   `json:"doc_url,omitempty"`
	DropFrames        string   `json:"drop_frames,omitempty"`
	KeepFrames        string   `json:"keep_frames,omitempty"`
}

// Frame is a flattened frame of a stack: one Line of one Loc (or the
// synthesized empty line of an unsymbolized Loc).
type Frame struct {
	Line
	Addr    uint64
	Map     int
	Folded  bool
	NoLines bool // location had no line information
	Inlined bool // inlined into the previous (caller-side) frame of the same location
	LocIdx  int  // index of the location in the stack
	LineIdx int  // index of the line in the location (caller first)
}

// Frames flattens a stack root first.
func (s *Stack) Frames() []Frame {
	var out []Frame
	for li, l := range s.Locs {
		if len(l.Lines) == 0 {
			out = append(out, Frame{Addr: l.Addr, Map: l.Map, Folded: l.Folded, NoLines: true, LocIdx: li})
			continue
		}
		for i, ln := range l.Lines {
			out = append(out, Frame{Line: ln, Addr: l.Addr, Map: l.Map, Folded: l.Folded, Inlined: i > 0, LocIdx: li, LineIdx: i})
		}
	}
	return out
}

// Opts controls Concretize.
type Opts struct {
	NoShare  bool   // build a separate Location per stack position even when equal
	IDBase   uint64 // ids start at IDBase+1 (0 = dense from 1)
	IDStride uint64 // id increment (0 = 1)
	Reverse  bool   // emit entity tables in reverse creation order
}

func locKey(l Loc) string {
	var b strings.Builder
	fmt.Fprintf(&b, "%x|%d|%v", l.Addr, l.Map, l.Folded)
	for _, ln := range l.Lines {
		fmt.Fprintf(&b, "|%q %q %q %d %d %d %v", ln.Func, ln.Sys, ln.File, ln.Start, ln.Line, ln.Col, ln.NoFunc)
	}
	return b.String()
}

// Concretize builds a profile. Equal functions (name, system name, file, start
// line) share a Function; equal Locs share a Location unless o.NoShare.
func Concretize(a *AP, o Opts) *profile.Profile {
	stride := o.IDStride
	if stride == 0 {
		stride = 1
	}
	p := &profile.Profile{
		Period: a.Period, TimeNanos: a.TimeNanos, DurationNanos: a.DurationNanos,
		DefaultSampleType: a.DefaultSampleType, DocURL: a.DocURL,
		DropFrames: a.DropFrames, KeepFrames: a.KeepFrames,
	}
	p.Comments = append(p.Comments, a.Comments...)
	if a.PeriodType != nil {
		p.PeriodType = &profile.ValueType{Type: a.PeriodType.Type, Unit: a.PeriodType.Unit}
	}
	for _, t := range a.Types {
		p.SampleType = append(p.SampleType, &profile.ValueType{Type: t.Type, Unit: t.Unit})
	}
	for i, m := range a.Maps {
		p.Mapping = append(p.Mapping, &profile.Mapping{
			ID: o.IDBase + uint64(i+1)*stride, Start: m.Start, Limit: m.Limit, Offset: m.Offset,
			File: m.File, BuildID: m.BuildID, HasFunctions: m.HasFunctions, HasFilenames: m.HasFilenames,
			HasLineNumbers: m.HasLineNumbers, HasInlineFrames: m.HasInlineFrames,
			KernelRelocationSymbol: m.KernelRelocSym,
		})
	}
	type fkey struct {
		n, s, f string
		st      int64
	}
	funcs := map[fkey]*profile.Function{}
	locs := map[string]*profile.Location{}
	getFunc := func(ln Line) *profile.Function {
		if ln.NoFunc {
			return nil
		}
		k := fkey{ln.Func, ln.Sys, ln.File, ln.Start}
		if f := funcs[k]; f != nil {
			return f
		}
		f := &profile.Function{ID: o.IDBase + uint64(len(p.Function)+1)*stride, Name: ln.Func, SystemName: ln.Sys, Filename: ln.File, StartLine: ln.Start}
		funcs[k] = f
		p.Function = append(p.Function, f)
		return f
	}
	getLoc := func(l Loc) *profile.Location {
		k := locKey(l)
		if !o.NoShare {
			if pl := locs[k]; pl != nil {
				return pl
			}
		}
		pl := &profile.Location{ID: o.IDBase + uint64(len(p.Location)+1)*stride, Address: l.Addr, IsFolded: l.Folded}
		if l.Map >= 0 && l.Map < len(p.Mapping) {
			pl.Mapping = p.Mapping[l.Map]
		}
		// profile.Location.Line is leaf first.
		for i := len(l.Lines) - 1; i >= 0; i-- {
			ln := l.Lines[i]
			pl.Line = append(pl.Line, profile.Line{Function: getFunc(ln), Line: ln.Line, Column: ln.Col})
		}
		locs[k] = pl
		p.Location = append(p.Location, pl)
		return pl
	}
	for _, s := range a.Stacks {
		ps := &profile.Sample{Value: append([]int64(nil), s.Values...)}
		// profile.Sample.Location is leaf first.
		for i := len(s.Locs) - 1; i >= 0; i-- {
			ps.Location = append(ps.Location, getLoc(s.Locs[i]))
		}
		if len(s.Labels) > 0 {
			ps.Label = map[string][]string{}
			for k, v := range s.Labels {
				ps.Label[k] = append([]string(nil), v...)
			}
		}
		if len(s.NumLabel) > 0 {
			ps.NumLabel = map[string][]int64{}
			for k, v := range s.NumLabel {
				ps.NumLabel[k] = append([]int64(nil), v...)
			}
		}
		if len(s.NumUnit) > 0 {
			ps.NumUnit = map[string][]string{}
			for k, v := range s.NumUnit {
				ps.NumUnit[k] = append([]string(nil), v...)
			}
		}
		p.Sample = append(p.Sample, ps)
	}
	if o.Reverse {
		rev(p.Function)
		rev(p.Location)
	}
	return p
}

func rev[T any](s []T) {
	for i, j := 0, len(s)-1; i < j; i, j = i+1, j-1 {
		s[i], s[j] = s[j], s[i]
	}
}

// Abstract maps a profile to its abstract form. Mappings are listed in profile
// order; a location whose mapping is nil gets Map -1.
func Abstract(p *profile.Profile) *AP {
	a := &AP{
		Period: p.Period, TimeNanos: p.TimeNanos, DurationNanos: p.DurationNanos,
		DefaultSampleType: p.DefaultSampleType, DocURL: p.DocURL,
		DropFrames: p.DropFrames, KeepFrames: p.KeepFrames,
	}
	a.Comments = append(a.Comments, p.Comments...)
	if p.PeriodType != nil {
		a.PeriodType = &VT{p.PeriodType.Type, p.PeriodType.Unit}
	}
	for _, t := range p.SampleType {
		a.Types = append(a.Types, VT{t.Type, t.Unit})
	}
	midx := map[*profile.Mapping]int{}
	for i, m := range p.Mapping {
		midx[m] = i
		a.Maps = append(a.Maps, Map{Start: m.Start, Limit: m.Limit, Offset: m.Offset, File: m.File, BuildID: m.BuildID,
			HasFunctions: m.HasFunctions, HasFilenames: m.HasFilenames, HasLineNumbers: m.HasLineNumbers,
			HasInlineFrames: m.HasInlineFrames, KernelRelocSym: m.KernelRelocationSymbol})
	}
	for _, s := range p.Sample {
		st := Stack{Values: append([]int64(nil), s.Value...)}
		for i := len(s.Location) - 1; i >= 0; i-- {
			pl := s.Location[i]
			l := Loc{Addr: pl.Address, Folded: pl.IsFolded, Map: -1}
			if pl.Mapping != nil {
				if ix, ok := midx[pl.Mapping]; ok {
					l.Map = ix
				}
			}
			for j := len(pl.Line) - 1; j >= 0; j-- {
				ln := pl.Line[j]
				x := Line{Line: ln.Line, Col: ln.Column}
				if ln.Function != nil {
					x.Func, x.Sys, x.File, x.Start = ln.Function.Name, ln.Function.SystemName, ln.Function.Filename, ln.Function.StartLine
				} else {
					x.NoFunc = true
				}
				l.Lines = append(l.Lines, x)
			}
			st.Locs = append(st.Locs, l)
		}
		if len(s.Label) > 0 {
			st.Labels = map[string][]string{}
			for k, v := range s.Label {
				st.Labels[k] = append([]string(nil), v...)
			}
		}
		if len(s.NumLabel) > 0 {
			st.NumLabel = map[string][]int64{}
			for k, v := range s.NumLabel {
				st.NumLabel[k] = append([]int64(nil), v...)
			}
		}
		if len(s.NumUnit) > 0 {
			st.NumUnit = map[string][]string{}
			for k, v := range s.NumUnit {
				st.NumUnit[k] = append([]string(nil), v...)
			}
		}
		a.Stacks = append(a.Stacks, st)
	}
	return a
}

// LabelKey is a canonical string of a stack's labels.
func (s *Stack) LabelKey() string {
	var parts []string
	for k, vs := range s.Labels {
		parts = append(parts, fmt.Sprintf("s%q=%q", k, vs))
	}
	for k, vs := range s.NumLabel {
		parts = append(parts, fmt.Sprintf("n%q=%v%q", k, vs, s.NumUnit[k]))
	}
	sort.Strings(parts)
	return strings.Join(parts, ";")
}

// MapKey is a canonical string of a mapping's identity as seen by reports.
func (a *AP) MapFile(i int) string {
	if i < 0 || i >= len(a.Maps) {
		return ""
	}
	return a.Maps[i].File
}

// Clone deep-copies an AP.
func (a *AP) Clone() *AP {
	b := *a
	b.Types = append([]VT(nil), a.Types...)
	b.Maps = append([]Map(nil), a.Maps...)
	b.Comments = append([]string(nil), a.Comments...)
	if a.PeriodType != nil {
		pt := *a.PeriodType
		b.PeriodType = &pt
	}
	b.Stacks = nil
	for _, s := range a.Stacks {
		b.Stacks = append(b.Stacks, s.Clone())
	}
	return &b
}

// Clone deep-copies a stack.
func (s Stack) Clone() Stack {
	t := Stack{Values: append([]int64(nil), s.Values...)}
	for _, l := range s.Locs {
		l.Lines = append([]Line(nil), l.Lines...)
		t.Locs = append(t.Locs, l)
	}
	if s.Labels != nil {
		t.Labels = map[string][]string{}
		for k, v := range s.Labels {
			t.Labels[k] = append([]string(nil), v...)
		}
	}
	if s.NumLabel != nil {
		t.NumLabel = map[string][]int64{}
		for k, v := range s.NumLabel {
			t.NumLabel[k] = append([]int64(nil), v...)
		}
	}
	if s.NumUnit != nil {
		t.NumUnit = map[string][]string{}
		for k, v := range s.NumUnit {
			t.NumUnit[k] = append([]string(nil), v...)
		}
	}
	return t
}
