package c01

import (
	"fmt"
	"sort"
	"strings"

	"github.com/google/pprof/profile"
)

// A Spec is a pointer-free description of a profile: cross references are
// table indices. It is both the generator's language (Build) and the
// abstraction applied to results (Snapshot), so that two profiles are compared
// field by field including the sharing structure (which table entry every
// sample/line/location points to).

// VT is a value type.
type VT struct{ Type, Unit string }

// Fn is a function table entry.
type Fn struct {
	ID              uint64
	Name, Sys, File string
	Start           int64
}

// Ln is one line of a location. Fn is an index into Spec.Fns (-1 nil pointer,
// -2 a pointer that is not in the table).
type Ln struct {
	Fn        int
	Line, Col int64
}

// Loc is a location table entry. Map is an index into Spec.Maps (-1 none).
type Loc struct {
	ID     uint64
	Map    int
	Addr   uint64
	Lines  []Ln
	Folded bool
}

// Mp is a mapping table entry.
type Mp struct {
	ID, Start, Limit, Off           uint64
	File, BuildID                   string
	HasFn, HasFile, HasLine, HasInl bool
	KRS                             string
}

// Smp is a sample. Locs are indices into Spec.Locs (-1 nil, -2 not in table).
type Smp struct {
	Locs  []int
	Val   []int64
	Label map[string][]string
	Num   map[string][]int64
	Unit  map[string][]string
}

// Spec is a whole profile.
type Spec struct {
	Types    []VT
	Default  string
	Samples  []Smp
	Maps     []Mp
	Locs     []Loc
	Fns      []Fn
	Comments []string
	DocURL   string
	Drop     string
	Keep     string
	Time     int64
	Dur      int64
	PT       *VT
	Period   int64
}

func cpS(x []string) []string {
	if x == nil {
		return nil
	}
	return append([]string{}, x...)
}
func cpI(x []int64) []int64 {
	if x == nil {
		return nil
	}
	return append([]int64{}, x...)
}
func cpN(x []int) []int {
	if x == nil {
		return nil
	}
	return append([]int{}, x...)
}
func cpMS(m map[string][]string) map[string][]string {
	if m == nil {
		return nil
	}
	o := make(map[string][]string, len(m))
	for k, v := range m {
		o[k] = cpS(v)
	}
	return o
}
func cpMI(m map[string][]int64) map[string][]int64 {
	if m == nil {
		return nil
	}
	o := make(map[string][]int64, len(m))
	for k, v := range m {
		o[k] = cpI(v)
	}
	return o
}

// Clone returns a deep copy that preserves nil-ness.
func (s *Spec) Clone() *Spec {
	o := *s
	if s.Types != nil {
		o.Types = append([]VT{}, s.Types...)
	}
	if s.Samples != nil {
		o.Samples = make([]Smp, len(s.Samples))
		for i, x := range s.Samples {
			o.Samples[i] = Smp{Locs: cpN(x.Locs), Val: cpI(x.Val), Label: cpMS(x.Label), Num: cpMI(x.Num), Unit: cpMS(x.Unit)}
		}
	}
	if s.Maps != nil {
		o.Maps = append([]Mp{}, s.Maps...)
	}
	if s.Locs != nil {
		o.Locs = make([]Loc, len(s.Locs))
		for i, l := range s.Locs {
			o.Locs[i] = l
			if l.Lines != nil {
				o.Locs[i].Lines = append([]Ln{}, l.Lines...)
			}
		}
	}
	if s.Fns != nil {
		o.Fns = append([]Fn{}, s.Fns...)
	}
	o.Comments = cpS(s.Comments)
	if s.PT != nil {
		pt := *s.PT
		o.PT = &pt
	}
	return &o
}

// Valid is the generator's own validity predicate (written without looking at
// CheckValid): ids unique and non-zero per table, every reference inside its
// table, one value per sample type, units parallel to their values.
func (s *Spec) Valid() bool {
	if len(s.Types) == 0 && len(s.Samples) != 0 {
		return false
	}
	seen := map[uint64]bool{}
	for _, m := range s.Maps {
		if m.ID == 0 || seen[m.ID] {
			return false
		}
		seen[m.ID] = true
	}
	seen = map[uint64]bool{}
	for _, f := range s.Fns {
		if f.ID == 0 || seen[f.ID] {
			return false
		}
		seen[f.ID] = true
	}
	seen = map[uint64]bool{}
	for _, l := range s.Locs {
		if l.ID == 0 || seen[l.ID] {
			return false
		}
		seen[l.ID] = true
		if l.Map < -1 || l.Map >= len(s.Maps) {
			return false
		}
		for _, ln := range l.Lines {
			if ln.Fn < 0 || ln.Fn >= len(s.Fns) {
				return false
			}
		}
	}
	for _, x := range s.Samples {
		if len(x.Val) != len(s.Types) {
			return false
		}
		for _, l := range x.Locs {
			if l < 0 || l >= len(s.Locs) {
				return false
			}
		}
		for k, u := range x.Unit {
			v, ok := x.Num[k]
			if !ok || len(u) != len(v) {
				return false
			}
		}
	}
	return true
}

// Build constructs a fresh *profile.Profile (no memory shared with s).
func (s *Spec) Build() *profile.Profile {
	p := &profile.Profile{
		DefaultSampleType: s.Default, Comments: cpS(s.Comments), DocURL: s.DocURL,
		DropFrames: s.Drop, KeepFrames: s.Keep, TimeNanos: s.Time, DurationNanos: s.Dur, Period: s.Period,
	}
	if s.PT != nil {
		p.PeriodType = &profile.ValueType{Type: s.PT.Type, Unit: s.PT.Unit}
	}
	if s.Types != nil {
		p.SampleType = []*profile.ValueType{}
	}
	for _, t := range s.Types {
		p.SampleType = append(p.SampleType, &profile.ValueType{Type: t.Type, Unit: t.Unit})
	}
	if s.Maps != nil {
		p.Mapping = []*profile.Mapping{}
	}
	for _, m := range s.Maps {
		p.Mapping = append(p.Mapping, &profile.Mapping{ID: m.ID, Start: m.Start, Limit: m.Limit, Offset: m.Off, File: m.File, BuildID: m.BuildID,
			HasFunctions: m.HasFn, HasFilenames: m.HasFile, HasLineNumbers: m.HasLine, HasInlineFrames: m.HasInl, KernelRelocationSymbol: m.KRS})
	}
	if s.Fns != nil {
		p.Function = []*profile.Function{}
	}
	for _, f := range s.Fns {
		p.Function = append(p.Function, &profile.Function{ID: f.ID, Name: f.Name, SystemName: f.Sys, Filename: f.File, StartLine: f.Start})
	}
	if s.Locs != nil {
		p.Location = []*profile.Location{}
	}
	for _, l := range s.Locs {
		pl := &profile.Location{ID: l.ID, Address: l.Addr, IsFolded: l.Folded}
		if l.Map >= 0 {
			pl.Mapping = p.Mapping[l.Map]
		}
		if l.Lines != nil {
			pl.Line = []profile.Line{}
		}
		for _, ln := range l.Lines {
			x := profile.Line{Line: ln.Line, Column: ln.Col}
			if ln.Fn >= 0 {
				x.Function = p.Function[ln.Fn]
			}
			pl.Line = append(pl.Line, x)
		}
		p.Location = append(p.Location, pl)
	}
	if s.Samples != nil {
		p.Sample = []*profile.Sample{}
	}
	for _, x := range s.Samples {
		ps := &profile.Sample{Value: cpI(x.Val), Label: cpMS(x.Label), NumLabel: cpMI(x.Num), NumUnit: cpMS(x.Unit)}
		if x.Locs != nil {
			ps.Location = []*profile.Location{}
		}
		for _, l := range x.Locs {
			ps.Location = append(ps.Location, p.Location[l])
		}
		p.Sample = append(p.Sample, ps)
	}
	return p
}

// Snapshot abstracts a profile into a Spec; pointers are resolved to table
// indices by identity. Nil-ness of containers is preserved.
func Snapshot(p *profile.Profile) *Spec {
	s := &Spec{Default: p.DefaultSampleType, Comments: cpS(p.Comments), DocURL: p.DocURL, Drop: p.DropFrames, Keep: p.KeepFrames,
		Time: p.TimeNanos, Dur: p.DurationNanos, Period: p.Period}
	if p.PeriodType != nil {
		s.PT = &VT{p.PeriodType.Type, p.PeriodType.Unit}
	}
	if p.SampleType != nil {
		s.Types = []VT{}
	}
	for _, t := range p.SampleType {
		if t == nil {
			s.Types = append(s.Types, VT{"<nil>", "<nil>"})
			continue
		}
		s.Types = append(s.Types, VT{t.Type, t.Unit})
	}
	mi := map[*profile.Mapping]int{}
	if p.Mapping != nil {
		s.Maps = []Mp{}
	}
	for i, m := range p.Mapping {
		if m == nil {
			s.Maps = append(s.Maps, Mp{File: "<nil>"})
			continue
		}
		if _, ok := mi[m]; !ok {
			mi[m] = i
		}
		s.Maps = append(s.Maps, Mp{ID: m.ID, Start: m.Start, Limit: m.Limit, Off: m.Offset, File: m.File, BuildID: m.BuildID,
			HasFn: m.HasFunctions, HasFile: m.HasFilenames, HasLine: m.HasLineNumbers, HasInl: m.HasInlineFrames, KRS: m.KernelRelocationSymbol})
	}
	fi := map[*profile.Function]int{}
	if p.Function != nil {
		s.Fns = []Fn{}
	}
	for i, f := range p.Function {
		if f == nil {
			s.Fns = append(s.Fns, Fn{Name: "<nil>"})
			continue
		}
		if _, ok := fi[f]; !ok {
			fi[f] = i
		}
		s.Fns = append(s.Fns, Fn{ID: f.ID, Name: f.Name, Sys: f.SystemName, File: f.Filename, Start: f.StartLine})
	}
	li := map[*profile.Location]int{}
	if p.Location != nil {
		s.Locs = []Loc{}
	}
	for i, l := range p.Location {
		if l == nil {
			s.Locs = append(s.Locs, Loc{Map: -3})
			continue
		}
		if _, ok := li[l]; !ok {
			li[l] = i
		}
		x := Loc{ID: l.ID, Addr: l.Address, Folded: l.IsFolded, Map: -1}
		if l.Mapping != nil {
			if j, ok := mi[l.Mapping]; ok {
				x.Map = j
			} else {
				x.Map = -2
			}
		}
		if l.Line != nil {
			x.Lines = []Ln{}
		}
		for _, ln := range l.Line {
			y := Ln{Fn: -1, Line: ln.Line, Col: ln.Column}
			if ln.Function != nil {
				if j, ok := fi[ln.Function]; ok {
					y.Fn = j
				} else {
					y.Fn = -2
				}
			}
			x.Lines = append(x.Lines, y)
		}
		s.Locs = append(s.Locs, x)
	}
	if p.Sample != nil {
		s.Samples = []Smp{}
	}
	for _, ps := range p.Sample {
		if ps == nil {
			s.Samples = append(s.Samples, Smp{Locs: []int{-3}})
			continue
		}
		x := Smp{Val: cpI(ps.Value), Label: cpMS(ps.Label), Num: cpMI(ps.NumLabel), Unit: cpMS(ps.NumUnit)}
		if ps.Location != nil {
			x.Locs = []int{}
		}
		for _, l := range ps.Location {
			switch j, ok := li[l]; {
			case l == nil:
				x.Locs = append(x.Locs, -1)
			case ok:
				x.Locs = append(x.Locs, j)
			default:
				x.Locs = append(x.Locs, -2)
			}
		}
		s.Samples = append(s.Samples, x)
	}
	return s
}

// Droppable reports whether the profile contains a label value that the wire
// format cannot represent (the normalisation the property allows): a string
// label value "", or a numeric label value 0 whose unit is absent or "".
func (s *Spec) Droppable() bool {
	for _, x := range s.Samples {
		for _, vs := range x.Label {
			for _, v := range vs {
				if v == "" {
					return true
				}
			}
			if len(vs) == 0 {
				return true // a key without values is not representable either
			}
		}
		for k, vs := range x.Num {
			u := x.Unit[k]
			for i, v := range vs {
				if v == 0 && (i >= len(u) || u[i] == "") {
					return true
				}
			}
			if len(vs) == 0 {
				return true
			}
		}
	}
	return false
}

// Normalize returns the normal form used for comparison. It drops exactly what
// the property allows to be dropped (string label values "", numeric label
// values 0 without unit; keys left without values) and identifies
// representations that carry the same information: nil and empty containers,
// a missing unit list and a unit list of only "", a nil and an empty period type.
// AsRead is the expected side of a codec pass: Normalize, and the kernel
// relocation symbol - which is not part of the format - as every reader derives
// it from the file name. (Only the expected side: what the real reader derived
// is compared against it.)
func (s *Spec) AsRead() *Spec {
	o := s.Normalize()
	for i := range o.Maps {
		m := &o.Maps[i]
		m.KRS = ""
		if strings.HasPrefix(m.File, "[kernel.kallsyms]") {
			m.KRS = m.File[len("[kernel.kallsyms]"):]
		}
	}
	return o
}

func (s *Spec) Normalize() *Spec {
	o := s.Clone()
	if len(o.Types) == 0 {
		o.Types = nil
	}
	if len(o.Maps) == 0 {
		o.Maps = nil
	}
	if len(o.Fns) == 0 {
		o.Fns = nil
	}
	if len(o.Comments) == 0 {
		o.Comments = nil
	}
	if len(o.Locs) == 0 {
		o.Locs = nil
	}
	for i := range o.Locs {
		if len(o.Locs[i].Lines) == 0 {
			o.Locs[i].Lines = nil
		}
	}
	if o.PT == nil {
		o.PT = &VT{}
	}
	if len(o.Samples) == 0 {
		o.Samples = nil
	}
	for i := range o.Samples {
		x := &o.Samples[i]
		if len(x.Locs) == 0 {
			x.Locs = nil
		}
		if len(x.Val) == 0 {
			x.Val = nil
		}
		var lab map[string][]string
		for k, vs := range x.Label {
			var keep []string
			for _, v := range vs {
				if v != "" {
					keep = append(keep, v)
				}
			}
			if len(keep) > 0 {
				if lab == nil {
					lab = map[string][]string{}
				}
				lab[k] = keep
			}
		}
		x.Label = lab
		var num map[string][]int64
		var unit map[string][]string
		for k, vs := range x.Num {
			us := x.Unit[k]
			var kv []int64
			var ku []string
			anyUnit := false
			if len(us) != 0 && len(us) != len(vs) {
				// units not parallel to the values: not a valid profile; keep
				// it visible instead of guessing an alignment
				if num == nil {
					num = map[string][]int64{}
				}
				if unit == nil {
					unit = map[string][]string{}
				}
				num[k] = cpI(vs)
				unit[k] = append(cpS(us), "<length-mismatch>")
				continue
			}
			for j, v := range vs {
				u := ""
				if j < len(us) {
					u = us[j]
				}
				if v == 0 && u == "" {
					continue
				}
				kv = append(kv, v)
				ku = append(ku, u)
				if u != "" {
					anyUnit = true
				}
			}
			if len(kv) == 0 {
				continue
			}
			if num == nil {
				num = map[string][]int64{}
			}
			num[k] = kv
			if anyUnit {
				if unit == nil {
					unit = map[string][]string{}
				}
				unit[k] = ku
			}
		}
		// units of keys that have no values at all (not produced by the
		// generator or by the parser) are kept so that they are not hidden.
		for k, us := range x.Unit {
			if _, ok := x.Num[k]; !ok {
				if unit == nil {
					unit = map[string][]string{}
				}
				unit[k] = cpS(us)
			}
		}
		x.Num, x.Unit = num, unit
	}
	return o
}

func eqS(a, b []string) bool {
	if len(a) != len(b) || (a == nil) != (b == nil) {
		return false
	}
	for i := range a {
		if a[i] != b[i] {
			return false
		}
	}
	return true
}
func eqI(a, b []int64) bool {
	if len(a) != len(b) || (a == nil) != (b == nil) {
		return false
	}
	for i := range a {
		if a[i] != b[i] {
			return false
		}
	}
	return true
}
func eqN(a, b []int) bool {
	if len(a) != len(b) || (a == nil) != (b == nil) {
		return false
	}
	for i := range a {
		if a[i] != b[i] {
			return false
		}
	}
	return true
}
func eqMS(a, b map[string][]string) bool {
	if len(a) != len(b) || (a == nil) != (b == nil) {
		return false
	}
	for k, v := range a {
		w, ok := b[k]
		if !ok || !eqS(v, w) {
			return false
		}
	}
	return true
}
func eqMI(a, b map[string][]int64) bool {
	if len(a) != len(b) || (a == nil) != (b == nil) {
		return false
	}
	for k, v := range a {
		w, ok := b[k]
		if !ok || !eqI(v, w) {
			return false
		}
	}
	return true
}

// Diff compares two Specs exactly (including nil-ness; callers normalise
// first when that is not wanted) and returns the category of the first
// differing field ("" if equal) and a description. Categories are the stable
// part of violation classes.
func Diff(a, b *Spec) (cat, detail string) {
	d := func(cat string, x, y any) (string, string) {
		return cat, fmt.Sprintf("%s: want %s got %s", cat, q(x), q(y))
	}
	if len(a.Types) != len(b.Types) || (a.Types == nil) != (b.Types == nil) {
		return d("sample_type.count", a.Types, b.Types)
	}
	for i := range a.Types {
		if a.Types[i] != b.Types[i] {
			return d("sample_type", a.Types[i], b.Types[i])
		}
	}
	if a.Default != b.Default {
		return d("default_sample_type", a.Default, b.Default)
	}
	if len(a.Maps) != len(b.Maps) || (a.Maps == nil) != (b.Maps == nil) {
		return d("mapping.count", len(a.Maps), len(b.Maps))
	}
	for i := range a.Maps {
		x, y := a.Maps[i], b.Maps[i]
		switch {
		case x.ID != y.ID:
			return d("mapping.id", x.ID, y.ID)
		case x.Start != y.Start || x.Limit != y.Limit || x.Off != y.Off:
			return d("mapping.range", x, y)
		case x.File != y.File:
			return d("mapping.file", x.File, y.File)
		case x.BuildID != y.BuildID:
			return d("mapping.build_id", x.BuildID, y.BuildID)
		case x.HasFn != y.HasFn || x.HasFile != y.HasFile || x.HasLine != y.HasLine || x.HasInl != y.HasInl:
			return d("mapping.flags", x, y)
		case x.KRS != y.KRS:
			return d("mapping.kernel_relocation_symbol", x.KRS, y.KRS)
		}
	}
	if len(a.Fns) != len(b.Fns) || (a.Fns == nil) != (b.Fns == nil) {
		return d("function.count", len(a.Fns), len(b.Fns))
	}
	for i := range a.Fns {
		x, y := a.Fns[i], b.Fns[i]
		switch {
		case x.ID != y.ID:
			return d("function.id", x.ID, y.ID)
		case x.Name != y.Name:
			return d("function.name", x.Name, y.Name)
		case x.Sys != y.Sys:
			return d("function.system_name", x.Sys, y.Sys)
		case x.File != y.File:
			return d("function.filename", x.File, y.File)
		case x.Start != y.Start:
			return d("function.start_line", x.Start, y.Start)
		}
	}
	if len(a.Locs) != len(b.Locs) || (a.Locs == nil) != (b.Locs == nil) {
		return d("location.count", len(a.Locs), len(b.Locs))
	}
	for i := range a.Locs {
		x, y := a.Locs[i], b.Locs[i]
		switch {
		case x.ID != y.ID:
			return d("location.id", x.ID, y.ID)
		case x.Map != y.Map:
			return d("location.mapping", x.Map, y.Map)
		case x.Addr != y.Addr:
			return d("location.address", x.Addr, y.Addr)
		case x.Folded != y.Folded:
			return d("location.is_folded", x.Folded, y.Folded)
		case len(x.Lines) != len(y.Lines) || (x.Lines == nil) != (y.Lines == nil):
			return d("location.line.count", x.Lines, y.Lines)
		}
		for j := range x.Lines {
			u, v := x.Lines[j], y.Lines[j]
			switch {
			case u.Fn != v.Fn:
				return d("location.line.function", u.Fn, v.Fn)
			case u.Line != v.Line:
				return d("location.line.line", u.Line, v.Line)
			case u.Col != v.Col:
				return d("location.line.column", u.Col, v.Col)
			}
		}
	}
	if len(a.Samples) != len(b.Samples) || (a.Samples == nil) != (b.Samples == nil) {
		return d("sample.count", len(a.Samples), len(b.Samples))
	}
	for i := range a.Samples {
		x, y := a.Samples[i], b.Samples[i]
		switch {
		case !eqN(x.Locs, y.Locs):
			return d("sample.location", x.Locs, y.Locs)
		case !eqI(x.Val, y.Val):
			return d("sample.value", x.Val, y.Val)
		case !eqMS(x.Label, y.Label):
			return d("sample.label", x.Label, y.Label)
		case !eqMI(x.Num, y.Num):
			return d("sample.num_label", x.Num, y.Num)
		case !eqMS(x.Unit, y.Unit):
			return d("sample.num_unit", x.Unit, y.Unit)
		}
	}
	switch {
	case !eqS(a.Comments, b.Comments):
		return d("comments", a.Comments, b.Comments)
	case a.DocURL != b.DocURL:
		return d("doc_url", a.DocURL, b.DocURL)
	case a.Drop != b.Drop:
		return d("drop_frames", a.Drop, b.Drop)
	case a.Keep != b.Keep:
		return d("keep_frames", a.Keep, b.Keep)
	case a.Time != b.Time:
		return d("time_nanos", a.Time, b.Time)
	case a.Dur != b.Dur:
		return d("duration_nanos", a.Dur, b.Dur)
	case a.Period != b.Period:
		return d("period", a.Period, b.Period)
	case (a.PT == nil) != (b.PT == nil):
		return d("period_type", a.PT, b.PT)
	case a.PT != nil && *a.PT != *b.PT:
		return d("period_type", *a.PT, *b.PT)
	}
	return "", ""
}

func q(x any) string {
	s := fmt.Sprintf("%+q", fmt.Sprintf("%+v", x))
	if len(s) > 300 {
		s = s[:300] + "…"
	}
	return s
}

// Dump renders a Spec for witnesses (long strings abbreviated, map keys sorted).
func (s *Spec) Dump() string {
	var b strings.Builder
	ab := func(x string) string {
		if len(x) > 40 {
			return fmt.Sprintf("%+q…(len %d)", x[:8], len(x))
		}
		return fmt.Sprintf("%+q", x)
	}
	abs := func(xs []string) string {
		if xs == nil {
			return "nil"
		}
		o := make([]string, len(xs))
		for i, x := range xs {
			o[i] = ab(x)
		}
		return "[" + strings.Join(o, ",") + "]"
	}
	fmt.Fprintf(&b, "types=")
	for _, t := range s.Types {
		fmt.Fprintf(&b, "(%s,%s)", ab(t.Type), ab(t.Unit))
	}
	fmt.Fprintf(&b, " default=%s", ab(s.Default))
	for i, m := range s.Maps {
		fmt.Fprintf(&b, "\nmap[%d] id=%d %x-%x+%x file=%s build=%s flags=%v%v%v%v krs=%s", i, m.ID, m.Start, m.Limit, m.Off, ab(m.File), ab(m.BuildID), m.HasFn, m.HasFile, m.HasLine, m.HasInl, ab(m.KRS))
	}
	for i, f := range s.Fns {
		fmt.Fprintf(&b, "\nfn[%d] id=%d name=%s sys=%s file=%s start=%d", i, f.ID, ab(f.Name), ab(f.Sys), ab(f.File), f.Start)
	}
	for i, l := range s.Locs {
		fmt.Fprintf(&b, "\nloc[%d] id=%d map=%d addr=%x folded=%v lines=%v", i, l.ID, l.Map, l.Addr, l.Folded, l.Lines)
	}
	for i, x := range s.Samples {
		fmt.Fprintf(&b, "\nsample[%d] locs=%v val=%v", i, x.Locs, x.Val)
		var ks []string
		for k := range x.Label {
			ks = append(ks, k)
		}
		sort.Strings(ks)
		for _, k := range ks {
			fmt.Fprintf(&b, " label[%s]=%s", ab(k), abs(x.Label[k]))
		}
		ks = ks[:0]
		for k := range x.Num {
			ks = append(ks, k)
		}
		sort.Strings(ks)
		for _, k := range ks {
			fmt.Fprintf(&b, " num[%s]=%v", ab(k), x.Num[k])
		}
		ks = ks[:0]
		for k := range x.Unit {
			ks = append(ks, k)
		}
		sort.Strings(ks)
		for _, k := range ks {
			fmt.Fprintf(&b, " unit[%s]=%s", ab(k), abs(x.Unit[k]))
		}
	}
	fmt.Fprintf(&b, "\ncomments=%s doc=%s drop=%s keep=%s time=%d dur=%d period=%d", abs(s.Comments), ab(s.DocURL), ab(s.Drop), ab(s.Keep), s.Time, s.Dur, s.Period)
	if s.PT == nil {
		fmt.Fprintf(&b, " pt=nil")
	} else {
		fmt.Fprintf(&b, " pt=(%s,%s)", ab(s.PT.Type), ab(s.PT.Unit))
	}
	return b.String()
}
