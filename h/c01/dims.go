package c01

import (
	"fmt"
	"math"
	"strings"
)

const (
	minI = math.MinInt64
	maxI = math.MaxInt64
	maxU = math.MaxUint64
)

var (
	long127 = strings.Repeat("x", 127)
	long128 = strings.Repeat("y", 128)
	long16k = strings.Repeat("z", 16384)
	// a profile that deflates better than 200:1 (an inflate limit expressed as a ratio must not cut it short)
	long64k = strings.Repeat("z", 65536)
)

// Base is the profile every deviation starts from: 1 mapping, 2 functions, 2
// locations (1 and 2 lines), 2 samples, 2 sample types, one string and one
// numeric label, every header field set to something small.
func Base() *Spec {
	return &Spec{
		Types: []VT{{"samples", "count"}, {"cpu", "nanoseconds"}},
		Maps:  []Mp{{ID: 1, Start: 0x1000, Limit: 0x2000, File: "/bin/a", BuildID: "b1"}},
		Fns:   []Fn{{ID: 1, Name: "f", Sys: "f_sys", File: "f.go", Start: 10}, {ID: 2, Name: "g", File: "g.go"}},
		Locs: []Loc{
			{ID: 1, Map: 0, Addr: 0x1100, Lines: []Ln{{Fn: 0, Line: 5, Col: 1}}},
			{ID: 2, Map: 0, Addr: 0x1200, Lines: []Ln{{Fn: 1, Line: 7}, {Fn: 0, Line: 6, Col: 2}}},
		},
		Samples: []Smp{
			{Locs: []int{0, 1}, Val: []int64{1, 10}, Label: map[string][]string{"k": {"a"}}},
			{Locs: []int{1}, Val: []int64{2, 20}, Num: map[string][]int64{"n": {8}}, Unit: map[string][]string{"n": {"bytes"}}},
		},
		Comments: []string{"c1"},
		Time:     1, Dur: 2, Period: 3,
		PT: &VT{"cpu", "nanoseconds"},
	}
}

// Alt is one alternative value of a dimension, as an edit of the Spec. Edits
// are applied in dimension order and are written so that they stay meaningful
// after any earlier edit (they look at the current shape of the Spec).
type Alt struct {
	Name string
	F    func(*Spec)
}

// Dim is one field (or one structural degree of freedom) with its alternatives.
type Dim struct {
	Name string
	Alts []Alt
}

func setFile(m *Mp, f string) {
	m.File = f
	m.KRS = ""
	// the in-memory field derived from File, as every reader of pprof sets it
	if strings.HasPrefix(f, "[kernel.kallsyms]") {
		m.KRS = f[len("[kernel.kallsyms]"):]
	}
}

func strAlts(get func(*Spec) *string, vals ...string) []Alt {
	var out []Alt
	for _, v := range vals {
		v := v
		name := fmt.Sprintf("%+q", v)
		if len(v) > 20 {
			name = fmt.Sprintf("len%d", len(v))
		}
		out = append(out, Alt{name, func(s *Spec) {
			if p := get(s); p != nil {
				*p = v
			}
		}})
	}
	return out
}

func intAlts(get func(*Spec) *int64, vals ...int64) []Alt {
	var out []Alt
	for _, v := range vals {
		v := v
		out = append(out, Alt{fmt.Sprint(v), func(s *Spec) {
			if p := get(s); p != nil {
				*p = v
			}
		}})
	}
	return out
}

func uintAlts(get func(*Spec) *uint64, vals ...uint64) []Alt {
	var out []Alt
	for _, v := range vals {
		v := v
		out = append(out, Alt{fmt.Sprint(v), func(s *Spec) {
			if p := get(s); p != nil {
				*p = v
			}
		}})
	}
	return out
}

func smp(s *Spec, i int) *Smp {
	if i < len(s.Samples) {
		return &s.Samples[i]
	}
	return nil
}
func mp(s *Spec, i int) *Mp {
	if i < len(s.Maps) {
		return &s.Maps[i]
	}
	return nil
}
func loc(s *Spec, i int) *Loc {
	if i < len(s.Locs) {
		return &s.Locs[i]
	}
	return nil
}
func fn(s *Spec, i int) *Fn {
	if i < len(s.Fns) {
		return &s.Fns[i]
	}
	return nil
}
func line(s *Spec, l, i int) *Ln {
	if x := loc(s, l); x != nil && i < len(x.Lines) {
		return &x.Lines[i]
	}
	return nil
}

// numeric label value lists and unit patterns (combined into one dimension so
// that the allowed normalisation is reached by a single deviation)
var numLists = [][]int64{{0}, {1}, {-1}, {minI}, {maxI}, {0, 1}, {1, 0}, {0, 0}, {5, 5}, {1, 2, 3}, {0, 7, 0}, {1, 0, 2, 0}}

func unitPatterns(n int) (names []string, pats [][]string) {
	add := func(name string, p []string) {
		for _, q := range pats {
			if eqS(q, p) {
				return
			}
		}
		names = append(names, name)
		pats = append(pats, p)
	}
	mk := func(f func(i int) string) []string {
		o := make([]string, n)
		for i := range o {
			o[i] = f(i)
		}
		return o
	}
	add("none", nil)
	add("empty", mk(func(int) string { return "" }))
	add("first", mk(func(i int) string {
		if i == 0 {
			return "u"
		}
		return ""
	}))
	add("last", mk(func(i int) string {
		if i == n-1 {
			return "u"
		}
		return ""
	}))
	add("all", mk(func(int) string { return "u" }))
	add("distinct", mk(func(i int) string { return string(rune('u' + i)) }))
	add("second", mk(func(i int) string {
		if i == 1 {
			return "\xff"
		}
		return ""
	}))
	return
}

func labelAlts(i int) []Alt {
	set := func(name string, m map[string][]string) Alt {
		return Alt{name, func(s *Spec) {
			if x := smp(s, i); x != nil {
				x.Label = cpMS(m)
			}
		}}
	}
	return []Alt{
		set("nil", nil),
		set("emptymap", map[string][]string{}),
		set("novalues", map[string][]string{"k": {}}),
		set("[\"\"]", map[string][]string{"k": {""}}),
		set("[\"\",a]", map[string][]string{"k": {"", "a"}}),
		set("[a,\"\"]", map[string][]string{"k": {"a", ""}}),
		set("[a,\"\",b]", map[string][]string{"k": {"a", "", "b"}}),
		set("[a,b]", map[string][]string{"k": {"a", "b"}}),
		set("[b,a]", map[string][]string{"k": {"b", "a"}}),
		set("[a,a]", map[string][]string{"k": {"a", "a"}}),
		set("[a,b,c]", map[string][]string{"k": {"a", "b", "c"}}),
		set("nonutf8", map[string][]string{"k": {"\xff\xfe"}}),
		set("[k]", map[string][]string{"k": {"k"}}),
		set("len128", map[string][]string{"k": {long128}}),
		set("len16k", map[string][]string{"k": {long16k}}),
		set("2keys", map[string][]string{"k": {"a"}, "j": {"b"}}),
		set("2keys-2nd-empty", map[string][]string{"k": {"a"}, "j": {""}}),
		set("2keys-1st-empty", map[string][]string{"k": {""}, "j": {"a"}}),
		set("3keys", map[string][]string{"k": {"a"}, "j": {"a"}, "l": {"z", "a"}}),
	}
}

func renameKeys(name, from, to string, num bool, i int) Alt {
	return Alt{name, func(s *Spec) {
		x := smp(s, i)
		if x == nil {
			return
		}
		if !num {
			if v, ok := x.Label[from]; ok {
				delete(x.Label, from)
				x.Label[to] = v
			}
			return
		}
		if v, ok := x.Num[from]; ok {
			delete(x.Num, from)
			x.Num[to] = v
		}
		if v, ok := x.Unit[from]; ok {
			delete(x.Unit, from)
			x.Unit[to] = v
		}
	}}
}

// Dims returns the deviation space.
func Dims() []Dim {
	var ds []Dim
	add := func(name string, alts ...Alt) { ds = append(ds, Dim{name, alts}) }

	// --- shape of the sample table -------------------------------------
	add("samples.count",
		Alt{"0", func(s *Spec) { s.Samples = nil }},
		Alt{"0-empty", func(s *Spec) { s.Samples = []Smp{} }},
		Alt{"1", func(s *Spec) {
			if len(s.Samples) > 1 {
				s.Samples = s.Samples[:1]
			}
		}},
		Alt{"3", func(s *Spec) { c := s.Clone(); s.Samples = append(s.Samples, c.Samples[0]) }},
		Alt{"4", func(s *Spec) {
			c := s.Clone()
			d := s.Clone()
			s.Samples = append(s.Samples, c.Samples[1], d.Samples[0])
		}},
	)
	typesN := func(n int) Alt {
		return Alt{fmt.Sprint(n), func(s *Spec) {
			if n == 0 {
				s.Types, s.Samples = nil, nil
				return
			}
			for len(s.Types) < n {
				s.Types = append(s.Types, VT{fmt.Sprintf("t%d", len(s.Types)), "count"})
			}
			s.Types = s.Types[:n]
			for i := range s.Samples {
				x := &s.Samples[i]
				for len(x.Val) < n {
					x.Val = append(x.Val, int64(100*(i+1)+len(x.Val)))
				}
				x.Val = x.Val[:n]
			}
		}}
	}
	add("types.count", typesN(0), typesN(1), typesN(3), typesN(4), typesN(5))
	ty := func(i int) func(*Spec) *VT {
		return func(s *Spec) *VT {
			if i < len(s.Types) {
				return &s.Types[i]
			}
			return nil
		}
	}
	add("type0.type", strAlts(func(s *Spec) *string {
		if t := ty(0)(s); t != nil {
			return &t.Type
		}
		return nil
	}, "", "\xff\xfe", long128, "cpu")...)
	add("type0.unit", strAlts(func(s *Spec) *string {
		if t := ty(0)(s); t != nil {
			return &t.Unit
		}
		return nil
	}, "", "\xff", "samples")...)
	add("type1",
		Alt{"=type0", func(s *Spec) {
			if len(s.Types) > 1 {
				s.Types[1] = s.Types[0]
			}
		}},
		Alt{"empty", func(s *Spec) {
			if len(s.Types) > 1 {
				s.Types[1] = VT{}
			}
		}})
	add("default_sample_type", strAlts(func(s *Spec) *string { return &s.Default }, "samples", "zz", "\xff")...)

	// --- sample values ----------------------------------------------------
	add("s0.value0", intAlts(func(s *Spec) *int64 {
		if x := smp(s, 0); x != nil && len(x.Val) > 0 {
			return &x.Val[0]
		}
		return nil
	}, 0, -1, minI, maxI, 127, 128, 1<<32)...)
	add("s0.values",
		Alt{"allzero", func(s *Spec) {
			if x := smp(s, 0); x != nil {
				for i := range x.Val {
					x.Val[i] = 0
				}
			}
		}},
		Alt{"allmin", func(s *Spec) {
			if x := smp(s, 0); x != nil {
				for i := range x.Val {
					x.Val[i] = minI
				}
			}
		}})

	// --- sample → location references (packed from 3 ids on) ---------------
	locsAlt := func(i int, idx ...int) Alt {
		return Alt{fmt.Sprint(idx), func(s *Spec) {
			x := smp(s, i)
			if x == nil {
				return
			}
			x.Locs = []int{}
			for _, j := range idx {
				if j < len(s.Locs) {
					x.Locs = append(x.Locs, j)
				}
			}
		}}
	}
	add("s0.locs", Alt{"nil", func(s *Spec) {
		if x := smp(s, 0); x != nil {
			x.Locs = nil
		}
	}}, locsAlt(0), locsAlt(0, 0), locsAlt(0, 1, 0), locsAlt(0, 0, 0), locsAlt(0, 0, 1, 0), locsAlt(0, 1, 1, 1), locsAlt(0, 0, 1, 0, 1))
	add("s1.locs", locsAlt(1), locsAlt(1, 0), locsAlt(1, 0, 1, 1), locsAlt(1, 1, 0))

	// --- string labels -------------------------------------------------------
	add("s0.label", labelAlts(0)...)
	add("s0.labelkey",
		renameKeys("empty", "k", "", false, 0),
		renameKeys("=numkey", "k", "n", false, 0),
		renameKeys("nonutf8", "k", "\xff", false, 0),
		renameKeys("=value", "k", "a", false, 0),
		renameKeys("len128", "k", long128, false, 0))
	s1lab := func(name string, m map[string][]string) Alt {
		return Alt{name, func(s *Spec) {
			if x := smp(s, 1); x != nil {
				x.Label = cpMS(m)
			}
		}}
	}
	add("s1.label", s1lab("=s0", map[string][]string{"k": {"a"}}), s1lab("k:b", map[string][]string{"k": {"b"}}),
		s1lab("=ownnumkey", map[string][]string{"n": {"x"}}), s1lab("empty-value", map[string][]string{"k": {""}}))

	// --- numeric labels × unit patterns ----------------------------------
	var numAlts []Alt
	for _, vs := range numLists {
		names, pats := unitPatterns(len(vs))
		for pi := range pats {
			vs, pat := vs, pats[pi]
			numAlts = append(numAlts, Alt{fmt.Sprintf("%v/%s", vs, names[pi]), func(s *Spec) {
				x := smp(s, 1)
				if x == nil {
					return
				}
				x.Num = map[string][]int64{"n": cpI(vs)}
				if pat == nil {
					x.Unit = nil
				} else {
					x.Unit = map[string][]string{"n": cpS(pat)}
				}
			}})
		}
	}
	numAlts = append(numAlts,
		Alt{"nil", func(s *Spec) {
			if x := smp(s, 1); x != nil {
				x.Num, x.Unit = nil, nil
			}
		}},
		Alt{"novalues", func(s *Spec) {
			if x := smp(s, 1); x != nil {
				x.Num, x.Unit = map[string][]int64{"n": {}}, map[string][]string{"n": {}}
			}
		}},
		Alt{"emptyunitmap", func(s *Spec) {
			if x := smp(s, 1); x != nil {
				x.Unit = map[string][]string{}
			}
		}})
	add("s1.num", numAlts...)
	add("s1.numkey",
		renameKeys("empty", "n", "", true, 1),
		renameKeys("=strkey", "n", "k", true, 1),
		renameKeys("nonutf8", "n", "\xff", true, 1),
		renameKeys("=unit", "n", "bytes", true, 1),
		Alt{"+m-copy", func(s *Spec) {
			if x := smp(s, 1); x != nil && x.Num != nil {
				if v, ok := x.Num["n"]; ok {
					x.Num["m"] = cpI(v)
					if u, ok := x.Unit["n"]; ok {
						x.Unit["m"] = cpS(u)
					}
				}
			}
		}},
		Alt{"+a-zero-nounit", func(s *Spec) {
			if x := smp(s, 1); x != nil && x.Num != nil {
				x.Num["a"] = []int64{0}
			}
		}},
		Alt{"+z-unit-only-there", func(s *Spec) {
			if x := smp(s, 1); x != nil && x.Num != nil {
				x.Num["z"] = []int64{0, 4}
				if x.Unit == nil {
					x.Unit = map[string][]string{}
				}
				x.Unit["z"] = []string{"", "ms"}
			}
		}})
	s0num := func(name string, n map[string][]int64, u map[string][]string) Alt {
		return Alt{name, func(s *Spec) {
			if x := smp(s, 0); x != nil {
				x.Num, x.Unit = cpMI(n), cpMS(u)
			}
		}}
	}
	add("s0.num",
		s0num("n:1", map[string][]int64{"n": {1}}, nil),
		s0num("n:0", map[string][]int64{"n": {0}}, nil),
		s0num("n:8bytes", map[string][]int64{"n": {8}}, map[string][]string{"n": {"bytes"}}),
		s0num("k:1", map[string][]int64{"k": {1}}, nil),
		s0num("n:0bytes", map[string][]int64{"n": {0}}, map[string][]string{"n": {"bytes"}}))

	// --- mapping table ------------------------------------------------------
	add("maps.count",
		Alt{"0", func(s *Spec) {
			s.Maps = nil
			for i := range s.Locs {
				s.Locs[i].Map = -1
			}
		}},
		Alt{"+unused", func(s *Spec) { s.Maps = append(s.Maps, Mp{ID: 2, Start: 0x3000, Limit: 0x4000, File: "/lib/b"}) }},
		Alt{"+used-by-l1", func(s *Spec) {
			s.Maps = append(s.Maps, Mp{ID: 2, Start: 0x3000, Limit: 0x4000, File: "/lib/b"})
			if l := loc(s, 1); l != nil {
				l.Map = len(s.Maps) - 1
			}
		}},
		Alt{"unused-first", func(s *Spec) {
			s.Maps = append([]Mp{{ID: 2, Start: 0x3000, Limit: 0x4000, File: "/bin/a"}}, s.Maps...)
			for i := range s.Locs {
				if s.Locs[i].Map >= 0 {
					s.Locs[i].Map++
				}
			}
		}},
		Alt{"3-shuffled-ids", func(s *Spec) {
			s.Maps = append(s.Maps, Mp{ID: 3, Start: 0x3000, Limit: 0x4000}, Mp{ID: 2, Start: 0x5000, Limit: 0x6000, BuildID: "b1"})
			if l := loc(s, 1); l != nil {
				l.Map = len(s.Maps) - 1
			}
		}},
		Alt{"+all-zero-but-id", func(s *Spec) { s.Maps = append(s.Maps, Mp{ID: 2}) }},
	)
	m0u := func(f func(*Mp) *uint64) func(*Spec) *uint64 {
		return func(s *Spec) *uint64 {
			if m := mp(s, 0); m != nil {
				return f(m)
			}
			return nil
		}
	}
	add("m0.id", uintAlts(m0u(func(m *Mp) *uint64 { return &m.ID }), 2, 3, 4, 1<<32, 1<<63, maxU)...)
	add("m0.start", uintAlts(m0u(func(m *Mp) *uint64 { return &m.Start }), 0, 1<<63, maxU)...)
	add("m0.limit", uintAlts(m0u(func(m *Mp) *uint64 { return &m.Limit }), 0, maxU)...)
	add("m0.offset", uintAlts(m0u(func(m *Mp) *uint64 { return &m.Off }), 1, maxU)...)
	var fileAlts []Alt
	for _, f := range []string{"", "[kernel.kallsyms]_text", "[kernel.kallsyms]_stext", "[kernel.kallsyms]", "x[kernel.kallsyms]_text", "\xff", "b1", long127, long128, long16k} {
		f := f
		name := fmt.Sprintf("%+q", f)
		if len(f) > 30 {
			name = fmt.Sprintf("len%d", len(f))
		}
		fileAlts = append(fileAlts, Alt{name, func(s *Spec) {
			if m := mp(s, 0); m != nil {
				setFile(m, f)
			}
		}})
	}
	// a kernel mapping whose file was replaced by the local kernel image after parsing (the driver does
	// this and keeps the relocation symbol): the file name is what must survive
	fileAlts = append(fileAlts, Alt{"remapped-kernel", func(s *Spec) {
		if m := mp(s, 0); m != nil {
			m.File, m.KRS = "/boot/vmlinux", "_text"
		}
	}})
	add("m0.file", fileAlts...)
	add("m0.build_id", strAlts(func(s *Spec) *string {
		if m := mp(s, 0); m != nil {
			return &m.BuildID
		}
		return nil
	}, "", "\xff\xfe", "/bin/a")...)
	var flagAlts []Alt
	for b := 1; b < 16; b++ {
		b := b
		flagAlts = append(flagAlts, Alt{fmt.Sprintf("%04b", b), func(s *Spec) {
			if m := mp(s, 0); m != nil {
				m.HasFn, m.HasFile, m.HasLine, m.HasInl = b&1 != 0, b&2 != 0, b&4 != 0, b&8 != 0
			}
		}})
	}
	add("m0.flags", flagAlts...)

	// --- function table --------------------------------------------------
	add("fns.count",
		Alt{"+unused", func(s *Spec) { s.Fns = append(s.Fns, Fn{ID: 3, Name: "h", Sys: "h", File: "f.go", Start: 1}) }},
		Alt{"+unused-empty", func(s *Spec) { s.Fns = append(s.Fns, Fn{ID: 3}) }},
		Alt{"+unused-hugeid", func(s *Spec) { s.Fns = append(s.Fns, Fn{ID: maxU - 1, Name: "f"}) }},
		Alt{"unused-first", func(s *Spec) {
			s.Fns = append([]Fn{{ID: 3, Name: "h"}}, s.Fns...)
			for i := range s.Locs {
				for j := range s.Locs[i].Lines {
					s.Locs[i].Lines[j].Fn++
				}
			}
		}})
	f0u := func(s *Spec) *uint64 {
		if f := fn(s, 0); f != nil {
			return &f.ID
		}
		return nil
	}
	add("f0.id", uintAlts(f0u, 3, 4, 1<<32, 1<<63, maxU)...)
	add("f.ids", Alt{"swapped", func(s *Spec) {
		if len(s.Fns) >= 2 {
			s.Fns[0].ID, s.Fns[1].ID = s.Fns[1].ID, s.Fns[0].ID
		}
	}})
	f0s := func(f func(*Fn) *string) func(*Spec) *string {
		return func(s *Spec) *string {
			if x := fn(s, 0); x != nil {
				return f(x)
			}
			return nil
		}
	}
	add("f0.name", strAlts(f0s(func(f *Fn) *string { return &f.Name }), "", "\xff\xfe", "g", long128)...)
	add("f0.system_name", strAlts(f0s(func(f *Fn) *string { return &f.Sys }), "", "f", "\xff")...)
	add("f0.filename", strAlts(f0s(func(f *Fn) *string { return &f.File }), "", "g.go", "\xfe")...)
	add("f0.start_line", intAlts(func(s *Spec) *int64 {
		if x := fn(s, 0); x != nil {
			return &x.Start
		}
		return nil
	}, 0, -1, minI, maxI)...)
	add("f1", Alt{"all-empty", func(s *Spec) {
		if x := fn(s, 1); x != nil {
			*x = Fn{ID: x.ID}
		}
	}})

	// --- location table ---------------------------------------------------
	add("locs.count",
		Alt{"+unused", func(s *Spec) {
			s.Locs = append(s.Locs, Loc{ID: 3, Map: len(s.Maps) - 1, Addr: 0x1300, Lines: []Ln{{Fn: 0, Line: 9}}})
			if len(s.Fns) == 0 {
				s.Locs[len(s.Locs)-1].Lines = nil
			}
		}},
		Alt{"+unused-zero", func(s *Spec) { s.Locs = append(s.Locs, Loc{ID: 3, Map: -1}) }},
		Alt{"+unused-hugeid", func(s *Spec) { s.Locs = append(s.Locs, Loc{ID: maxU - 1, Map: -1, Addr: 1}) }},
		Alt{"+dup-of-l0-used-by-s1", func(s *Spec) {
			if len(s.Locs) == 0 {
				return
			}
			c := s.Clone().Locs[0]
			c.ID = 3
			s.Locs = append(s.Locs, c)
			if x := smp(s, 1); x != nil {
				x.Locs = append(x.Locs, len(s.Locs)-1)
			}
		}},
		Alt{"unused-first", func(s *Spec) {
			s.Locs = append([]Loc{{ID: 3, Map: -1, Addr: 7}}, s.Locs...)
			for i := range s.Samples {
				for j := range s.Samples[i].Locs {
					s.Samples[i].Locs[j]++
				}
			}
		}})
	lu := func(i int, f func(*Loc) *uint64) func(*Spec) *uint64 {
		return func(s *Spec) *uint64 {
			if l := loc(s, i); l != nil {
				return f(l)
			}
			return nil
		}
	}
	add("l0.id", uintAlts(lu(0, func(l *Loc) *uint64 { return &l.ID }), 3, 4, 1<<32, 1<<63, maxU)...)
	add("l1.id", uintAlts(lu(1, func(l *Loc) *uint64 { return &l.ID }), 3, 5, maxU)...)
	add("l.ids", Alt{"swapped", func(s *Spec) {
		if len(s.Locs) >= 2 {
			s.Locs[0].ID, s.Locs[1].ID = s.Locs[1].ID, s.Locs[0].ID
		}
	}})
	add("l0.mapping", Alt{"nil", func(s *Spec) {
		if l := loc(s, 0); l != nil {
			l.Map = -1
		}
	}})
	add("l1.mapping", Alt{"nil", func(s *Spec) {
		if l := loc(s, 1); l != nil {
			l.Map = -1
		}
	}})
	add("l0.address", uintAlts(lu(0, func(l *Loc) *uint64 { return &l.Addr }), 0, 1<<63, maxU)...)
	add("l0.is_folded", Alt{"true", func(s *Spec) {
		if l := loc(s, 0); l != nil {
			l.Folded = true
		}
	}})
	linesAlt := func(li, n int) Alt {
		return Alt{fmt.Sprint(n), func(s *Spec) {
			l := loc(s, li)
			if l == nil {
				return
			}
			m := n
			if len(s.Fns) == 0 {
				m = 0
			}
			for len(l.Lines) < m {
				k := len(l.Lines)
				l.Lines = append(l.Lines, Ln{Fn: k % len(s.Fns), Line: int64(20 + k), Col: int64(k % 2)})
			}
			l.Lines = l.Lines[:m]
		}}
	}
	add("l0.lines", Alt{"nil", func(s *Spec) {
		if l := loc(s, 0); l != nil {
			l.Lines = nil
		}
	}}, linesAlt(0, 0), linesAlt(0, 2), linesAlt(0, 3), linesAlt(0, 4))
	add("l0.line0.function", Alt{"other", func(s *Spec) {
		if ln := line(s, 0, 0); ln != nil && len(s.Fns) > 1 {
			ln.Fn = (ln.Fn + 1) % len(s.Fns)
		}
	}})
	add("l0.line0.line", intAlts(func(s *Spec) *int64 {
		if ln := line(s, 0, 0); ln != nil {
			return &ln.Line
		}
		return nil
	}, 0, -1, minI, maxI)...)
	add("l0.line0.column", intAlts(func(s *Spec) *int64 {
		if ln := line(s, 0, 0); ln != nil {
			return &ln.Col
		}
		return nil
	}, 0, -1, minI, maxI)...)
	add("l1.lines", linesAlt(1, 0), linesAlt(1, 1), linesAlt(1, 3),
		Alt{"same-line-twice", func(s *Spec) {
			if l := loc(s, 1); l != nil && len(l.Lines) > 0 {
				l.Lines = []Ln{l.Lines[0], l.Lines[0]}
			}
		}},
		Alt{"all-zero-but-fn", func(s *Spec) {
			if l := loc(s, 1); l != nil && len(l.Lines) > 0 {
				l.Lines = []Ln{{Fn: l.Lines[0].Fn}, {Fn: l.Lines[0].Fn}}
			}
		}})

	// --- header ------------------------------------------------------------
	cm := func(name string, v []string) Alt {
		return Alt{name, func(s *Spec) { s.Comments = cpS(v) }}
	}
	add("comments", cm("nil", nil), cm("empty", []string{}), cm("[\"\"]", []string{""}), cm("dup", []string{"c1", "c1"}),
		cm("3", []string{"a", "b", "c"}), cm("4", []string{"a", "", "c", "a"}), cm("nonutf8", []string{"\xff"}), cm("[\"\",\"\"]", []string{"", ""}),
		cm("len16k", []string{long16k}), cm("len64k", []string{long64k}))
	add("doc_url", strAlts(func(s *Spec) *string { return &s.DocURL }, "http://x", "\xff", "c1")...)
	add("drop_frames", strAlts(func(s *Spec) *string { return &s.Drop }, "re.*", "\xff")...)
	add("keep_frames", strAlts(func(s *Spec) *string { return &s.Keep }, "re.*", "f")...)
	add("time_nanos", intAlts(func(s *Spec) *int64 { return &s.Time }, 0, -1, minI, maxI)...)
	add("duration_nanos", intAlts(func(s *Spec) *int64 { return &s.Dur }, 0, -1, minI, maxI)...)
	add("period", intAlts(func(s *Spec) *int64 { return &s.Period }, 0, 1, -1, minI, maxI)...)
	pt := func(name string, v *VT) Alt {
		return Alt{name, func(s *Spec) {
			if v == nil {
				s.PT = nil
				return
			}
			c := *v
			s.PT = &c
		}}
	}
	add("period_type", pt("nil", nil), pt("empty", &VT{}), pt("type-only", &VT{"cpu", ""}), pt("unit-only", &VT{"", "ns"}),
		pt("nonutf8", &VT{"\xff", "\xfe"}), pt("new-strings", &VT{"space", "bytes"}))
	return ds
}
