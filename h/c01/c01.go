// Package c01: profile serialization round-trips without loss.
//
// Bounded-exhaustive enumeration of
//
//	A. in-memory profiles deviating from a base profile in at most d fields
//	   (every field of the format has alternatives at the codec's thresholds);
//	B. the complete cross-reference product of small tables (samples →
//	   locations → lines → functions, locations → mappings) over dense,
//	   sparse and shuffled ids;
//	C. wire documents built by an independent encoder that deviate from a base
//	   document in at most d non-canonical features (accepted-bytes clause);
//	D. every byte string over a 20-value alphabet up to a length bound, and
//	   every point mutation of a few seed encodings (accepted-bytes clause).
//
// Each accepted or constructed profile is written and parsed back with the
// real code (WriteUncompressed/Write/Copy/the driver's profile copier,
// ParseData/Parse/ParseUncompressed) and compared field by field with the
// original after the one normalisation the property allows.
package c01

import (
	"bytes"
	"compress/gzip"
	"fmt"
	"io"
	"runtime/debug"
	"strconv"
	"strings"

	"github.com/google/pprof/internal/driver"
	"github.com/google/pprof/profile"

	"github.com/google/pprof/verifh/reg"
	"github.com/google/pprof/verifh/vk"
)

func init() { reg.Register("C01", Run) }

// W is a witness: generator coordinates plus the case written out.
type W struct {
	Family  string   `json:"family"`
	Dev     []string `json:"deviations,omitempty"`
	Hex     string   `json:"input_hex,omitempty"`
	Profile string   `json:"profile,omitempty"`
}

type mode struct {
	clause string // "write-parse" for constructed profiles, "reparse" for parser output
	gz     bool   // also the compressed path
	full   bool   // also ParseUncompressed, Parse(io.Reader) and the driver's copier
}

type checker struct {
	c    *vk.Ctx
	gzw  *gzip.Writer
	fam  string
	dev  []string
	hex  []byte
	spec *Spec
	// the driver copier made for the previous profile of this run, and that profile
	prevCopier func() *profile.Profile
	prevSnap   *Spec
}

func (k *checker) witness(s *Spec) W {
	w := W{Family: k.fam, Dev: append([]string(nil), k.dev...)}
	if k.hex != nil {
		w.Hex = hexs(k.hex)
	}
	if s != nil {
		w.Profile = s.Dump()
	}
	return w
}

func (k *checker) fail(class string, s *Spec, format string, args ...any) {
	if k.c.HasViolation(class) {
		k.c.Violation(class, nil, "")
		return
	}
	k.c.Violation(class, k.witness(s), fmt.Sprintf(format, args...))
}

// guard runs f and turns a panic into a violation of class "panic/<where>";
// the witness is only rendered when a panic happened.
func (k *checker) guard(where string, s *Spec, f func()) (ok bool) {
	defer func() {
		if r := recover(); r != nil {
			var out []string
			for _, l := range strings.Split(string(debug.Stack()), "\n") {
				if strings.Contains(l, "github.com/google/pprof") && !strings.Contains(l, "checker).guard") {
					out = append(out, strings.TrimSpace(l))
				}
				if len(out) >= 10 {
					break
				}
			}
			k.fail("panic/"+where, s, "panic: %v\n%s", r, strings.Join(out, "\n"))
			ok = false
		}
	}()
	f()
	return true
}

func writeU(p *profile.Profile) ([]byte, error) {
	var b bytes.Buffer
	err := p.WriteUncompressed(&b)
	return b.Bytes(), err
}

func gunzip(b []byte) ([]byte, error) {
	r, err := gzip.NewReader(bytes.NewReader(b))
	if err != nil {
		return nil, err
	}
	return io.ReadAll(r)
}

// roundTrip applies every clause to one profile p, which is either constructed
// in memory (m.clause == "write-parse") or was returned by the parser
// (m.clause == "reparse").
func (k *checker) roundTrip(p *profile.Profile, m mode) {
	c := k.c
	c.Eval()
	s0 := Snapshot(p)
	n0 := s0.AsRead()
	drop := s0.Droppable()
	var b1 []byte
	var q1 *profile.Profile
	ok := k.guard(m.clause, s0, func() {
		var err error
		if b1, err = writeU(p); err != nil {
			k.fail(m.clause+"/write-error", s0, "WriteUncompressed: %v", err)
			return
		}
		if q1, err = profile.ParseData(b1); err != nil {
			q1 = nil
			k.fail(m.clause+"/rejected", s0, "ParseData(WriteUncompressed(p)): %v\nbytes %s", err, hexs(b1))
		}
	})
	if !ok || q1 == nil {
		return
	}
	s1 := Snapshot(q1)
	if cat, det := Diff(n0, s1.Normalize()); cat != "" {
		k.fail(m.clause+"/"+cat, s0, "ParseData(WriteUncompressed(p)) differs from p: %s\nbytes %s", det, hexs(b1))
	}
	// Whether writing changed its input is not fixed by the statement: it is
	// counted only. Every later clause compares with the snapshot taken before
	// the first write, so a change that matters still surfaces there.
	if cat, _ := Diff(s0, Snapshot(p)); cat != "" {
		c.Count("info/input-changed-by-write/"+cat, 1)
	}
	if drop {
		c.Count(k.fam+"/with-unrepresentable-label", 1)
	}
	// distinct observable shapes of the encoding (vacuity indicator): which
	// family, whether the normalisation fired, how long the encoding is
	c.Outcome(k.fam + strconv.FormatBool(drop) + strconv.Itoa(len(b1)))

	// what the parser returned re-serialises to the same bytes and parses to
	// the same profile. b2 == b1 implies both for q1; when the allowed
	// normalisation fired between p and q1 the bytes legitimately differ and
	// the clause is evaluated one generation later.
	var b2 []byte
	k.guard("rewrite", s0, func() { b2, _ = writeU(q1) })
	if b2 == nil && len(b1) != 0 {
		return
	}
	if !bytes.Equal(b1, b2) {
		if !drop && m.clause == "reparse" {
			k.fail("rebytes/first-generation", s0, "Write(Parse(Write(q))) != Write(q) for parser output q\n b1 %s\n b2 %s", hexs(b1), hexs(b2))
		} else if !drop {
			// constructed profile without anything to normalise: the statement
			// only fixes bytes for parser output, so this is counted, and the
			// clause is applied to q1 below.
			c.Count("info/constructed-bytes-differ-from-reparsed", 1)
		}
		var q2 *profile.Profile
		var b3 []byte
		k.guard("rewrite", s0, func() {
			var err error
			if q2, err = profile.ParseData(b2); err != nil {
				q2 = nil
				k.fail("reparse/rejected", s1, "ParseData(Write(q)) fails for parser output q: %v", err)
				return
			}
			b3, _ = writeU(q2)
		})
		if q2 != nil {
			if cat, det := Diff(s1.Normalize(), Snapshot(q2).Normalize()); cat != "" {
				k.fail("reparse/"+cat, s1, "Parse(Write(q)) differs from parser output q: %s", det)
			}
			if s1.Droppable() {
				// cannot happen with a canonical string table; if it does, the
				// bytes may legitimately differ once more
				c.Count("info/reparsed-profile-has-unrepresentable-label", 1)
			} else if !bytes.Equal(b2, b3) {
				k.fail("rebytes/second-generation", s1, "Write(Parse(Write(q))) != Write(q)\n b2 %s\n b3 %s", hexs(b2), hexs(b3))
			}
		}
	}

	// Copy
	var cp *profile.Profile
	if k.guard("copy", s0, func() { cp = p.Copy() }) && cp != nil {
		if cat, det := Diff(n0, Snapshot(cp).Normalize()); cat != "" {
			k.fail("copy/"+cat, s0, "Copy() differs: %s", det)
		}
		if cat, _ := Diff(s0, Snapshot(p)); cat != "" {
			c.Count("info/input-changed-by-copy/"+cat, 1)
		}
	}

	if m.gz {
		var zb []byte
		var qz *profile.Profile
		k.guard("gzip", s0, func() {
			var b bytes.Buffer
			if err := p.Write(&b); err != nil {
				k.fail("gzip/write-error", s0, "Write: %v", err)
				return
			}
			zb = b.Bytes()
			var err error
			if qz, err = profile.Parse(bytes.NewReader(zb)); err != nil {
				qz = nil
				k.fail("gzip/rejected", s0, "Parse(Write(p)): %v", err)
			}
		})
		if qz != nil {
			if raw, err := gunzip(zb); err != nil || !bytes.Equal(raw, b1) {
				// byte equality of the two writers is not part of the statement
				c.Count("info/gzip-payload-differs-from-uncompressed", 1)
			}
			if cat, det := Diff(n0, Snapshot(qz).Normalize()); cat != "" {
				k.fail("gzip/"+cat, s0, "Parse(Write(p)) differs from p: %s", det)
			}
		}
	}
	if m.full {
		k.guard("parse-uncompressed", s0, func() {
			qu, err := profile.ParseUncompressed(b1)
			if err != nil {
				k.fail(m.clause+"/rejected", s0, "ParseUncompressed(WriteUncompressed(p)): %v", err)
				return
			}
			if cat, det := Diff(n0, Snapshot(qu).Normalize()); cat != "" {
				k.fail("parse-uncompressed/"+cat, s0, "ParseUncompressed(WriteUncompressed(p)) differs from p: %s", det)
			}
		})
		k.guard("driver-copier", s0, func() {
			nc := driver.VerifProfileCopier(p)
			for i := 0; i < 2; i++ {
				if cat, det := Diff(n0, Snapshot(nc()).Normalize()); cat != "" {
					k.fail("driver-copier/"+cat, s0, "copy %d from the driver's profile copier differs: %s", i, det)
				}
			}
			// a copier made earlier in this process (for another profile) still hands out its own profile
			if k.prevCopier != nil {
				if cat, det := Diff(k.prevSnap, Snapshot(k.prevCopier()).Normalize()); cat != "" {
					k.fail("driver-copier/earlier-copier/"+cat, s0, "after a copier for this profile was made, the copier made before it for another profile hands out something else: %s", det)
				}
			}
			k.prevCopier, k.prevSnap = nc, n0
		})
	}
}

// constructed checks one generated Spec (family A, B).
func (k *checker) constructed(s *Spec, m mode) {
	c := k.c
	if !s.Valid() {
		c.Count(k.fam+"/invalid-skipped", 1)
		return
	}
	p := s.Build()
	if err := p.CheckValid(); err != nil {
		k.fail("checkvalid/rejects-valid-profile", s, "CheckValid: %v", err)
		return
	}
	if k.c.Counter("selfcheck") < 2000 {
		c.Count("selfcheck", 1)
		if cat, det := Diff(s, Snapshot(p)); cat != "" {
			k.fail("harness/snapshot-of-build", s, "Snapshot(Build(s)) != s: %s", det)
			return
		}
	}
	c.Count(k.fam+"/valid", 1)
	c.Nontrivial(k.fam + strings.Join(k.dev, ";"))
	if c.WantSample() {
		c.Sample(k.witness(nil))
	}
	m.clause = "write-parse"
	k.roundTrip(p, m)
}

// accepted checks one byte string (family C, D): if ParseData accepts it, the
// result must survive write-then-parse.
func (k *checker) accepted(data []byte, m mode) bool {
	c := k.c
	var q *profile.Profile
	var err error
	k.hex = data
	defer func() { k.hex = nil }()
	if !k.guard("parse", nil, func() { q, err = profile.ParseData(data) }) {
		return false
	}
	if err != nil || q == nil {
		c.Count(k.fam+"/rejected", 1)
		return false
	}
	c.Count(k.fam+"/accepted", 1)
	c.Nontrivial(k.fam + string(data))
	m.clause = "reparse"
	k.roundTrip(q, m)
	return true
}

func (k *checker) gzipped(data []byte) []byte {
	var b bytes.Buffer
	if k.gzw == nil {
		k.gzw = gzip.NewWriter(&b)
	} else {
		k.gzw.Reset(&b)
	}
	k.gzw.Write(data)
	k.gzw.Close()
	return b.Bytes()
}

// Run is the check.
func Run(c *vk.Ctx) {
	k := &checker{c: c}
	var idx int64
	mine := func() bool {
		r := c.Mine(idx)
		idx++
		return r
	}
	expired := func(where string) bool {
		if c.Expired() {
			c.Cap(fmt.Sprintf("time budget: stopped in %s at index %d", where, idx))
			return true
		}
		return false
	}

	// ---------------- A: field deviations -------------------------------
	dims := Dims()
	nalt := 0
	for _, d := range dims {
		nalt += len(d.Alts)
	}
	maxD := 2
	if c.Thorough() {
		maxD = 3
	}
	c.Note(fmt.Sprintf("A: base profile + all assignments deviating in <= %d of %d field dimensions (%d alternatives in total); gzip path for <= 2 deviations", maxD, len(dims), nalt))
	k.fam = "deviation"
	run := func(m mode, sel ...[2]int) {
		s := Base()
		k.dev = k.dev[:0]
		for _, x := range sel {
			d := dims[x[0]]
			d.Alts[x[1]].F(s)
			k.dev = append(k.dev, d.Name+"="+d.Alts[x[1]].Name)
		}
		k.constructed(s, m)
	}
	if mine() {
		run(mode{gz: true, full: true})
	}
	for i := range dims {
		for a := range dims[i].Alts {
			if mine() {
				run(mode{gz: true, full: true}, [2]int{i, a})
			}
		}
	}
	for i := range dims {
		for j := i + 1; j < len(dims); j++ {
			for a := range dims[i].Alts {
				for b := range dims[j].Alts {
					if mine() {
						run(mode{gz: true, full: true}, [2]int{i, a}, [2]int{j, b})
					}
				}
			}
		}
		if expired("A pairs") {
			return
		}
	}
	if maxD >= 3 {
		for i := range dims {
			for j := i + 1; j < len(dims); j++ {
				for l := j + 1; l < len(dims); l++ {
					for a := range dims[i].Alts {
						for b := range dims[j].Alts {
							for e := range dims[l].Alts {
								if mine() {
									run(mode{}, [2]int{i, a}, [2]int{j, b}, [2]int{l, e})
								}
							}
						}
					}
				}
				if expired("A triples") {
					return
				}
			}
		}
	}
	if c.Counter("deviation/with-unrepresentable-label") == 0 {
		c.Vacuous("A: no profile with an unrepresentable label was generated in this shard")
	}

	// ---------------- E: edits after a codec pass (stale encoder state) ---
	k.edits(mine, expired)

	// ---------------- B: cross-reference product -------------------------
	k.fam = "xref"
	k.xref(mine, expired)

	// ---------------- C: non-canonical wire documents --------------------
	k.wire(mine, expired)

	// ---------------- D: byte strings and seed mutations ----------------
	k.soups(mine, expired)
}

// seqs returns all sequences over {0..n-1} of length 0..maxLen.
func seqs(n, maxLen int) [][]int {
	out := [][]int{{}}
	last := [][]int{{}}
	for l := 1; l <= maxLen; l++ {
		var next [][]int
		for _, s := range last {
			for x := 0; x < n; x++ {
				next = append(next, append(append([]int{}, s...), x))
			}
		}
		out = append(out, next...)
		last = next
	}
	return out
}

// injections returns all injective assignments of n ids from alphabet.
func injections(alphabet []uint64, n int) [][]uint64 {
	var out [][]uint64
	var rec func(cur []uint64)
	rec = func(cur []uint64) {
		if len(cur) == n {
			out = append(out, append([]uint64{}, cur...))
			return
		}
	next:
		for _, a := range alphabet {
			for _, x := range cur {
				if x == a {
					continue next
				}
			}
			rec(append(cur, a))
		}
	}
	rec(nil)
	return out
}

func (k *checker) xref(mine func() bool, expired func(string) bool) {
	c := k.c
	maxL := 2
	if c.Thorough() {
		maxL = 3
	}
	c.Note(fmt.Sprintf("B: complete cross-reference product: 1..2 functions (ids: injections from {1,2,3}), 1..%d locations (ids: injections from {1,2,4}; the dense/sparse table switch is at id = len+1), 0..2 lines per location over all functions, 1..2 samples with 0..2 locations each over all locations; plus 1..2 mappings (ids from {1,2,3}) x every location→mapping assignment incl. none for 1..3 locations", maxL))
	k.fam = "xref"
	k.dev = nil
	for nF := 1; nF <= 2; nF++ {
		lineOpts := seqs(nF, 2)
		for _, fids := range injections([]uint64{1, 2, 3}, nF) {
			for nL := 1; nL <= maxL; nL++ {
				stackOpts := seqs(nL, 2)
				for _, lids := range injections([]uint64{1, 2, 4}, nL) {
					// all assignments of a line list to each location
					lsel := make([]int, nL)
					for {
						for nS := 1; nS <= 2; nS++ {
							ssel := make([]int, nS)
							for {
								if mine() {
									s := &Spec{Types: []VT{{"n", "count"}}}
									for i, id := range fids {
										s.Fns = append(s.Fns, Fn{ID: id, Name: string(rune('f' + i))})
									}
									for i, id := range lids {
										l := Loc{ID: id, Map: -1, Addr: uint64(16 * (i + 1))}
										for j, f := range lineOpts[lsel[i]] {
											l.Lines = append(l.Lines, Ln{Fn: f, Line: int64(10*i + j + 1)})
										}
										s.Locs = append(s.Locs, l)
									}
									for i := range ssel {
										s.Samples = append(s.Samples, Smp{Locs: append([]int{}, stackOpts[ssel[i]]...), Val: []int64{int64(i + 1)}})
									}
									if c.WantSample() {
										k.dev = []string{fmt.Sprintf("fn-ids=%v loc-ids=%v lines=%v stacks=%v", fids, lids, lsel, ssel)}
									}
									k.constructed(s, mode{})
									k.dev = nil
								}
								if !inc(ssel, len(stackOpts)) {
									break
								}
							}
						}
						if !inc(lsel, len(lineOpts)) {
							break
						}
					}
					if expired("B") {
						return
					}
				}
			}
		}
	}
	// mappings
	for nM := 1; nM <= 2; nM++ {
		for _, mids := range injections([]uint64{1, 2, 3}, nM) {
			for nL := 1; nL <= 3; nL++ {
				msel := make([]int, nL) // 0 = none, i+1 = mapping i
				for {
					if mine() {
						s := &Spec{}
						for i, id := range mids {
							s.Maps = append(s.Maps, Mp{ID: id, Start: uint64(0x1000 * (i + 1)), Limit: uint64(0x1000 * (i + 2)), File: string(rune('a' + i))})
						}
						for i := range msel {
							s.Locs = append(s.Locs, Loc{ID: uint64(i + 1), Map: msel[i] - 1, Addr: uint64(0x1000*(i+1) + 8)})
						}
						k.dev = []string{fmt.Sprintf("mapping-ids=%v location-mapping=%v", mids, msel)}
						k.constructed(s, mode{})
						k.dev = nil
					}
					if !inc(msel, nM+1) {
						break
					}
				}
			}
		}
	}
}

// inc advances a mixed-radix counter (all digits base n); false on wrap-around.
func inc(d []int, n int) bool {
	for i := range d {
		d[i]++
		if d[i] < n {
			return true
		}
		d[i] = 0
	}
	return false
}

func (k *checker) wire(mine func() bool, expired func(string) bool) {
	c := k.c
	alts := wireAlts()
	maxD := 2
	if c.Thorough() {
		maxD = 3
	}
	c.Note(fmt.Sprintf("C: base wire document (own encoder) + every combination of <= %d of %d non-canonical wire features, each fed raw and gzip-compressed", maxD, len(alts)))
	k.fam = "wire"
	run := func(sel ...int) {
		d := baseDoc()
		k.dev = k.dev[:0]
		for _, i := range sel {
			alts[i].F(d)
			k.dev = append(k.dev, alts[i].Name)
		}
		data := wenc(d.f)
		full := len(sel) <= 2
		acc := k.accepted(data, mode{gz: full, full: full})
		if full {
			k.fam = "wire-gzip"
			acc2 := k.accepted(k.gzipped(data), mode{})
			k.fam = "wire"
			if acc != acc2 {
				c.Count("info/gzip-input-accept-differs", 1)
			}
		}
		if len(sel) == 1 {
			if acc {
				c.Outcome("wire-accepted:" + alts[sel[0]].Name)
			} else {
				c.Outcome("wire-rejected:" + alts[sel[0]].Name)
			}
		}
	}
	if mine() {
		run()
	}
	for i := range alts {
		if mine() {
			run(i)
		}
	}
	for i := range alts {
		for j := i + 1; j < len(alts); j++ {
			if mine() {
				run(i, j)
			}
		}
	}
	if maxD >= 3 {
		for i := range alts {
			for j := i + 1; j < len(alts); j++ {
				for l := j + 1; l < len(alts); l++ {
					if mine() {
						run(i, j, l)
					}
				}
			}
			if expired("C triples") {
				return
			}
		}
	}
	k.dev = nil
}

func (k *checker) soups(mine func() bool, expired func(string) bool) {
	c := k.c
	maxLen := 4
	if c.Thorough() {
		maxLen = 5
	}
	k.dev = nil
	k.fam = "bytes"
	c.Note(fmt.Sprintf("D: every byte string over a %d-value alphabet of length 1..%d; for 4 seed encodings every single-byte replacement/insertion from a %d-value set, every truncation and deletion (thorough: every pair of replacements in the shortest seed)", len(soupAlphabet), maxLen, len(mutBytes)))
	n := len(soupAlphabet)
	buf := make([]byte, 0, maxLen)
	for l := 1; l <= maxLen; l++ {
		d := make([]int, l)
		for {
			if mine() {
				buf = buf[:0]
				for i := l - 1; i >= 0; i-- {
					buf = append(buf, soupAlphabet[d[i]])
				}
				k.accepted(append([]byte{}, buf...), mode{})
			}
			if !inc(d, n) {
				break
			}
		}
		if expired("D strings") {
			return
		}
	}
	if c.Counter("bytes/accepted") == 0 {
		c.Vacuous("D: no enumerated byte string was accepted by ParseData in this shard")
	}

	// seeds
	k.fam = "mutation"
	short := &Spec{Types: []VT{{"n", "c"}}, Fns: []Fn{{ID: 1, Name: "f"}}, Locs: []Loc{{ID: 1, Map: -1, Lines: []Ln{{Fn: 0, Line: 1}}}},
		Samples: []Smp{{Locs: []int{0}, Val: []int64{1}, Label: map[string][]string{"k": {"v"}}, Num: map[string][]int64{"n": {2}}}}}
	many := Base()
	dims := Dims()
	for _, d := range dims {
		switch d.Name {
		case "types.count", "s0.locs", "comments":
			for _, a := range d.Alts {
				if a.Name == "3" || a.Name == "[0 1 0]" {
					a.F(many)
				}
			}
		}
	}
	var seeds [][]byte
	for _, s := range []*Spec{short, Base(), many} {
		b, _ := writeU(s.Build())
		seeds = append(seeds, b)
	}
	seeds = append(seeds, wenc(baseDoc().f))
	for si, seed := range seeds {
		try := func(kind string, data []byte) {
			if mine() {
				k.dev = []string{fmt.Sprintf("seed %d %s", si, kind)}
				k.accepted(data, mode{})
			}
		}
		for pos := 0; pos <= len(seed); pos++ {
			try("truncate", append([]byte{}, seed[:pos]...))
			if pos == len(seed) {
				break
			}
			try("delete", append(append([]byte{}, seed[:pos]...), seed[pos+1:]...))
			for _, v := range mutBytes {
				if v != seed[pos] {
					m := append([]byte{}, seed...)
					m[pos] = v
					try("replace", m)
				}
				ins := append(append(append([]byte{}, seed[:pos]...), v), seed[pos:]...)
				try("insert", ins)
			}
		}
		if expired("D mutations") {
			return
		}
	}
	if c.Thorough() {
		seed := seeds[0]
		for p1 := 0; p1 < len(seed); p1++ {
			for p2 := p1 + 1; p2 < len(seed); p2++ {
				for _, v1 := range mutBytes {
					for _, v2 := range mutBytes {
						if v1 == seed[p1] || v2 == seed[p2] {
							continue
						}
						if mine() {
							m := append([]byte{}, seed...)
							m[p1], m[p2] = v1, v2
							k.dev = []string{"seed 0 replace2"}
							k.accepted(m, mode{})
						}
					}
				}
			}
			if expired("D double mutations") {
				return
			}
		}
	}
	k.dev = nil
}
