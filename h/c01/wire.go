package c01

import "fmt"

// A tiny wire-format writer of our own (independent of profile/proto.go) used
// to build inputs that Parse accepts but that the canonical writer would never
// produce: duplicate string-table entries, labels with both a string and a
// number, packed/unpacked mixes, non-minimal varints, unknown fields, repeated
// singular fields, shuffled field order, dangling optional references.

type wf struct {
	num int
	wt  int    // wire type
	v   uint64 // wt 0 value / wt 1,5 payload
	raw []byte // wt 2 payload when !msg; wt 0: literal varint bytes if non-nil
	sub []wf   // wt 2 payload when msg
	msg bool
	pad int // wt 0: number of redundant continuation bytes (non-minimal varint)
}

func wV(n int, v uint64) wf     { return wf{num: n, wt: 0, v: v} }
func wB(n int, b string) wf     { return wf{num: n, wt: 2, raw: []byte(b)} }
func wM(n int, sub ...wf) wf    { return wf{num: n, wt: 2, msg: true, sub: sub} }
func wP(n int, vs ...uint64) wf { return wf{num: n, wt: 2, raw: packed(vs...)} }
func wF64(n int, v uint64) wf   { return wf{num: n, wt: 1, v: v} }
func wF32(n int, v uint64) wf   { return wf{num: n, wt: 5, v: v} }
func appendVarint(b []byte, x uint64) []byte {
	for x >= 128 {
		b = append(b, byte(x)|0x80)
		x >>= 7
	}
	return append(b, byte(x))
}
func packed(vs ...uint64) []byte {
	b := []byte{}
	for _, v := range vs {
		b = appendVarint(b, v)
	}
	return b
}

func wenc(fs []wf) []byte {
	var b []byte
	for _, f := range fs {
		b = appendVarint(b, uint64(f.num)<<3|uint64(f.wt))
		switch f.wt {
		case 0:
			switch {
			case f.raw != nil:
				b = append(b, f.raw...)
			case f.pad > 0:
				x := f.v
				for x >= 128 {
					b = append(b, byte(x)|0x80)
					x >>= 7
				}
				b = append(b, byte(x)|0x80)
				for i := 1; i < f.pad; i++ {
					b = append(b, 0x80)
				}
				b = append(b, 0)
			default:
				b = appendVarint(b, f.v)
			}
		case 1:
			for i := 0; i < 8; i++ {
				b = append(b, byte(f.v>>(8*i)))
			}
		case 5:
			for i := 0; i < 4; i++ {
				b = append(b, byte(f.v>>(8*i)))
			}
		case 2:
			p := f.raw
			if f.msg {
				p = wenc(f.sub)
			}
			b = appendVarint(b, uint64(len(p)))
			b = append(b, p...)
		}
	}
	return b
}

type doc struct{ f []wf }

// find returns the k-th field numbered num in fs.
func find(fs []wf, num, k int) *wf {
	for i := range fs {
		if fs[i].num == num {
			if k == 0 {
				return &fs[i]
			}
			k--
		}
	}
	return nil
}

func del(f *wf, num int) {
	if f == nil {
		return
	}
	var o []wf
	for _, x := range f.sub {
		if x.num != num {
			o = append(o, x)
		}
	}
	f.sub = o
}

func set(f *wf, num int, v uint64) {
	if f == nil {
		return
	}
	if x := find(f.sub, num, 0); x != nil {
		*x = wV(num, v)
		return
	}
	f.sub = append(f.sub, wV(num, v))
}

func (d *doc) top(num, k int) *wf { return find(d.f, num, k) }
func (d *doc) delTop(num int) {
	var o []wf
	for _, x := range d.f {
		if x.num != num {
			o = append(o, x)
		}
	}
	d.f = o
}
func (d *doc) addStr(s string) uint64 {
	n := 0
	for _, x := range d.f {
		if x.num == 6 {
			n++
		}
	}
	d.f = append(d.f, wB(6, s))
	return uint64(n)
}
func (d *doc) sample() *wf { return d.top(2, 0) }
func (d *doc) label(k int) *wf {
	if s := d.sample(); s != nil {
		return find(s.sub, 3, k)
	}
	return nil
}
func sub(f *wf, num, k int) *wf {
	if f == nil {
		return nil
	}
	return find(f.sub, num, k)
}

// string table of the base document
// 0:"" 1:"samples" 2:"count" 3:"k" 4:"a" 5:"n" 6:"bytes" 7:"/bin/a" 8:"f" 9:"f.go" 10:"c1"
var baseStrings = []string{"", "samples", "count", "k", "a", "n", "bytes", "/bin/a", "f", "f.go", "c1"}

func baseDoc() *doc {
	d := &doc{f: []wf{
		wM(1, wV(1, 1), wV(2, 2)),
		wM(2, wV(1, 1), wV(1, 2), wV(2, 7), wM(3, wV(1, 3), wV(2, 4)), wM(3, wV(1, 5), wV(3, 8), wV(4, 6))),
		wM(3, wV(1, 1), wV(2, 0x1000), wV(3, 0x2000), wV(5, 7), wV(7, 1)),
		wM(4, wV(1, 1), wV(2, 1), wV(3, 0x1100), wM(4, wV(1, 1), wV(2, 5))),
		wM(4, wV(1, 2), wV(3, 0x1200), wM(4, wV(1, 1), wV(2, 6)), wM(4, wV(1, 1), wV(2, 7), wV(3, 2))),
		wM(5, wV(1, 1), wV(2, 8), wV(3, 8), wV(4, 9), wV(5, 3)),
	}}
	for _, s := range baseStrings {
		d.f = append(d.f, wB(6, s))
	}
	d.f = append(d.f, wV(9, 1), wV(10, 2), wM(11, wV(1, 1), wV(2, 2)), wV(12, 3), wV(13, 10), wV(14, 0))
	return d
}

type wAlt struct {
	Name string
	F    func(*doc)
}

func wireAlts() []wAlt {
	var as []wAlt
	add := func(name string, f func(*doc)) { as = append(as, wAlt{name, f}) }
	addSub := func(f *wf, x wf) {
		if f != nil {
			f.sub = append(f.sub, x)
		}
	}
	// string table
	add("strtab+unused", func(d *doc) { d.addStr("zz") })
	add("strtab+dup-empty", func(d *doc) { d.addStr("") })
	add("strtab+nonutf8-fn-name", func(d *doc) { set(d.top(5, 0), 2, d.addStr("\xff\xfe")) })
	// labels
	add("label.str=dup-empty", func(d *doc) { set(d.label(0), 2, d.addStr("")) })
	add("label.num0.unit=dup-empty", func(d *doc) { i := d.addStr(""); del(d.label(1), 3); set(d.label(1), 4, i) })
	add("label.num.unit=dup-empty", func(d *doc) { set(d.label(1), 4, d.addStr("")) })
	add("label.str+num", func(d *doc) { set(d.label(0), 3, 9) })
	add("label.str+unit", func(d *doc) { set(d.label(0), 4, 6) })
	add("label.key-only", func(d *doc) { addSub(d.sample(), wM(3, wV(1, 3))) })
	add("label.empty-message", func(d *doc) { addSub(d.sample(), wM(3)) })
	add("label.num0+unit", func(d *doc) { del(d.label(1), 3) })
	add("label.num0-nounit", func(d *doc) { del(d.label(1), 3); del(d.label(1), 4) })
	add("label.str=dup-of-used", func(d *doc) { set(d.label(0), 2, d.addStr("a")) })
	add("label.key=dup-of-used", func(d *doc) { set(d.label(0), 1, d.addStr("k")) })
	add("label.no-key", func(d *doc) { del(d.label(0), 1) })
	add("label.second-value", func(d *doc) { addSub(d.sample(), wM(3, wV(1, 3), wV(2, 9))) })
	add("label.num-second-value-no-unit", func(d *doc) { addSub(d.sample(), wM(3, wV(1, 5), wV(3, 4))) })
	add("label.num-first-value-no-unit", func(d *doc) {
		if s := d.sample(); s != nil {
			s.sub = append([]wf{wM(3, wV(1, 5), wV(3, 4))}, s.sub...)
		}
	})
	add("label.num-zero-between", func(d *doc) {
		addSub(d.sample(), wM(3, wV(1, 5)))
		addSub(d.sample(), wM(3, wV(1, 5), wV(3, 2), wV(4, 2)))
	})
	add("label.fields-reversed", func(d *doc) {
		if l := d.label(1); l != nil {
			for i, j := 0, len(l.sub)-1; i < j; i, j = i+1, j-1 {
				l.sub[i], l.sub[j] = l.sub[j], l.sub[i]
			}
		}
	})
	add("label.num-before-str", func(d *doc) {
		if s := d.sample(); s != nil {
			a, b := find(s.sub, 3, 0), find(s.sub, 3, 1)
			if a != nil && b != nil {
				*a, *b = *b, *a
			}
		}
	})
	// repeated scalars
	replace := func(f *wf, num int, x ...wf) {
		if f == nil {
			return
		}
		var o []wf
		done := false
		for _, y := range f.sub {
			if y.num == num {
				if !done {
					o = append(o, x...)
					done = true
				}
				continue
			}
			o = append(o, y)
		}
		if !done {
			o = append(o, x...)
		}
		f.sub = o
	}
	add("values.packed", func(d *doc) { replace(d.sample(), 2, wP(2, 7)) })
	add("values.packed-nonminimal", func(d *doc) { replace(d.sample(), 2, wf{num: 2, wt: 2, raw: []byte{0x87, 0x80, 0x00}}) })
	add("values.negative", func(d *doc) { replace(d.sample(), 2, wV(2, maxU)) })
	add("values.varint-overflow", func(d *doc) {
		replace(d.sample(), 2, wf{num: 2, wt: 0, raw: []byte{0xff, 0xff, 0xff, 0xff, 0xff, 0xff, 0xff, 0xff, 0xff, 0x7f}})
	})
	add("values.packed-empty+unpacked", func(d *doc) { replace(d.sample(), 2, wP(2), wV(2, 7)) })
	add("locs.packed", func(d *doc) { replace(d.sample(), 1, wP(1, 1, 2)) })
	add("locs.mixed", func(d *doc) { replace(d.sample(), 1, wV(1, 2), wP(1, 1, 2), wV(1, 1)) })
	add("locs.none", func(d *doc) { del(d.sample(), 1) })
	add("comments.x3-unpacked", func(d *doc) { d.f = append(d.f, wV(13, 10), wV(13, 4)) })
	add("comments.packed-one", func(d *doc) { d.delTop(13); d.f = append(d.f, wP(13, 10)) })
	add("comments.packed+unpacked", func(d *doc) { d.f = append(d.f, wP(13, 4, 0, 10)) })
	// non-minimal varints
	add("varint.nonminimal.locid", func(d *doc) {
		if x := sub(d.sample(), 1, 0); x != nil {
			x.pad = 1
		}
	})
	add("varint.nonminimal.strindex", func(d *doc) {
		if x := sub(d.label(0), 2, 0); x != nil {
			x.pad = 2
		}
	})
	add("varint.nonminimal.period", func(d *doc) {
		if x := d.top(12, 0); x != nil {
			x.pad = 7
		}
	})
	// unknown fields
	add("unknown.top.varint", func(d *doc) { d.f = append(d.f, wV(16, 5)) })
	add("unknown.top.bytes", func(d *doc) { d.f = append([]wf{wB(17, "xyz")}, d.f...) })
	add("unknown.top.fixed64", func(d *doc) { d.f = append(d.f, wF64(18, 0x0102030405060708)) })
	add("unknown.top.fixed32", func(d *doc) { d.f = append(d.f, wF32(19, 0x01020304)) })
	add("unknown.top.field0", func(d *doc) { d.f = append(d.f, wV(0, 1)) })
	add("unknown.sample", func(d *doc) { addSub(d.sample(), wV(4, 1)) })
	add("unknown.label", func(d *doc) { addSub(d.label(0), wB(5, "q")) })
	add("unknown.mapping", func(d *doc) { addSub(d.top(3, 0), wV(11, 1)) })
	add("unknown.location", func(d *doc) { addSub(d.top(4, 0), wF32(6, 1)) })
	add("unknown.line", func(d *doc) { addSub(sub(d.top(4, 0), 4, 0), wV(4, 1)) })
	add("unknown.function", func(d *doc) { addSub(d.top(5, 0), wV(6, 1)) })
	add("unknown.valuetype", func(d *doc) { addSub(d.top(1, 0), wV(3, 1)) })
	// singular fields
	add("period.twice", func(d *doc) { d.f = append(d.f, wV(12, 9)) })
	add("time.zero-then-set", func(d *doc) { d.f = append([]wf{wV(9, 0)}, d.f...) })
	add("time.twice", func(d *doc) { d.f = append(d.f, wV(9, 5)) }) // rejected: concatenated profiles
	add("bool=2", func(d *doc) { set(d.top(3, 0), 7, 2) })
	add("bool=0-explicit", func(d *doc) { set(d.top(3, 0), 8, 0) })
	add("period_type.twice", func(d *doc) { d.f = append(d.f, wM(11, wV(1, 2))) })
	add("period_type.then-empty", func(d *doc) { d.f = append(d.f, wM(11)) })
	add("period_type.absent", func(d *doc) { d.delTop(11) })
	add("default_sample_type.absent", func(d *doc) { d.delTop(14) })
	add("default_sample_type=1", func(d *doc) { d.delTop(14); d.f = append(d.f, wV(14, 1)) })
	add("function.name-twice", func(d *doc) { addSub(d.top(5, 0), wV(2, 9)) })
	add("header.strings", func(d *doc) { d.f = append(d.f, wV(7, 8), wV(8, 9), wV(15, 10)) })
	add("zero-fields-explicit", func(d *doc) {
		addSub(d.top(4, 1), wV(2, 0))
		addSub(d.top(4, 1), wV(5, 0))
		d.f = append(d.f, wV(7, 0), wV(15, 0))
	})
	// order
	add("order.strings-first", func(d *doc) {
		var a, b []wf
		for _, x := range d.f {
			if x.num == 6 {
				a = append(a, x)
			} else {
				b = append(b, x)
			}
		}
		d.f = append(a, b...)
	})
	add("order.reversed", func(d *doc) {
		var a, b []wf
		for _, x := range d.f {
			if x.num == 6 {
				a = append(a, x)
			} else {
				b = append([]wf{x}, b...)
			}
		}
		d.f = append(b, a...)
	})
	// references and ids
	add("loc.mapping-dangling", func(d *doc) { set(d.top(4, 0), 2, 9) })
	add("mapping.id-sparse", func(d *doc) { set(d.top(3, 0), 1, 7); set(d.top(4, 0), 2, 7) })
	add("mapping.id-huge", func(d *doc) { set(d.top(3, 0), 1, maxU); set(d.top(4, 0), 2, maxU) })
	add("function.id-sparse", func(d *doc) {
		set(d.top(5, 0), 1, 1<<40)
		for i := 0; i < 2; i++ {
			for j := 0; j < 2; j++ {
				if ln := sub(d.top(4, i), 4, j); ln != nil {
					set(ln, 1, 1<<40)
				}
			}
		}
	})
	add("location.id-huge", func(d *doc) {
		set(d.top(4, 1), 1, maxU)
		if x := sub(d.sample(), 1, 1); x != nil {
			x.v = maxU
		}
	})
	add("location.ids-swapped", func(d *doc) { set(d.top(4, 0), 1, 2); set(d.top(4, 1), 1, 1) })
	add("mapping.file=kernel", func(d *doc) { set(d.top(3, 0), 5, d.addStr("[kernel.kallsyms]_stext")) })
	add("mapping.second-after-locations", func(d *doc) { d.f = append(d.f, wM(3, wV(1, 2), wV(2, 0x5000), wV(6, 4))) })
	add("function.second-unused", func(d *doc) { d.f = append(d.f, wM(5, wV(1, 9))) })
	add("location.third-unused", func(d *doc) { d.f = append(d.f, wM(4, wV(1, 3))) })
	add("sample.second-empty", func(d *doc) { d.f = append(d.f, wM(2, wV(2, 0))) })
	add("sample.fields-reversed", func(d *doc) {
		if s := d.sample(); s != nil {
			for i, j := 0, len(s.sub)-1; i < j; i, j = i+1, j-1 {
				s.sub[i], s.sub[j] = s.sub[j], s.sub[i]
			}
		}
	})
	// expected to be rejected (non-vacuity of the accept/reject split)
	add("line.function-dangling", func(d *doc) { set(sub(d.top(4, 0), 4, 0), 1, 9) })
	add("line.no-function", func(d *doc) { del(sub(d.top(4, 0), 4, 0), 1) })
	add("sample.loc-dangling", func(d *doc) { addSub(d.sample(), wV(1, 9)) })
	add("wiretype.fixed64-period", func(d *doc) { d.delTop(12); d.f = append(d.f, wF64(12, 3)) })
	add("strtab0-nonempty", func(d *doc) {
		if x := d.top(6, 0); x != nil {
			x.raw = []byte("x")
		}
	})
	add("string-index-out-of-range", func(d *doc) { set(d.top(5, 0), 3, 99) })
	return as
}

// soupAlphabet is the byte alphabet of the short-string enumeration: field
// tags 1..15 with the wire types in use, small lengths/values, varint
// continuation bytes.
var soupAlphabet = []byte{0x00, 0x01, 0x02, 0x08, 0x0a, 0x10, 0x12, 0x1a, 0x22, 0x2a, 0x32, 0x38, 0x48, 0x5a, 0x6a, 0x70, 0x7a, 0x7f, 0x80, 0xff}

// mutBytes are the replacement / insertion values of the seed mutations.
var mutBytes = []byte{0x00, 0x01, 0x02, 0x03, 0x08, 0x0a, 0x12, 0x1a, 0x22, 0x7f, 0x80, 0xff}

func hexs(b []byte) string {
	if len(b) > 400 {
		return fmt.Sprintf("%x…(%d bytes)", b[:400], len(b))
	}
	return fmt.Sprintf("%x", b)
}
