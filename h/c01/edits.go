package c01

import (
	"bytes"
	"fmt"

	"github.com/google/pprof/profile"
)

// Family E: serialisation must be a function of the profile's content, not of
// what was written or parsed before. A profile object that has already been
// through the codec (written once, returned by the parser, produced by Copy) is
// edited in memory and written again; the bytes must equal those of a freshly
// built profile with the same content (Spec snapshot rebuilt). This is the
// multi-step form of the round-trip property: stale encoder state (cached label,
// string-table or index fields) left behind by an earlier Write/Parse shows up
// here and nowhere else.

type edit struct {
	name string
	f    func(p *profile.Profile)
}

func edits() []edit {
	return []edit{
		{"none", func(p *profile.Profile) {}},
		{"sample0: all labels removed", func(p *profile.Profile) {
			if len(p.Sample) > 0 {
				p.Sample[0].Label, p.Sample[0].NumLabel, p.Sample[0].NumUnit = nil, nil, nil
			}
		}},
		{"every sample: all labels removed", func(p *profile.Profile) {
			for _, s := range p.Sample {
				s.Label, s.NumLabel, s.NumUnit = nil, nil, nil
			}
		}},
		{"string labels removed", func(p *profile.Profile) {
			for _, s := range p.Sample {
				s.Label = nil
			}
		}},
		{"numeric labels removed", func(p *profile.Profile) {
			for _, s := range p.Sample {
				s.NumLabel, s.NumUnit = nil, nil
			}
		}},
		{"units removed", func(p *profile.Profile) {
			for _, s := range p.Sample {
				s.NumUnit = nil
			}
		}},
		{"label replaced", func(p *profile.Profile) {
			if len(p.Sample) > 0 {
				p.Sample[0].Label = map[string][]string{"zz": {"y"}}
			}
		}},
		{"last sample dropped", func(p *profile.Profile) {
			if len(p.Sample) > 0 {
				p.Sample = p.Sample[:len(p.Sample)-1]
			}
		}},
		{"sample0: stack emptied", func(p *profile.Profile) {
			if len(p.Sample) > 0 {
				p.Sample[0].Location = nil
			}
		}},
		{"comments dropped", func(p *profile.Profile) { p.Comments = nil }},
		{"comment added", func(p *profile.Profile) { p.Comments = append(p.Comments, "added") }},
		{"period type cleared", func(p *profile.Profile) { p.PeriodType = nil }},
		{"drop/keep frames and default type cleared", func(p *profile.Profile) {
			p.DropFrames, p.KeepFrames, p.DefaultSampleType, p.DocURL = "", "", "", ""
		}},
		{"function renamed", func(p *profile.Profile) {
			if len(p.Function) > 0 {
				p.Function[0].Name, p.Function[0].SystemName, p.Function[0].Filename = "renamed", "", ""
			}
		}},
		{"location0: lines removed", func(p *profile.Profile) {
			if len(p.Location) > 0 {
				p.Location[0].Line = nil
			}
		}},
		{"location0: mapping removed", func(p *profile.Profile) {
			if len(p.Location) > 0 {
				p.Location[0].Mapping = nil
			}
		}},
		{"mapping0: names cleared", func(p *profile.Profile) {
			if len(p.Mapping) > 0 {
				p.Mapping[0].File, p.Mapping[0].BuildID = "", ""
			}
		}},
		{"sample type renamed", func(p *profile.Profile) {
			if len(p.SampleType) > 0 {
				p.SampleType[0].Type, p.SampleType[0].Unit = "renamed", ""
			}
		}},
	}
}

// priors puts a profile object through the codec before the edit.
func priors() []struct {
	name string
	f    func(p *profile.Profile) *profile.Profile
} {
	return []struct {
		name string
		f    func(p *profile.Profile) *profile.Profile
	}{
		{"written once", func(p *profile.Profile) *profile.Profile { writeU(p); return p }},
		{"written compressed once", func(p *profile.Profile) *profile.Profile {
			var b bytes.Buffer
			p.Write(&b)
			return p
		}},
		{"returned by the parser", func(p *profile.Profile) *profile.Profile {
			b, _ := writeU(p)
			q, err := profile.ParseData(b)
			if err != nil {
				return nil
			}
			return q
		}},
		{"produced by Copy", func(p *profile.Profile) *profile.Profile { return p.Copy() }},
		{"String() called", func(p *profile.Profile) *profile.Profile { _ = p.String(); return p }},
	}
}

func (k *checker) edits(mine func() bool, expired func(string) bool) {
	c := k.c
	dims := Dims()
	eds, prs := edits(), priors()
	c.Note(fmt.Sprintf("E: base profile and every single field deviation x %d codec histories x %d in-memory edits, rewritten and compared with a freshly built profile of the same content", len(prs), len(eds)))
	k.fam = "edit-after-codec"
	one := func(sel ...[2]int) {
		base := Base()
		var dev []string
		for _, x := range sel {
			d := dims[x[0]]
			d.Alts[x[1]].F(base)
			dev = append(dev, d.Name+"="+d.Alts[x[1]].Name)
		}
		if !base.Valid() {
			return
		}
		for _, pr := range prs {
			for _, ed := range eds {
				c.Eval()
				k.dev = append(append([]string(nil), dev...), "history="+pr.name, "edit="+ed.name)
				var p *profile.Profile
				var got, want []byte
				var s1 *Spec
				ok := k.guard("edit-after-codec", base, func() {
					p = pr.f(base.Build())
					if p == nil {
						return
					}
					ed.f(p)
					if p.CheckValid() != nil {
						p = nil
						return
					}
					s1 = Snapshot(p)
					got, _ = writeU(p)
					want, _ = writeU(s1.Build())
				})
				if !ok || p == nil {
					continue
				}
				c.Count("edit-after-codec/cases", 1)
				if !bytes.Equal(got, want) {
					cls := "stale-codec-state/" + classOfEdit(ed.name)
					q1, e1 := profile.ParseData(got)
					detail := fmt.Sprintf("bytes written after the edit differ from those of a freshly built profile with the same content (%d vs %d bytes)", len(got), len(want))
					if e1 != nil {
						detail += "; the written bytes do not even parse: " + e1.Error()
					} else {
						cat, d := Diff(Snapshot(q1).Normalize(), s1.Normalize())
						detail += "; parsed back: " + cat + " " + d
					}
					k.fail(cls, s1, "%s", detail)
				}
				if ed.name != "none" {
					c.Nontrivial("E|" + fmt.Sprint(k.dev))
				}
			}
		}
	}
	if mine() {
		one()
	}
	for i := range dims {
		for a := range dims[i].Alts {
			if mine() {
				one([2]int{i, a})
			}
		}
		if expired("E") {
			return
		}
	}
}

func classOfEdit(n string) string {
	switch {
	case n == "none":
		return "no-edit"
	case len(n) > 0:
		for i, r := range n {
			if r == ':' {
				return n[:i]
			}
		}
	}
	return n
}
