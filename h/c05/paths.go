package c05

import (
	"fmt"

	"github.com/google/pprof/verifh/ap"
	"github.com/google/pprof/verifh/drive"
	"github.com/google/pprof/verifh/enum"
	"github.com/google/pprof/verifh/parse"
	"github.com/google/pprof/verifh/vk"
)

// pathFamily: trimming combined with trim_path / source_path. File names from a
// small path alphabet; for every (path, option) the trimmed report at
// granularity lines must show as many entries as nodecount allows and account
// for their flats - rewriting file names must not make entries vanish.
func pathFamily(c *vk.Ctx) {
	files := []string{"/a/b.go", "/a//a/b.go", "/a/a/b.go", "/r/proj/src/proj/f.c", "/x/proj/f.c", "/proc/self/cwd/a/b.go", "b.go", "/a/c/../b.go"}
	opts := [][]string{{}, {"trim_path=/a"}, {"trim_path=/a:/r"}, {"source_path=/x/proj"}, {"source_path=/q/a"}, {"trim_path=/a", "source_path=/x/proj"}}
	for _, f1 := range files {
		for _, f2 := range files {
			a := &ap.AP{Types: []ap.VT{{Type: "n", Unit: "count"}}, Maps: enum.Maps2, Period: 1}
			a.Stacks = []ap.Stack{
				{Locs: []ap.Loc{{Addr: 0x1010, Map: 0, Lines: []ap.Line{{Func: "f", File: f1, Line: 3}}}}, Values: []int64{5}},
				{Locs: []ap.Loc{{Addr: 0x1020, Map: 0, Lines: []ap.Line{{Func: "g", File: f2, Line: 4}}}}, Values: []int64{3}},
			}
			data := map[string][]byte{"p": drive.Encode(ap.Concretize(a, ap.Opts{}))}
			for _, o := range opts {
				for _, nc := range []int{0, 1, 2} {
					for _, out := range []string{"top", "tree"} {
						c.Eval()
						flags := append([]string{out, "lines", "nodecount=" + fmt.Sprint(nc)}, o...)
						r := drive.Report(data, []string{"p"}, flags...)
						w := witness{Stacks: []string{f1, f2}, Flags: flags}
						if r.Panic != nil || r.Err != nil {
							c.Violationf("paths/error", w, "%v %v", r.Panic, r.Err)
							continue
						}
						var n int
						var sum int64
						if out == "top" {
							_, rows, ok := parse.Top(r.Out)
							if !ok {
								c.Count("unparsed/top", 1)
								continue
							}
							n = len(rows)
							for _, x := range rows {
								sum += x.Flat
							}
						} else {
							_, nodes, ok := parse.Tree(r.Out)
							if !ok {
								c.Count("unparsed/tree", 1)
								continue
							}
							n = len(nodes)
							for _, x := range nodes {
								sum += x.Row.Flat
							}
						}
						want, wantSum := 2, int64(8)
						if nc == 1 {
							want, wantSum = 1, 5
						}
						if n != want || sum != wantSum {
							c.Violationf("paths/entries-vanish", w, "%d entries with flat sum %d shown, expected %d / %d\n%s", n, sum, want, wantSum, r.Out)
						}
						c.Nontrivial("paths|" + f1 + "|" + f2 + fmt.Sprint(flags))
					}
				}
			}
		}
	}
}
