package c05

import (
	"fmt"
	"sort"
	"strconv"
	"strings"

	"github.com/google/pprof/verifh/ap"
	"github.com/google/pprof/verifh/drive"
	"github.com/google/pprof/verifh/enum"
	"github.com/google/pprof/verifh/model"
	"github.com/google/pprof/verifh/parse"
	"github.com/google/pprof/verifh/vk"
)

// meanFamily: trimming under the mean option. Profiles with a count column and
// a value column (pairs of 2-frame stacks over a1 b c, counts above 1), report
// `top mean sample_index=1` at every nodefraction cut. The cutoff is taken on
// the sums (|sum of cum| against int64(sum of flats x nodefraction)) while the
// numbers shown are the means; every shown entry carries its untrimmed mean
// values and the set shown is exactly the set at or above the cutoff.
func meanFamily(c *vk.Ctx, idx *int64) {
	sig := []enum.Kind{enum.Sigma6[0], enum.Sigma6[2], enum.Sigma6[3]}
	var shapes []enum.Shape
	for _, s := range enum.Shapes(sig, 2) {
		n := 0
		for _, g := range s {
			n += len(g)
		}
		if n == 2 {
			shapes = append(shapes, s)
		}
	}
	vals := [][2][]int64{{{2, 100}, {5, 10}}, {{50, 100000}, {4, 400}}, {{3, 9}, {3, 9}}}
	for i := range shapes {
		for j := i; j < len(shapes); j++ {
			for vi, vp := range vals {
				if !c.Mine(*idx) {
					*idx++
					continue
				}
				*idx++
				a := &ap.AP{Types: []ap.VT{{Type: "n", Unit: "count"}, {Type: "v", Unit: "count"}}, Maps: enum.Maps2, PeriodType: &ap.VT{Type: "n", Unit: "count"}, Period: 1}
				a.Stacks = []ap.Stack{shapes[i].Stack(sig, vp[0]), shapes[j].Stack(sig, vp[1])}
				data := map[string][]byte{"p": drive.Encode(ap.Concretize(a, ap.Opts{}))}
				w := witness{Stacks: []string{shapes[i].Tag(sig), shapes[j].Tag(sig)}, Values: append(append([]int64{}, vp[0]...), vp[1]...)}
				raw := model.Report(a, model.Cfg{Gran: "functions", SI: 1})
				mean := model.Report(a, model.Cfg{Gran: "functions", SI: 1, Mean: true})
				var total int64
				cums := map[int64]bool{}
				for _, e := range raw.Entries {
					total += e.Flat
					cums[abs(e.Cum)] = true
				}
				if total <= 0 {
					continue
				}
				nfs := []string{"0.005"}
				for v := range cums {
					for _, num := range []float64{float64(v) - 0.5, float64(v) + 0.5} {
						if num > 0 {
							nfs = append(nfs, strconv.FormatFloat(num/float64(total), 'f', 9, 64))
						}
					}
				}
				sort.Strings(nfs)
				for _, nf := range nfs {
					f, _ := strconv.ParseFloat(nf, 64)
					cutoff := abs(int64(float64(total) * f))
					flags := []string{"top", "functions", "mean", "sample_index=1", "nodecount=0", "edgefraction=0", "nodefraction=" + nf}
					w.Flags = flags
					c.Eval()
					r := drive.Report(data, []string{"p"}, flags...)
					if r.Panic != nil || r.Err != nil {
						c.Violationf("error/top+mean", w, "%v %v", r.Err, r.Panic)
						continue
					}
					_, rows, ok := parse.Top(r.Out)
					if !ok {
						c.Count("unparsed/top", 1)
						continue
					}
					// expected: the mean rows of the entries whose summed |cum| reaches the cutoff
					want := map[model.Row]int{}
					n := 0
					for k, e := range raw.Entries {
						if abs(e.Cum) >= cutoff {
							me := mean.Entries[k]
							want[model.Row{Name: k.Printable(), Flat: me.FlatValue(), Cum: me.CumValue()}]++
							n++
						}
					}
					bad := len(rows) != n
					for _, x := range rows {
						if want[x] == 0 {
							bad = true
						}
						want[x]--
					}
					if bad {
						c.Violationf("top+mean/removed-set-or-numbers", w, "cutoff %d on the sums (total %d): expected the mean rows of %d entries, got %v\n%s", cutoff, total, n, rows, r.Out)
					}
					c.Count("family/mean", 1)
					if n < len(raw.Entries) {
						c.Nontrivial("mean|" + strings.Join(w.Stacks, ";") + fmt.Sprint(vi) + nf)
					}
				}
			}
		}
	}
}
