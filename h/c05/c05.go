// Package c05: trimming hides entries but never changes the numbers of those shown.
//
// Profiles of C04's shape space (2-3 samples, non-negative and mixed-sign value
// vectors) x every cut: nodecount 1..n, nodefraction and edgefraction placed just
// below and just above every distinct cum value / edge weight present (so every
// cut between two distinct values is taken, including "removes everything") x
// sort {flat, cum} x granularity {functions, lines} x output {top, tree, dot,
// dot+call_tree}. Oracle per report: (1) every shown entry carries the (flat,
// cum) of the untrimmed reference; (2) the legend's "accounting for" figure is
// the sum of the flats shown; (3) every edge shown connects shown entries and
// carries the weight of the reference computed with the hidden frames deleted
// from every sample (once per sample); in dot it is dotted (residual) iff some
// contributing sample had hidden frames between its endpoints; (4) for text
// reports the entries removed are exactly those with |cum| below the cutoff or
// outside the top N by the magnitude of the sort key (ties either way), also
// when some entries are negative (a difference against a base).
// Plus a path family for trim_path / source_path (entries must not vanish).
package c05

import (
	"fmt"
	"reflect"
	"sort"
	"strconv"
	"strings"

	"github.com/google/pprof/verifh/ap"
	"github.com/google/pprof/verifh/drive"
	"github.com/google/pprof/verifh/enum"
	"github.com/google/pprof/verifh/model"
	"github.com/google/pprof/verifh/parse"
	"github.com/google/pprof/verifh/reg"
	"github.com/google/pprof/verifh/vk"
)

func init() { reg.Register("C05", Run) }

// value vectors per sample position (single sample type "count")
var valueSets = [][]int64{
	{5, 3, 1},  // distinct, non-negative
	{2, 2, 2},  // ties
	{5, -3, 1}, // mixed signs
}

type witness struct {
	Stacks []string `json:"stacks"`
	Values []int64  `json:"values"`
	Flags  []string `json:"flags"`
}

func build(sigma []enum.Kind, shapes []enum.Shape, vals []int64) *ap.AP {
	a := &ap.AP{Types: []ap.VT{{Type: "n", Unit: "count"}}, Maps: enum.Maps2, PeriodType: &ap.VT{Type: "n", Unit: "count"}, Period: 1}
	for i, sh := range shapes {
		st := sh.Stack(sigma, []int64{vals[i]})
		if i == 0 {
			st.Labels = map[string][]string{"k": {"x"}}
		}
		a.Stacks = append(a.Stacks, st)
	}
	return a
}

// Run is the check.
func Run(c *vk.Ctx) {
	// a1 a2 b a0: functions merges a1/a2/a0, lines splits them; a0 is function a at an
	// unknown line (line 0), whose entry coincides with the function-level entry of a
	a0 := enum.Kind{Line: ap.Line{Func: "a", Sys: "a_sys", File: "f1.go", Start: 1, Line: 0}, Map: 0, Tag: "a0"}
	sigma := []enum.Kind{enum.Sigma6[0], enum.Sigma6[1], enum.Sigma6[2], a0}
	if c.Shard == 0 {
		pathFamily(c)
	}
	frames := func(s enum.Shape) int {
		n := 0
		for _, g := range s {
			n += len(g)
		}
		return n
	}
	family := func(sig []enum.Kind) []enum.Shape {
		var out []enum.Shape
		for _, s := range enum.Shapes(sig, 3) {
			if frames(s) >= 2 {
				out = append(out, s)
			}
		}
		return out
	}
	// Family X: all four kinds. quick: unordered pairs of 2-frame stacks; thorough: (2-frame, 2..3-frame) pairs.
	// Family Y (quick only; contained in X in the thorough tier): kinds a1 a2 b, a 2-frame stack paired with any
	// 2..3-frame stack, value sets "distinct" and "mixed signs".
	shapesX := family(sigma)
	shapesY := family(sigma[:3])
	c.Note(fmt.Sprintf("stack shapes with 2..3 frames, all inline groupings: %d over 4 kinds (a1 a2 b a0), %d over 3 kinds; quick: pairs of 2-frame stacks over 4 kinds x %d value sets + (2-frame, 2..3-frame) pairs over 3 kinds x 2 value sets; thorough: all pairs over 4 kinds in which one stack has 2 frames x %d value sets; cuts: nodecount 1..n, nodefraction/edgefraction just below/above every distinct cum/edge weight; sort flat|cum; granularity functions|lines; outputs top, tree, dot, dot+call_tree; plus the trim_path/source_path family", len(shapesX), len(shapesY), len(valueSets), len(valueSets)))
	var idx int64
	run := func(sig []enum.Kind, shapes []enum.Shape, firstTwo, secondTwo bool, vsets []int) bool {
		for i := range shapes {
			if firstTwo && frames(shapes[i]) != 2 {
				continue
			}
			for j := range shapes {
				if secondTwo && frames(shapes[j]) != 2 {
					continue
				}
				if j < i && (!firstTwo || frames(shapes[j]) == 2) {
					continue // unordered pairs
				}
				for _, vi := range vsets {
					if c.Mine(idx) {
						if c.Expired() {
							c.Cap(fmt.Sprintf("time budget: stopped at profile index %d", idx))
							return false
						}
						checkProfile(c, sig, []enum.Shape{shapes[i], shapes[j]}, valueSets[vi], vi)
					}
					idx++
				}
			}
		}
		return true
	}
	meanFamily(c, &idx)
	// Family D ("diamonds"): two plain 3-frame stacks with the same root and leaf, [x y z] and [x w z] over
	// a1 a2 b c - the smallest profiles in which a residual edge x->z (y or w hidden) coexists with another
	// path from x to z, which is what RemoveRedundantEdges acts on.
	sigD := []enum.Kind{enum.Sigma6[0], enum.Sigma6[1], enum.Sigma6[2], enum.Sigma6[3]}
	for x := range sigD {
		for y := range sigD {
			for w := y; w < len(sigD); w++ {
				for z := range sigD {
					for _, vi := range []int{0, 2} {
						if c.Mine(idx) {
							checkProfile(c, sigD, []enum.Shape{{{x}, {y}, {z}}, {{x}, {w}, {z}}}, valueSets[vi], vi)
							c.Count("family/diamond", 1)
						}
						idx++
					}
				}
			}
		}
	}
	if c.Thorough() {
		// all unordered pairs in which at least one stack has 2 frames (total frames <= 5)
		run(sigma, shapesX, true, false, []int{0, 1, 2})
		return
	}
	if !run(sigma, shapesX, true, true, []int{0, 1, 2}) {
		return
	}
	run(sigma[:3], shapesY, true, false, []int{0, 2})
}

func checkProfile(c *vk.Ctx, sigma []enum.Kind, shs []enum.Shape, vals []int64, vi int) {
	a := build(sigma, shs, vals)
	p := ap.Concretize(a, ap.Opts{})
	data := map[string][]byte{"p": drive.Encode(p)}
	w := witness{Values: vals[:len(shs)]}
	for _, s := range shs {
		w.Stacks = append(w.Stacks, s.Tag(sigma))
	}
	nonneg := vi != 2
	for _, gran := range []string{"functions", "lines"} {
		cfg := model.Cfg{Gran: gran}
		ref := model.Report(a, cfg)
		if len(ref.Entries) < 2 {
			continue
		}
		var total int64
		for _, e := range ref.Entries {
			total += e.Flat
		}
		// cut points
		cums := map[int64]bool{}
		for _, e := range ref.Entries {
			cums[abs(e.Cum)] = true
		}
		ews := map[int64]bool{}
		for _, e := range ref.Edges {
			ews[abs(e.Weight)] = true
		}
		fractions := func(vals map[int64]bool) []string {
			out := []string{"0"}
			if total == 0 {
				return out
			}
			at := abs(total)
			var maxv int64
			for v := range vals {
				if v > maxv {
					maxv = v
				}
			}
			for v := range vals {
				// the cutoff is int64(total x fraction): v-0.5 keeps everything from v-1 up, v+0.5 everything
				// from v up; max+1.5 is the cut that removes everything
				nums := []float64{float64(v) - 0.5, float64(v) + 0.5}
				if v == maxv {
					nums = append(nums, float64(v)+1.5)
				}
				for _, num := range nums {
					if num > 0 {
						out = append(out, strconv.FormatFloat(num/float64(at), 'f', 9, 64))
					}
				}
			}
			sort.Strings(out)
			return out
		}
		nfs, efs := fractions(cums), fractions(ews)
		n := len(ref.Entries)
		for _, srt := range []string{"flat", "cum"} {
			for nc := 0; nc <= n; nc++ {
				for _, nf := range nfs {
					// edgefraction: only combined with the untrimmed node set and with one node cut, to bound the product
					efl := []string{"0"}
					if nf == "0" || nc == 0 {
						efl = efs
					}
					for _, ef := range efl {
						if nc == 0 && nf == "0" && ef == "0" {
							continue // untrimmed: C04
						}
						flags := []string{gran, srt, "nodecount=" + fmt.Sprint(nc), "nodefraction=" + nf, "edgefraction=" + ef}
						w.Flags = flags
						one(c, w, a, cfg, ref, data, flags, "top", nonneg, total, nc, nf)
						one(c, w, a, cfg, ref, data, flags, "tree", nonneg, total, nc, nf)
						one(c, w, a, cfg, ref, data, flags, "dot", nonneg, total, nc, nf)
						if srt == "flat" {
							one(c, w, a, cfg, ref, data, append(flags, "call_tree"), "dot", nonneg, total, nc, nf)
						}
					}
				}
			}
		}
	}
	if c.WantSample() {
		c.Sample(w)
	}
}

func abs(v int64) int64 {
	if v < 0 {
		return -v
	}
	return v
}

// keptReference computes entries and edges of the report restricted to the kept
// names: hidden frames are deleted from every sample before edges are counted.
func keptReference(a *ap.AP, cfg model.Cfg, kept map[string]bool) (edges map[[2]string]int64, residual map[[2]string]bool) {
	edges = map[[2]string]int64{}
	residual = map[[2]string]bool{}
	for si := range a.Stacks {
		s := &a.Stacks[si]
		w := s.Values[cfg.SI]
		if w == 0 {
			continue
		}
		frames := model.StackFrames(a, s, cfg)
		seen := map[[2]string]bool{}
		prev := ""
		gap := false
		for _, f := range frames {
			name := model.KeyOf(f, cfg).Printable()
			if !kept[name] {
				gap = true
				continue
			}
			if prev != "" && prev != name {
				k := [2]string{prev, name}
				if !seen[k] {
					seen[k] = true
					edges[k] += w
					if gap {
						residual[k] = true
					}
				}
			}
			prev = name
			gap = false
		}
	}
	return
}

func one(c *vk.Ctx, w witness, a *ap.AP, cfg model.Cfg, ref *model.Rep, data map[string][]byte, flags []string, out string, nonneg bool, total int64, nc int, nf string) {
	c.Eval()
	callTree := false
	for _, f := range flags {
		if f == "call_tree" {
			callTree = true
		}
	}
	r := drive.Report(data, []string{"p"}, append([]string{out}, flags...)...)
	cls := out
	if callTree {
		cls += "+call_tree"
	}
	w.Flags = append([]string{out}, flags...)
	if r.Panic != nil {
		c.Violationf("panic/"+cls, w, "%v\n%s", r.Panic, r.Stack)
		return
	}
	if r.Err != nil {
		c.Violationf("error/"+cls, w, "%v", r.Err)
		return
	}
	var rows []model.Row
	var legend []string
	var edges []model.ERow
	var resid map[int]bool
	switch out {
	case "top":
		l, rs, ok := parse.Top(r.Out)
		if !ok {
			c.Count("unparsed/top", 1)
			return
		}
		legend, rows = l, rs
	case "tree":
		l, nodes, ok := parse.Tree(r.Out)
		if !ok {
			c.Count("unparsed/tree", 1)
			return
		}
		legend = l
		for _, n := range nodes {
			rows = append(rows, n.Row)
			edges = append(edges, n.Out...)
			// incoming lists must mirror outgoing lists; checked through the out side of the caller
		}
	case "dot":
		g, ok := parse.Dot(r.Out)
		if !ok {
			c.Count("unparsed/dot", 1)
			return
		}
		if g.Dangling > 0 {
			c.Violationf(cls+"/edge-to-removed-entry", w, "%d edges refer to nodes that are not declared\n%s", g.Dangling, r.Out)
		}
		rows, edges, resid = g.Rows, g.Edges, g.Residual
		legend = dotLegend(r.Out)
	}
	cfg2 := cfg
	cfg2.CallTree = callTree
	ref2 := ref
	if callTree {
		ref2 = model.Report(a, cfg2)
	}
	// (1) shown entries carry the untrimmed numbers
	want := map[model.Row]int{}
	names := map[string]int{}
	for _, x := range ref2.Rows() {
		want[x]++
		names[x.Name]++
	}
	var flatSum int64
	kept := map[string]bool{}
	for _, x := range rows {
		flatSum += x.Flat
		kept[x.Name] = true
		if want[x] == 0 {
			c.Violationf(cls+"/entry-numbers-changed", w, "shown entry %v is not an entry of the untrimmed report %v\n%s", x, ref2.Rows(), r.Out)
			return
		}
		want[x]--
	}
	// (2) accounting-for figure
	if acc, ok := accountingFor(legend); ok && acc != flatSum {
		c.Violationf(cls+"/accounting-for", w, "legend says %d, shown flats sum to %d\n%s", acc, flatSum, r.Out)
	}
	if len(rows) < len(ref2.Entries) {
		c.Nontrivial(strings.Join(w.Stacks, ";") + fmt.Sprint(w.Values) + strings.Join(w.Flags, ","))
	}
	// (3) edges (graph mode; printable names unique)
	if !callTree {
		unique := true
		for _, n := range ref.AllNames {
			_ = n
		}
		cnt := map[string]int{}
		for _, n := range ref.AllNames {
			cnt[n]++
			if cnt[n] > 1 {
				unique = false
			}
		}
		if unique {
			wantE, wantRes := keptReference(a, cfg, kept)
			for i, e := range edges {
				if !kept[e.Src] || !kept[e.Dst] {
					c.Violationf(cls+"/edge-to-removed-entry", w, "edge %v has an endpoint that is not shown\n%s", e, r.Out)
					continue
				}
				k := [2]string{e.Src, e.Dst}
				if we, ok := wantE[k]; !ok || we != e.W {
					c.Violationf(cls+"/edge-weight", w, "edge %v: weight with hidden frames deleted is %d (present=%v)\n%s", e, we, ok, r.Out)
					continue
				}
				if out == "dot" && resid[i] != wantRes[k] {
					c.Violationf(cls+"/residual-marking", w, "edge %v residual=%v, reference %v\n%s", e, resid[i], wantRes[k], r.Out)
				}
			}
		}
	}
	// (4) removed set of text reports on non-negative profiles
	if (out == "top" || out == "tree") && !callTree {
		f, _ := strconv.ParseFloat(nf, 64)
		cutoff := abs(int64(float64(total) * f))
		key := func(x model.Row) int64 {
			for _, fl := range flags {
				if fl == "cum" {
					return abs(x.Cum)
				}
			}
			return abs(x.Flat)
		}
		var eligible []model.Row
		for _, x := range ref.Rows() {
			if abs(x.Cum) >= cutoff {
				eligible = append(eligible, x)
			}
		}
		wantN := len(eligible)
		if nc > 0 && nc < wantN {
			wantN = nc
		}
		if len(rows) != wantN {
			c.Violationf(cls+"/removed-set/count", w, "%d entries shown, expected %d (cutoff %d, nodecount %d, eligible %v)\n%s", len(rows), wantN, cutoff, nc, eligible, r.Out)
			return
		}
		shown := map[model.Row]int{}
		minShown := int64(1) << 62
		for _, x := range rows {
			shown[x]++
			if abs(x.Cum) < cutoff {
				c.Violationf(cls+"/removed-set/below-cutoff-shown", w, "entry %v shown although |cum| < cutoff %d", x, cutoff)
			}
			if key(x) < minShown {
				minShown = key(x)
			}
		}
		for _, x := range eligible {
			if shown[x] > 0 {
				shown[x]--
				continue
			}
			if key(x) > minShown {
				c.Violationf(cls+"/removed-set/not-top-n", w, "hidden entry %v ranks above a shown entry (min shown key %d)\n%s", x, minShown, r.Out)
			}
		}
	}
	_ = reflect.DeepEqual
}

func accountingFor(legend []string) (int64, bool) {
	for _, l := range legend {
		const p = "Showing nodes accounting for "
		if i := strings.Index(l, p); i >= 0 {
			rest := l[i+len(p):]
			if j := strings.IndexByte(rest, ','); j >= 0 {
				v, err := strconv.ParseInt(strings.TrimSpace(rest[:j]), 10, 64)
				return v, err == nil
			}
		}
	}
	return 0, false
}

// dotLegend extracts the legend lines of a dot report (joined with \l).
func dotLegend(b []byte) []string {
	s := string(b)
	i := strings.Index(s, `label="`)
	if i < 0 {
		return nil
	}
	s = s[i+7:]
	if j := strings.Index(s, `\l"`); j >= 0 {
		s = s[:j]
	}
	return strings.Split(s, `\l`)
}
