package c18

import (
	"strings"
)

// A small HTML tokenizer (after the tokenization rules of the HTML standard,
// restricted to what is needed to tell *where* a byte of a page sits) and a
// lexer for the string literals of a <script> element. Together they assign a
// context to every byte; the taint check asks in which context a planted
// marker ended up and whether the marker stays inside one data-carrying token.

type hctx uint8

const (
	hText     hctx = iota // character data between tags
	hRCData               // contents of <title> / <textarea>
	hTag                  // inside a tag, outside attribute values (names, '=', spaces)
	hAttrDQ               // attribute value in double quotes
	hAttrSQ               // attribute value in single quotes
	hAttrUQ               // unquoted attribute value
	hComment              // <!-- --> and <!doctype>
	hScript               // script code outside string literals
	hScriptDQ             // JavaScript string literal "…"
	hScriptSQ             // JavaScript string literal '…'
	hScriptTL             // JavaScript template literal `…`
	hScriptCm             // JavaScript comment
	hStyle                // contents of <style>
)

var hctxName = map[hctx]string{hText: "text", hRCData: "rcdata", hTag: "tag", hAttrDQ: "attr-dq", hAttrSQ: "attr-sq", hAttrUQ: "attr-unquoted",
	hComment: "comment", hScript: "script-code", hScriptDQ: "script-string", hScriptSQ: "script-string", hScriptTL: "script-template", hScriptCm: "script-comment", hStyle: "style"}

// htmlMap is the result of tokenizing: a context and a token number per byte.
// Two bytes belong to the same token iff their token numbers are equal.
type htmlMap struct {
	Ctx []hctx
	Tok []int32
}

func isSpaceHTML(c byte) bool { return c == ' ' || c == '\t' || c == '\n' || c == '\r' || c == '\f' }
func isLetter(c byte) bool    { return c >= 'a' && c <= 'z' || c >= 'A' && c <= 'Z' }

func hasPrefixFold(b []byte, i int, s string) bool {
	if i+len(s) > len(b) {
		return false
	}
	return strings.EqualFold(string(b[i:i+len(s)]), s)
}

// tokenizeHTML assigns contexts.
func tokenizeHTML(b []byte) *htmlMap {
	n := len(b)
	m := &htmlMap{Ctx: make([]hctx, n), Tok: make([]int32, n)}
	tok := int32(0)
	set := func(from, to int, c hctx) {
		for k := from; k < to && k < n; k++ {
			m.Ctx[k], m.Tok[k] = c, tok
		}
	}
	i := 0
	for i < n {
		if b[i] != '<' {
			// text up to the next tag opener
			j := i
			for j < n && !(b[j] == '<' && j+1 < n && (isLetter(b[j+1]) || b[j+1] == '/' || b[j+1] == '!' || b[j+1] == '?')) {
				j++
			}
			tok++
			set(i, j, hText)
			i = j
			continue
		}
		if i+1 >= n || !(isLetter(b[i+1]) || b[i+1] == '/' || b[i+1] == '!' || b[i+1] == '?') {
			tok++
			set(i, i+1, hText) // a lone '<' is text
			i++
			continue
		}
		// comment / doctype / bogus comment
		if b[i+1] == '!' || b[i+1] == '?' {
			j := i
			if hasPrefixFold(b, i, "<!--") {
				k := strings.Index(string(b[i+4:]), "-->")
				if k < 0 {
					j = n
				} else {
					j = i + 4 + k + 3
				}
			} else {
				for j < n && b[j] != '>' {
					j++
				}
				if j < n {
					j++
				}
			}
			tok++
			set(i, j, hComment)
			i = j
			continue
		}
		// a tag
		j := i + 1
		closing := false
		if b[j] == '/' {
			closing = true
			j++
		}
		ns := j
		for j < n && !isSpaceHTML(b[j]) && b[j] != '>' && b[j] != '/' {
			j++
		}
		name := strings.ToLower(string(b[ns:j]))
		tok++
		tagTok := tok
		set(i, j, hTag)
		// attributes
		for j < n && b[j] != '>' {
			if isSpaceHTML(b[j]) || b[j] == '/' {
				m.Ctx[j], m.Tok[j] = hTag, tagTok
				j++
				continue
			}
			// attribute name
			for j < n && !isSpaceHTML(b[j]) && b[j] != '=' && b[j] != '>' && b[j] != '/' {
				m.Ctx[j], m.Tok[j] = hTag, tagTok
				j++
			}
			for j < n && isSpaceHTML(b[j]) {
				m.Ctx[j], m.Tok[j] = hTag, tagTok
				j++
			}
			if j < n && b[j] == '=' {
				m.Ctx[j], m.Tok[j] = hTag, tagTok
				j++
				for j < n && isSpaceHTML(b[j]) {
					m.Ctx[j], m.Tok[j] = hTag, tagTok
					j++
				}
				if j < n && (b[j] == '"' || b[j] == '\'') {
					q := b[j]
					c := hAttrDQ
					if q == '\'' {
						c = hAttrSQ
					}
					m.Ctx[j], m.Tok[j] = hTag, tagTok
					j++
					tok++
					for j < n && b[j] != q {
						m.Ctx[j], m.Tok[j] = c, tok
						j++
					}
					if j < n {
						m.Ctx[j], m.Tok[j] = hTag, tagTok
						j++
					}
				} else {
					tok++
					for j < n && !isSpaceHTML(b[j]) && b[j] != '>' {
						m.Ctx[j], m.Tok[j] = hAttrUQ, tok
						j++
					}
				}
			}
		}
		if j < n {
			m.Ctx[j], m.Tok[j] = hTag, tagTok
			j++
		}
		i = j
		if closing {
			continue
		}
		// raw text and RCDATA elements
		switch name {
		case "script", "style", "title", "textarea":
			end := n
			for k := i; k < n; k++ {
				if b[k] == '<' && k+1 < n && b[k+1] == '/' && hasPrefixFold(b, k+2, name) {
					e := k + 2 + len(name)
					if e >= n || isSpaceHTML(b[e]) || b[e] == '>' || b[e] == '/' {
						end = k
						break
					}
				}
			}
			switch name {
			case "script":
				tok = lexScript(b, i, end, m, tok)
			case "style":
				tok++
				set(i, end, hStyle)
			default:
				tok++
				set(i, end, hRCData)
			}
			i = end
		}
	}
	return m
}

// lexScript assigns contexts inside a script element: string literals, template
// literals, comments, code. A '/' that starts neither kind of comment is taken
// as an operator (the pages of pprof that carry data hold no regular-expression
// literals next to it; a page whose script cannot be lexed consistently is
// reported as unreadable by the caller, never as a violation).
func lexScript(b []byte, from, to int, m *htmlMap, tok int32) int32 {
	i := from
	tok++
	codeTok := tok
	for i < to {
		c := b[i]
		switch {
		case c == '"' || c == '\'' || c == '`':
			ctx := hScriptDQ
			if c == '\'' {
				ctx = hScriptSQ
			} else if c == '`' {
				ctx = hScriptTL
			}
			m.Ctx[i], m.Tok[i] = hScript, codeTok
			i++
			tok++
			for i < to && b[i] != c {
				if b[i] == '\n' && c != '`' {
					break // an unescaped line end terminates (breaks) a string literal
				}
				if b[i] == '\\' && i+1 < to {
					m.Ctx[i], m.Tok[i] = ctx, tok
					i++
				}
				m.Ctx[i], m.Tok[i] = ctx, tok
				i++
			}
			if i < to && b[i] == c {
				m.Ctx[i], m.Tok[i] = hScript, codeTok
				i++
			}
		case c == '/' && i+1 < to && b[i+1] == '/':
			tok++
			for i < to && b[i] != '\n' {
				m.Ctx[i], m.Tok[i] = hScriptCm, tok
				i++
			}
		case c == '/' && i+1 < to && b[i+1] == '*':
			tok++
			j := i + 2
			for j+1 < to && !(b[j] == '*' && b[j+1] == '/') {
				j++
			}
			j += 2
			if j > to {
				j = to
			}
			for ; i < j; i++ {
				m.Ctx[i], m.Tok[i] = hScriptCm, tok
			}
		default:
			m.Ctx[i], m.Tok[i] = hScript, codeTok
			i++
		}
	}
	return tok
}

// isCharRef reports whether b[i:] (b[i] == '&') starts a character reference.
func isCharRef(b []byte, i int) bool {
	j := i + 1
	if j < len(b) && b[j] == '#' {
		j++
		if j < len(b) && (b[j] == 'x' || b[j] == 'X') {
			j++
		}
		k := j
		for k < len(b) && (isDigit(b[k]) || isLetter(b[k])) {
			k++
		}
		return k > j && k < len(b) && b[k] == ';'
	}
	k := j
	for k < len(b) && (isLetter(b[k]) || isDigit(b[k])) {
		k++
	}
	return k > j && k < len(b) && b[k] == ';'
}

// taintFinding is one place where planted text is not neutralised.
type taintFinding struct {
	Site    int
	Clause  string // structural kind of the failure
	Context string
	Offset  int
	Excerpt string
}

// taintStats counts where markers were seen (non-vacuity).
type taintStats struct {
	Seen map[string]int // "<site>/<context>" -> occurrences
}

// checkTaint looks up every occurrence of the marker prefixes of the planted
// sites in an HTML page and checks that the planted text is neutralised:
//
//   - the text from the prefix to the matching suffix lies in one token, and that
//     token is character data, an attribute value or a script string literal
//     (otherwise the payload changed the structure of the page);
//   - in character data no raw '<' and no raw '&' (one that does not start a
//     character reference) occurs between prefix and suffix;
//   - in an attribute value no raw '&';
//   - in a script string literal no raw '<' (it must be written <, so that
//     "</script>" cannot end the element) and no raw line end.
//
// If the suffix does not follow within the window (the page truncated or
// rewrote the text) only the prefix position is classified.
func checkTaint(body []byte, asg assignment, st *taintStats) []taintFinding {
	var out []taintFinding
	var m *htmlMap
	for s, p := range asg {
		pre, suf := prefixOf(s), suffixOf(s)
		pay := payloads[p].S
		off := 0
		for {
			k := strings.Index(string(body[off:]), pre)
			if k < 0 {
				break
			}
			o := off + k
			off = o + len(pre)
			if m == nil {
				m = tokenizeHTML(body)
			}
			ctx := m.Ctx[o]
			if st != nil {
				st.Seen[sites[s].Name+"/"+hctxName[ctx]]++
			}
			excerpt := func() string {
				a, z := o-40, o+len(pre)+len(pay)*6+len(suf)+40
				if a < 0 {
					a = 0
				}
				if z > len(body) {
					z = len(body)
				}
				return string(body[a:z])
			}
			add := func(clause string) {
				out = append(out, taintFinding{Site: s, Clause: clause, Context: hctxName[ctx], Offset: o, Excerpt: excerpt()})
			}
			switch ctx {
			case hText, hRCData, hAttrDQ, hAttrSQ, hAttrUQ, hScriptDQ, hScriptSQ:
			case hComment, hScriptCm:
				continue // inert unless the payload ends the comment, which none does
			default:
				add("outside-data-token")
				continue
			}
			// find the suffix within the window
			win := o + len(pre) + len(pay)*6 + len(suf)
			if win > len(body) {
				win = len(body)
			}
			se := strings.Index(string(body[o+len(pre):win]), suf)
			end := o + len(pre)
			if se >= 0 {
				end = o + len(pre) + se + len(suf)
				if m.Tok[end-1] != m.Tok[o] {
					add("token-split")
					continue
				}
			} else {
				// suffix not found: was the token cut right behind the prefix by the raw payload?
				z := o + len(pre) + len(pay)
				if z <= len(body) && string(body[o+len(pre):z]) == pay && pay != "" && z < len(body) && m.Tok[z] != m.Tok[o] && m.Tok[z-1] != m.Tok[o] {
					add("token-split")
				}
				continue
			}
			span := body[o+len(pre) : end-len(suf)]
			for x := 0; x < len(span); x++ {
				c := span[x]
				switch ctx {
				case hText, hRCData:
					if c == '<' {
						add("raw-lt-in-text")
					} else if c == '&' && !isCharRef(body, o+len(pre)+x) {
						add("raw-amp-in-text")
					}
				case hAttrDQ, hAttrSQ, hAttrUQ:
					if c == '&' && !isCharRef(body, o+len(pre)+x) {
						add("raw-amp-in-attribute")
					}
				case hScriptDQ, hScriptSQ:
					if c == '<' {
						add("raw-lt-in-script-string")
					} else if c == '\n' || c == '\r' {
						add("raw-line-end-in-script-string")
					}
				}
			}
		}
	}
	return out
}
