package c18

import (
	"fmt"
)

// An independent reader of the DOT language (https://graphviz.org/doc/info/lang.html),
// written from the grammar, not from pprof's emitter:
//
//	graph     : [ strict ] (graph | digraph) [ ID ] '{' stmt_list '}'
//	stmt_list : [ stmt [ ';' ] stmt_list ]
//	stmt      : node_stmt | edge_stmt | attr_stmt | ID '=' ID | subgraph
//	attr_stmt : (graph | node | edge) attr_list
//	attr_list : '[' [ a_list ] ']' [ attr_list ]
//	a_list    : ID '=' ID [ (';' | ',') ] [ a_list ]
//	edge_stmt : (node_id | subgraph) edgeRHS [ attr_list ]
//	edgeRHS   : edgeop (node_id | subgraph) [ edgeRHS ]
//	node_stmt : node_id [ attr_list ]
//	node_id   : ID [ port ]
//	port      : ':' ID [ ':' compass_pt ]
//	subgraph  : [ subgraph [ ID ] ] '{' stmt_list '}'
//
// An ID is an alphanumeric word, a numeral, a double-quoted string or an HTML
// string. Inside a quoted string the lexer pairs a backslash with the character
// after it from left to right, so `\"` does not end the string and `\\"` does
// (`\\` is a pair, the quote is bare). Quoted strings may be concatenated with
// '+'. Comments are /* */, // and lines starting with '#'.

type dotTokKind int

const (
	tIdent dotTokKind = iota // alphanumeric word or numeral
	tQuoted
	tHTML
	tPunct // { } [ ] = ; , : + -> --
	tEOF
)

type dotTok struct {
	Kind       dotTokKind
	Start, End int    // byte offsets in the document, End exclusive
	Text       string // raw text (quoted strings: including the quotes)
}

type dotError struct {
	Pos int
	Msg string
}

func (e *dotError) Error() string { return fmt.Sprintf("offset %d: %s", e.Pos, e.Msg) }

func isIDStart(c byte) bool {
	return c == '_' || c >= 'a' && c <= 'z' || c >= 'A' && c <= 'Z' || c >= 0x80
}
func isDigit(c byte) bool { return c >= '0' && c <= '9' }

// lexDot splits a document into tokens. It never gives up on the first error:
// the tokens up to the error are returned with it.
func lexDot(b []byte) ([]dotTok, *dotError) {
	var toks []dotTok
	i, n := 0, len(b)
	lineStart := true
	for i < n {
		c := b[i]
		switch {
		case c == '\n':
			lineStart = true
			i++
			continue
		case c == ' ' || c == '\t' || c == '\r' || c == '\f' || c == '\v':
			i++
			continue
		case c == '#' && lineStart:
			for i < n && b[i] != '\n' {
				i++
			}
			continue
		case c == '/' && i+1 < n && b[i+1] == '/':
			for i < n && b[i] != '\n' {
				i++
			}
			continue
		case c == '/' && i+1 < n && b[i+1] == '*':
			j := i + 2
			for j+1 < n && !(b[j] == '*' && b[j+1] == '/') {
				j++
			}
			if j+1 >= n {
				return toks, &dotError{i, "unterminated comment"}
			}
			i = j + 2
			lineStart = false
			continue
		}
		lineStart = false
		start := i
		switch {
		case c == '"':
			i++
			closed := false
			for i < n {
				if b[i] == '\\' && i+1 < n {
					i += 2 // a backslash pairs with the next character, whatever it is
					continue
				}
				if b[i] == '"' {
					i++
					closed = true
					break
				}
				i++
			}
			if !closed {
				return toks, &dotError{start, "unterminated quoted string"}
			}
			toks = append(toks, dotTok{tQuoted, start, i, string(b[start:i])})
		case c == '<':
			depth := 0
			for i < n {
				if b[i] == '<' {
					depth++
				} else if b[i] == '>' {
					depth--
					if depth == 0 {
						i++
						break
					}
				}
				i++
			}
			if depth != 0 {
				return toks, &dotError{start, "unterminated HTML string"}
			}
			toks = append(toks, dotTok{tHTML, start, i, string(b[start:i])})
		case isIDStart(c):
			for i < n && (isIDStart(b[i]) || isDigit(b[i])) {
				i++
			}
			toks = append(toks, dotTok{tIdent, start, i, string(b[start:i])})
		case isDigit(c) || c == '.' || (c == '-' && i+1 < n && (isDigit(b[i+1]) || b[i+1] == '.')):
			// numeral: [-]?(.[0-9]+ | [0-9]+(.[0-9]*)?)
			if c == '-' {
				i++
			}
			digits := 0
			for i < n && isDigit(b[i]) {
				i++
				digits++
			}
			if i < n && b[i] == '.' {
				i++
				for i < n && isDigit(b[i]) {
					i++
					digits++
				}
			}
			if digits == 0 {
				return toks, &dotError{start, "malformed numeral"}
			}
			if i < n && isIDStart(b[i]) {
				return toks, &dotError{start, "numeral runs into a word"}
			}
			toks = append(toks, dotTok{tIdent, start, i, string(b[start:i])})
		case c == '-' && i+1 < n && (b[i+1] == '>' || b[i+1] == '-'):
			i += 2
			toks = append(toks, dotTok{tPunct, start, i, string(b[start:i])})
		case c == '{' || c == '}' || c == '[' || c == ']' || c == '=' || c == ';' || c == ',' || c == ':' || c == '+':
			i++
			toks = append(toks, dotTok{tPunct, start, i, string(c)})
		default:
			return toks, &dotError{start, fmt.Sprintf("unexpected character %q", c)}
		}
	}
	toks = append(toks, dotTok{tEOF, n, n, ""})
	return toks, nil
}

// dotDoc is what the parser extracts.
type dotDoc struct {
	Directed bool
	Name     string
	Declared map[string]bool // ids that occur in a node statement
	Edges    [][2]string     // endpoints (node ids; a subgraph endpoint contributes its nodes)
	Strings  int             // quoted strings seen
}

type dotParser struct {
	toks []dotTok
	pos  int
	doc  *dotDoc
}

func (p *dotParser) peek() dotTok { return p.toks[p.pos] }
func (p *dotParser) next() dotTok {
	t := p.toks[p.pos]
	if t.Kind != tEOF {
		p.pos++
	}
	return t
}
func (p *dotParser) isPunct(s string) bool {
	t := p.peek()
	return t.Kind == tPunct && t.Text == s
}
func (p *dotParser) isWord(s string) bool {
	t := p.peek()
	return t.Kind == tIdent && eqFold(t.Text, s)
}

func eqFold(a, b string) bool {
	if len(a) != len(b) {
		return false
	}
	for i := 0; i < len(a); i++ {
		x, y := a[i], b[i]
		if x >= 'A' && x <= 'Z' {
			x += 'a' - 'A'
		}
		if y >= 'A' && y <= 'Z' {
			y += 'a' - 'A'
		}
		if x != y {
			return false
		}
	}
	return true
}

func (p *dotParser) errf(format string, args ...any) *dotError {
	return &dotError{p.peek().Start, fmt.Sprintf(format, args...)}
}

// id reads an ID (with '+' concatenation of quoted strings) and returns its
// canonical text: the value of a quoted string, the word itself otherwise.
func (p *dotParser) id() (string, *dotError) {
	t := p.peek()
	switch t.Kind {
	case tIdent, tHTML:
		p.next()
		return t.Text, nil
	case tQuoted:
		p.next()
		p.doc.Strings++
		v := dotUnquote(t.Text)
		for p.isPunct("+") {
			p.next()
			u := p.peek()
			if u.Kind != tQuoted {
				return "", p.errf("'+' must be followed by a quoted string")
			}
			p.next()
			p.doc.Strings++
			v += dotUnquote(u.Text)
		}
		return v, nil
	}
	return "", p.errf("expected an ID, found %q", t.Text)
}

// dotUnquote gives the value of a quoted string: `\"` is a quote, a backslash
// followed by a newline is dropped, everything else (including `\\`) is kept.
func dotUnquote(raw string) string {
	s := raw[1 : len(raw)-1]
	out := make([]byte, 0, len(s))
	for i := 0; i < len(s); i++ {
		if s[i] == '\\' && i+1 < len(s) {
			switch s[i+1] {
			case '"':
				out = append(out, '"')
			case '\n':
			default:
				out = append(out, s[i], s[i+1])
			}
			i++
			continue
		}
		out = append(out, s[i])
	}
	return string(out)
}

func parseDot(b []byte) (*dotDoc, []dotTok, *dotError) {
	toks, lerr := lexDot(b)
	if lerr != nil {
		return nil, toks, lerr
	}
	p := &dotParser{toks: toks, doc: &dotDoc{Declared: map[string]bool{}}}
	if p.isWord("strict") {
		p.next()
	}
	switch {
	case p.isWord("digraph"):
		p.doc.Directed = true
	case p.isWord("graph"):
	default:
		return nil, toks, p.errf("expected 'graph' or 'digraph', found %q", p.peek().Text)
	}
	p.next()
	if !p.isPunct("{") {
		name, err := p.id()
		if err != nil {
			return nil, toks, err
		}
		p.doc.Name = name
	}
	if _, err := p.block(); err != nil {
		return nil, toks, err
	}
	if p.peek().Kind != tEOF {
		return nil, toks, p.errf("text after the closing brace: %q", p.peek().Text)
	}
	return p.doc, toks, nil
}

// block parses '{' stmt_list '}' and returns the node ids mentioned inside.
func (p *dotParser) block() ([]string, *dotError) {
	if !p.isPunct("{") {
		return nil, p.errf("expected '{', found %q", p.peek().Text)
	}
	p.next()
	var nodes []string
	for {
		if p.isPunct("}") {
			p.next()
			return nodes, nil
		}
		if p.peek().Kind == tEOF {
			return nil, p.errf("missing '}'")
		}
		ns, err := p.stmt()
		if err != nil {
			return nil, err
		}
		nodes = append(nodes, ns...)
		if p.isPunct(";") {
			p.next()
		}
	}
}

func (p *dotParser) attrList() *dotError {
	for p.isPunct("[") {
		p.next()
		for !p.isPunct("]") {
			if p.peek().Kind == tEOF {
				return p.errf("missing ']'")
			}
			if _, err := p.id(); err != nil {
				return err
			}
			if !p.isPunct("=") {
				return p.errf("expected '=' in attribute, found %q", p.peek().Text)
			}
			p.next()
			if _, err := p.id(); err != nil {
				return err
			}
			if p.isPunct(";") || p.isPunct(",") {
				p.next()
			}
		}
		p.next()
	}
	return nil
}

// endpoint parses node_id or subgraph; it returns the node ids it stands for
// and whether it was a plain node id.
func (p *dotParser) endpoint() (ids []string, plain bool, err *dotError) {
	if p.isWord("subgraph") {
		p.next()
		if !p.isPunct("{") {
			if _, err := p.id(); err != nil {
				return nil, false, err
			}
		}
		if !p.isPunct("{") {
			return nil, false, nil // "subgraph ID" alone refers to an earlier subgraph
		}
		ns, err := p.block()
		return ns, false, err
	}
	if p.isPunct("{") {
		ns, err := p.block()
		return ns, false, err
	}
	id, err := p.id()
	if err != nil {
		return nil, false, err
	}
	if p.isPunct(":") { // port
		p.next()
		if _, err := p.id(); err != nil {
			return nil, false, err
		}
		if p.isPunct(":") {
			p.next()
			if _, err := p.id(); err != nil {
				return nil, false, err
			}
		}
	}
	return []string{id}, true, nil
}

// stmt parses one statement and returns the node ids it mentions.
func (p *dotParser) stmt() ([]string, *dotError) {
	t := p.peek()
	if t.Kind == tIdent && (eqFold(t.Text, "graph") || eqFold(t.Text, "node") || eqFold(t.Text, "edge")) {
		p.next()
		if !p.isPunct("[") {
			return nil, p.errf("attribute statement without '['")
		}
		return nil, p.attrList()
	}
	ids, plain, err := p.endpoint()
	if err != nil {
		return nil, err
	}
	if plain && p.isPunct("=") { // ID '=' ID
		p.next()
		_, err := p.id()
		return nil, err
	}
	all := append([]string(nil), ids...)
	isEdge := false
	left := ids
	for p.isPunct("->") || p.isPunct("--") {
		op := p.next()
		if (op.Text == "->") != p.doc.Directed {
			return nil, &dotError{op.Start, "edge operator does not match the graph kind"}
		}
		isEdge = true
		right, _, err := p.endpoint()
		if err != nil {
			return nil, err
		}
		for _, l := range left {
			for _, r := range right {
				p.doc.Edges = append(p.doc.Edges, [2]string{l, r})
			}
		}
		all = append(all, right...)
		left = right
	}
	if plain || isEdge {
		if err := p.attrList(); err != nil {
			return nil, err
		}
	}
	if plain && !isEdge {
		p.doc.Declared[ids[0]] = true
	}
	return all, nil
}

// tokenAt returns the index of the token covering byte offset off, or -1.
func tokenAt(toks []dotTok, off int) int {
	lo, hi := 0, len(toks)
	for lo < hi {
		m := (lo + hi) / 2
		if toks[m].End <= off {
			lo = m + 1
		} else {
			hi = m
		}
	}
	if lo < len(toks) && toks[lo].Start <= off && off < toks[lo].End {
		return lo
	}
	return -1
}
