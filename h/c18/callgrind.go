package c18

import (
	"fmt"
	"strconv"
	"strings"
)

// An independent reader of the Callgrind profile format, version 1, written
// from the installed specification /usr/share/doc/valgrind/html/cl-format.html:
//
//   - header lines "key: value"; "positions:" lists the subpositions of a cost
//     line ("instr", "line"), "events:" the event types;
//   - position specifications spec=name with spec in ob fl fi fe fn (cost
//     position) and cob cfi cfl cfn (called position);
//   - name compression (3.1.5): "spec=(ID) name" defines ID, "spec=(ID)" refers
//     to an earlier definition; ids are kept per kind of position: file names
//     (fl fi fe cfi cfl), function names (fn cfn), object names (ob cob);
//   - cost lines "subposition+ cost*", "calls=count target-subpositions"
//     followed by a cost line giving the source position and inclusive cost;
//   - subposition compression (3.1.6): "+n", "-n", "*" are relative to the
//     corresponding subposition of the last cost line; numbers are decimal or
//     0x-hexadecimal.

type cgCostLine struct {
	LineNo     int // 1-based line of the document
	Ob, Fl, Fn string
	Sub        []uint64 // decoded subpositions (instr, line)
	Rel        []bool   // subposition was given relative
	Costs      []int64
	IsCallCost bool
}

type cgCall struct {
	LineNo        int
	Ob, Fl, Fn    string // calling position
	Cob, Cfl, Cfn string // called position
	Count         uint64
	Target        []uint64 // decoded per the specification
	TargetRel     []bool
	TargetRaw     []string
	// AltTarget decodes relative target subpositions against the plain cost
	// line *before* the one the call belongs to (defect model of F11b).
	AltTarget []uint64
	HasAlt    bool
	Src       *cgCostLine // the cost line after calls=
}

type cgDoc struct {
	Positions []string
	Events    []string
	Costs     []*cgCostLine // plain cost lines
	Calls     []*cgCall
	Defs      int // name definitions "(n) name"
	Refs      int // back-references "(n)"
	NegCosts  int // negative cost numbers (not in the grammar; counted, see notes)
}

type cgError struct {
	LineNo int
	Kind   string // structural kind, used for the violation class
	Msg    string
}

func (e *cgError) Error() string { return fmt.Sprintf("line %d: %s: %s", e.LineNo, e.Kind, e.Msg) }

var cgSpecSpace = map[string]string{
	"ob": "ob", "cob": "ob",
	"fl": "file", "fi": "file", "fe": "file", "cfi": "file", "cfl": "file",
	"fn": "fn", "cfn": "fn",
}

func cgNumber(s string) (uint64, bool) {
	if s == "" {
		return 0, false
	}
	if strings.HasPrefix(s, "0x") {
		if len(s) == 2 {
			return 0, false
		}
		v, err := strconv.ParseUint(s[2:], 16, 64)
		return v, err == nil
	}
	for i := 0; i < len(s); i++ {
		if s[i] < '0' || s[i] > '9' {
			return 0, false
		}
	}
	v, err := strconv.ParseUint(s, 10, 64)
	return v, err == nil
}

// cgSubposition decodes one subposition against base (the corresponding
// subposition of the last cost line).
func cgSubposition(tok string, base uint64, haveBase bool) (v uint64, rel bool, ok bool) {
	switch {
	case tok == "*":
		return base, true, haveBase
	case strings.HasPrefix(tok, "+"):
		d, ok := cgNumber(tok[1:])
		return base + d, true, ok && haveBase
	case strings.HasPrefix(tok, "-"):
		d, ok := cgNumber(tok[1:])
		return base - d, true, ok && haveBase
	}
	v, ok = cgNumber(tok)
	return v, false, ok
}

func cgFields(s string) []string {
	return strings.FieldsFunc(s, func(r rune) bool { return r == ' ' || r == '\t' })
}

func isAlpha(c byte) bool { return c >= 'a' && c <= 'z' || c >= 'A' && c <= 'Z' }

// readCallgrind parses a document. It stops at the first line that does not
// match the grammar.
func readCallgrind(b []byte) (*cgDoc, *cgError) {
	doc := &cgDoc{Positions: []string{"line"}}
	tables := map[string]map[uint64]string{"ob": {}, "file": {}, "fn": {}}
	cur := map[string]string{} // current value per spec
	var last []uint64          // subpositions of the last cost line
	haveLast := false
	var prevPlain, curPlain *cgCostLine
	var pendingCall *cgCall
	inBody := false
	sawEvents := false

	text := string(b)
	if strings.HasSuffix(text, "\n") {
		text = text[:len(text)-1]
	} else if text != "" {
		return doc, &cgError{strings.Count(text, "\n") + 1, "unterminated-line", "the last line has no newline"}
	}
	lines := strings.Split(text, "\n")

	parseSubs := func(toks []string, ln int) ([]uint64, []bool, *cgError) {
		vals := make([]uint64, len(toks))
		rels := make([]bool, len(toks))
		for i, t := range toks {
			var base uint64
			if haveLast && i < len(last) {
				base = last[i]
			}
			v, rel, ok := cgSubposition(t, base, haveLast && i < len(last))
			if !ok {
				if rel {
					return nil, nil, &cgError{ln, "relative-without-base", fmt.Sprintf("subposition %q has no previous cost line to refer to", t)}
				}
				return nil, nil, &cgError{ln, "subposition-syntax", fmt.Sprintf("bad subposition %q", t)}
			}
			vals[i], rels[i] = v, rel
		}
		return vals, rels, nil
	}

	for i, line := range lines {
		ln := i + 1
		if line == "" || strings.HasPrefix(line, "#") {
			continue
		}
		// position specification or association
		if eq := strings.IndexByte(line, '='); eq > 0 && allAlpha(line[:eq]) {
			key := line[:eq]
			rest := strings.TrimLeft(line[eq+1:], " \t")
			if space, ok := cgSpecSpace[key]; ok {
				inBody = true
				if pendingCall != nil {
					return doc, &cgError{ln, "calls-without-cost-line", "a calls= line must be followed by a cost line"}
				}
				name := rest
				if len(rest) >= 2 && rest[0] == '(' && rest[1] >= '0' && rest[1] <= '9' {
					end := strings.IndexByte(rest, ')')
					if end < 0 {
						return doc, &cgError{ln, "name-id-syntax", "'(' digit without ')'"}
					}
					id, ok := cgNumber(rest[1:end])
					if !ok {
						return doc, &cgError{ln, "name-id-syntax", fmt.Sprintf("bad id %q", rest[1:end])}
					}
					nm := strings.TrimLeft(rest[end+1:], " \t")
					if nm == "" {
						def, ok := tables[space][id]
						if !ok {
							return doc, &cgError{ln, "undefined-name-id", fmt.Sprintf("%s=(%d) refers to an id that was not defined before", key, id)}
						}
						doc.Refs++
						name = def
					} else {
						if old, ok := tables[space][id]; ok && old != nm {
							return doc, &cgError{ln, "name-id-redefined", fmt.Sprintf("%s=(%d) defined as %q and again as %q", key, id, old, nm)}
						}
						tables[space][id] = nm
						doc.Defs++
						name = nm
					}
				}
				cur[key] = name
				switch key {
				case "fl", "fi", "fe":
					cur["file"] = name
				}
				continue
			}
			switch key {
			case "calls":
				inBody = true
				if pendingCall != nil {
					return doc, &cgError{ln, "calls-without-cost-line", "a calls= line must be followed by a cost line"}
				}
				f := cgFields(rest)
				if len(f) != 1+len(doc.Positions) {
					return doc, &cgError{ln, "calls-syntax", fmt.Sprintf("want a count and %d target subpositions, got %q", len(doc.Positions), rest)}
				}
				cnt, ok := cgNumber(f[0])
				if !ok {
					return doc, &cgError{ln, "calls-syntax", fmt.Sprintf("bad call count %q", f[0])}
				}
				vals, rels, err := parseSubs(f[1:], ln)
				if err != nil {
					return doc, err
				}
				call := &cgCall{LineNo: ln, Ob: cur["ob"], Fl: cur["file"], Fn: cur["fn"],
					Cob: cur["cob"], Cfl: firstNonEmptyKey(cur, "cfi", "cfl"), Cfn: cur["cfn"],
					Count: cnt, Target: vals, TargetRel: rels, TargetRaw: f[1:]}
				if prevPlain != nil {
					call.HasAlt = true
					call.AltTarget = make([]uint64, len(vals))
					for j, t := range f[1:] {
						var base uint64
						if j < len(prevPlain.Sub) {
							base = prevPlain.Sub[j]
						}
						call.AltTarget[j], _, _ = cgSubposition(t, base, true)
					}
				} else {
					// No earlier entry: the defect model has nothing to be relative to.
					call.AltTarget = vals
				}
				pendingCall = call
				continue
			case "jump", "jcnd":
				inBody = true
				continue // not produced by pprof; accepted unread
			}
			return doc, &cgError{ln, "unknown-line", fmt.Sprintf("%q is neither a position specification nor an association", line)}
		}
		// header line "key: value"
		if colon := strings.IndexByte(line, ':'); colon > 0 && allAlpha(line[:colon]) && !inBody {
			key, val := line[:colon], strings.TrimLeft(line[colon+1:], " \t")
			switch key {
			case "positions":
				f := cgFields(val)
				for _, p := range f {
					if p != "instr" && p != "bb" && p != "line" {
						return doc, &cgError{ln, "header-syntax", fmt.Sprintf("unknown subposition name %q", p)}
					}
				}
				if len(f) > 0 {
					doc.Positions = f
				}
			case "events":
				doc.Events = cgFields(val)
				if len(doc.Events) == 0 {
					return doc, &cgError{ln, "header-syntax", "events: without an event type"}
				}
				sawEvents = true
			}
			continue
		}
		// cost line
		f := cgFields(line)
		if len(f) < len(doc.Positions) || !looksLikeSubposition(f[0]) {
			return doc, &cgError{ln, "unknown-line", fmt.Sprintf("%q is not a header, position, association or cost line", line)}
		}
		if !sawEvents {
			return doc, &cgError{ln, "cost-before-events", "cost line before the events: header"}
		}
		inBody = true
		vals, rels, err := parseSubs(f[:len(doc.Positions)], ln)
		if err != nil {
			return doc, err
		}
		cl := &cgCostLine{LineNo: ln, Ob: cur["ob"], Fl: cur["file"], Fn: cur["fn"], Sub: vals, Rel: rels}
		for _, c := range f[len(doc.Positions):] {
			if v, ok := cgNumber(c); ok {
				cl.Costs = append(cl.Costs, int64(v))
				continue
			}
			// The grammar has no negative numbers; pprof prints them for profile
			// differences. The property does not speak about cost values: count only.
			if v, err := strconv.ParseInt(c, 10, 64); err == nil && v < 0 {
				cl.Costs = append(cl.Costs, v)
				doc.NegCosts++
				continue
			}
			return doc, &cgError{ln, "cost-syntax", fmt.Sprintf("bad cost %q", c)}
		}
		if len(cl.Costs) > len(doc.Events) {
			return doc, &cgError{ln, "cost-syntax", fmt.Sprintf("%d costs for %d event types", len(cl.Costs), len(doc.Events))}
		}
		last, haveLast = vals, true
		if pendingCall != nil {
			cl.IsCallCost = true
			pendingCall.Src = cl
			doc.Calls = append(doc.Calls, pendingCall)
			pendingCall = nil
			// The called position applies to one call only.
			delete(cur, "cfn")
			delete(cur, "cfi")
			delete(cur, "cfl")
			delete(cur, "cob")
		} else {
			doc.Costs = append(doc.Costs, cl)
			prevPlain, curPlain = curPlain, cl
		}
	}
	if pendingCall != nil {
		return doc, &cgError{len(lines), "calls-without-cost-line", "a calls= line must be followed by a cost line"}
	}
	if !sawEvents {
		return doc, &cgError{1, "header-syntax", "no events: header"}
	}
	return doc, nil
}

func firstNonEmptyKey(m map[string]string, keys ...string) string {
	for _, k := range keys {
		if v, ok := m[k]; ok {
			return v
		}
	}
	return ""
}

func allAlpha(s string) bool {
	if s == "" {
		return false
	}
	for i := 0; i < len(s); i++ {
		if !isAlpha(s[i]) {
			return false
		}
	}
	return true
}

func looksLikeSubposition(t string) bool {
	if t == "*" {
		return true
	}
	if strings.HasPrefix(t, "+") || strings.HasPrefix(t, "-") {
		t = t[1:]
	}
	_, ok := cgNumber(t)
	return ok
}

// CGFlat is one plain cost line of a callgrind document as C04 needs it.
type CGFlat struct {
	Fn, Fl, Ob string
	Addr, Line uint64
	Cost       int64
}

// CGEdge is one call with its inclusive cost.
type CGEdge struct {
	Fn, Cfn string
	Cost    int64
}

// ReadCallgrindNumbers exposes the independent callgrind reader to other
// checks: the plain cost lines and the calls, names resolved.
func ReadCallgrindNumbers(b []byte) (flats []CGFlat, edges []CGEdge, ok bool) {
	doc, err := readCallgrind(b)
	if err != nil || doc == nil {
		return nil, nil, false
	}
	for _, c := range doc.Costs {
		if len(c.Sub) < 2 || len(c.Costs) < 1 {
			return nil, nil, false
		}
		flats = append(flats, CGFlat{Fn: c.Fn, Fl: c.Fl, Ob: c.Ob, Addr: c.Sub[0], Line: c.Sub[1], Cost: c.Costs[0]})
	}
	for _, c := range doc.Calls {
		if c.Src == nil || len(c.Src.Costs) < 1 {
			return nil, nil, false
		}
		edges = append(edges, CGEdge{Fn: c.Fn, Cfn: c.Cfn, Cost: c.Src.Costs[0]})
	}
	return flats, edges, true
}
