package c18

import (
	"fmt"
	"path/filepath"
	"strings"

	"github.com/google/pprof/verifh/ap"
)

// A site is one place of a profile that holds a string.
type site struct {
	Name   string
	Letter byte // makes the marker of the site unique
}

// The string sites of a profile (DESIGN §3 C18).
var sites = []site{
	{"func", 'A'},       // Function.Name
	{"sysname", 'B'},    // Function.SystemName
	{"file", 'C'},       // Function.Filename
	{"binary", 'D'},     // Mapping[0].File: report title, legend, [obj] entries, callgrind ob=
	{"buildid", 'E'},    // Mapping[0].BuildID
	{"comment", 'F'},    // Comments[0]
	{"docurl", 'G'},     // DocURL
	{"labelkey", 'H'},   // key of a string label
	{"labelval", 'I'},   // value of a string label
	{"numunit", 'J'},    // unit of the numeric label "bytes"
	{"sampletype", 'K'}, // SampleType[last].Type
	{"sampleunit", 'L'}, // SampleType[last].Unit
}

const (
	sFunc = iota
	sSys
	sFile
	sBinary
	sBuildID
	sComment
	sDocURL
	sLabelKey
	sLabelVal
	sNumUnit
	sType
	sUnit
)

// payload alphabet: the metacharacters of DOT, callgrind, HTML and JavaScript.
var payloads = []struct{ Name, S string }{
	{"dquote", `"`},
	{"backslash", `\`},
	{"backslash-dquote", `\"`},
	{"2backslash-dquote", `\\"`},
	{"newline", "\n"},
	{"cr", "\r"},
	{"lt", "<"},
	{"gt", ">"},
	{"amp", "&"},
	{"squote", "'"},
	{"lbrace", "{"},
	{"bar", "|"},
	{"paren-id", "(1)"},
	{"non-ascii", "é"},
	{"ctrl-01", "\x01"},
	{"close-script", "</script>"},
	// a metacharacter next to non-ASCII text in one string: an escaper that goes rune by rune or byte
	// by byte must keep the other characters whole (U+0122 and U+015C end in the bytes 0x22 '"' and 0x5C)
	// the verbs of a formatting function that takes the text as its format string
	{"percent", "%"},
	{"percent-s", "%s"},
	{"percent-dquote", "%\""},
	{"dquote+non-ascii", "\"é"},
	{"newline+U+0122", "\nĢ"},
	{"backslash+U+015C", "\\Ŝ"},
}

func prefixOf(s int) string { return "Mq" + string(sites[s].Letter) + "7" }
func suffixOf(s int) string { return "Zq" + string(sites[s].Letter) + "7" }

// marker is the string put at site s: unique prefix, payload, unique suffix.
func marker(s, p int) string { return prefixOf(s) + payloads[p].S + suffixOf(s) }

// assignment maps a site to a payload index (absent = the plain base string).
type assignment map[int]int

func (a assignment) String() string {
	var parts []string
	for s := range sites {
		if p, ok := a[s]; ok {
			parts = append(parts, sites[s].Name+"="+payloads[p].Name)
		}
	}
	return strings.Join(parts, ",")
}

func (a assignment) get(s int, base string) string {
	if p, ok := a[s]; ok {
		return marker(s, p)
	}
	return base
}

// labelKey is the key of the string label of the base profile under a.
func labelKey(a assignment) string { return a.get(sLabelKey, "k") }

// baseProfile builds the profile the payloads are planted in. It has three
// stacks over two binaries: a symbolized chain with an inlined pair, an
// unsymbolized leaf in the main binary (so that the binary name becomes an
// entry name) and a library function; string labels on two samples and a
// numeric "bytes" label with a unit on one.
//
//	s1: main -> f -> (g inlined h)     k=v z2=t  bytes=16<unit>
//	s2: main -> f -> 0x1400 [binary]   k=w
//	s3: main -> lib
//
// The payload-carrying function is f (name, system name, file name).
func baseProfile(a assignment) *ap.AP {
	bin := "/bin/" + a.get(sBinary, "app")
	file := "/src/" + a.get(sFile, "f") + ".go"
	key := labelKey(a)
	val := a.get(sLabelVal, "v")
	unit := a.get(sNumUnit, "bytes")
	doc := a.get(sDocURL, "")
	if doc != "" {
		doc = "http://doc.example/" + doc
	} else {
		doc = "http://doc.example/help"
	}
	p := &ap.AP{
		Types: []ap.VT{{Type: "samples", Unit: "count"}, {Type: a.get(sType, "cpu"), Unit: a.get(sUnit, "nanoseconds")}},
		Maps: []ap.Map{
			{Start: 0x1000, Limit: 0x5000, File: bin, BuildID: a.get(sBuildID, "b1d0"), HasFunctions: true, HasFilenames: true, HasLineNumbers: true, HasInlineFrames: true},
			{Start: 0x8000, Limit: 0xc000, File: "/lib/lib1.so", HasFunctions: true},
		},
		PeriodType: &ap.VT{Type: "cpu", Unit: "nanoseconds"}, Period: 1,
		Comments: []string{a.get(sComment, "a comment")},
		DocURL:   doc,
	}
	main := ap.Loc{Addr: 0x1100, Map: 0, Lines: []ap.Line{{Func: "main", Sys: "main", File: "/src/main.go", Start: 5, Line: 10}}}
	f := ap.Loc{Addr: 0x1200, Map: 0, Lines: []ap.Line{{Func: a.get(sFunc, "f"), Sys: a.get(sSys, "f_sys"), File: file, Start: 15, Line: 20}}}
	gh := ap.Loc{Addr: 0x1300, Map: 0, Lines: []ap.Line{
		{Func: "g", Sys: "g", File: "/src/g.go", Start: 25, Line: 30},
		{Func: "h", Sys: "h", File: "/src/g.go", Start: 33, Line: 35, Col: 2}}}
	u := ap.Loc{Addr: 0x1400, Map: 0}
	lib := ap.Loc{Addr: 0x8100, Map: 1, Lines: []ap.Line{{Func: "lib", Sys: "lib", File: "", Line: 0}}}
	p.Stacks = []ap.Stack{
		{Locs: []ap.Loc{main, f, gh}, Values: []int64{1, 10},
			Labels:   map[string][]string{key: {val}, "z2": {"t"}},
			NumLabel: map[string][]int64{"bytes": {16}}, NumUnit: map[string][]string{"bytes": {unit}}},
		{Locs: []ap.Loc{main, f, u}, Values: []int64{2, 20}, Labels: map[string][]string{key: {"w"}}},
		{Locs: []ap.Loc{main, lib}, Values: []int64{3, 30}},
	}
	return p
}

// graph-producing options of the DOT output.
type dotOpt struct {
	Gran     string
	CallTree bool
	Tag      string // "", "tagroot", "tagleaf" (applied to the label key of the profile)
}

func (o dotOpt) String() string {
	s := o.Gran
	if o.CallTree {
		s += ",call_tree"
	}
	if o.Tag != "" {
		s += "," + o.Tag
	}
	return s
}

func (o dotOpt) flags(key string) []string {
	f := []string{o.Gran}
	if o.CallTree {
		f = append(f, "call_tree")
	}
	if o.Tag != "" {
		f = append(f, o.Tag+"="+key)
	}
	return f
}

func dotOpts() []dotOpt {
	var out []dotOpt
	for _, g := range []string{"functions", "filefunctions", "files", "lines", "addresses"} {
		for _, ct := range []bool{false, true} {
			for _, t := range []string{"", "tagleaf", "tagroot"} {
				out = append(out, dotOpt{g, ct, t})
			}
		}
	}
	return out
}

// ---- expected callgrind entries of an abstract profile ----

// cgNode identifies a callgrind cost position.
type cgPos struct {
	Addr uint64
	Line int64
}

type cgExpect struct {
	// names the function, file and object of a position may carry
	Fn, Fl, Ob map[cgPos]map[string]bool
	Nodes      map[cgPos]bool
	Edges      map[[2]cgPos]bool
}

// expectCallgrind lists, by definition, the positions and calls a callgrind
// report of a may contain: granularity is "addresses", so every frame is an
// entry (address, line) carrying its function, file and binary name, and every
// pair of adjacent frames of a stack is a call.
func expectCallgrind(a *ap.AP) *cgExpect {
	e := &cgExpect{Fn: map[cgPos]map[string]bool{}, Fl: map[cgPos]map[string]bool{}, Ob: map[cgPos]map[string]bool{},
		Nodes: map[cgPos]bool{}, Edges: map[[2]cgPos]bool{}}
	add := func(m map[cgPos]map[string]bool, p cgPos, s string) {
		if m[p] == nil {
			m[p] = map[string]bool{}
		}
		m[p][s] = true
	}
	for _, st := range a.Stacks {
		var prev *cgPos
		for _, fr := range st.Frames() {
			p := cgPos{fr.Addr, fr.Line.Line}
			if fr.NoLines {
				p.Line = 0
			}
			e.Nodes[p] = true
			file := ""
			if fr.File != "" {
				file = filepath.Clean(fr.File)
			}
			add(e.Fn, p, fr.Func)
			add(e.Fl, p, file)
			add(e.Ob, p, a.MapFile(fr.Map))
			if prev != nil {
				e.Edges[[2]cgPos{*prev, p}] = true
			}
			q := p
			prev = &q
		}
	}
	return e
}

func (p cgPos) String() string { return fmt.Sprintf("%#x:%d", p.Addr, p.Line) }
