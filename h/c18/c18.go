// Package c18: graph outputs are syntactically valid for any names.
//
// Bounded-exhaustive enumeration of (string site x metacharacter payload)
// assignments - every single site, and every pair of sites - over a small
// profile, times the graph-producing options; the DOT output is read by an
// independent DOT parser, the callgrind output by an independent reader of the
// installed format specification, and the web pages by an HTML/JavaScript
// tokenizer with a taint check. Two further exhaustive families exercise
// callgrind position compression (stack sets x address layouts) and profiles
// whose samples cancel (differences), where entries are omitted.
package c18

import (
	"fmt"
	"net/url"
	"os"
	"sort"
	"strings"

	"github.com/google/pprof/verifh/ap"
	"github.com/google/pprof/verifh/drive"
	"github.com/google/pprof/verifh/enum"
	"github.com/google/pprof/verifh/reg"
	"github.com/google/pprof/verifh/vk"
)

func init() { reg.Register("C18", Run) }

// Case is the generator coordinates of one evaluated output.
type Case struct {
	Part   string `json:"part"`             // sites | positions | cancel
	Assign string `json:"assign,omitempty"` // site=payload,...
	Stacks string `json:"stacks,omitempty"` // stack shapes (positions, cancel)
	Layout string `json:"layout,omitempty"` // address layout (positions)
	Mode   string `json:"mode,omitempty"`   // cancel: negative | diff_base
	Output string `json:"output"`           // dot | callgrind | web page
	Opt    string `json:"opt,omitempty"`    // options
}

// web pages; {K} is replaced by the (URL-escaped) label key of the profile, which
// turns label values into entries.
var webPages = []string{"/top", "/flamegraph", "/peek?f=.", "/source?f=.", "/top?tagleaf={K}", "/flamegraph?tagleaf={K}", "/peek?f=.&tagleaf={K}"}

func pageURL(pg string, asg assignment) string {
	return strings.ReplaceAll(pg, "{K}", url.QueryEscape(labelKey(asg)))
}

type checker struct {
	c        *vk.Ctx
	reach    map[string]bool // "<output>/<site>" reached by a marker
	pageOK   map[string]bool // web pages whose reader passed calibration
	capped   bool
	htmlSeen *taintStats
}

// Run is the check.
func Run(c *vk.Ctx) {
	k := &checker{c: c, reach: map[string]bool{}, pageOK: map[string]bool{}, htmlSeen: &taintStats{Seen: map[string]int{}}}
	if os.Getenv("C18_DUMP") != "" {
		k.dump()
		return
	}
	k.calibrate()
	var idx int64
	k.partPositions(&idx)
	k.partCancel(&idx)
	k.partSites(&idx)
	k.finish()
}

// ---------------------------------------------------------------- part 1: sites x payloads

func (k *checker) partSites(idx *int64) {
	c := k.c
	nS, nP := len(sites), len(payloads)
	opts := dotOpts()
	c.Note(fmt.Sprintf("sites: %d string sites x %d payloads, every single site; pairs of sites: %s; per assignment %d dot option sets (5 granularities x call_tree x {none,tagleaf,tagroot}), 4 callgrind option sets (call_tree x {none,tagleaf}), %d web pages (/top /flamegraph /peek /source, the first three also with tagleaf)",
		nS, nP, map[bool]string{false: "every pair of sites with equal payloads (quick)", true: "every pair of sites x every pair of payloads (thorough)"}[c.Thorough()], len(opts), len(webPages)))
	// singles
	for s := 0; s < nS; s++ {
		for p := 0; p < nP; p++ {
			if c.Mine(*idx) {
				if c.Expired() {
					k.capped = true
					c.Cap(fmt.Sprintf("time budget: stopped at case index %d", *idx))
					return
				}
				k.siteCase(assignment{s: p}, opts)
			}
			*idx++
		}
	}
	// pairs of sites
	for s1 := 0; s1 < nS; s1++ {
		for s2 := s1 + 1; s2 < nS; s2++ {
			for p1 := 0; p1 < nP; p1++ {
				for p2 := 0; p2 < nP; p2++ {
					if !c.Thorough() && p1 != p2 {
						continue
					}
					if c.Mine(*idx) {
						if c.Expired() {
							k.capped = true
							c.Cap(fmt.Sprintf("time budget: stopped at case index %d", *idx))
							return
						}
						k.siteCase(assignment{s1: p1, s2: p2}, opts)
					}
					*idx++
				}
			}
		}
	}
}

func (k *checker) siteCase(asg assignment, opts []dotOpt) {
	c := k.c
	a := baseProfile(asg)
	p := ap.Concretize(a, ap.Opts{})
	cs := Case{Part: "sites", Assign: asg.String()}
	if err := p.CheckValid(); err != nil {
		c.Violation("harness/invalid-profile", cs, err.Error())
		return
	}
	if c.WantSample() {
		c.Sample(cs)
	}
	data := map[string][]byte{"p": drive.Encode(p)}
	key := labelKey(asg)

	for _, o := range opts {
		cs.Output, cs.Opt = "dot", o.String()
		c.Eval()
		r := drive.Report(data, []string{"p"}, append([]string{"dot"}, o.flags(key)...)...)
		if !k.ran(cs, r) {
			continue
		}
		k.checkDot(cs, r.Out, asg, "")
	}
	exp := expectCallgrind(a)
	for _, o := range []dotOpt{{"", false, ""}, {"", true, ""}, {"", false, "tagleaf"}, {"", true, "tagleaf"}} {
		cs.Output, cs.Opt = "callgrind", strings.TrimPrefix(o.String(), ",")
		c.Eval()
		r := drive.Report(data, []string{"p"}, append([]string{"callgrind"}, o.flags(key)[1:]...)...)
		if !k.ran(cs, r) {
			continue
		}
		e := exp
		if o.Tag != "" {
			e = nil // label values become entries of their own; only the grammar is checked
		}
		k.checkCallgrind(cs, r.Out, asg, e)
	}
	cs.Opt = ""
	k.checkWeb(cs, data, asg)
}

func (k *checker) ran(cs Case, r *drive.Result) bool {
	if r.Panic != nil {
		k.c.Violationf("panic/"+cs.Output, cs, "panic: %v\n%s", r.Panic, r.Stack)
		return false
	}
	if r.Err != nil {
		k.c.Violationf("error/"+cs.Output, cs, "unexpected error: %v", r.Err)
		return false
	}
	return true
}

// ---------------------------------------------------------------- DOT oracle

type occ struct {
	site, off int
}

// occurrences lists the prefix occurrences of the planted sites in document order.
func occurrences(out []byte, asg assignment) []occ {
	var occs []occ
	s := string(out)
	for st := range asg {
		pre := prefixOf(st)
		off := 0
		for {
			i := strings.Index(s[off:], pre)
			if i < 0 {
				break
			}
			occs = append(occs, occ{st, off + i})
			off += i + len(pre)
		}
	}
	sort.Slice(occs, func(i, j int) bool { return occs[i].off < occs[j].off })
	return occs
}

// checkDot demands: the document is accepted by the DOT grammar; every planted
// marker lies inside ONE quoted string; every edge endpoint is a declared node.
// family names the structural predicate of the generator for the endpoint class.
func (k *checker) checkDot(cs Case, out []byte, asg assignment, family string) (undeclared bool) {
	c := k.c
	doc, toks, perr := parseDot(out)
	// markers
	for _, oc := range occurrences(out, asg) {
		if perr != nil && oc.off >= perr.Pos && tokenAt(toks, oc.off) < 0 {
			break // behind the point where the lexer stopped: nothing known
		}
		ti := tokenAt(toks, oc.off)
		site := sites[oc.site].Name
		pay := payloads[asg[oc.site]].S
		pre, suf := prefixOf(oc.site), suffixOf(oc.site)
		if ti < 0 || toks[ti].Kind != tQuoted {
			c.Violationf("dot/text-outside-string/"+site, cs, "planted text of site %s occurs outside a quoted string at offset %d\n%s", site, oc.off, excerpt(out, oc.off, 120))
			return false
		}
		win := oc.off + len(pre) + len(pay)*4 + len(suf)
		if win > len(out) {
			win = len(out)
		}
		se := strings.Index(string(out[oc.off+len(pre):win]), suf)
		if se < 0 {
			c.Count("dot/marker-without-suffix", 1) // rewritten or truncated text: tolerated
			continue
		}
		end := oc.off + len(pre) + se + len(suf)
		if end > toks[ti].End {
			c.Violationf("dot/string-split/"+site, cs, "the text planted at site %s does not lex as one string: the quoted string starting at offset %d ends at %d, inside the planted text\n%s", site, toks[ti].Start, toks[ti].End, excerpt(out, oc.off, 160))
			return false
		}
		k.reach["dot/"+site] = true
		c.Count("dot/markers-in-one-string", 1)
	}
	if perr != nil {
		names := make([]string, 0, len(asg))
		for s := range sites {
			if _, ok := asg[s]; ok {
				names = append(names, sites[s].Name)
			}
		}
		c.Violationf("dot/syntax/"+strings.Join(names, "+"), cs, "not a DOT document: %v\n%s", perr, excerpt(out, perr.Pos, 200))
		return false
	}
	c.Count("dot/documents-accepted", 1)
	for _, e := range doc.Edges {
		for _, end := range e {
			if !doc.Declared[end] {
				cl := "dot/edge-endpoint-undeclared"
				if family != "" {
					cl += "/" + family
				}
				c.Violationf(cl, cs, "edge %s -> %s: node %s is not declared by any node statement\n%s", e[0], e[1], end, string(out))
				return true
			}
		}
	}
	c.Count("dot/edges-checked", int64(len(doc.Edges)))
	if len(doc.Edges) > 0 && len(asg) > 0 {
		c.Nontrivial("dot|" + cs.Assign + "|" + cs.Opt)
	}
	return false
}

func excerpt(b []byte, off, width int) string {
	a, z := off-width/2, off+width
	if a < 0 {
		a = 0
	}
	if z > len(b) {
		z = len(b)
	}
	return fmt.Sprintf("…%s…", b[a:z])
}

// ---------------------------------------------------------------- callgrind oracle

// stripDisambiguation removes the " [i/n]" suffix pprof adds to the names of
// equal functions in a call tree.
func stripDisambiguation(s string) string {
	if !strings.HasSuffix(s, "]") {
		return s
	}
	// The reader drops the spaces between "(n)" and the name, so the suffix of an
	// empty name arrives as "[i/n]".
	i := strings.LastIndex(s, " [")
	if i < 0 {
		if !strings.HasPrefix(s, "[") {
			return s
		}
		i = -1
	}
	mid := s[i+2 : len(s)-1]
	sl := strings.IndexByte(mid, '/')
	if sl <= 0 || sl == len(mid)-1 {
		return s
	}
	for _, ch := range mid[:sl] + mid[sl+1:] {
		if ch < '0' || ch > '9' {
			return s
		}
	}
	if i < 0 {
		return ""
	}
	return s[:i]
}

// checkCallgrind demands: every line matches the grammar of the installed
// specification; every "(n)" reference was defined earlier in its name space;
// (with exp) names and decoded positions are those of the profile: every cost
// line sits at an entry (address, line) and carries its function, file and
// object name, every call goes from such an entry to one of its callees.
func (k *checker) checkCallgrind(cs Case, out []byte, asg assignment, exp *cgExpect) {
	c := k.c
	doc, err := readCallgrind(out)
	if err != nil {
		// a planted line break that splits a line?
		for s := range sites {
			p, ok := asg[s]
			if !ok || !strings.Contains(payloads[p].S, "\n") {
				continue
			}
			if strings.Contains(string(out), marker(s, p)) {
				c.Violationf("callgrind/line-split/"+sites[s].Name, cs, "a line break inside the %s splits a line of the report: %v\n%s", sites[s].Name, err, cgExcerpt(out, err.LineNo))
				return
			}
		}
		c.Violationf("callgrind/grammar/"+err.Kind, cs, "%v\n%s", err, cgExcerpt(out, err.LineNo))
		return
	}
	c.Count("callgrind/documents-accepted", 1)
	c.Count("callgrind/name-definitions", int64(doc.Defs))
	c.Count("callgrind/name-references", int64(doc.Refs))
	c.Count("callgrind/negative-costs(tolerated)", int64(doc.NegCosts))
	for s := range asg {
		if strings.Contains(string(out), prefixOf(s)) {
			k.reach["callgrind/"+sites[s].Name] = true
		}
	}
	if len(doc.Positions) != 2 || doc.Positions[0] != "instr" || doc.Positions[1] != "line" {
		c.Count("unparsed/callgrind-positions-header", 1)
		return
	}
	if exp == nil {
		return
	}
	for _, cl := range doc.Costs {
		pos := cgPos{cl.Sub[0], int64(cl.Sub[1])}
		if cl.Rel[0] || cl.Rel[1] {
			c.Count("callgrind/relative-cost-positions", 1)
		}
		if !exp.Nodes[pos] {
			c.Violationf("callgrind/position/cost-line-not-an-entry", cs, "line %d decodes to %v, which is no (address, line) of the profile\n%s", cl.LineNo, pos, cgExcerpt(out, cl.LineNo))
			return
		}
		if !nameOK(exp.Fn[pos], cl.Fn) || !nameOK(exp.Fl[pos], cl.Fl) || !nameOK(exp.Ob[pos], cl.Ob) {
			c.Violationf("callgrind/name/cost-line", cs, "line %d at %v resolves to fn=%q fl=%q ob=%q; the profile has fn %v fl %v ob %v there\n%s", cl.LineNo, pos, cl.Fn, cl.Fl, cl.Ob, keys(exp.Fn[pos]), keys(exp.Fl[pos]), keys(exp.Ob[pos]), cgExcerpt(out, cl.LineNo))
			return
		}
	}
	for _, call := range doc.Calls {
		src := cgPos{call.Src.Sub[0], int64(call.Src.Sub[1])}
		tgt := cgPos{call.Target[0], int64(call.Target[1])}
		if call.TargetRel[0] || call.TargetRel[1] {
			c.Count("callgrind/relative-call-targets", 1)
		}
		if !exp.Nodes[src] {
			c.Violationf("callgrind/position/call-source-not-an-entry", cs, "line %d: call source decodes to %v, no entry of the profile\n%s", call.Src.LineNo, src, cgExcerpt(out, call.LineNo))
			return
		}
		good := tgt
		if !exp.Edges[[2]cgPos{src, tgt}] {
			alt := cgPos{call.AltTarget[0], int64(call.AltTarget[1])}
			if call.HasAlt && (call.TargetRel[0] || call.TargetRel[1]) && exp.Edges[[2]cgPos{src, alt}] {
				// Defect model of F11b: the target is right only when read relative to
				// the entry before the calling one instead of the last cost line.
				c.Violationf("callgrind/call-target/relative-to-previous-entry", cs,
					"line %d: calls= target %q decoded relative to the last cost line (%v) gives %v, which is not a callee of %v; decoded relative to the entry printed before the caller it gives the callee %v\n%s",
					call.LineNo, strings.Join(call.TargetRaw, " "), src, tgt, src, alt, cgExcerpt(out, call.LineNo))
				c.Count("callgrind/call-targets-misrelative", 1)
				good = alt
			} else {
				c.Violationf("callgrind/position/call-target-not-a-callee", cs, "line %d: call from %v to %v (raw %q) is no call of the profile\n%s", call.LineNo, src, tgt, strings.Join(call.TargetRaw, " "), cgExcerpt(out, call.LineNo))
				return
			}
		} else if call.TargetRel[0] {
			c.Count("callgrind/relative-call-targets-correct", 1)
		}
		if !nameOK(exp.Fn[good], stripDisambiguation(call.Cfn)) || !nameOK(exp.Fl[good], call.Cfl) {
			c.Violationf("callgrind/name/call-target", cs, "line %d: callee at %v resolves to cfn=%q cfl=%q; the profile has fn %v fl %v there\n%s", call.LineNo, good, call.Cfn, call.Cfl, keys(exp.Fn[good]), keys(exp.Fl[good]), cgExcerpt(out, call.LineNo))
			return
		}
	}
	c.Count("callgrind/cost-lines-decoded", int64(len(doc.Costs)))
	c.Count("callgrind/calls-decoded", int64(len(doc.Calls)))
	if len(doc.Calls) > 0 {
		c.Nontrivial("callgrind|" + cs.Part + "|" + cs.Assign + "|" + cs.Stacks + "|" + cs.Layout + "|" + cs.Opt)
	}
}

// nameOK reports whether got is one of the names the profile has at a position.
// A name with a line break cannot be carried by the format at all (a position
// name ends at the line end): whatever stands for it is accepted.
func nameOK(want map[string]bool, got string) bool {
	if want[got] {
		return true
	}
	for w := range want {
		if strings.ContainsAny(w, "\r\n") {
			return true
		}
	}
	return false
}

func keys(m map[string]bool) []string {
	var ks []string
	for k := range m {
		ks = append(ks, k)
	}
	sort.Strings(ks)
	return ks
}

func cgExcerpt(out []byte, line int) string {
	lines := strings.Split(string(out), "\n")
	a, z := line-12, line+3
	if a < 0 {
		a = 0
	}
	if z > len(lines) {
		z = len(lines)
	}
	var b strings.Builder
	for i := a; i < z; i++ {
		fmt.Fprintf(&b, "%3d| %s\n", i+1, lines[i])
	}
	return b.String()
}

// ---------------------------------------------------------------- web pages

// calibrate checks that the HTML/JavaScript reader is fit for the pages: with a
// harmless payload at every site, every marker must be found inside a data
// token. A page that fails is not checked (reported as a vacuity failure, never
// as a violation).
func (k *checker) calibrate() {
	benign := -1
	for i, p := range payloads {
		if p.Name == "non-ascii" {
			benign = i
		}
	}
	asg := assignment{}
	for s := range sites {
		asg[s] = benign
	}
	a := baseProfile(asg)
	data := map[string][]byte{"p": drive.Encode(ap.Concretize(a, ap.Opts{}))}
	r := drive.Web(data, []string{"p"})
	if r.Handlers == nil {
		k.c.Vacuous(fmt.Sprintf("the web UI did not start: err=%v panic=%v", r.Err, r.Panic))
		return
	}
	for _, pg := range webPages {
		code, body, pan := drive.Get(r.Handlers, "GET", pageURL(pg, asg))
		if pan != nil || code != 200 {
			k.c.Note(fmt.Sprintf("calibration: %s answers %d (panic %v); the page carries no HTML to check", pg, code, pan))
			continue
		}
		fs := checkTaint(body, asg, nil)
		if len(fs) > 0 {
			k.c.Vacuous(fmt.Sprintf("HTML reader unfit for %s: harmless marker classified as %s/%s: %s", pg, fs[0].Clause, fs[0].Context, fs[0].Excerpt))
			continue
		}
		k.pageOK[pg] = true
	}
}

func pageName(pg string) string {
	suffix := ""
	if strings.Contains(pg, "tagleaf=") {
		suffix = "+tagleaf"
	}
	if i := strings.IndexByte(pg, '?'); i >= 0 {
		pg = pg[:i]
	}
	return strings.TrimPrefix(pg, "/") + suffix
}

func (k *checker) checkWeb(cs Case, data map[string][]byte, asg assignment) {
	c := k.c
	r := drive.Web(data, []string{"p"})
	if r.Panic != nil {
		c.Violationf("panic/web", cs, "panic: %v\n%s", r.Panic, r.Stack)
		return
	}
	if r.Handlers == nil {
		c.Violationf("error/web", cs, "the web UI did not start: %v", r.Err)
		return
	}
	for _, pg := range webPages {
		if !k.pageOK[pg] {
			continue
		}
		cs.Output = pageURL(pg, asg)
		c.Eval()
		code, body, pan := drive.Get(r.Handlers, "GET", cs.Output)
		if pan != nil {
			c.Violationf("panic/web"+"/"+pageName(pg), cs, "panic: %v", pan)
			continue
		}
		if code != 200 {
			// http.Error answers are text/plain with nosniff: nothing to escape
			c.Count("web/non-200/"+pageName(pg), 1)
			continue
		}
		fs := checkTaint(body, asg, k.htmlSeen)
		for s := range asg {
			if strings.Contains(string(body), prefixOf(s)) {
				k.reach["web/"+pageName(pg)+"/"+sites[s].Name] = true
				c.Nontrivial("web|" + pg + "|" + sites[s].Name + "|" + payloads[asg[s]].Name)
			}
		}
		c.Count("web/pages-checked", 1)
		for _, f := range fs {
			c.Violationf("html/"+f.Clause+"/"+sites[f.Site].Name, cs, "page %s: text planted at site %s is not neutralised (%s in %s context) at offset %d:\n%s", pg, sites[f.Site].Name, f.Clause, f.Context, f.Offset, f.Excerpt)
		}
	}
}

// ---------------------------------------------------------------- part 2: callgrind positions

// sigmaPos is the frame alphabet of the position family: three functions in two
// binaries and an unsymbolized address.
var sigmaPos = []enum.Kind{
	{Line: ap.Line{Func: "a", Sys: "a", File: "/s/a.go", Start: 1, Line: 11}, Map: 0, Tag: "a"},
	{Line: ap.Line{Func: "b", Sys: "b", File: "/s/b.go", Start: 2, Line: 22}, Map: 0, Tag: "b"},
	{Line: ap.Line{Func: "c", Sys: "c", File: "/s/a.go", Start: 3, Line: 33}, Map: 1, Tag: "c"},
	{Unsym: true, Map: 1, Tag: "u"},
}

// address layouts: the address of a location as a function of its content code
// (1, 2, ...). They steer which form pprof picks: relative, absolute, '*'.
var layouts = []struct {
	Name string
	F    func(code uint64) uint64
}{
	{"near-ascending", func(c uint64) uint64 { return 0x1000 + 0x10*c }},
	{"near-descending", func(c uint64) uint64 { return 0x9000 - 0x8*c }},
	{"far", func(c uint64) uint64 { return c * 0x1000000007 }},
	{"small", func(c uint64) uint64 { return c }},
	{"all-equal", func(c uint64) uint64 { return 0x1234 }},
	{"all-zero", func(c uint64) uint64 { return 0 }},
	// frames without an address (interpreted or synthetic frames) next to frames with one
	{"some-zero-near", func(c uint64) uint64 {
		if c%2 == 0 {
			return 0
		}
		return 0x2000 + 0x10*c
	}},
	{"some-zero-far", func(c uint64) uint64 {
		if c%3 == 1 {
			return 0
		}
		return 0x402000 + 0x1000*c
	}},
	{"mixed", func(c uint64) uint64 {
		if c%2 == 0 {
			return 0x7f0000000000 + c
		}
		return 0x10 * c
	}},
}

func posStack(sh enum.Shape, layout int, v int64) ap.Stack {
	st := ap.Stack{Values: []int64{v}}
	for _, g := range sh {
		l := ap.Loc{Map: sigmaPos[g[0]].Map}
		code := uint64(0)
		for _, kd := range g {
			code = code*uint64(len(sigmaPos)+1) + uint64(kd+1)
			if !sigmaPos[kd].Unsym {
				l.Lines = append(l.Lines, sigmaPos[kd].Line)
			}
		}
		l.Addr = layouts[layout].F(code)
		st.Locs = append(st.Locs, l)
	}
	return st
}

func shapeDepth(s enum.Shape) int {
	n := 0
	for _, g := range s {
		n += len(g)
	}
	return n
}

func (k *checker) partPositions(idx *int64) {
	c := k.c
	shapes := enum.Shapes(sigmaPos, 3)
	var nonEmpty []enum.Shape
	for _, s := range shapes {
		if shapeDepth(s) > 0 {
			nonEmpty = append(nonEmpty, s)
		}
	}
	maxSum := 4
	if c.Thorough() {
		maxSum = 6
	}
	c.Note(fmt.Sprintf("positions: alphabet of %d frame kinds, %d stack shapes of depth<=3 (all inline groupings); every single stack and every pair of stacks with total depth<=%d, x %d address layouts x call_tree on/off; callgrind only",
		len(sigmaPos), len(nonEmpty), maxSum, len(layouts)))
	run := func(s1, s2 enum.Shape) bool {
		for li := range layouts {
			if c.Mine(*idx) {
				if c.Expired() {
					k.capped = true
					c.Cap(fmt.Sprintf("time budget: stopped at case index %d", *idx))
					return false
				}
				a := &ap.AP{Types: []ap.VT{{Type: "cpu", Unit: "count"}}, PeriodType: &ap.VT{Type: "cpu", Unit: "count"}, Period: 1,
					Maps: []ap.Map{{Start: 0, Limit: 1 << 62, File: "/bin/m1", HasFunctions: true}, {Start: 1 << 62, Limit: 1 << 63, File: "/lib/m2", HasFunctions: true}}}
				a.Stacks = append(a.Stacks, posStack(s1, li, 1))
				cs := Case{Part: "positions", Stacks: s1.Tag(sigmaPos), Layout: layouts[li].Name, Output: "callgrind"}
				if s2 != nil {
					a.Stacks = append(a.Stacks, posStack(s2, li, 2))
					cs.Stacks += " ; " + s2.Tag(sigmaPos)
				}
				p := ap.Concretize(a, ap.Opts{})
				if err := p.CheckValid(); err != nil {
					c.Violation("harness/invalid-profile", cs, err.Error())
					return true
				}
				data := map[string][]byte{"p": drive.Encode(p)}
				exp := expectCallgrind(a)
				for _, ct := range []bool{false, true} {
					fl := []string{"callgrind"}
					cs.Opt = ""
					if ct {
						fl = append(fl, "call_tree")
						cs.Opt = "call_tree"
					}
					c.Eval()
					r := drive.Report(data, []string{"p"}, fl...)
					if k.ran(cs, r) {
						k.checkCallgrind(cs, r.Out, nil, exp)
					}
				}
			}
			*idx++
		}
		return true
	}
	for _, s := range nonEmpty {
		if !run(s, nil) {
			return
		}
	}
	for i := range nonEmpty {
		for j := i; j < len(nonEmpty); j++ {
			if shapeDepth(nonEmpty[i])+shapeDepth(nonEmpty[j]) > maxSum {
				continue
			}
			if !run(nonEmpty[i], nonEmpty[j]) {
				return
			}
		}
	}
}

// ---------------------------------------------------------------- part 3: cancelling samples

func (k *checker) partCancel(idx *int64) {
	c := k.c
	sigma := enum.Sigma6
	shapes := enum.Shapes(sigma, 2)
	maxSum := 3
	if c.Thorough() {
		maxSum = 4
	}
	type opt struct {
		gran string
		ct   bool
		dn   bool
	}
	var opts []opt
	for _, g := range []string{"functions", "files", "lines", "addresses"} {
		for _, ct := range []bool{false, true} {
			for _, dn := range []bool{false, true} {
				opts = append(opts, opt{g, ct, dn})
			}
		}
	}
	// value vectors of (sample 1, sample 2, sample 3): sample 3 repeats the stack of sample 1
	vals := [][3]int64{{1, -1, 0}, {1, 1, -1}, {2, -1, -2}}
	modes := []string{"negative", "diff_base"}
	c.Note(fmt.Sprintf("cancel: pairs of stack shapes (alphabet of %d kinds, depth<=2, total depth<=%d) x %d value vectors with cancelling weights x {negative sample values, -diff_base of two profiles, negative values with a shared string label and differing numeric labels} x %d dot option sets (4 granularities x call_tree x drop_negative) + callgrind",
		len(sigma), maxSum, len(vals), len(opts)))
	for i := range shapes {
		for j := range shapes {
			if shapeDepth(shapes[i]) == 0 || shapeDepth(shapes[j]) == 0 || shapeDepth(shapes[i])+shapeDepth(shapes[j]) > maxSum {
				continue
			}
			for vi, v := range vals {
				for _, mode0 := range append(append([]string{}, modes...), "negative+tags") {
					mode := mode0
					// tagged variant: the cancelling samples share one string label set but carry
					// different numeric label values; a further unlabelled sample keeps the node alive
					tagged := mode0 == "negative+tags"
					if tagged {
						mode = "negative"
					}
					if c.Mine(*idx) {
						if c.Expired() {
							k.capped = true
							c.Cap(fmt.Sprintf("time budget: stopped at case index %d", *idx))
							return
						}
						cs := Case{Part: "cancel", Stacks: fmt.Sprintf("%s ; %s ; values %v", shapes[i].Tag(sigma), shapes[j].Tag(sigma), v), Mode: mode0}
						_ = vi
						mk := func(stacks ...ap.Stack) *ap.AP {
							return &ap.AP{Types: []ap.VT{{Type: "n", Unit: "count"}}, Maps: enum.Maps2,
								PeriodType: &ap.VT{Type: "n", Unit: "count"}, Period: 1, Stacks: stacks}
						}
						var data map[string][]byte
						var extra []string
						if mode == "negative" {
							var sts []ap.Stack
							sts = append(sts, shapes[i].Stack(sigma, []int64{v[0]}), shapes[j].Stack(sigma, []int64{v[1]}))
							if v[2] != 0 {
								sts = append(sts, shapes[i].Stack(sigma, []int64{v[2]}))
							}
							if tagged {
								for n := range sts {
									sts[n].Labels = map[string][]string{"k": {"x"}}
									sts[n].NumLabel = map[string][]int64{"bytes": {int64(10 * (n%2 + 1))}}
									sts[n].NumUnit = map[string][]string{"bytes": {"bytes"}}
								}
								sts = append(sts, shapes[i].Stack(sigma, []int64{1}), shapes[j].Stack(sigma, []int64{1}))
							}
							data = map[string][]byte{"p": drive.Encode(ap.Concretize(mk(sts...), ap.Opts{}))}
						} else {
							// positive weights in the profile, negative ones as the base
							var ps, bs []ap.Stack
							put := func(sh enum.Shape, w int64) {
								if w > 0 {
									ps = append(ps, sh.Stack(sigma, []int64{w}))
								} else if w < 0 {
									bs = append(bs, sh.Stack(sigma, []int64{-w}))
								}
							}
							put(shapes[i], v[0])
							put(shapes[j], v[1])
							put(shapes[i], v[2])
							data = map[string][]byte{"p": drive.Encode(ap.Concretize(mk(ps...), ap.Opts{})), "b": drive.Encode(ap.Concretize(mk(bs...), ap.Opts{}))}
							extra = []string{"diff_base=b"}
						}
						// an undeclared endpoint under drop_negative is attributed to that option
						// only if the same report without it has none
						badPlain := map[string]bool{}
						for _, o := range opts {
							fl := append([]string{"dot", o.gran}, extra...)
							cs.Output, cs.Opt = "dot", o.gran
							if o.ct {
								fl = append(fl, "call_tree")
								cs.Opt += ",call_tree"
							}
							family := "cancelling-samples"
							plainKey := cs.Opt
							if o.dn {
								fl = append(fl, "drop_negative")
								cs.Opt += ",drop_negative"
								if !badPlain[plainKey] {
									family = "drop-negative"
								}
							}
							c.Eval()
							r := drive.Report(data, []string{"p"}, fl...)
							if k.ran(cs, r) {
								if k.checkDot(cs, r.Out, nil, family) && !o.dn {
									badPlain[plainKey] = true
								}
								c.Nontrivial("cancel|" + cs.Stacks + "|" + mode + "|" + cs.Opt)
							}
						}
						for _, ct := range []bool{false, true} {
							fl := append([]string{"callgrind"}, extra...)
							cs.Output, cs.Opt = "callgrind", ""
							if ct {
								fl = append(fl, "call_tree")
								cs.Opt = "call_tree"
							}
							c.Eval()
							r := drive.Report(data, []string{"p"}, fl...)
							if k.ran(cs, r) {
								k.checkCallgrind(cs, r.Out, nil, nil)
							}
						}
					}
					*idx++
				}
			}
		}
	}
}

// ---------------------------------------------------------------- wrap-up

func (k *checker) finish() {
	c := k.c
	var rs []string
	for r := range k.reach {
		rs = append(rs, r)
		c.Count("reach/"+r, 1)
		c.Outcome(r)
	}
	sort.Strings(rs)
	for ctx, n := range k.htmlSeen.Seen {
		c.Count("web/markers-seen/"+ctx, int64(n))
	}
	// non-vacuity: each reader must have read something that exercises it
	if !k.capped {
		for _, g := range []struct{ counter, what string }{
			{"dot/markers-in-one-string", "no planted text was found inside a DOT string"},
			{"dot/edges-checked", "no DOT edge was checked"},
			{"callgrind/name-references", "no callgrind name back-reference was resolved"},
			{"callgrind/relative-cost-positions", "no relative callgrind cost position was decoded"},
			{"callgrind/relative-call-targets", "no relative callgrind call target was decoded"},
			{"web/pages-checked", "no web page was checked"},
		} {
			if c.Counter(g.counter) == 0 {
				c.Vacuous(g.what)
			}
		}
		n := 0
		for ctx := range k.htmlSeen.Seen {
			if strings.HasSuffix(ctx, "/script-string") || strings.HasSuffix(ctx, "/text") || strings.HasSuffix(ctx, "/attr-dq") {
				n++
			}
		}
		if n < 3 {
			c.Vacuous("planted text did not reach HTML text, attribute and script contexts")
		}
	}
}

// dump prints the outputs of one assignment (development aid: C18_DUMP="site=payload,...").
func (k *checker) dump() {
	asg := assignment{}
	for _, kv := range strings.Split(os.Getenv("C18_DUMP"), ",") {
		sp := strings.SplitN(kv, "=", 2)
		if len(sp) != 2 {
			continue
		}
		for s := range sites {
			for p := range payloads {
				if sites[s].Name == sp[0] && payloads[p].Name == sp[1] {
					asg[s] = p
				}
			}
		}
	}
	a := baseProfile(asg)
	data := map[string][]byte{"p": drive.Encode(ap.Concretize(a, ap.Opts{}))}
	args := strings.Fields(os.Getenv("C18_ARGS"))
	if len(args) == 0 {
		args = []string{"dot"}
	}
	if strings.HasPrefix(args[0], "/") {
		r := drive.Web(data, []string{"p"})
		code, body, pan := drive.Get(r.Handlers, "GET", args[0])
		fmt.Printf("%d %v\n%s\n", code, pan, body)
		return
	}
	r := drive.Report(data, []string{"p"}, args...)
	fmt.Printf("err=%v panic=%v\n%s\n", r.Err, r.Panic, r.Out)
}
