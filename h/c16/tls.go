package c16

import (
	"fmt"
	"io"
	"net/http"
	"net/http/httptest"
	"strings"

	"github.com/google/pprof/internal/transport"
	"github.com/google/pprof/verifh/vk"
)

// tlsFamily: pprof's own HTTP transport (internal/transport, what fetchURL uses
// when no transport is plugged in) against a TLS server whose certificate the
// client does not trust. Whether a source can be fetched depends on its own URL
// alone: https+insecure:// succeeds, https:// fails on the certificate - for
// every history of <= 3 requests through one transport (the sources and bases of
// one run share it), whatever was asked before.
func tlsFamily(c *vk.Ctx) {
	if c.Shard != 0 {
		return
	}
	body := encoded(0)
	srv := httptest.NewTLSServer(http.HandlerFunc(func(w http.ResponseWriter, r *http.Request) { w.Write(body) }))
	defer srv.Close()
	srv.Config.ErrorLog = nil
	host := strings.TrimPrefix(srv.URL, "https://")
	kinds := []struct{ name, url string }{
		{"https+insecure", "https+insecure://" + host + "/a"},
		{"https", "https://" + host + "/b"},
	}
	var rec func(h []int)
	rec = func(h []int) {
		if len(h) > 0 {
			c.Eval()
			tr := transport.New(nil)
			var names []string
			for _, k := range h {
				names = append(names, kinds[k].name)
			}
			w := witness{Scenario: "requests through one pprof transport, in order: " + strings.Join(names, ", ")}
			for i, k := range h {
				req, err := http.NewRequest("GET", kinds[k].url, nil)
				if err != nil {
					c.Violation("harness/tls-request", w, err.Error())
					return
				}
				resp, err := tr.RoundTrip(req)
				got := "error"
				if err == nil {
					b, _ := io.ReadAll(resp.Body)
					resp.Body.Close()
					got = fmt.Sprintf("%d %d bytes", resp.StatusCode, len(b))
				}
				want := "error"
				if k == 0 {
					want = fmt.Sprintf("200 %d bytes", len(body))
				}
				if got != want {
					c.Violationf("real/tls/outcome-depends-on-earlier-requests", w, "request %d (%s): got %s (%v), want %s", i, kinds[k].name, got, err, want)
					return
				}
			}
			if len(h) >= 2 {
				c.Nontrivial("tls " + strings.Join(names, ","))
			}
			c.Count("tls-histories", 1)
		}
		if len(h) == 3 {
			return
		}
		for k := range kinds {
			rec(append(append([]int(nil), h...), k))
		}
	}
	rec(nil)
}
