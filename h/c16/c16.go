// Package c16: multi-source fetch merges whatever succeeded, independent of timing.
//
// The real driver (parse flags -> concurrent fetch -> merge -> proto output)
// runs under the explorer in the instrumented build. Owned nondeterminism:
// the completion order of the fetches (every permutation, a free choice made
// up front; each fake Fetch blocks until it is its turn), thread scheduling at
// the WaitGroup / go / lock points (preemption bound), and the failure pattern
// (which sources fail, and how). Oracle: the merged profile equals the sum of
// exactly the successful sources in command-line order; one error message per
// failed source naming it; overall failure iff no source (or no base when bases
// were requested) succeeded; output bytes identical across all completion
// orders and schedules.
package c16

import (
	"errors"
	"fmt"
	"sort"
	"strings"

	"github.com/google/pprof/internal/verifrt"
	"github.com/google/pprof/profile"
	"github.com/google/pprof/verifh/ap"
	"github.com/google/pprof/verifh/drive"
	"github.com/google/pprof/verifh/enum"
	"github.com/google/pprof/verifh/reg"
	"github.com/google/pprof/verifh/vk"
)

func init() { reg.Register("C16", Run) }

// failure kinds
const (
	ok = iota
	fetchErr
	garbage
	invalid
	nilProf
	idle // fetched and parsed fine, but without samples (an idle process): its comment still belongs to the merge
	nKinds
)

var kindName = []string{"ok", "fetch-error", "garbage", "invalid-profile", "nil-profile", "ok-without-samples"}

// good reports whether a fetch of this kind yields a profile.
func good(k int) bool { return k == ok || k == idle }

// srcProfile builds the profile of source i: a stack shared by all sources
// (weight 1), a stack of its own (weight i+2), and a comment naming it.
func srcProfile(i int) *ap.AP {
	a := &ap.AP{Types: []ap.VT{{Type: "n", Unit: "count"}}, Maps: enum.Maps2, PeriodType: &ap.VT{Type: "n", Unit: "count"}, Period: 1}
	shared := ap.Stack{Locs: []ap.Loc{{Addr: 0x1010, Map: 0, Lines: []ap.Line{{Func: "shared", File: "s.go", Line: 1}}}}, Values: []int64{1}}
	own := ap.Stack{Locs: []ap.Loc{{Addr: 0x1100 + uint64(i)*0x10, Map: 0, Lines: []ap.Line{{Func: fmt.Sprintf("own%d", i), File: "o.go", Line: int64(i + 1)}}}}, Values: []int64{int64(i + 2)}}
	a.Stacks = []ap.Stack{shared, own}
	a.Comments = []string{fmt.Sprintf("c%d", i)}
	return a
}

type scenario struct {
	NSrc, NBase int
	Fail        []int // per fetch (sources then bases): failure kind
	Big         bool
}

func (s scenario) String() string {
	var f []string
	for i, k := range s.Fail {
		if k != ok {
			f = append(f, fmt.Sprintf("%d:%s", i, kindName[k]))
		}
	}
	return fmt.Sprintf("src=%d base=%d fail=[%s]", s.NSrc, s.NBase, strings.Join(f, " "))
}

type witness struct {
	Scenario string `json:"scenario"`
	Order    []int  `json:"completion_order,omitempty"`
	Choices  []int  `json:"choices,omitempty"`
}

type observation struct {
	err     string
	panicv  string
	out     []byte
	uiErrs  []string
	fetched int
}

func names(s scenario) (srcs, bases []string) {
	for i := 0; i < s.NSrc; i++ {
		srcs = append(srcs, fmt.Sprintf("s%03d", i))
	}
	for i := 0; i < s.NBase; i++ {
		bases = append(bases, fmt.Sprintf("b%03d", i))
	}
	return
}

var encCache = map[int][]byte{}

func encoded(i int) []byte {
	if b, ok := encCache[i]; ok {
		return b
	}
	b := drive.Encode(ap.Concretize(srcProfile(i), ap.Opts{}))
	encCache[i] = b
	return b
}

// run executes the scenario once. order[k] = index of the fetch that completes k-th
// (nil = no gating).
func run(s scenario, order []int) observation {
	srcs, bases := names(s)
	all := append(append([]string{}, srcs...), bases...)
	f := &drive.Fetcher{Data: map[string][]byte{}, Errs: map[string]error{}, Prof: map[string]func() *profile.Profile{}, Nil: map[string]bool{}}
	index := map[string]int{}
	for i, n := range all {
		index[n] = i
		pi := i
		if i >= s.NSrc {
			pi = 100 + i - s.NSrc // base profiles have their own stacks/comments
		}
		switch s.Fail[i] {
		case ok:
			f.Data[n] = encoded(pi)
		case fetchErr:
			f.Errs[n] = errors.New("fetch failed")
		case garbage:
			f.Data[n] = []byte("\x00\x01garbage")
		case invalid:
			pi := pi
			f.Prof[n] = func() *profile.Profile {
				p := ap.Concretize(srcProfile(pi), ap.Opts{})
				p.Sample[0].Value = append(p.Sample[0].Value, 7) // 2 values vs 1 sample type
				return p
			}
		case nilProf:
			f.Nil[n] = true
		case idle:
			a := srcProfile(pi)
			a.Stacks = nil
			f.Data[n] = drive.Encode(ap.Concretize(a, ap.Opts{}))
		}
	}
	var obs observation
	if order != nil {
		turn := make([]int, len(all)) // turn[i] = position of fetch i in the completion order
		for pos, i := range order {
			turn[i] = pos
		}
		completed := 0
		f.Hook = func(src string) {
			i := index[src]
			verifrt.SchedPoint(func() bool { return turn[i] == completed }, "fetch "+src)
		}
		f.After = func(src string) { completed++ }
	}
	flags := drive.MkFlags(srcs, "proto")
	for _, b := range bases {
		drive.AddFlag(&flags, "base="+b)
	}
	r := drive.Run(&drive.Session{Fetch: f, Flags: flags})
	if r.Panic != nil {
		obs.panicv = fmt.Sprint(r.Panic) + "\n" + r.Stack
	}
	if r.Err != nil {
		obs.err = r.Err.Error()
	}
	obs.out = r.Out
	obs.uiErrs = append(obs.uiErrs, r.UI.Errs...)
	return obs
}

// expected computes the reference result.
type expect struct {
	fail     bool
	values   map[string]int64 // function name -> summed value
	comments []string
	errFor   []string // source names that must be reported
}

func expected(s scenario) expect {
	srcs, bases := names(s)
	e := expect{values: map[string]int64{}}
	nok, nbok := 0, 0
	add := func(pi int, sign int64, kind int) {
		a := srcProfile(pi)
		if kind != idle {
			for _, st := range a.Stacks {
				e.values[st.Locs[0].Lines[0].Func] += sign * st.Values[0]
			}
		}
		e.comments = append(e.comments, a.Comments...)
	}
	for i := range srcs {
		if good(s.Fail[i]) {
			nok++
			add(i, 1, s.Fail[i])
		} else {
			e.errFor = append(e.errFor, srcs[i])
		}
	}
	for i := range bases {
		if good(s.Fail[s.NSrc+i]) {
			nbok++
			add(100+i, -1, s.Fail[s.NSrc+i])
		} else {
			e.errFor = append(e.errFor, bases[i])
		}
	}
	if nok == 0 || (len(bases) > 0 && nbok == 0) {
		e.fail = true
	}
	for k, v := range e.values {
		if v == 0 {
			delete(e.values, k)
		}
	}
	return e
}

func checkObs(c *vk.Ctx, s scenario, w witness, o observation) {
	checkObsNamed(c, s, w, o, nil, "")
}

// checkObsNamed is checkObs for sources spelled all[i] on the command line
// (nil = the default names); pre prefixes the violation classes.
func checkObsNamed(c *vk.Ctx, s scenario, w witness, o observation, all []string, pre string) {
	e := expected(s)
	if all != nil {
		srcs, bases := names(s)
		def := append(append([]string{}, srcs...), bases...)
		for k, n := range e.errFor {
			for i := range def {
				if def[i] == n {
					e.errFor[k] = all[i]
				}
			}
		}
	}
	if o.panicv != "" {
		c.Violation(pre+"panic", w, o.panicv)
		return
	}
	if e.fail {
		if o.err == "" {
			c.Violationf(pre+"overall/should-fail", w, "no source (or no base) could be fetched but pprof succeeded")
		}
	} else if o.err != "" {
		c.Violationf(pre+"overall/should-succeed", w, "some sources fetched fine but pprof failed: %s", o.err)
		return
	}
	// one message per failed source, naming it
	for _, n := range e.errFor {
		cnt := 0
		for _, m := range o.uiErrs {
			if strings.HasPrefix(m, n+": ") {
				cnt++
			}
		}
		if cnt != 1 {
			c.Violationf(pre+"errors/one-per-failed-source", w, "source %s failed; %d messages name it: %q", n, cnt, o.uiErrs)
		}
	}
	if e.fail {
		return
	}
	p, err := profile.ParseData(o.out)
	if err != nil {
		c.Violationf(pre+"output/unparsable", w, "%v", err)
		return
	}
	got := map[string]int64{}
	for _, sm := range p.Sample {
		if len(sm.Location) == 0 || len(sm.Location[0].Line) == 0 {
			continue
		}
		got[sm.Location[0].Line[0].Function.Name] += sm.Value[0]
	}
	for k, v := range got {
		if v == 0 {
			delete(got, k)
		}
	}
	if fmt.Sprint(sortedMap(got)) != fmt.Sprint(sortedMap(e.values)) {
		c.Violationf(pre+"merge/values", w, "want %v got %v", sortedMap(e.values), sortedMap(got))
	}
	if fmt.Sprint(p.Comments) != fmt.Sprint(e.comments) {
		c.Violationf(pre+"merge/command-line-order", w, "comments want %v got %v", e.comments, p.Comments)
	}
}

func sortedMap(m map[string]int64) []string {
	var s []string
	for k, v := range m {
		s = append(s, fmt.Sprintf("%s=%d", k, v))
	}
	sort.Strings(s)
	return s
}

// failurePatterns enumerates failure assignments with at most maxFail failures
// (all kinds for each failing position), plus "everything fails".
func failurePatterns(m, maxFail int) [][]int {
	var out [][]int
	var rec func(i, left int, cur []int)
	rec = func(i, left int, cur []int) {
		if i == m {
			out = append(out, append([]int(nil), cur...))
			return
		}
		cur[i] = ok
		rec(i+1, left, cur)
		if left > 0 {
			for k := 1; k < nKinds; k++ {
				cur[i] = k
				rec(i+1, left-1, cur)
			}
			cur[i] = ok
		}
	}
	rec(0, maxFail, make([]int, m))
	all := make([]int, m)
	for i := range all {
		all[i] = fetchErr
	}
	if m > maxFail {
		out = append(out, all)
	}
	return out
}

func perms(n int) [][]int {
	var out [][]int
	p := make([]int, n)
	for i := range p {
		p[i] = i
	}
	var rec func(k int)
	rec = func(k int) {
		if k == n {
			out = append(out, append([]int(nil), p...))
			return
		}
		for i := k; i < n; i++ {
			p[k], p[i] = p[i], p[k]
			rec(k + 1)
			p[k], p[i] = p[i], p[k]
		}
	}
	rec(0)
	return out
}

// Run is the check.
func Run(c *vk.Ctx) {
	if verifrt.Flavour != "instr" {
		c.Violation("harness/wrong-build", nil, "C16 needs the instrumented build")
		return
	}
	maxSrc, maxBase, maxFail, preempt, maxAll := 3, 2, 2, 2, 4
	if c.Thorough() {
		maxSrc, maxBase, maxFail, preempt, maxAll = 4, 2, 2, 3, 5
	}
	c.Note(fmt.Sprintf("small family: sources 1..%d, bases 0..%d (at most %d fetches in all), <=%d failures x 4 kinds (+all fail); every completion permutation with preemption bound 1, identity and reversed completion order with preemption bound %d at sync points; boundary family: n in {127,128,129,130,256,257,300}", maxSrc, maxBase, maxAll, maxFail, preempt))
	var idx int64
	for ns := 1; ns <= maxSrc; ns++ {
		for nb := 0; nb <= maxBase; nb++ {
			m := ns + nb
			if m > maxAll {
				continue
			}
			ps := perms(m)
			for _, fp := range failurePatterns(m, maxFail) {
				s := scenario{NSrc: ns, NBase: nb, Fail: fp}
				if !c.Mine(idx) {
					idx++
					continue
				}
				idx++
				if c.Expired() {
					c.Cap("time budget hit in the small family")
					return
				}
				exploreScenario(c, s, ps, preempt)
			}
		}
	}
	realFamily(c, &idx)
	tlsFamily(c)
	boundary(c, &idx)
}

func exploreScenario(c *vk.Ctx, s scenario, ps [][]int, preempt int) {
	var obs observation
	var order []int
	var ref *observation
	outcomes := map[string]bool{}
	nfail := 0
	for _, k := range s.Fail {
		if k != ok {
			nfail++
		}
	}
	check := func(x *verifrt.Exec) bool {
		c.Eval()
		c.Trace(1)
		w := witness{Scenario: s.String(), Order: order, Choices: trim(x.Choices)}
		if x.Diverged != "" {
			c.Violation("harness/divergence", w, x.Diverged)
			return true
		}
		if x.Hung != "" {
			c.Violation("hang", w, x.Hung)
			return false
		}
		if x.Deadlock != "" {
			c.Violation("deadlock", w, x.Deadlock)
			return true
		}
		if len(x.Panics) > 0 {
			c.Violation("panic/thread", w, strings.Join(x.Panics, "\n"))
			return true
		}
		checkObs(c, s, w, obs)
		key := obs.err + "|" + string(obs.out) + "|" + strings.Join(sortedCopy(obs.uiErrs), "\n")
		outcomes[key] = true
		if ref == nil {
			o := obs
			ref = &o
		} else if string(obs.out) != string(ref.out) || (obs.err == "") != (ref.err == "") {
			c.Violationf("timing-dependent-output", w, "output differs from the first execution of the same scenario")
		}
		return !c.Expired()
	}
	// (A) every completion permutation, preemption bound 1
	eA := &verifrt.Explorer{Bounds: verifrt.Bounds{verifrt.KSched: 1}, Check: check, Body: func() {
		k := verifrt.Choose(len(ps), verifrt.KFree, "completion-order")
		order = ps[k]
		obs = run(s, order)
	}}
	eA.Run()
	// (B) preemption-bounded schedules for the first and the last permutation
	// (identity and full reversal of the completion order)
	execsB := 0
	var transB int64
	for _, pi := range []int{0, len(ps) - 1} {
		if pi == len(ps)-1 && len(ps) == 1 {
			break
		}
		fixed := ps[pi]
		eB := &verifrt.Explorer{Bounds: verifrt.Bounds{verifrt.KSched: preempt}, Check: check, Body: func() {
			order = fixed
			obs = run(s, order)
		}}
		eB.Run()
		execsB += eB.Execs
		transB += eB.Transitions
	}
	c.Transition(eA.Transitions + transB)
	c.State(s.String())
	c.Outcome(fmt.Sprint(len(outcomes)))
	if s.NSrc+s.NBase >= 2 && nfail >= 1 {
		c.Nontrivial(s.String())
	}
	c.Count("executions/completion-orders", int64(eA.Execs))
	c.Count("executions/preemption-schedules", int64(execsB))
	if c.WantSample() {
		c.Sample(map[string]any{"scenario": s.String(), "completion_orders": eA.Execs, "preemption_schedules": execsB, "distinct_outcomes": len(outcomes)})
	}
}

func sortedCopy(s []string) []string {
	t := append([]string(nil), s...)
	sort.Strings(t)
	return t
}

func trim(ch []int) []int {
	n := len(ch)
	for n > 0 && ch[n-1] == 0 {
		n--
	}
	return ch[:n]
}

// boundary: source counts around the 128-source chunk size; every subset of
// failures over the positions {0,126,127,128,129,last}, whole-chunk failures;
// completion orders identity, reverse and rotation by one (no preemptions).
func boundary(c *vk.Ctx, idx *int64) {
	for _, n := range []int{127, 128, 129, 130, 256, 257, 300} {
		pos := []int{0, 126, 127, 128, 129, n - 1}
		var valid []int
		seen := map[int]bool{}
		for _, p := range pos {
			if p < n && !seen[p] {
				seen[p] = true
				valid = append(valid, p)
			}
		}
		var patterns [][]int
		for mask := 0; mask < 1<<len(valid); mask++ {
			f := make([]int, n)
			for b, p := range valid {
				if mask&(1<<b) != 0 {
					f[p] = 1 + (b % (nKinds - 1))
				}
			}
			patterns = append(patterns, f)
		}
		// whole first chunk fails; whole second chunk fails; everything fails
		for _, rng := range [][2]int{{0, 128}, {128, 256}, {0, n}} {
			f := make([]int, n)
			for i := rng[0]; i < rng[1] && i < n; i++ {
				f[i] = fetchErr
			}
			patterns = append(patterns, f)
		}
		orders := [][]int{ident(n), reverse(n), rotate(n)}
		for _, fp := range patterns {
			for oi, ord := range orders {
				if !c.Mine(*idx) {
					*idx++
					continue
				}
				*idx++
				if c.Expired() {
					c.Cap("time budget hit in the boundary family")
					return
				}
				s := scenario{NSrc: n, Fail: fp, Big: true}
				var obs observation
				e := &verifrt.Explorer{Bounds: verifrt.Bounds{}, NoSched: false, Body: func() { obs = run(s, chunkwise(ord, n)) }, Horizon: 200000}
				x := e.RunOne(nil)
				c.Eval()
				c.Trace(1)
				c.Transition(int64(len(x.Points)))
				w := witness{Scenario: s.String() + fmt.Sprintf(" order#%d", oi)}
				if x.Hung != "" {
					c.Violation("hang", w, x.Hung)
					return
				}
				if x.Deadlock != "" {
					c.Violation("deadlock/boundary", w, x.Deadlock)
					continue
				}
				if len(x.Panics) > 0 {
					c.Violation("panic/thread", w, strings.Join(x.Panics, "\n"))
					continue
				}
				checkObs(c, s, w, obs)
				c.State(s.String())
				c.Nontrivial(s.String())
			}
		}
	}
}

// chunkwise restricts a completion order so that it is consistent with the
// driver fetching in chunks of 128: fetches of an earlier chunk complete first.
func chunkwise(ord []int, n int) []int {
	var out []int
	for start := 0; start < n; start += 128 {
		for _, i := range ord {
			if i >= start && i < start+128 {
				out = append(out, i)
			}
		}
	}
	return out
}

func ident(n int) []int {
	p := make([]int, n)
	for i := range p {
		p[i] = i
	}
	return p
}
func reverse(n int) []int {
	p := make([]int, n)
	for i := range p {
		p[i] = n - 1 - i
	}
	return p
}
func rotate(n int) []int {
	p := make([]int, n)
	for i := range p {
		p[i] = (i + 1) % n
	}
	return p
}
