package c16

import (
	"bytes"
	"errors"
	"fmt"
	"io"
	"net/http"
	"os"
	"path/filepath"
	"strings"

	"github.com/google/pprof/internal/verifrt"
	"github.com/google/pprof/verifh/ap"
	"github.com/google/pprof/verifh/drive"
	"github.com/google/pprof/verifh/vk"
)

// The "real fetch" family: the plug-in fetcher declines every source, so pprof's
// own file-or-URL fetch runs (fetch.go: fetch, fetchURL, adjustURL). A source is
// either a file in the sandbox or a URL answered by a RoundTripper of the harness,
// and fails in the statement's four ways: missing file (or transport error), HTTP
// error status, garbage body, invalid profile.

const (
	formFile = 0
	formURL  = 1
)

const realHost = "fetch.test"

var realDir string

// longURLs makes every URL of the family carry a 5000-byte query string.
var longURLs bool

// shortURLs makes every URL of the family a host:port/path shorthand, fetched with -timeout=10.
var shortURLs bool

// realBytes returns the bytes a source of the given failure kind delivers.
func realBytes(pi, kind int) []byte {
	switch kind {
	case ok:
		return encoded(pi)
	case garbage:
		return []byte("\x00\x01garbage")
	case idle:
		a := srcProfile(pi)
		a.Stacks = nil
		return drive.Encode(ap.Concretize(a, ap.Opts{}))
	case invalid:
		p := ap.Concretize(srcProfile(pi), ap.Opts{})
		p.Sample[0].Value = append(p.Sample[0].Value, 7) // 2 values vs 1 sample type
		return drive.Encode(p)
	}
	return nil
}

// realName is the command-line spelling of fetch i of the scenario.
func realName(s scenario, forms []int, i int) string {
	n := fmt.Sprintf("s%03d", i)
	if i >= s.NSrc {
		n = fmt.Sprintf("b%03d", i-s.NSrc)
	}
	if forms[i] == formURL {
		if shortURLs {
			// the shorthand without a scheme (host:port/path), as in "pprof localhost:6060/debug/pprof/heap"
			return realHost + ":80/" + n
		}
		if longURLs {
			// longer than any file name can be (stat answers "file name too long", not "no such file")
			return "http://" + realHost + "/" + n + "?pad=" + strings.Repeat("x", 5000)
		}
		return "http://" + realHost + "/" + n
	}
	// one file per (profile, failure kind), written once before any exploration
	return filepath.Join(realDir, fmt.Sprintf("%s.k%d.pb", n, s.Fail[i]))
}

func profIndex(s scenario, i int) int {
	if i >= s.NSrc {
		return 100 + i - s.NSrc
	}
	return i
}

// prepareRealFiles writes every file a scenario of the family can name.
func prepareRealFiles(maxSrc, maxBase int) error {
	realDir = filepath.Join(drive.Sandbox(), "c16real")
	if err := os.MkdirAll(realDir, 0o755); err != nil {
		return err
	}
	s := scenario{NSrc: maxSrc, NBase: maxBase}
	for i := 0; i < maxSrc+maxBase; i++ {
		for _, k := range []int{ok, garbage, invalid, idle} {
			s.Fail = make([]int, maxSrc+maxBase)
			s.Fail[i] = k
			forms := make([]int, maxSrc+maxBase)
			if err := os.WriteFile(realName(s, forms, i), realBytes(profIndex(s, i), k), 0o644); err != nil {
				return err
			}
		}
	}
	return nil
}

type realTransport struct {
	answer func(path string) (int, []byte, error)
	gate   func(path string)
	done   func(path string)
}

func (t *realTransport) RoundTrip(req *http.Request) (*http.Response, error) {
	if req.URL.Host != realHost && req.URL.Host != realHost+":80" {
		return nil, errors.New("no such host " + req.URL.Host)
	}
	p := strings.TrimPrefix(req.URL.Path, "/")
	if t.gate != nil {
		t.gate(p)
	}
	if t.done != nil {
		defer t.done(p)
	}
	code, body, err := t.answer(p)
	if err != nil {
		return nil, err
	}
	return &http.Response{StatusCode: code, Status: fmt.Sprintf("%d %s", code, http.StatusText(code)), Proto: "HTTP/1.1", ProtoMajor: 1, ProtoMinor: 1,
		Header: http.Header{}, Body: io.NopCloser(bytes.NewReader(body)), ContentLength: int64(len(body)), Request: req}, nil
}

// runReal executes a scenario through pprof's own fetch. order lists the URL
// fetches in completion order (nil = no gating); files are read as they come.
func runReal(s scenario, forms []int, order []int) (observation, []string) {
	m := s.NSrc + s.NBase
	names := make([]string, m)
	byPath := map[string]int{}
	for i := 0; i < m; i++ {
		names[i] = realName(s, forms, i)
		if forms[i] == formURL {
			path, _, _ := strings.Cut(names[i][strings.LastIndex(names[i], "/")+1:], "?")
			if longURLs {
				path, _, _ = strings.Cut(names[i][len("http://"+realHost+"/"):], "?")
			}
			byPath[path] = i
		}
	}
	f := &drive.Fetcher{Nil: map[string]bool{}}
	for _, n := range names {
		f.Nil[n] = true
	}
	tr := &realTransport{answer: func(p string) (int, []byte, error) {
		i, found := byPath[p]
		if !found {
			return 0, nil, errors.New("unexpected request " + p)
		}
		switch s.Fail[i] {
		case fetchErr:
			return 0, nil, errors.New("connection refused")
		case nilProf:
			// an error status whose body would parse as a profile: still a failed source
			return 404, realBytes(profIndex(s, i), ok), nil
		}
		return 200, realBytes(profIndex(s, i), s.Fail[i]), nil
	}}
	if order != nil {
		turn := map[int]int{}
		for pos, i := range order {
			turn[i] = pos
		}
		completed := 0
		tr.gate = func(p string) {
			i := byPath[p]
			verifrt.SchedPoint(func() bool { return turn[i] == completed }, "GET "+p)
		}
		tr.done = func(p string) { completed++ }
	}
	flags := drive.MkFlags(names[:s.NSrc], "proto")
	for _, b := range names[s.NSrc:] {
		drive.AddFlag(&flags, "base="+b)
	}
	if shortURLs {
		drive.AddFlag(&flags, "timeout=10")
	}
	r := drive.Run(&drive.Session{Fetch: f, Flags: flags, Tr: tr})
	var obs observation
	if r.Panic != nil {
		obs.panicv = fmt.Sprint(r.Panic) + "\n" + r.Stack
	}
	if r.Err != nil {
		obs.err = r.Err.Error()
	}
	obs.out = r.Out
	obs.uiErrs = append(obs.uiErrs, r.UI.Errs...)
	return obs, names
}

// realFamily: sources 1..2, bases 0..1; every file/URL assignment; failures: a
// file that is missing (kind fetch-error; pprof then tries the name as a URL and
// the transport refuses), garbage or invalid; a URL that is refused, answers 404
// (kind nil-profile), garbage or invalid; every completion order of the URL
// fetches, preemption bound 1.
func realFamily(c *vk.Ctx, idx *int64) {
	if err := prepareRealFiles(2, 1); err != nil {
		c.Violation("harness/real-files", nil, err.Error())
		return
	}
	for ns := 1; ns <= 2; ns++ {
		for nb := 0; nb <= 1; nb++ {
			m := ns + nb
			for _, fp := range failurePatterns(m, 2) {
				for fm := 0; fm < 1<<m; fm++ {
					forms := make([]int, m)
					var urls []int
					skip := false
					for i := range forms {
						if fm&(1<<i) != 0 {
							forms[i] = formURL
							urls = append(urls, i)
						} else if fp[i] == nilProf {
							skip = true // an HTTP status needs a URL
						}
					}
					if skip {
						continue
					}
					if !c.Mine(*idx) {
						*idx++
						continue
					}
					*idx++
					if c.Expired() {
						c.Cap("time budget hit in the real-fetch family")
						return
					}
					exploreReal(c, scenario{NSrc: ns, NBase: nb, Fail: fp}, forms, urls)
					if len(urls) > 0 {
						// the same scenario with URLs too long to be file names: still URLs
						longURLs = true
						exploreReal(c, scenario{NSrc: ns, NBase: nb, Fail: fp}, forms, urls)
						longURLs = false
						// and as host:port/path shorthands with an explicit -timeout
						shortURLs = true
						exploreReal(c, scenario{NSrc: ns, NBase: nb, Fail: fp}, forms, urls)
						shortURLs = false
					}
				}
			}
		}
	}
}

func exploreReal(c *vk.Ctx, s scenario, forms, urls []int) {
	var obs observation
	var names []string
	var order []int
	var ref *observation
	ps := perms(len(urls))
	tag := s.String() + " forms="
	if longURLs {
		tag = s.String() + " long-urls forms="
	}
	if shortURLs {
		tag = s.String() + " shorthand-urls -timeout=10 forms="
	}
	for _, f := range forms {
		tag += []string{"F", "U"}[f]
	}
	check := func(x *verifrt.Exec) bool {
		c.Eval()
		c.Trace(1)
		w := witness{Scenario: "real-fetch " + tag, Order: order, Choices: trim(x.Choices)}
		switch {
		case x.Diverged != "":
			c.Violation("harness/divergence", w, x.Diverged)
			return true
		case x.Hung != "":
			c.Violation("hang", w, x.Hung)
			return false
		case x.Deadlock != "":
			c.Violation("deadlock", w, x.Deadlock)
			return true
		case len(x.Panics) > 0:
			c.Violation("panic/thread", w, strings.Join(x.Panics, "\n"))
			return true
		}
		checkObsNamed(c, s, w, obs, names, "real/")
		if ref == nil {
			o := obs
			ref = &o
		} else if string(obs.out) != string(ref.out) || (obs.err == "") != (ref.err == "") {
			c.Violationf("real/timing-dependent-output", w, "output differs from the first execution of the same scenario")
		}
		return !c.Expired()
	}
	e := &verifrt.Explorer{Bounds: verifrt.Bounds{verifrt.KSched: 1}, Check: check, Body: func() {
		order = nil
		if len(ps) > 0 {
			p := ps[verifrt.Choose(len(ps), verifrt.KFree, "completion-order")]
			order = make([]int, len(p))
			for k, j := range p {
				order[k] = urls[j]
			}
		}
		if order == nil {
			order = []int{}
		}
		obs, names = runReal(s, forms, order)
	}}
	e.Run()
	c.Transition(e.Transitions)
	c.State("real " + tag)
	c.Nontrivial("real " + tag)
	c.Count("executions/real-fetch", int64(e.Execs))
}
