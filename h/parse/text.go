// Package parse holds tolerant readers of pprof's report formats. A report
// they cannot read yields ok=false (the clause is then "not observed"), never a
// violation by itself.
package parse

import (
	"strconv"
	"strings"

	"github.com/google/pprof/verifh/model"
)

// Top reads a text ("top") report: the legend lines and the rows.
func Top(b []byte) (legend []string, rows []model.Row, ok bool) {
	lines := strings.Split(string(b), "\n")
	i := 0
	for ; i < len(lines); i++ {
		if strings.HasPrefix(strings.TrimSpace(lines[i]), "flat  flat%") {
			break
		}
		legend = append(legend, lines[i])
	}
	if i == len(lines) {
		return nil, nil, false
	}
	for _, l := range lines[i+1:] {
		if strings.TrimSpace(l) == "" {
			continue
		}
		f := strings.Fields(l)
		if len(f) < 6 {
			return nil, nil, false
		}
		flat, err1 := strconv.ParseInt(f[0], 10, 64)
		cum, err2 := strconv.ParseInt(f[3], 10, 64)
		if err1 != nil || err2 != nil || !strings.HasSuffix(f[1], "%") || !strings.HasSuffix(f[2], "%") || !strings.HasSuffix(f[4], "%") {
			return nil, nil, false
		}
		name := strings.Join(f[5:], " ")
		name = strings.TrimSuffix(name, " (inline)")
		name = strings.TrimSuffix(name, " (partial-inline)")
		rows = append(rows, model.Row{Name: name, Flat: flat, Cum: cum})
	}
	return legend, rows, true
}

// TreeNode is one block of a tree/peek report.
type TreeNode struct {
	Row model.Row
	In  []model.ERow // callers: Src = caller, Dst = this entry
	Out []model.ERow
}

// Tree reads a tree or peek report.
func Tree(b []byte) (legend []string, nodes []TreeNode, ok bool) {
	lines := strings.Split(string(b), "\n")
	i := 0
	for ; i < len(lines); i++ {
		if strings.HasPrefix(lines[i], "------") {
			break
		}
		legend = append(legend, lines[i])
	}
	if i == len(lines) {
		return nil, nil, false
	}
	var pendingIn []model.ERow
	var cur *TreeNode
	flush := func() {
		if cur != nil {
			nodes = append(nodes, *cur)
		}
		cur = nil
		pendingIn = nil
	}
	for _, l := range lines[i:] {
		switch {
		case strings.HasPrefix(l, "------"):
			flush()
			continue
		case strings.TrimSpace(l) == "" || strings.Contains(l, "flat  flat%"):
			continue
		}
		bar := strings.Index(l, "|")
		if bar < 0 {
			return nil, nil, false
		}
		left, right := strings.Fields(l[:bar]), l[bar+1:]
		if strings.HasPrefix(right, "   ") { // context line
			if len(left) != 2 {
				return nil, nil, false
			}
			w, err := strconv.ParseInt(left[0], 10, 64)
			if err != nil {
				return nil, nil, false
			}
			name := strings.TrimSuffix(strings.TrimSpace(right), " (inline)")
			if cur == nil {
				pendingIn = append(pendingIn, model.ERow{Src: name, W: w})
			} else {
				cur.Out = append(cur.Out, model.ERow{Src: cur.Row.Name, Dst: name, W: w})
			}
			continue
		}
		if len(left) != 5 || cur != nil {
			return nil, nil, false
		}
		flat, err1 := strconv.ParseInt(left[0], 10, 64)
		cum, err2 := strconv.ParseInt(left[3], 10, 64)
		if err1 != nil || err2 != nil {
			return nil, nil, false
		}
		name := strings.TrimSpace(right)
		cur = &TreeNode{Row: model.Row{Name: name, Flat: flat, Cum: cum}}
		for _, in := range pendingIn {
			in.Dst = name
			cur.In = append(cur.In, in)
		}
		pendingIn = nil
	}
	flush()
	return legend, nodes, true
}

// Traces reads a traces report: the value printed for each sample, in order.
func Traces(b []byte) (vals []int64, stacks [][]string, ok bool) {
	lines := strings.Split(string(b), "\n")
	i := 0
	for ; i < len(lines); i++ {
		if strings.HasPrefix(lines[i], "-----------+") {
			break
		}
	}
	if i == len(lines) {
		return nil, nil, false
	}
	var cur []string
	first := true
	flush := func() {
		if cur != nil {
			stacks = append(stacks, cur)
		}
		cur = nil
		first = true
	}
	for _, l := range lines[i:] {
		if strings.HasPrefix(l, "-----------+") {
			flush()
			continue
		}
		if strings.TrimSpace(l) == "" {
			continue
		}
		if len(l) > 12 && l[10] == ':' { // label line "%10s:  values"
			continue
		}
		if len(l) < 13 {
			return nil, nil, false
		}
		vs, name := strings.TrimSpace(l[:10]), l[13:]
		if first {
			v, err := strconv.ParseInt(vs, 10, 64)
			if err != nil {
				return nil, nil, false
			}
			vals = append(vals, v)
			first = false
		} else if vs != "" {
			return nil, nil, false
		}
		if cur == nil {
			cur = []string{}
		}
		cur = append(cur, strings.TrimSuffix(name, " (inline)"))
	}
	return vals, stacks, true
}
