package parse

import (
	"regexp"
	"strconv"
	"strings"

	"github.com/google/pprof/verifh/model"
)

var (
	dotNodeRE = regexp.MustCompile(`^N(\d+) \[label="(.*)" id="node\d+" fontsize=\d+ shape=\w+ tooltip="(.*) \((-?\d+)\)" color="`)
	dotEdgeRE = regexp.MustCompile(`^N(\d+) -> N(\d+) \[label=" (-?\d+)((?:\\n \(inline\))?)"(.*)$`)
	dotFlatRE = regexp.MustCompile(`\\n(-?\d+) \([^()]*\)(?:\\nof (-?\d+) \([^()]*\))?$`)
	dotZeroRE = regexp.MustCompile(`\\n0(?: of (-?\d+) \([^()]*\))?$`)
)

// DotGraph is what the pprof-specific reader extracts from a DOT report.
type DotGraph struct {
	Rows     []model.Row
	Edges    []model.ERow
	Residual map[int]bool // index into Edges → dotted
	Names    map[int]string
	EdgeIDs  [][2]int
	Dangling int // edges with an endpoint that is not a declared node (skipped)
}

func unescapeDot(s string) string {
	s = strings.ReplaceAll(s, `\"`, `"`)
	s = strings.ReplaceAll(s, `\\`, `\`)
	return s
}

// Dot reads the node and edge statements pprof emits. It is not a general DOT
// parser (that one lives with C18); it only recovers names and numbers.
func Dot(b []byte) (*DotGraph, bool) {
	g := &DotGraph{Residual: map[int]bool{}, Names: map[int]string{}}
	for _, l := range strings.Split(string(b), "\n") {
		if m := dotNodeRE.FindStringSubmatch(l); m != nil {
			id, _ := strconv.Atoi(m[1])
			label, name := m[2], unescapeDot(m[3])
			cum, _ := strconv.ParseInt(m[4], 10, 64)
			var flat int64
			if f := dotFlatRE.FindStringSubmatch(label); f != nil {
				flat, _ = strconv.ParseInt(f[1], 10, 64)
				if f[2] != "" {
					c2, _ := strconv.ParseInt(f[2], 10, 64)
					if c2 != cum {
						return nil, false
					}
				} else if cum != flat {
					return nil, false
				}
			} else if z := dotZeroRE.FindStringSubmatch(label); z != nil {
				flat = 0
				if z[1] != "" {
					c2, _ := strconv.ParseInt(z[1], 10, 64)
					if c2 != cum {
						return nil, false
					}
				}
			} else {
				return nil, false
			}
			g.Names[id] = name
			g.Rows = append(g.Rows, model.Row{Name: name, Flat: flat, Cum: cum})
			continue
		}
		if m := dotEdgeRE.FindStringSubmatch(l); m != nil {
			from, _ := strconv.Atoi(m[1])
			to, _ := strconv.Atoi(m[2])
			w, _ := strconv.ParseInt(m[3], 10, 64)
			if strings.Contains(m[5], `style="dotted"`) {
				g.Residual[len(g.Edges)] = true
			}
			g.Edges = append(g.Edges, model.ERow{W: w})
			g.EdgeIDs = append(g.EdgeIDs, [2]int{from, to})
			continue
		}
	}
	var edges []model.ERow
	var ids [][2]int
	res := map[int]bool{}
	for i := range g.Edges {
		s, ok1 := g.Names[g.EdgeIDs[i][0]]
		d, ok2 := g.Names[g.EdgeIDs[i][1]]
		if !ok1 || !ok2 {
			g.Dangling++
			continue
		}
		g.Edges[i].Src, g.Edges[i].Dst = s, d
		if g.Residual[i] {
			res[len(edges)] = true
		}
		edges = append(edges, g.Edges[i])
		ids = append(ids, g.EdgeIDs[i])
	}
	g.Edges, g.EdgeIDs, g.Residual = edges, ids, res
	return g, true
}
