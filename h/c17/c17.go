// Package c17: the stack set served to the flame-graph view is a faithful,
// self-consistent index of the samples.
//
// Exhaustive enumeration of small profiles (all stack shapes over a 7-symbol
// frame alphabet up to a depth bound, all inline groupings; zero to three
// samples; signed value vectors on two sample types) times every granularity
// (granularity x noinlines x showcolumns) times the selected sample value.
// Each case is observed twice: through report.(*Report).Stacks() on the
// profile aggregated as the driver does, and, for a sub-space, through the JSON
// embedded in the /flamegraph page of the real web UI. The oracle is the list
// of clauses of the statement, evaluated against the abstract profile.
package c17

import (
	"fmt"

	"github.com/google/pprof/internal/report"

	"github.com/google/pprof/verifh/ap"
	"github.com/google/pprof/verifh/enum"
	"github.com/google/pprof/verifh/reg"
	"github.com/google/pprof/verifh/vk"
)

func init() { reg.Register("C17", Run) }

// Sigma is the frame alphabet.
//
//	a1, a2: function a of f1.go at lines 1 and 2 (functions merges, lines splits)
//	A:      a function with the same name a in another file (functions merges, filefunctions splits)
//	b3, b5: function b at the same line, columns 3 and 5 (lines merges, lines+showcolumns splits)
//	d:      a function with an empty name in b's file (shown by its file; files merges it with b)
//	u:      a location without line information (a frame without function)
//	root:   a function named "root" without a file name
var Sigma = []enum.Kind{
	{Line: ap.Line{Func: "a", Sys: "a", File: "f1.go", Start: 1, Line: 1}, Map: 0, Tag: "a1"},
	{Line: ap.Line{Func: "a", Sys: "a", File: "f1.go", Start: 1, Line: 2}, Map: 0, Tag: "a2"},
	{Line: ap.Line{Func: "a", Sys: "a", File: "f9.go", Start: 1, Line: 1}, Map: 0, Tag: "A"},
	{Line: ap.Line{Func: "b", Sys: "b", File: "f2.go", Start: 1, Line: 1, Col: 3}, Map: 0, Tag: "b3"},
	{Line: ap.Line{Func: "b", Sys: "b", File: "f2.go", Start: 1, Line: 1, Col: 5}, Map: 1, Tag: "b5"},
	{Line: ap.Line{Func: "", File: "f2.go", Start: 5, Line: 7}, Map: 1, Tag: "d"},
	{Unsym: true, Map: 1, Tag: "u"},
	// a real function that happens to be called like the synthetic root of the flame graph, without a file name
	{Line: ap.Line{Func: "root", Sys: "root", Line: 3}, Map: 0, Tag: "root"},
}

// value vectors (two sample types) per number of samples.
var values = map[int][][][]int64{
	0: {{}},
	1: {{{-2, 3}}},
	2: {
		{{1, 3}, {2, -1}},  // mixed signs on type 1
		{{1, 3}, {-1, -3}}, // signed total 0, absolute total not
		{{0, 5}, {2, 2}},   // a zero
	},
	3: {{{1, 3}, {2, -1}, {-4, 5}}},
}

// Case is the generator coordinates of one evaluation.
type Case struct {
	Shapes []string `json:"shapes"` // shape tags, one per sample
	V      int      `json:"v"`      // index into values[len(Shapes)]
	Gran   string   `json:"gran,omitempty"`
	SI     int      `json:"si"`
	Via    string   `json:"via,omitempty"` // "Stacks()" | "/flamegraph"
}

// Build constructs the abstract profile of a case. Every sample carries its own
// label so that the driver's merge of fetched profiles keeps them apart.
func Build(shapes []enum.Shape, v int) *ap.AP {
	a := &ap.AP{Types: []ap.VT{{Type: "n", Unit: "count"}, {Type: "v", Unit: "count"}}, Maps: enum.Maps2,
		PeriodType: &ap.VT{Type: "n", Unit: "count"}, Period: 1}
	vals := values[len(shapes)][v]
	for i, sh := range shapes {
		st := sh.Stack(Sigma, vals[i])
		st.Labels = map[string][]string{"k": {fmt.Sprint("s", i)}}
		a.Stacks = append(a.Stacks, st)
	}
	return a
}

func depthOf(s enum.Shape) int {
	n := 0
	for _, g := range s {
		n += len(g)
	}
	return n
}

type family struct {
	name    string
	samples int
	maxEach int // deepest shape of any component
	// admit decides whether a tuple of shapes (given by their depths) belongs to the family
	admit func(d []int) bool
	web   bool // observed through the web UI instead of Stacks()
}

// Run is the check.
func Run(c *vk.Ctx) {
	th := c.Thorough()
	maxD := 3
	if th {
		maxD = 4
	}
	shapes := enum.Shapes(Sigma, maxD)
	depth := make([]int, len(shapes))
	upTo := map[int]int{} // number of shapes of depth <= d (shapes are sorted by depth)
	for i, s := range shapes {
		depth[i] = depthOf(s)
		for d := depth[i]; d <= maxD; d++ {
			upTo[d]++
		}
	}
	grans := Grans()

	sum := func(d []int) int {
		t := 0
		for _, x := range d {
			t += x
		}
		return t
	}
	all := func(d []int) bool { return true }
	var fams []family
	if !th {
		fams = []family{
			{"no samples", 0, 0, all, false},
			{"single,depth<=3", 1, 3, all, false},
			{"ordered pairs,depth<=2 each", 2, 2, all, false},
			{"pairs,depth 3 then depth<=1", 2, 3, func(d []int) bool { return d[0] == 3 && d[1] <= 1 }, false},
			{"ordered triples,depth<=1 each", 3, 1, all, false},
			{"web no samples", 0, 0, all, true},
			{"web single,depth<=2", 1, 2, all, true},
			{"web ordered pairs,total depth<=3", 2, 2, func(d []int) bool { return sum(d) <= 3 }, true},
		}
	} else {
		fams = []family{
			{"no samples", 0, 0, all, false},
			{"single,depth<=4", 1, 4, all, false},
			{"ordered pairs,depth<=3 each,total<=5", 2, 3, func(d []int) bool { return sum(d) <= 5 }, false},
			{"ordered triples,depth<=2 each,total<=4", 3, 2, func(d []int) bool { return sum(d) <= 4 }, false},
			{"web no samples", 0, 0, all, true},
			{"web single,depth<=3", 1, 3, all, true},
			{"web ordered pairs,depth<=2 each", 2, 2, all, true},
		}
	}
	note := fmt.Sprintf("alphabet=%d kinds (a1 a2 A b3 b5 d u), shapes(depth<=%d)=%d, granularities=%d (5 x noinlines x showcolumns), selected value in {0,1}; families:", len(Sigma), maxD, len(shapes), len(grans))
	for _, f := range fams {
		note += " [" + f.name + fmt.Sprintf(" x %d value vectors]", len(values[f.samples]))
	}
	c.Note(note)

	var idx int64
	capped := false
families:
	for _, f := range fams {
		lim := upTo[f.maxEach] // shapes are listed by increasing depth
		tuple := make([]int, f.samples)
		d := make([]int, f.samples)
		total := 1
		for i := 0; i < f.samples; i++ {
			total *= lim
		}
		for t := 0; t < total; t++ {
			x := t
			for k := f.samples - 1; k >= 0; k-- {
				tuple[k] = x % lim
				d[k] = depth[tuple[k]]
				x /= lim
			}
			if !f.admit(d) {
				continue
			}
			for v := range values[f.samples] {
				if c.Mine(idx) {
					if c.Expired() {
						c.Cap(fmt.Sprintf("time budget: stopped in family %q at case index %d", f.name, idx))
						capped = true
						break families
					}
					shs := make([]enum.Shape, f.samples)
					for i, s := range tuple {
						shs[i] = shapes[s]
					}
					c.Count("profiles/"+f.name, 1)
					if f.web {
						checkWeb(c, shs, v, grans)
					} else {
						checkGo(c, shs, v, grans)
					}
				}
				idx++
			}
		}
	}
	if !capped {
		c.Note(fmt.Sprintf("profiles enumerated: %d", idx))
	}

	// non-vacuity guards (per worker; every family is spread over all shards;
	// a worker that got almost nothing, e.g. one of 10^6 shards, is not judged)
	if c.Only == "" && !capped && c.Counter("web/pages-decoded")+c.Counter("cover/inlined-flag") >= 1000 {
		for _, k := range []string{"cover/recursion", "cover/inlined-flag", "cover/source-shared-by-stacks", "cover/same-name-different-file-split",
			"cover/location-without-lines", "cover/empty-stack", "cover/negative-signed-total", "web/pages-decoded"} {
			if c.Counter(k) == 0 {
				c.Vacuous("C17: no case exercised " + k)
			}
		}
	}
}

func caseOf(shs []enum.Shape, v int) Case {
	cs := Case{V: v}
	for _, s := range shs {
		cs.Shapes = append(cs.Shapes, s.Tag(Sigma))
	}
	return cs
}

func caseKey(cs Case) string {
	return fmt.Sprint(cs.Shapes, cs.V, cs.Gran, cs.SI, cs.Via)
}

// noteInput counts structural features of the input (independent of the implementation).
func noteInput(c *vk.Ctx, a *ap.AP, sel int) {
	var tot int64
	for i := range a.Stacks {
		tot += a.Stacks[i].Values[sel]
		if len(a.Stacks[i].Locs) == 0 {
			c.Count("cover/empty-stack", 1)
		}
		for _, l := range a.Stacks[i].Locs {
			if len(l.Lines) == 0 {
				c.Count("cover/location-without-lines", 1)
				break
			}
		}
	}
	if tot < 0 {
		c.Count("cover/negative-signed-total", 1)
	}
}

func noteCover(c *vk.Ctx, cs Case, cov Cover, ss *report.StackSet) {
	if cov.Recursion {
		c.Count("cover/recursion", 1)
	}
	if cov.Inlined {
		c.Count("cover/inlined-flag", 1)
	}
	if cov.Shared {
		c.Count("cover/source-shared-by-stacks", 1)
	}
	if cov.SameNameSplit {
		c.Count("cover/same-name-different-file-split", 1)
	}
	if cov.Recursion || cov.Shared || cov.Inlined {
		c.Nontrivial(caseKey(cs))
	}
	c.Outcome(Fingerprint(ss))
}

// checkGo observes report.(*Report).Stacks() for every granularity and
// selected value of one profile.
func checkGo(c *vk.Ctx, shs []enum.Shape, v int, grans []Gran) {
	a := Build(shs, v)
	cs := caseOf(shs, v)
	cs.Via = "Stacks()"
	if err := ap.Concretize(a, ap.Opts{}).CheckValid(); err != nil {
		c.Violation("harness/invalid-profile", cs, err.Error())
		return
	}
	if c.WantSample() {
		c.Sample(cs)
	}
	for sel := 0; sel < len(a.Types); sel++ {
		cs.SI = sel
		for _, g := range grans {
			cs.Gran = g.String()
			c.Eval()
			noteInput(c, a, sel)
			p := ap.Concretize(a, ap.Opts{})
			var rpt *report.Report
			if sel == len(a.Types)-1 {
				rpt = report.NewDefault(p, report.Options{})
			} else {
				sel := sel
				rpt = report.New(p, &report.Options{
					SampleValue: func(v []int64) int64 { return v[sel] },
					SampleType:  a.Types[sel].Type,
					SampleUnit:  a.Types[sel].Unit,
				})
			}
			// the driver aggregates after building the report
			if apply, inl, fn, file, line, col, addr := g.Keep(); apply {
				if err := p.Aggregate(inl, fn, file, line, col, addr); err != nil {
					c.Violation("harness/aggregate-error", cs, err.Error())
					continue
				}
			}
			var ss report.StackSet
			if !c.Guard("Stacks", cs, func() { ss = rpt.Stacks() }) {
				continue
			}
			cov, _ := Check(c, cs, a, g, sel, &ss, false)
			noteCover(c, cs, cov, &ss)
		}
	}
}
