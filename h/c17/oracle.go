package c17

import (
	"fmt"
	"strconv"
	"strings"

	"github.com/google/pprof/internal/report"

	"github.com/google/pprof/verifh/ap"
	"github.com/google/pprof/verifh/vk"
)

// Gran is one granularity setting of the flame-graph view.
type Gran struct {
	Name  string // functions | filefunctions | files | lines | addresses
	NoInl bool   // noinlines
	Cols  bool   // showcolumns
}

func (g Gran) String() string {
	s := g.Name
	if g.NoInl {
		s += ",noinlines"
	}
	if g.Cols {
		s += ",showcolumns"
	}
	return s
}

// Grans is the full product of granularity x noinlines x showcolumns.
func Grans() []Gran {
	var out []Gran
	for _, n := range []string{"functions", "filefunctions", "files", "lines", "addresses"} {
		for _, ni := range []bool{false, true} {
			for _, co := range []bool{false, true} {
				out = append(out, Gran{n, ni, co})
			}
		}
	}
	return out
}

// Keep says which frame attributes survive the aggregation of a granularity
// (pprof's documentation of the granularity options): apply=false means the
// profile is left untouched (addresses with inlines).
func (g Gran) Keep() (apply, inlines, function, filename, linenumber, column, address bool) {
	inlines = !g.NoInl
	column = g.Cols
	switch g.Name {
	case "addresses":
		if inlines {
			// Nothing is aggregated; whether columns tell frames apart is then
			// only demanded with showcolumns.
			return false, true, true, true, true, column, true
		}
		function, filename, linenumber, address = true, true, true, true
	case "lines":
		function, filename, linenumber = true, true, true
	case "files":
		filename = true
	case "functions":
		function = true
	case "filefunctions":
		function, filename = true, true
	}
	return true, inlines, function, filename, linenumber, column, address
}

// XFrame is one expected frame of a sample under a granularity.
type XFrame struct {
	Name    string // function name after aggregation
	File    string // file name after aggregation
	Line    int64
	Col     int64
	Inlined bool // inlined into its caller (not the outermost line of its location)
	NoLines bool // a location without line information (a frame without function)
	Fine    fine // finest identity: everything the profile says about the frame
}

type fine struct {
	addr            uint64
	mp, idx         int
	fn, sys, file   string
	start, line, co int64
}

// coarse is the identity the statement names: function, file, line, column, inlined.
type coarse struct {
	name, file string
	line, col  int64
	inlined    bool
}

func (f XFrame) coarse() coarse { return coarse{f.Name, f.File, f.Line, f.Col, f.Inlined} }

func (f XFrame) String() string {
	if f.NoLines {
		return "<no-lines>"
	}
	s := fmt.Sprintf("%q@%q:%d:%d", f.Name, f.File, f.Line, f.Col)
	if f.Inlined {
		s += "(inl)"
	}
	return s
}

// Expected lists the frames of a sample, caller first, after the aggregation of g.
func Expected(st *ap.Stack, g Gran) []XFrame {
	_, inlines, function, filename, linenumber, column, _ := g.Keep()
	var out []XFrame
	for li := range st.Locs {
		l := &st.Locs[li]
		if len(l.Lines) == 0 {
			out = append(out, XFrame{NoLines: true})
			continue
		}
		lines := l.Lines
		if !inlines {
			lines = lines[:1] // the outermost (physical) function
		}
		for i, ln := range lines {
			f := XFrame{Inlined: i > 0}
			if function {
				f.Name = ln.Func
			}
			if filename {
				f.File = ln.File
			}
			if linenumber {
				f.Line = ln.Line
				if column {
					f.Col = ln.Col
				}
			}
			f.Fine = fine{l.Addr, l.Map, i, ln.Func, ln.Sys, ln.File, ln.Start, ln.Line, ln.Col}
			out = append(out, f)
		}
	}
	return out
}

func dropNoLines(fs []XFrame) []XFrame {
	var out []XFrame
	for _, f := range fs {
		if !f.NoLines {
			out = append(out, f)
		}
	}
	return out
}

// localMatch compares one stack of the stack set with the expected frames of
// one sample. It returns "" or the name of the failing clause.
func localMatch(ss *report.StackSet, st *report.Stack, want []XFrame) string {
	if len(st.Sources) != len(want)+1 {
		return "count"
	}
	for i, w := range want {
		src := &ss.Sources[st.Sources[i+1]]
		if src.Inlined != w.Inlined {
			return "inlined-flag"
		}
		if w.NoLines {
			continue // no name to compare for a frame without function
		}
		if !strings.HasSuffix(src.FileName, w.File) {
			return "file"
		}
		if w.Name != "" {
			if !strings.Contains(src.FullName, w.Name) {
				return "name"
			}
		} else if w.File != "" && !strings.Contains(src.FullName, w.File) {
			return "name" // nameless function: shown by its file
		}
	}
	return ""
}

var perms = map[int][][]int{}

func permsOf(n int) [][]int {
	if p, ok := perms[n]; ok {
		return p
	}
	var out [][]int
	if n > 4 {
		id := make([]int, n)
		for i := range id {
			id[i] = i
		}
		out = [][]int{id}
	} else {
		cur := make([]int, 0, n)
		used := make([]bool, n)
		var rec func()
		rec = func() {
			if len(cur) == n {
				out = append(out, append([]int(nil), cur...))
				return
			}
			for i := 0; i < n; i++ {
				if !used[i] {
					used[i] = true
					cur = append(cur, i)
					rec()
					cur = cur[:len(cur)-1]
					used[i] = false
				}
			}
		}
		rec()
	}
	perms[n] = out
	return out
}

// matchStacks finds an assignment stack i -> sample perm[i] under which every
// stack matches the expected frames. The identity is tried first.
func matchStacks(ss *report.StackSet, want [][]XFrame) []int {
	n := len(want)
	for _, p := range permsOf(n) {
		ok := true
		for i := 0; i < n && ok; i++ {
			ok = localMatch(ss, &ss.Stacks[i], want[p[i]]) == ""
		}
		if ok {
			return p
		}
	}
	return nil
}

// Cover says what a stack set exercised (for the non-vacuity counters).
type Cover struct {
	Recursion, Inlined, Shared, SameNameSplit bool
}

// Check applies every clause of the statement to a stack set. sel is the
// selected sample value index. fromJSON: the set was decoded from the page
// (null arrays are reported by the JSON walk, not here).
func Check(c *vk.Ctx, cs Case, a *ap.AP, g Gran, sel int, ss *report.StackSet, fromJSON bool) (cov Cover, ok bool) {
	viol := func(class string, format string, args ...any) {
		ok = false
		if c.HasViolation(class) {
			c.Violation(class, cs, "")
			return
		}
		c.Violation(class, cs, fmt.Sprintf(format, args...)+"\nstack set: "+Dump(ss))
	}
	ok = true

	// --- all arrays non-null, Display non-empty
	if !fromJSON {
		if ss.Stacks == nil {
			viol("nonnull/Stacks", "StackSet.Stacks is nil")
		}
		if ss.Sources == nil {
			viol("nonnull/Sources", "StackSet.Sources is nil")
		}
		for i := range ss.Stacks {
			if ss.Stacks[i].Sources == nil {
				viol("nonnull/Stack.Sources", "Stacks[%d].Sources is nil", i)
			}
		}
		for i := range ss.Sources {
			if ss.Sources[i].Places == nil {
				viol("nonnull/Source.Places", "Sources[%d].Places is nil", i)
			}
			if ss.Sources[i].Display == nil {
				viol("nonnull/Source.Display", "Sources[%d].Display is nil", i)
			}
		}
	}
	for i := range ss.Sources {
		if len(ss.Sources[i].Display) == 0 {
			viol("display/empty", "Sources[%d].Display is empty: the client reads Display[length-1]", i)
		}
	}

	// --- every index in range
	inRange := true
	for i := range ss.Stacks {
		for j, s := range ss.Stacks[i].Sources {
			if s < 0 || s >= len(ss.Sources) {
				viol("range/stack-source", "Stacks[%d].Sources[%d]=%d outside Sources[0:%d]", i, j, s, len(ss.Sources))
				inRange = false
			}
		}
	}
	for i := range ss.Sources {
		for _, pl := range ss.Sources[i].Places {
			if pl.Stack < 0 || pl.Stack >= len(ss.Stacks) || pl.Pos < 0 || pl.Pos >= len(ss.Stacks[pl.Stack].Sources) {
				viol("range/place", "Sources[%d].Places has slot %+v outside the stacks", i, pl)
				inRange = false
			}
		}
	}
	if !inRange {
		return
	}

	// --- rooted at a synthetic root
	rooted := true
	if len(ss.Sources) == 0 {
		viol("root/missing", "no root source")
		return
	}
	for i := range ss.Stacks {
		st := &ss.Stacks[i]
		if len(st.Sources) == 0 || st.Sources[0] != 0 {
			viol("root/not-first", "Stacks[%d] does not start with the root source", i)
			rooted = false
			continue
		}
		for j := 1; j < len(st.Sources); j++ {
			if st.Sources[j] == 0 {
				viol("root/as-frame", "Stacks[%d].Sources[%d] is the synthetic root", i, j)
				rooted = false
			}
		}
	}

	// --- one stack per sample
	if len(ss.Stacks) != len(a.Stacks) {
		viol("stacks/count", "%d stacks for %d samples", len(ss.Stacks), len(a.Stacks))
	}

	// --- stack values sum to the signed total of the selected value
	var sum, want int64
	for i := range ss.Stacks {
		sum += ss.Stacks[i].Value
	}
	for i := range a.Stacks {
		want += a.Stacks[i].Values[sel]
	}
	if sum != want {
		viol("total/signed-sum", "stack values sum to %d, signed total of value %d is %d", sum, sel, want)
	}

	// --- self = sum of the stacks the source terminates
	self := make([]int64, len(ss.Sources))
	for i := range ss.Stacks {
		st := &ss.Stacks[i]
		if n := len(st.Sources); n > 0 {
			self[st.Sources[n-1]] += st.Value
		}
	}
	for s := range ss.Sources {
		if ss.Sources[s].Self != self[s] {
			cl := "self/leaf-sum"
			if s == 0 {
				cl = "self/root"
			}
			viol(cl, "Sources[%d].Self=%d, stacks ending there sum to %d", s, ss.Sources[s].Self, self[s])
		}
	}

	// --- places: every containing stack exactly once, at the outermost occurrence
	first := make([]map[int]int, len(ss.Sources)) // source -> stack -> first position
	for i := range ss.Stacks {
		for j, s := range ss.Stacks[i].Sources {
			if first[s] == nil {
				first[s] = map[int]int{}
			}
			if _, seen := first[s][i]; !seen {
				first[s][i] = j
			} else {
				cov.Recursion = true
			}
		}
	}
	for s := range ss.Sources {
		seen := map[int]bool{}
		for _, pl := range ss.Sources[s].Places {
			if ss.Stacks[pl.Stack].Sources[pl.Pos] != s {
				viol("places/wrong-slot", "Sources[%d].Places has %+v but that slot holds source %d", s, pl, ss.Stacks[pl.Stack].Sources[pl.Pos])
				continue
			}
			if seen[pl.Stack] {
				viol("places/stack-twice", "Sources[%d].Places references stack %d twice", s, pl.Stack)
				continue
			}
			seen[pl.Stack] = true
			if pl.Pos != first[s][pl.Stack] {
				viol("places/not-outermost", "Sources[%d].Places has %+v, outermost occurrence is at %d", s, pl, first[s][pl.Stack])
			}
		}
		for st := range first[s] {
			if !seen[st] {
				viol("places/missing-stack", "Sources[%d] occurs in stack %d which its Places do not list", s, st)
			}
		}
		if s != 0 && len(first[s]) >= 2 {
			cov.Shared = true
		}
		if ss.Sources[s].Inlined {
			cov.Inlined = true
		}
	}
	for s := 1; s < len(ss.Sources); s++ {
		for t := s + 1; t < len(ss.Sources); t++ {
			if ss.Sources[s].FullName == ss.Sources[t].FullName && ss.Sources[s].FileName != ss.Sources[t].FileName {
				cov.SameNameSplit = true
			}
		}
	}

	// --- the frames are the sample's frames, caller to callee, inlined expanded and flagged
	if len(ss.Stacks) != len(a.Stacks) || !rooted {
		return
	}
	wantFrames := make([][]XFrame, len(a.Stacks))
	anyNoLines := false
	for i := range a.Stacks {
		wantFrames[i] = Expected(&a.Stacks[i], g)
		for _, f := range wantFrames[i] {
			anyNoLines = anyNoLines || f.NoLines
		}
	}
	perm := matchStacks(ss, wantFrames)
	if perm == nil {
		// Defect model of the known finding: a location without line
		// information contributes no frame.
		if anyNoLines {
			red := make([][]XFrame, len(wantFrames))
			for i := range wantFrames {
				red[i] = dropNoLines(wantFrames[i])
			}
			if perm = matchStacks(ss, red); perm != nil {
				viol("frames/location-without-lines", "a location without line information has no frame in its stack: expected frames %v", wantFrames)
				wantFrames = red
			}
		}
		if perm == nil {
			for i := range ss.Stacks {
				if cl := localMatch(ss, &ss.Stacks[i], wantFrames[i]); cl != "" {
					viol("frames/"+cl, "Stacks[%d] does not show the frames of sample %d: expected %v", i, i, wantFrames[i])
					break
				}
			}
			return
		}
	}
	// identity: equal frames share a source, frames differing in
	// (function, file, line, column, inlined) do not.
	fineSrc := map[fine]int{}
	srcCoarse := map[int]XFrame{}
	for i := range ss.Stacks {
		w := wantFrames[perm[i]]
		for j, f := range w {
			if f.NoLines {
				continue
			}
			s := ss.Stacks[i].Sources[j+1]
			if prev, seen := fineSrc[f.Fine]; seen && prev != s {
				viol("identity/split", "the same frame %v is source %d and source %d", f, prev, s)
			}
			fineSrc[f.Fine] = s
			if prev, seen := srcCoarse[s]; seen && prev.coarse() != f.coarse() {
				viol("identity/conflated", "source %d stands for different frames %v and %v", s, prev, f)
			}
			srcCoarse[s] = f
		}
	}
	return
}

// Dump renders a stack set compactly for witnesses.
func Dump(ss *report.StackSet) string {
	var b strings.Builder
	fmt.Fprintf(&b, "Total=%d Stacks=[", ss.Total)
	for i := range ss.Stacks {
		fmt.Fprintf(&b, " {v=%d %v}", ss.Stacks[i].Value, ss.Stacks[i].Sources)
	}
	b.WriteString(" ] Sources=[")
	for i := range ss.Sources {
		s := &ss.Sources[i]
		inl := ""
		if s.Inlined {
			inl = " inl"
		}
		fmt.Fprintf(&b, " %d:{%q file=%q uniq=%q%s self=%d places=%v display=%d}", i, s.FullName, s.FileName, s.UniqueName, inl, s.Self, s.Places, len(s.Display))
	}
	b.WriteString(" ]")
	return b.String()
}

// Fingerprint is the structural outcome of a stack set.
func Fingerprint(ss *report.StackSet) string {
	b := make([]byte, 0, 128)
	for i := range ss.Stacks {
		b = strconv.AppendInt(b, ss.Stacks[i].Value, 10)
		for _, s := range ss.Stacks[i].Sources {
			b = append(b, ',')
			b = strconv.AppendInt(b, int64(s), 10)
		}
		b = append(b, ';')
	}
	for i := range ss.Sources {
		s := &ss.Sources[i]
		b = append(b, s.FullName...)
		if s.Inlined {
			b = append(b, '+')
		}
		b = append(b, '|')
		b = strconv.AppendInt(b, s.Self, 10)
		for _, p := range s.Places {
			b = append(b, ',')
			b = strconv.AppendInt(b, int64(p.Stack), 10)
			b = append(b, '.')
			b = strconv.AppendInt(b, int64(p.Pos), 10)
		}
		b = append(b, ';')
	}
	return string(b)
}
