package c17

import (
	"bytes"
	"encoding/json"
	"fmt"
	"strings"

	"github.com/google/pprof/internal/report"

	"github.com/google/pprof/verifh/ap"
	"github.com/google/pprof/verifh/drive"
	"github.com/google/pprof/verifh/enum"
	"github.com/google/pprof/verifh/vk"
)

// extractJSON finds the stack set handed to the page's viewer:
// "stackViewer({...}, [...]);". ok=false if the page has no such call.
func extractJSON(body []byte) (raw json.RawMessage, ok bool) {
	marker := []byte("stackViewer({")
	i := bytes.Index(body, marker)
	if i < 0 {
		return nil, false
	}
	dec := json.NewDecoder(bytes.NewReader(body[i+len(marker)-1:]))
	if err := dec.Decode(&raw); err != nil {
		return nil, false
	}
	return raw, true
}

// nullArrays walks the decoded JSON and returns the name of the first array
// the client iterates that is null or missing ("" if none).
func nullArrays(v any) string {
	top, ok := v.(map[string]any)
	if !ok {
		return "StackSet"
	}
	arr := func(m map[string]any, key string) ([]any, bool) {
		x, present := m[key]
		if !present || x == nil {
			return nil, false
		}
		a, isArr := x.([]any)
		return a, isArr
	}
	for _, k := range []string{"Total", "Scale", "Type", "Unit"} {
		if v, present := top[k]; !present || v == nil {
			return k
		}
	}
	stacks, ok := arr(top, "Stacks")
	if !ok {
		return "Stacks"
	}
	sources, ok := arr(top, "Sources")
	if !ok {
		return "Sources"
	}
	for _, s := range stacks {
		m, isObj := s.(map[string]any)
		if !isObj {
			return "Stacks[]"
		}
		if _, ok := arr(m, "Sources"); !ok {
			return "Stack.Sources"
		}
		// the page's script reads the value of every stack: a missing member is undefined there, and
		// every sum it enters becomes NaN
		if v, present := m["Value"]; !present || v == nil {
			return "Stack.Value"
		}
	}
	for _, s := range sources {
		m, isObj := s.(map[string]any)
		if !isObj {
			return "Sources[]"
		}
		if _, ok := arr(m, "Places"); !ok {
			return "Source.Places"
		}
		if _, ok := arr(m, "Display"); !ok {
			return "Source.Display"
		}
		for _, k := range []string{"FullName", "FileName", "UniqueName", "Inlined", "Self", "Color"} {
			if v, present := m[k]; !present || v == nil {
				return "Source." + k
			}
		}
	}
	return ""
}

// webSeq numbers the web sessions of this worker (rotates the divide_by setting).
var webSeq int64

// checkWeb observes the JSON embedded in /flamegraph of the real web UI for
// every granularity and selected value of one profile.
func checkWeb(c *vk.Ctx, shs []enum.Shape, v int, grans []Gran) {
	a := Build(shs, v)
	cs := caseOf(shs, v)
	cs.Via = "/flamegraph"
	p := ap.Concretize(a, ap.Opts{})
	if err := p.CheckValid(); err != nil {
		c.Violation("harness/invalid-profile", cs, err.Error())
		return
	}
	// divide_by only changes the display scale: stack values, self values and the total stay the
	// selected sample values (sessions started with divide_by unset, 2 and 1000 in turn)
	divs := []string{"", "2", "1000"}
	div := divs[int(webSeq%int64(len(divs)))]
	webSeq++
	var flags []string
	if div != "" {
		flags = append(flags, "divide_by="+div)
		cs.Via = "/flamegraph divide_by=" + div
		c.Count("web/divide_by", 1)
	}
	res := drive.Web(map[string][]byte{"p": drive.Encode(p)}, []string{"p"}, flags...)
	if res.Panic != nil {
		c.Violationf("panic/web-start", cs, "panic: %v\n%s", res.Panic, res.Stack)
		return
	}
	if res.Err != nil || res.Handlers == nil {
		c.Violationf("web/start-failed", cs, "web UI did not start: %v", res.Err)
		return
	}
	for sel := 0; sel < len(a.Types); sel++ {
		cs.SI = sel
		for _, g := range grans {
			cs.Gran = g.String()
			c.Eval()
			noteInput(c, a, sel)
			url := fmt.Sprintf("/flamegraph?g=%s&si=%d", g.Name, sel)
			if g.NoInl {
				url += "&noinlines=true"
			}
			if g.Cols {
				url += "&showcolumns=true"
			}
			code, body, pan := drive.Get(res.Handlers, "GET", url)
			if pan != nil {
				c.Violationf("panic/flamegraph", cs, "panic serving %s: %v", url, pan)
				continue
			}
			if code != 200 {
				c.Violationf("web/flamegraph-status", cs, "GET %s: status %d: %.300s", url, code, body)
				continue
			}
			raw, ok := extractJSON(body)
			if !ok {
				// the page was served, but the stack data its script reads is not in it
				c.Violationf("web/no-stack-data", cs, "GET %s: status 200, but the page carries no stack data: %.300s", url, body)
				continue
			}
			var generic any
			if err := json.Unmarshal(raw, &generic); err != nil {
				c.Count("unparsed/flamegraph", 1)
				continue
			}
			if f := nullArrays(generic); f != "" {
				c.Violationf("json/null/"+f, cs, "array %s is null or missing in the JSON of %s: %.600s", f, url, raw)
				continue
			}
			var ss report.StackSet
			if err := json.Unmarshal(raw, &ss); err != nil {
				c.Count("unparsed/flamegraph", 1)
				continue
			}
			c.Count("web/pages-decoded", 1)
			cov, _ := Check(c, cs, a, g, sel, &ss, true)
			noteCover(c, cs, cov, &ss)
		}
	}
	// the granularity chosen for the session (pprof -http=: -lines prof) instead of in the URL: the page
	// opened without g= shows the stacks at the session's granularity (one granularity per profile, in turn)
	g := grans[int(webSeq%int64(len(grans)))]
	sflags := append(append([]string{}, flags...), g.Name)
	if g.NoInl {
		sflags = append(sflags, "noinlines")
	}
	if g.Cols {
		sflags = append(sflags, "showcolumns")
	}
	cs.Gran = g.String()
	cs.Via = "/flamegraph, session options " + strings.Join(sflags, " ")
	res2 := drive.Web(map[string][]byte{"p": drive.Encode(p)}, []string{"p"}, sflags...)
	if res2.Panic != nil || res2.Err != nil || res2.Handlers == nil {
		c.Violationf("web/start-failed", cs, "web UI did not start with %v: %v %v", sflags, res2.Err, res2.Panic)
		return
	}
	for sel := 0; sel < len(a.Types); sel++ {
		cs.SI = sel
		c.Eval()
		url := fmt.Sprintf("/flamegraph?si=%d", sel)
		code, body, pan := drive.Get(res2.Handlers, "GET", url)
		if pan != nil || code != 200 {
			c.Violationf("web/flamegraph-status", cs, "GET %s: status %d panic %v: %.300s", url, code, pan, body)
			continue
		}
		raw, ok := extractJSON(body)
		if !ok {
			c.Violationf("web/no-stack-data", cs, "GET %s: status 200, but the page carries no stack data: %.300s", url, body)
			continue
		}
		var ss report.StackSet
		if err := json.Unmarshal(raw, &ss); err != nil {
			c.Count("unparsed/flamegraph", 1)
			continue
		}
		c.Count("web/session-granularity-pages", 1)
		Check(c, cs, a, g, sel, &ss, true)
	}
}
