package c04

import (
	"fmt"
	"reflect"

	"github.com/google/pprof/verifh/ap"
	"github.com/google/pprof/verifh/drive"
	"github.com/google/pprof/verifh/enum"
	"github.com/google/pprof/verifh/model"
	"github.com/google/pprof/verifh/parse"
	"github.com/google/pprof/verifh/vk"
)

// selector is one way of naming the sample value a report is computed from.
type selector struct {
	name string // violation class suffix
	flag string // "" = no sample_index option at all
	dst  string // default_sample_type of the profile
	want int    // the column the documentation says is selected
}

// The profile of this part has three sample types n, v, w. Selectors: by
// number, by type name, by the legacy inuse_ prefix, and no option at all
// (the profile's default sample type if it names a type, else the last one).
var selectors = []selector{
	{"number-0", "sample_index=0", "", 0},
	{"number-last", "sample_index=2", "v", 2},
	{"name-first", "sample_index=n", "w", 0},
	{"name-middle", "sample_index=v", "", 1},
	{"name-last", "sample_index=w", "n", 2},
	{"inuse-prefix", "sample_index=inuse_v", "", 1},
	{"default-last", "", "", 2},
	{"default-type-first", "", "n", 0},
	{"default-type-middle", "", "v", 1},
	{"default-type-unknown", "", "zzz", 2},
}

// selectorPart checks "for every sample_index": every selector form picks the
// documented column, on every single stack shape and every pair of shapes
// with at most 2 frames in total, with and without mean, in top and tree.
func selectorPart(c *vk.Ctx, sigma []enum.Kind, shapes []enum.Shape, depthOf func(enum.Shape) int, idx *int64) {
	third := [2]int64{7, -11}
	run := func(s1, s2 enum.Shape, v int) {
		a := Build(sigma, s1, s2, v)
		a.Types = append(a.Types, ap.VT{Type: "w", Unit: "count"})
		for i := range a.Stacks {
			a.Stacks[i].Values = append(a.Stacks[i].Values, third[i])
		}
		cs := Case{S1: s1.Tag(sigma), V: v}
		if s2 != nil {
			cs.S2 = s2.Tag(sigma)
		}
		for _, sel := range selectors {
			a.DefaultSampleType = sel.dst
			p := ap.Concretize(a, ap.Opts{})
			if err := p.CheckValid(); err != nil {
				c.Violation("harness/invalid-profile", cs, err.Error())
				return
			}
			data := map[string][]byte{"p": drive.Encode(p)}
			for _, mean := range []bool{false, true} {
				cfg := model.Cfg{Gran: "functions", SI: sel.want, Mean: mean}
				ref := model.Report(a, cfg)
				cs.Cfg = fmt.Sprintf("selector=%s flag=%q default_sample_type=%q mean=%v", sel.name, sel.flag, sel.dst, mean)
				fl := []string{"functions"}
				if sel.flag != "" {
					fl = append(fl, sel.flag)
				}
				if mean {
					fl = append(fl, "mean")
				}
				c.Eval()
				cs.Out = "top"
				r := drive.Report(data, []string{"p"}, append([]string{"top"}, fl...)...)
				if !checkRun(c, cs, r) {
					continue
				}
				if _, rows, ok := parse.Top(r.Out); ok {
					model.SortRows(rows)
					want := ref.Rows()
					if !reflect.DeepEqual(rows, want) && !(len(rows) == 0 && len(want) == 0) {
						c.Violationf("sample-index/"+sel.name, cs, "want (column %d) %v\n got %v\n%s", sel.want, want, rows, r.Out)
					}
				} else {
					c.Count("unparsed/top", 1)
				}
				c.Eval()
				cs.Out = "tree"
				r = drive.Report(data, []string{"p"}, append([]string{"tree"}, fl...)...)
				if !checkRun(c, cs, r) {
					continue
				}
				if _, nodes, ok := parse.Tree(r.Out); ok {
					checkTree(c, cs, a, cfg, ref, nodes, r.Out)
				} else {
					c.Count("unparsed/tree", 1)
				}
				c.Count("selector/"+sel.name, 1)
				if len(ref.Entries) >= 2 {
					c.Nontrivial("sel/" + cs.S1 + "/" + cs.S2 + cs.Cfg)
				}
			}
		}
	}
	for i := range shapes {
		if c.Mine(*idx) {
			run(shapes[i], nil, -1)
		}
		*idx++
	}
	for i := range shapes {
		for j := i; j < len(shapes); j++ {
			if depthOf(shapes[i])+depthOf(shapes[j]) > 2 {
				continue
			}
			if c.Mine(*idx) {
				run(shapes[i], shapes[j], 0)
			}
			*idx++
		}
	}
}
