// Package c04: report flat, cum and edge values equal their definition over
// samples, in every output form and for every option combination.
//
// Exhaustive enumeration of small profiles (all stack shapes over a 6-symbol
// frame alphabet up to a depth bound, all inline groupings, pairs of samples,
// a menu of value vectors) times the full product of the number-changing
// options, each run through the real driver; every output form is read back
// and compared with the reference model (model.Report).
package c04

import (
	"encoding/json"
	"fmt"
	"net/http"
	"net/url"
	"reflect"
	"regexp"
	"sort"
	"strings"

	"github.com/google/pprof/profile"

	"github.com/google/pprof/verifh/ap"
	"github.com/google/pprof/verifh/c18"
	"github.com/google/pprof/verifh/drive"
	"github.com/google/pprof/verifh/enum"
	"github.com/google/pprof/verifh/model"
	"github.com/google/pprof/verifh/parse"
	"github.com/google/pprof/verifh/reg"
	"github.com/google/pprof/verifh/vk"
)

func init() { reg.Register("C04", Run) }

// value vectors for (sample 1, sample 2); two sample types, the first one is
// the mean divisor.
var valuePairs = [][2][]int64{
	{{1, 3}, {2, -1}},  // mixed signs in type 1
	{{1, 3}, {-1, -3}}, // cancels to zero on shared entries
	{{0, 5}, {2, 2}},   // zero divisor on one sample
	{{2, 4}, {2, 4}},   // equal
	{{3, 0}, {2, 4}},   // selected value zero while the mean divisor is not
}

// Case is the generator coordinates of one profile.
type Case struct {
	S1, S2 string // shape tags
	V      int    // index into valuePairs; -1 = single sample
	Cfg    string `json:"cfg,omitempty"`
	Out    string `json:"out,omitempty"`
}

// Build constructs the abstract profile of a case.
// diffBase makes Build mark the second sample as a sample of a diff base.
var diffBase bool

// buildMaps are the binaries of the profiles Build makes (a family may swap them).
var buildMaps = enum.Maps2

func Build(sigma []enum.Kind, s1, s2 enum.Shape, v int) *ap.AP {
	a := &ap.AP{Types: []ap.VT{{Type: "n", Unit: "count"}, {Type: "v", Unit: "count"}}, Maps: buildMaps,
		PeriodType: &ap.VT{Type: "n", Unit: "count"}, Period: 1}
	if v < 0 {
		st := s1.Stack(sigma, []int64{1, 3})
		st.Labels = map[string][]string{"k": {"x"}}
		a.Stacks = []ap.Stack{st}
		return a
	}
	st1 := s1.Stack(sigma, valuePairs[v][0])
	st1.Labels = map[string][]string{"k": {"x"}}
	st2 := s2.Stack(sigma, valuePairs[v][1])
	st2.Labels = map[string][]string{"k": {"x", "y"}}
	if diffBase {
		st2.Labels["pprof::base"] = []string{"true"}
	}
	a.Stacks = []ap.Stack{st1, st2}
	return a
}

// Configs enumerates the full product of number-changing options.
func Configs() []model.Cfg {
	var out []model.Cfg
	for _, g := range []string{"functions", "filefunctions", "files", "lines", "addresses"} {
		for _, noinl := range []bool{false, true} {
			for _, cols := range []bool{false, true} {
				if cols && g != "lines" && g != "addresses" {
					continue // showcolumns only matters when line numbers are kept
				}
				for si := 0; si < 2; si++ {
					for _, mean := range []bool{false, true} {
						for _, tag := range [][2]string{{"", ""}, {"k", ""}, {"", "k"}} {
							out = append(out, model.Cfg{Gran: g, NoInlines: noinl, ShowCols: cols, SI: si, Mean: mean, TagRoot: tag[0], TagLeaf: tag[1]})
						}
					}
				}
			}
		}
	}
	return out
}

// Flags renders a configuration as command-line flags.
func Flags(c model.Cfg) []string {
	f := []string{c.Gran, fmt.Sprintf("sample_index=%d", c.SI)}
	if c.NoInlines {
		f = append(f, "noinlines")
	}
	if c.ShowCols {
		f = append(f, "showcolumns")
	}
	if c.Mean {
		f = append(f, "mean")
	}
	if c.CallTree {
		f = append(f, "call_tree")
	}
	if c.TagRoot != "" {
		f = append(f, "tagroot="+c.TagRoot)
	}
	if c.TagLeaf != "" {
		f = append(f, "tagleaf="+c.TagLeaf)
	}
	return f
}

// Run is the check.
func Run(c *vk.Ctx) {
	if !c.Thorough() {
		// quick: mixed signs, cancelling, zero divisor, zero selected value; thorough: all five
		valuePairs = [][2][]int64{valuePairs[0], valuePairs[1], valuePairs[2], valuePairs[4]}
	}
	sigma := enum.Sigma6
	shapes := enum.Shapes(sigma, 2)
	cfgs := Configs()
	depthOf := func(s enum.Shape) int {
		n := 0
		for _, g := range s {
			n += len(g)
		}
		return n
	}
	// quick: pairs of stacks with at most 3 frames in total; thorough: all pairs
	// of stacks of depth <= 2, plus every single stack of depth 3.
	maxSum := 3
	if c.Thorough() {
		maxSum = 4
	}
	c.Note(fmt.Sprintf("alphabet=%d kinds, shapes(depth<=2)=%d, pairs with total depth<=%d, configs=%d, value pairs=%d, output forms=10 (top tree peek dot dot+call_tree traces topproto callgrind callgrind+call_tree web/top)", len(sigma), len(shapes), maxSum, len(cfgs), len(valuePairs)))
	var idx int64
	selectorPart(c, sigma, shapes, depthOf, &idx)
	for i := range shapes {
		if c.Mine(idx) {
			checkProfile(c, sigma, shapes[i], nil, -1, cfgs)
		}
		idx++
	}
	for i := range shapes {
		for j := i; j < len(shapes); j++ {
			if depthOf(shapes[i])+depthOf(shapes[j]) > maxSum {
				continue
			}
			for v := range valuePairs {
				if c.Mine(idx) {
					if c.Expired() {
						c.Cap(fmt.Sprintf("time budget: stopped at profile index %d", idx))
						return
					}
					checkProfile(c, sigma, shapes[i], shapes[j], v, cfgs)
				}
				idx++
			}
		}
	}
	// diamonds: [x z] and [x y z] over a1 a2 b c - the smallest profiles in which an edge x->z coexists
	// with another path from x to z (the situation the redundant-edge removal of graphical reports acts on)
	for x := 0; x < 4; x++ {
		for y := 0; y < 4; y++ {
			for z := 0; z < 4; z++ {
				for v := 0; v < 2; v++ {
					if c.Mine(idx) {
						if c.Expired() {
							c.Cap(fmt.Sprintf("time budget: stopped at profile index %d", idx))
							return
						}
						checkProfile(c, sigma, enum.Shape{{x}, {z}}, enum.Shape{{x}, {y}, {z}}, v, cfgs)
						c.Count("family/diamond", 1)
					}
					idx++
				}
			}
		}
	}
	// binaries that do not declare what symbol information they carry (has_functions, has_inline_frames, ...
	// all unset, as in a profile symbolized by other means): every shape with an inlined frame, alone and
	// under a caller; the option product must give the same numbers as with the flags set
	{
		plain := make([]ap.Map, len(enum.Maps2))
		for i, m := range enum.Maps2 {
			plain[i] = ap.Map{Start: m.Start, Limit: m.Limit, File: m.File}
		}
		buildMaps = plain
		for _, sh := range shapes {
			inl := false
			for _, g := range sh {
				inl = inl || len(g) > 1
			}
			if !inl {
				continue
			}
			if c.Mine(idx) {
				checkProfile(c, sigma, sh, nil, -1, cfgs)
				checkProfile(c, sigma, enum.Shape{{2}}, sh, 0, cfgs)
				c.Count("family/undeclared-symbol-flags", 1)
			}
			idx++
		}
		buildMaps = enum.Maps2
	}
	// a difference against a base (-diff_base marks the base's samples with the label pprof::base=true): the
	// total, and with it every percentage, refers to the base samples alone - with mean, to their counts alone
	diffBase = true
	for i := range shapes {
		for j := i; j < len(shapes); j++ {
			if depthOf(shapes[i])+depthOf(shapes[j]) > 2 {
				continue
			}
			for v := 0; v < 3; v++ {
				if c.Mine(idx) {
					checkProfile(c, sigma, shapes[i], shapes[j], v, cfgs)
					c.Count("family/diff-base", 1)
				}
				idx++
			}
		}
	}
	diffBase = false
	// two functions of one name (overloads, template instantiations, same-named statics): kinds a1, a at
	// another start line (another function record, same name, system name and file) and b; the start line
	// is part of an entry's identity only where the format says so (callgrind)
	{
		sg := []enum.Kind{sigma[0], {Line: ap.Line{Func: "a", Sys: "a_sys", File: "f1.go", Start: 7, Line: 8}, Map: 0, Tag: "a@7"}, sigma[2]}
		shs := enum.Shapes(sg, 2)
		for i := range shs {
			uses := false
			for _, loc := range shs[i] {
				for _, k := range loc {
					uses = uses || k == 1
				}
			}
			if !uses {
				continue
			}
			if c.Mine(idx) {
				checkProfile(c, sg, shs[i], nil, -1, cfgs)
				c.Count("family/same-name-other-start-line", 1)
			}
			idx++
			for j := range shs {
				if depthOf(shs[i])+depthOf(shs[j]) > 3 {
					continue
				}
				if c.Mine(idx) {
					checkProfile(c, sg, shs[i], shs[j], 0, cfgs)
					c.Count("family/same-name-other-start-line", 1)
				}
				idx++
			}
		}
	}
	// deep recursion: every plain stack of 4 and 5 frames over a1 and b (the same adjacency, or the same
	// entry, several times in one sample: counted once per sample)
	for d := 4; d <= 5; d++ {
		for code := 0; code < 1<<d; code++ {
			var sh enum.Shape
			for i := 0; i < d; i++ {
				k := 0
				if code&(1<<i) != 0 {
					k = 2
				}
				sh = append(sh, []int{k})
			}
			if c.Mine(idx) {
				if c.Expired() {
					c.Cap(fmt.Sprintf("time budget: stopped at profile index %d", idx))
					return
				}
				checkProfile(c, sigma, sh, nil, -1, cfgs)
				c.Count("family/deep-recursion", 1)
			}
			idx++
		}
	}
	if c.Thorough() {
		for _, sh := range enum.Shapes(sigma, 3) {
			if depthOf(sh) != 3 {
				continue
			}
			if c.Mine(idx) {
				if c.Expired() {
					c.Cap(fmt.Sprintf("time budget: stopped at profile index %d", idx))
					return
				}
				checkProfile(c, sigma, sh, nil, -1, cfgs)
			}
			idx++
		}
	}
}

func checkProfile(c *vk.Ctx, sigma []enum.Kind, s1, s2 enum.Shape, v int, cfgs []model.Cfg) {
	a := Build(sigma, s1, s2, v)
	cs := Case{S1: s1.Tag(sigma), V: v}
	if s2 != nil {
		cs.S2 = s2.Tag(sigma)
	}
	p := ap.Concretize(a, ap.Opts{})
	if err := p.CheckValid(); err != nil {
		c.Violation("harness/invalid-profile", cs, err.Error())
		return
	}
	data := map[string][]byte{"p": drive.Encode(p)}
	if c.WantSample() {
		c.Sample(cs)
	}
	webH := drive.Web(data, []string{"p"}).Handlers
	for _, cfg := range cfgs {
		ref := model.Report(a, cfg)
		cs.Cfg = cfg.String()
		nontrivial := len(ref.Entries) >= 2 && len(ref.Edges) >= 1
		fl := Flags(cfg)

		// top
		c.Eval()
		cs.Out = "top"
		r := drive.Report(data, []string{"p"}, append([]string{"top"}, fl...)...)
		if !checkRun(c, cs, r) {
			continue
		}
		if legend, rows, ok := parse.Top(r.Out); ok {
			model.SortRows(rows)
			want := ref.Rows()
			if !reflect.DeepEqual(rows, want) && !(len(rows) == 0 && len(want) == 0) {
				c.Violationf("top/entries"+classSuffix(a, cfg), cs, "want %v\n got %v\n%s", want, rows, r.Out)
			}
			// the report total: the sum of absolute sample values (divided by the sum of counts with mean)
			if t, ok := legendTotal(legend); ok {
				if t != ref.Total {
					c.Violationf("top/total"+classSuffix(a, cfg), cs, "legend says %d total, the definition gives %d\n%s", t, ref.Total, r.Out)
				}
				c.Count("top/total-compared", 1)
			}
		} else {
			c.Count("unparsed/top", 1)
		}

		// tree
		c.Eval()
		cs.Out = "tree"
		r = drive.Report(data, []string{"p"}, append([]string{"tree"}, fl...)...)
		if !checkRun(c, cs, r) {
			continue
		}
		if _, nodes, ok := parse.Tree(r.Out); ok {
			checkTree(c, cs, a, cfg, ref, nodes, r.Out)
		} else {
			c.Count("unparsed/tree", 1)
		}
		// call_tree is for the graph renderings (dot, callgrind): the text forms show one entry per function
		// with or without it, so tree and peek print the same
		for _, form := range []string{"tree", "peek=.*"} {
			c.Eval()
			plain := drive.Report(data, []string{"p"}, append([]string{form}, fl...)...)
			withCT := drive.Report(data, []string{"p"}, append([]string{form, "call_tree"}, fl...)...)
			cs.Out = strings.SplitN(form, "=", 2)[0] + ",call_tree"
			if withCT.Panic != nil {
				c.Violationf("panic/"+cs.Out, cs, "panic: %v\n%s", withCT.Panic, withCT.Stack)
			} else if plain.Err == nil && withCT.Err == nil && string(plain.Out) != string(withCT.Out) {
				c.Violationf(cs.Out+"/differs-from-plain", cs, "with call_tree:\n%s\nwithout:\n%s", withCT.Out, plain.Out)
			}
		}
		checkOthers(c, cs, a, cfg, ref, data, fl)
		checkCallgrindAndWeb(c, cs, a, cfg, ref, data, webH)
		if nontrivial {
			c.Nontrivial(cs.S1 + "/" + cs.S2 + fmt.Sprint(cs.V) + cs.Cfg)
		}
	}
}

func classSuffix(a *ap.AP, cfg model.Cfg) string {
	s := ""
	if cfg.Mean {
		s += "/mean"
	}
	return s
}

func checkRun(c *vk.Ctx, cs Case, r *drive.Result) bool {
	if r.Panic != nil {
		c.Violationf("panic/"+cs.Out, cs, "panic: %v\n%s", r.Panic, r.Stack)
		return false
	}
	if r.Err != nil {
		c.Violationf("error/"+cs.Out, cs, "unexpected error: %v", r.Err)
		return false
	}
	return true
}

func checkTree(c *vk.Ctx, cs Case, a *ap.AP, cfg model.Cfg, ref *model.Rep, nodes []parse.TreeNode, out []byte) {
	var rows []model.Row
	shown := map[string]bool{}
	for _, n := range nodes {
		rows = append(rows, n.Row)
		shown[n.Row.Name] = true
	}
	model.SortRows(rows)
	want := ref.Rows()
	if !reflect.DeepEqual(rows, want) && !(len(rows) == 0 && len(want) == 0) {
		c.Violationf("tree/entries"+classSuffix(a, cfg), cs, "want %v\n got %v\n%s", want, rows, out)
		return
	}
	// Edges: every edge is printed twice (as callee of its source and as caller
	// of its destination); both must carry the reference weight. Edges to
	// entries that are not shown (all their weight cancels) are skipped.
	var outs, ins []model.ERow
	for _, n := range nodes {
		for _, e := range n.Out {
			if shown[e.Dst] {
				outs = append(outs, e)
			}
		}
		for _, e := range n.In {
			if shown[e.Src] {
				ins = append(ins, e)
			}
		}
	}
	model.SortERows(outs)
	model.SortERows(ins)
	wantE := ref.EdgeRows(false)
	// Printable names are not injective; if two reference entries share a name
	// the per-name edge attribution is ambiguous, so compare only when unique.
	names := map[string]int{}
	for _, n := range ref.AllNames {
		names[n]++
	}
	for _, n := range names {
		if n > 1 {
			c.Count("tree/ambiguous-names", 1)
			return
		}
	}
	if !eqERows(outs, wantE) {
		c.Violationf("tree/out-edges"+classSuffix(a, cfg), cs, "want %v\n got %v\n%s", wantE, outs, out)
	}
	if !eqERows(ins, wantE) {
		c.Violationf("tree/in-edges"+classSuffix(a, cfg), cs, "want %v\n got %v\n%s", wantE, ins, out)
	}
}

func eqERows(a, b []model.ERow) bool {
	if len(a) == 0 && len(b) == 0 {
		return true
	}
	return reflect.DeepEqual(a, b)
}

// checkOthers observes the remaining output forms: peek, dot (graph and call
// tree), traces, topproto.
func checkOthers(c *vk.Ctx, cs Case, a *ap.AP, cfg model.Cfg, ref *model.Rep, data map[string][]byte, fl []string) {
	want := ref.Rows()

	// peek with a regexp matching every entry: same layout as tree
	c.Eval()
	cs.Out = "peek"
	r := drive.Report(data, []string{"p"}, append([]string{"peek=.*"}, fl...)...)
	if r.Panic != nil {
		c.Violationf("panic/peek", cs, "panic: %v\n%s", r.Panic, r.Stack)
	} else if r.Err == nil {
		if _, nodes, ok := parse.Tree(r.Out); ok {
			checkTree(c, cs, a, cfg, ref, nodes, r.Out)
		} else {
			c.Count("unparsed/peek", 1)
		}
	} else if len(want) > 0 {
		c.Violationf("error/peek", cs, "unexpected error: %v", r.Err)
	}

	// dot, graph mode and call-tree mode
	for _, tree := range []bool{false, true} {
		c.Eval()
		cfg2 := cfg
		cfg2.CallTree = tree
		ref2 := ref
		cs.Out = "dot"
		if tree {
			ref2 = model.Report(a, cfg2)
			cs.Out = "dot,call_tree"
		}
		r = drive.Report(data, []string{"p"}, append([]string{"dot"}, Flags(cfg2)...)...)
		if !checkRun(c, cs, r) {
			continue
		}
		g, ok := parse.Dot(r.Out)
		if !ok {
			if c.Counter("unparsed/dot") == 0 {
				c.Note("first unparsed dot: " + string(r.Out))
			}
			c.Count("unparsed/dot", 1)
			continue
		}
		rows := append([]model.Row(nil), g.Rows...)
		model.SortRows(rows)
		want2 := ref2.Rows()
		if !reflect.DeepEqual(rows, want2) && !(len(rows) == 0 && len(want2) == 0) {
			c.Violationf(cs.Out+"/entries"+classSuffix(a, cfg), cs, "want %v\n got %v\n%s", want2, rows, r.Out)
			continue
		}
		// Edges: the shown edges are exactly the reference edges with the same weights: the totals
		// of these profiles are so small that both cutoffs are 0 (nothing is trimmed), and only
		// residual edges - there are none in an untrimmed report - may be dropped as redundant.
		wantE := map[model.ERow]int{}
		for _, e := range ref2.EdgeRows(false) {
			wantE[e]++
		}
		for i, e := range g.Edges {
			if g.Residual[i] {
				c.Violationf(cs.Out+"/residual-in-untrimmed", cs, "edge %v marked residual in an untrimmed report\n%s", e, r.Out)
				continue
			}
			if wantE[e] == 0 {
				c.Violationf(cs.Out+"/edges"+classSuffix(a, cfg), cs, "edge %v not in reference %v\n%s", e, ref2.EdgeRows(false), r.Out)
				break
			}
			wantE[e]--
		}
		for e, n := range wantE {
			if n > 0 {
				c.Violationf(cs.Out+"/edge-missing"+classSuffix(a, cfg), cs, "edge %v of the reference %v is not shown\n%s", e, ref2.EdgeRows(false), r.Out)
				break
			}
		}
	}

	// traces: one value per sample with frames, in order (granularity-independent)
	c.Eval()
	cs.Out = "traces"
	r = drive.Report(data, []string{"p"}, append([]string{"traces"}, fl...)...)
	if checkRun(c, cs, r) {
		if vals, _, ok := parse.Traces(r.Out); ok {
			if !reflect.DeepEqual(vals, ref.Traces) && !(len(vals) == 0 && len(ref.Traces) == 0) {
				c.Violationf("traces/values"+classSuffix(a, cfg), cs, "want %v got %v\n%s", ref.Traces, vals, r.Out)
			}
		} else {
			c.Count("unparsed/traces", 1)
		}
	}

	// topproto: a profile with one sample per entry, values (cum, flat)
	c.Eval()
	cs.Out = "topproto"
	r = drive.Report(data, []string{"p"}, append([]string{"topproto"}, fl...)...)
	if checkRun(c, cs, r) {
		tp, err := profile.ParseData(r.Out)
		if err != nil {
			c.Violationf("topproto/unparsable", cs, "%v", err)
			return
		}
		var got, wantFC [][2]int64
		for _, s := range tp.Sample {
			if len(s.Value) != 2 {
				c.Violationf("topproto/shape", cs, "sample with %d values", len(s.Value))
				return
			}
			got = append(got, [2]int64{s.Value[1], s.Value[0]})
		}
		for _, w := range want {
			wantFC = append(wantFC, [2]int64{w.Flat, w.Cum})
		}
		sortFC(got)
		sortFC(wantFC)
		if !reflect.DeepEqual(got, wantFC) && !(len(got) == 0 && len(wantFC) == 0) {
			c.Violationf("topproto/entries"+classSuffix(a, cfg), cs, "want (flat,cum) %v got %v", wantFC, got)
		}
	}
}

// checkCallgrindAndWeb observes the callgrind report (graph and call-tree mode)
// through C18's independent reader, and the web UI's /top page.
func checkCallgrindAndWeb(c *vk.Ctx, cs Case, a *ap.AP, cfg model.Cfg, ref *model.Rep, data map[string][]byte, h map[string]http.Handler) {
	// callgrind forces granularity "addresses" and keeps the binary in the identity
	for _, tree := range []bool{false, true} {
		c.Eval()
		cg := cfg
		cg.Gran, cg.ObjNames, cg.CallTree = "addresses", true, tree
		rr := model.Report(a, cg)
		cs.Out = "callgrind"
		if tree {
			cs.Out = "callgrind,call_tree"
		}
		fl := Flags(cg)
		r := drive.Report(data, []string{"p"}, append([]string{"callgrind"}, fl[1:]...)...) // fl[0] is the granularity flag
		if !checkRun(c, cs, r) {
			continue
		}
		flats, edges, ok := c18.ReadCallgrindNumbers(r.Out)
		if !ok {
			c.Count("unparsed/callgrind", 1)
			continue
		}
		type frow struct {
			fn, fl   string
			addr, ln uint64
			cost     int64
		}
		var got, want []frow
		for _, f := range flats {
			got = append(got, frow{f.Fn, f.Fl, f.Addr, f.Line, f.Cost})
		}
		for _, e := range rr.Entries {
			want = append(want, frow{e.Key.Name, e.Key.File, e.Key.Addr, uint64(e.Key.Line), e.FlatValue()})
		}
		less := func(x []frow) func(i, j int) bool {
			return func(i, j int) bool { return fmt.Sprint(x[i]) < fmt.Sprint(x[j]) }
		}
		sort.Slice(got, less(got))
		sort.Slice(want, less(want))
		if !reflect.DeepEqual(got, want) && !(len(got) == 0 && len(want) == 0) {
			c.Violationf(cs.Out+"/entries"+classSuffix(a, cfg), cs, "want (fn file addr line flat) %v\n got %v\n%s", want, got, r.Out)
			continue
		}
		type erow struct {
			fn, cfn string
			w       int64
		}
		var ge, we []erow
		for _, e := range edges {
			cfn := e.Cfn
			if m := cgSuffixRE.FindStringSubmatch(cfn); m != nil {
				cfn = m[1] // " [i/n]" disambiguates call-tree nodes that share (file, function)
			}
			ge = append(ge, erow{e.Fn, cfn, e.Cost})
		}
		for _, e := range rr.Edges {
			we = append(we, erow{e.Src.Name, e.Dst.Name, e.Value()})
		}
		lessE := func(x []erow) func(i, j int) bool {
			return func(i, j int) bool { return fmt.Sprint(x[i]) < fmt.Sprint(x[j]) }
		}
		sort.Slice(ge, lessE(ge))
		sort.Slice(we, lessE(we))
		if !reflect.DeepEqual(ge, we) && !(len(ge) == 0 && len(we) == 0) {
			c.Violationf(cs.Out+"/edges"+classSuffix(a, cfg), cs, "want (caller callee weight) %v\n got %v\n%s", we, ge, r.Out)
		}
	}
	// web /top: entries embedded as JSON in the page
	if h != nil {
		c.Eval()
		cs.Out = "web/top"
		q := url.Values{}
		q.Set("g", cfg.Gran)
		q.Set("si", fmt.Sprint(cfg.SI))
		if cfg.NoInlines {
			q.Set("noinlines", "t")
		}
		if cfg.ShowCols {
			q.Set("showcolumns", "t")
		}
		if cfg.Mean {
			q.Set("mean", "t")
		}
		if cfg.TagRoot != "" {
			q.Set("tagroot", cfg.TagRoot)
		}
		if cfg.TagLeaf != "" {
			q.Set("tagleaf", cfg.TagLeaf)
		}
		q.Set("nf", "0")
		q.Set("ef", "0")
		code, body, pan := drive.Get(h, "GET", "/top?"+q.Encode())
		if pan != nil {
			c.Violationf("panic/web-top", cs, "%v", pan)
			return
		}
		if code != 200 {
			c.Violationf("error/web-top", cs, "status %d: %.200s", code, body)
			return
		}
		rows, ok := webTopRows(body)
		if !ok {
			c.Count("unparsed/web-top", 1)
			return
		}
		model.SortRows(rows)
		want := ref.Rows()
		if !reflect.DeepEqual(rows, want) && !(len(rows) == 0 && len(want) == 0) {
			c.Violationf("web-top/entries"+classSuffix(a, cfg), cs, "want %v\n got %v", want, rows)
		}
	}
}

var cgSuffixRE = regexp.MustCompile(`^(.*?) ?\[\d+/\d+\]$`)

// webTopRows extracts the entries the /top page hands to its table builder.
func webTopRows(body []byte) ([]model.Row, bool) {
	s := string(body)
	i := strings.Index(s, "makeTopTable(")
	if i < 0 {
		return nil, false
	}
	s = s[i+len("makeTopTable("):]
	// skip the definition "function makeTopTable(total, entries)"
	if strings.HasPrefix(s, "total,") {
		j := strings.Index(s, "makeTopTable(")
		if j < 0 {
			return nil, false
		}
		s = s[j+len("makeTopTable("):]
	}
	k := strings.Index(s, ",")
	e := strings.Index(s, ");")
	if k < 0 || e < k {
		return nil, false
	}
	var items []struct {
		Name      string
		Flat, Cum int64
	}
	if err := json.Unmarshal([]byte(strings.TrimSpace(s[k+1:e])), &items); err != nil {
		return nil, false
	}
	var rows []model.Row
	for _, it := range items {
		rows = append(rows, model.Row{Name: it.Name, Flat: it.Flat, Cum: it.Cum})
	}
	return rows, true
}

func sortFC(x [][2]int64) {
	sort.Slice(x, func(i, j int) bool {
		if x[i][0] != x[j][0] {
			return x[i][0] < x[j][0]
		}
		return x[i][1] < x[j][1]
	})
}

// legendTotal reads "... of N total" from the legend of a text report.
func legendTotal(legend []string) (int64, bool) {
	for _, l := range legend {
		if i := strings.Index(l, "% of "); i >= 0 {
			f := strings.Fields(l[i+5:])
			if len(f) >= 2 && f[1] == "total" {
				var v int64
				if _, err := fmt.Sscan(f[0], &v); err == nil && fmt.Sprint(v) == f[0] {
					return v, true
				}
			}
		}
	}
	return 0, false
}
