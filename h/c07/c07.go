// Package c07: combining and subtracting profiles is linear in every entry.
//
// Tuples of small profiles x sample-type variants (same, permuted, other unit of
// the same family, partially overlapping, superset) x {plain, -base, -diff_base}
// x {-normalize} run through the real driver. Oracle, decomposed so that no
// report text is needed for the core clause: (i) the combined profile written
// with -proto, abstracted, equals the entry-wise sum / difference of the inputs'
// abstract profiles after exact conversion to the finest unit, aligned by type
// name in the first profile's order; (ii) -top per sample type equals the
// reference report (C04's model) of that combined abstract profile; (iii)
// p - p is empty; (iv) -diff_base totals are relative to the base, and the saved
// -proto result reopened gives the same report; (v) -normalize scales the source
// totals to the base totals.
package c07

import (
	"fmt"
	"math"
	"reflect"
	"sort"
	"strings"

	"github.com/google/pprof/profile"
	"github.com/google/pprof/verifh/ap"
	"github.com/google/pprof/verifh/drive"
	"github.com/google/pprof/verifh/enum"
	"github.com/google/pprof/verifh/model"
	"github.com/google/pprof/verifh/parse"
	"github.com/google/pprof/verifh/reg"
	"github.com/google/pprof/verifh/vk"
)

func init() { reg.Register("C07", Run) }

// unit factors relative to the finest unit of the family
var unitFactor = map[string]int64{"count": 1, "us": 1, "ms": 1000, "s": 1000000, "bytes": 1, "kb": 1024}
var unitFamily = map[string]string{"count": "count", "us": "time", "ms": "time", "s": "time", "bytes": "mem", "kb": "mem"}

// type variants: lists of (type, unit); values are given for the canonical
// columns n (count), t (time), x (memory) and mapped to the variant's columns.
type tv struct {
	name  string
	types []ap.VT
}

var typeVariants = []tv{
	{"n,t-ms", []ap.VT{{Type: "n", Unit: "count"}, {Type: "t", Unit: "ms"}}},
	{"t-ms,n", []ap.VT{{Type: "t", Unit: "ms"}, {Type: "n", Unit: "count"}}},
	{"n,t-us", []ap.VT{{Type: "n", Unit: "count"}, {Type: "t", Unit: "us"}}},
	{"n,t-s", []ap.VT{{Type: "n", Unit: "count"}, {Type: "t", Unit: "s"}}},
	{"t-ms,x-kb", []ap.VT{{Type: "t", Unit: "ms"}, {Type: "x", Unit: "kb"}}},
	{"n,t-ms,x-bytes", []ap.VT{{Type: "n", Unit: "count"}, {Type: "t", Unit: "ms"}, {Type: "x", Unit: "bytes"}}},
}

// stack sets (shape tags over enum.Sigma6) and value patterns per stack: (n, t, x)
var stackSets = [][]enum.Shape{
	{{{0}, {2}}},             // a1|b
	{{{0}, {2}}, {{3}}},      // a1|b ; c
	{{{5}}, {{0, 1}}},        // u ; a1+a2
	{{{0}, {2}}, {{0}, {3}}}, // a1|b ; a1|c
}

var valuePatterns = [][][3]int64{
	{{5, 0, 3}, {0, 7, 0}},
	{{2, 3, 1}, {1, 1, 1}},
	{{1, 0, 0}, {4, 2, 9}},
}

// P describes one input profile.
type P struct {
	Set, Val, TV int
}

func (p P) String() string {
	return fmt.Sprintf("stacks#%d/values#%d/%s", p.Set, p.Val, typeVariants[p.TV].name)
}

func colOf(t string) int { return map[string]int{"n": 0, "t": 1, "x": 2}[t] }

// customSets (Set >= 100): profiles without addresses and mappings (converter output) whose first
// function differs although everything a profile-local identity could be built from coincides:
// function number 1, line 10, address 0.
var customSets = map[int][]ap.Stack{
	100: {{Locs: []ap.Loc{{Addr: 0, Map: -1, Lines: []ap.Line{{Func: "foo", Sys: "foo", File: "x.go", Start: 1, Line: 10}}}}}},
	101: {{Locs: []ap.Loc{{Addr: 0, Map: -1, Lines: []ap.Line{{Func: "bar", Sys: "bar", File: "x.go", Start: 1, Line: 10}}}}}},
}

// relocated (Set 102): stack set 3 (a1|b ; a1|c) of the same two binaries loaded 1 MiB higher (ASLR):
// the same entries, so sums and differences with the other sets must come out entry by entry.
const relocatedSet, relocation = 102, 0x100000

func build(p P) *ap.AP {
	v := typeVariants[p.TV]
	a := &ap.AP{Types: v.types, Maps: enum.Maps2, Period: 1, PeriodType: &ap.VT{Type: "n", Unit: "count"}}
	if p.Set == relocatedSet {
		q := p
		q.Set = 3
		a = build(q)
		a.Maps = append([]ap.Map{}, a.Maps...)
		for i := range a.Maps {
			a.Maps[i].Start += relocation
			a.Maps[i].Limit += relocation
		}
		for i := range a.Stacks {
			a.Stacks[i] = a.Stacks[i].Clone()
			for j := range a.Stacks[i].Locs {
				a.Stacks[i].Locs[j].Addr += relocation
			}
		}
		return a
	}
	if cs, ok := customSets[p.Set]; ok {
		for i, st := range cs {
			pat := valuePatterns[p.Val][i%len(valuePatterns[p.Val])]
			st = st.Clone()
			st.Values = make([]int64, len(v.types))
			for j, t := range v.types {
				st.Values[j] = pat[colOf(t.Type)]
			}
			a.Stacks = append(a.Stacks, st)
		}
		return a
	}
	for i, sh := range stackSets[p.Set] {
		pat := valuePatterns[p.Val][i%len(valuePatterns[p.Val])]
		vals := make([]int64, len(v.types))
		for j, t := range v.types {
			vals[j] = pat[colOf(t.Type)]
		}
		a.Stacks = append(a.Stacks, sh.Stack(enum.Sigma6, vals))
	}
	return a
}

// group result: per stack key the values in the group's common types at the finest unit
type combined struct {
	types  []ap.VT
	stacks map[string][]int64
	locs   map[string][]ap.Loc
	order  []string
}

// stackKey identifies a stack by what its frames are: the binary (file name) and the address relative to
// the start of its mapping - not the absolute address, which differs between runs of one binary.
func stackKey(a *ap.AP, s *ap.Stack) string {
	var b strings.Builder
	for _, l := range s.Locs {
		if l.Map >= 0 && l.Map < len(a.Maps) {
			fmt.Fprintf(&b, "%s+%x[", a.Maps[l.Map].File, l.Addr-a.Maps[l.Map].Start)
		} else {
			fmt.Fprintf(&b, "%x/-[", l.Addr)
		}
		for _, ln := range l.Lines {
			fmt.Fprintf(&b, "%s:%s:%d;", ln.Func, ln.File, ln.Line)
		}
		b.WriteString("]")
	}
	return b.String()
}

// combine computes the reference combination of the profiles with the given signs.
// ok=false when the documented preconditions do not hold (no common type).
func combine(aps []*ap.AP, signs []int64) (*combined, bool) {
	count := map[string]int{}
	for _, a := range aps {
		for _, t := range a.Types {
			count[t.Type]++
		}
	}
	c := &combined{stacks: map[string][]int64{}, locs: map[string][]ap.Loc{}}
	for _, t := range aps[0].Types {
		if count[t.Type] != len(aps) {
			continue
		}
		// finest unit of this type over all profiles
		best := t.Unit
		for _, a := range aps {
			for _, u := range a.Types {
				if u.Type == t.Type && unitFactor[u.Unit] < unitFactor[best] {
					best = u.Unit
				}
			}
		}
		c.types = append(c.types, ap.VT{Type: t.Type, Unit: best})
	}
	if len(c.types) == 0 {
		return nil, false
	}
	for pi, a := range aps {
		col := make([]int, len(c.types))
		fac := make([]int64, len(c.types))
		for j, ct := range c.types {
			for k, t := range a.Types {
				if t.Type == ct.Type {
					col[j] = k
					fac[j] = unitFactor[t.Unit] / unitFactor[ct.Unit]
				}
			}
		}
		for si := range a.Stacks {
			s := &a.Stacks[si]
			k := stackKey(a, s)
			if _, ok := c.stacks[k]; !ok {
				c.stacks[k] = make([]int64, len(c.types))
				// kept in the address space of the canonical binaries (asAP uses enum.Maps2)
				locs := append([]ap.Loc(nil), s.Locs...)
				for i, l := range locs {
					if l.Map >= 0 && l.Map < len(a.Maps) && l.Map < len(enum.Maps2) {
						locs[i].Addr = l.Addr - a.Maps[l.Map].Start + enum.Maps2[l.Map].Start
					}
				}
				c.locs[k] = locs
				c.order = append(c.order, k)
			}
			for j := range c.types {
				c.stacks[k][j] += signs[pi] * s.Values[col[j]] * fac[j]
			}
		}
	}
	return c, true
}

// asAP renders the combination as an abstract profile (zero stacks dropped).
func (c *combined) asAP() *ap.AP {
	a := &ap.AP{Types: c.types, Maps: enum.Maps2}
	for _, k := range c.order {
		v := c.stacks[k]
		zero := true
		for _, x := range v {
			if x != 0 {
				zero = false
			}
		}
		if zero {
			continue
		}
		a.Stacks = append(a.Stacks, ap.Stack{Locs: c.locs[k], Values: v})
	}
	return a
}

type witness struct {
	Sources []string `json:"sources"`
	Bases   []string `json:"bases,omitempty"`
	Mode    string   `json:"mode"`
	SI      string   `json:"sample_index,omitempty"`
}

// Run is the check.
func Run(c *vk.Ctx) {
	var all []P
	for s := range stackSets {
		for v := range valuePatterns {
			for t := range typeVariants {
				all = append(all, P{s, v, t})
			}
		}
	}
	all = append(all, P{100, 1, 0}, P{101, 1, 0}, P{101, 2, 2}, P{relocatedSet, 1, 0}, P{relocatedSet, 0, 2})
	data := map[string][]byte{}
	aps := map[string]*ap.AP{}
	for _, p := range all {
		a := build(p)
		aps[p.String()] = a
		data[p.String()] = drive.Encode(ap.Concretize(a, ap.Opts{}))
	}
	c.Note(fmt.Sprintf("%d input profiles = %d stack sets x %d value patterns x %d type/unit variants; 2 sources plain, 1 source x 1 base x {base, diff_base} x {normalize}; thorough adds 3 sources and 2 sources x 1 base", len(all), len(stackSets), len(valuePatterns), len(typeVariants)))
	var idx int64
	// two sources, plain
	for _, p1 := range all {
		for _, p2 := range all {
			if c.Mine(idx) {
				checkCase(c, data, aps, []P{p1, p2}, nil, "plain", false)
			}
			idx++
		}
	}
	// one source, one base
	for _, p1 := range all {
		for _, p2 := range all {
			for _, mode := range []string{"base", "diff_base"} {
				for _, norm := range []bool{false, true} {
					if c.Mine(idx) {
						if c.Expired() {
							c.Cap("time budget")
							return
						}
						checkCase(c, data, aps, []P{p1}, []P{p2}, mode, norm)
					}
					idx++
				}
			}
		}
	}
	// three sources whose time column is in three different units, every order (both tiers)
	{
		var tri []P
		for _, tvi := range []int{0, 2, 3} { // t in ms, us, s
			tri = append(tri, P{Set: 1, Val: 1, TV: tvi}, P{Set: 3, Val: 0, TV: tvi})
		}
		for _, p1 := range tri {
			for _, p2 := range tri {
				for _, p3 := range tri {
					if p1.TV == p2.TV || p2.TV == p3.TV || p1.TV == p3.TV {
						continue
					}
					if c.Mine(idx) {
						checkCase(c, data, aps, []P{p1, p2, p3}, nil, "plain", false)
						checkCase(c, data, aps, []P{p1}, []P{p2, p3}, "base", false)
					}
					idx++
				}
			}
		}
	}
	if c.Thorough() {
		// three sources; two sources and a base: type variants 0..3 and stack sets 0..1 to bound the product
		var sub []P
		for _, p := range all {
			if p.Set < 2 && p.Val < 2 {
				sub = append(sub, p)
			}
		}
		for _, p1 := range sub {
			for _, p2 := range sub {
				for _, p3 := range sub {
					if c.Mine(idx) {
						if c.Expired() {
							c.Cap("time budget")
							return
						}
						checkCase(c, data, aps, []P{p1, p2, p3}, nil, "plain", false)
						checkCase(c, data, aps, []P{p1, p2}, []P{p3}, "diff_base", false)
					}
					idx++
				}
			}
		}
	}
}

func names(ps []P) []string {
	var s []string
	for _, p := range ps {
		s = append(s, p.String())
	}
	return s
}

func checkCase(c *vk.Ctx, data map[string][]byte, aps map[string]*ap.AP, srcs, bases []P, mode string, normalize bool) {
	w := witness{Sources: names(srcs), Bases: names(bases), Mode: mode}
	if normalize {
		w.Mode += "+normalize"
	}
	// reference: sources group, then bases group, then their difference
	var sa []*ap.AP
	for _, p := range srcs {
		sa = append(sa, aps[p.String()])
	}
	ones := func(n int, v int64) []int64 {
		o := make([]int64, n)
		for i := range o {
			o[i] = v
		}
		return o
	}
	srcC, ok := combine(sa, ones(len(sa), 1))
	if !ok {
		return // no common sample type: an error is the documented outcome
	}
	ref := srcC
	var baseC *combined
	if len(bases) > 0 {
		var ba []*ap.AP
		for _, p := range bases {
			ba = append(ba, aps[p.String()])
		}
		baseC, ok = combine(ba, ones(len(ba), 1))
		if !ok {
			return
		}
		ref, ok = combine([]*ap.AP{srcC.asAPAll(), baseC.asAPAll()}, []int64{1, -1})
		if !ok {
			return
		}
	}
	flags := []string{}
	for _, b := range bases {
		flags = append(flags, mode+"="+b.String())
	}
	if normalize {
		flags = append(flags, "normalize")
	}
	args := names(srcs)
	c.Eval()
	r := drive.Report(data, args, append([]string{"proto"}, flags...)...)
	if r.Panic != nil {
		c.Violationf("panic", w, "%v\n%s", r.Panic, r.Stack)
		return
	}
	if r.Err != nil {
		c.Violationf("error/compatible-profiles-rejected", w, "%v", r.Err)
		return
	}
	p, err := profile.ParseData(r.Out)
	if err != nil {
		c.Violationf("proto/unparsable", w, "%v", err)
		return
	}
	got := ap.Abstract(p)
	// types aligned to the first profile's order, finest unit
	if !reflect.DeepEqual(got.Types, ref.types) {
		c.Violationf("types/alignment-or-unit", w, "want %v got %v", ref.types, got.Types)
		return
	}
	gotSum := map[string][]int64{}
	for i := range got.Stacks {
		s := &got.Stacks[i]
		k := stackKey(got, s)
		if gotSum[k] == nil {
			gotSum[k] = make([]int64, len(got.Types))
		}
		for j, v := range s.Values {
			gotSum[k][j] += v
		}
	}
	nontrivial := len(srcs)+len(bases) >= 2
	if !normalize {
		want := map[string][]int64{}
		for k, v := range ref.stacks {
			want[k] = v
		}
		if msg := diffSums(want, gotSum); msg != "" {
			cls := "linear/" + mode
			if mixedUnits(srcs, bases) {
				cls += "/mixed-units"
			}
			c.Violationf(cls, w, "%s", msg)
			return
		}
		// self subtraction
		if len(bases) == 1 && len(srcs) == 1 && srcs[0] == bases[0] && mode == "base" && len(got.Stacks) != 0 {
			c.Violationf("self-subtraction/not-empty", w, "p - p has %d samples", len(got.Stacks))
		}
		// (ii) -top per sample type equals the reference report of the combined profile
		refAP := ref.asAP()
		for si, t := range ref.types {
			c.Eval()
			w.SI = t.Type
			rt := drive.Report(data, args, append([]string{"top", "nodefraction=0", "nodecount=0", "sample_index=" + t.Type, "unit=" + t.Unit}, flags...)...)
			if rt.Panic != nil {
				c.Violationf("panic", w, "%v\n%s", rt.Panic, rt.Stack)
				continue
			}
			if rt.Err != nil {
				c.Violationf("error/top", w, "%v", rt.Err)
				continue
			}
			legend, rows, okp := parse.Top(stripUnits(rt.Out, t.Unit))
			if !okp {
				c.Count("unparsed/top", 1)
				continue
			}
			model.SortRows(rows)
			wantRows := model.Report(refAP, model.Cfg{Gran: "functions", SI: si}).Rows()
			if !reflect.DeepEqual(rows, wantRows) && !(len(rows) == 0 && len(wantRows) == 0) {
				c.Violationf("report/"+mode, w, "-top -sample_index=%s: want %v got %v", t.Type, wantRows, rows)
			}
			if mode == "diff_base" {
				// percentages are relative to the base total
				var bt int64
				bcol := -1
				for j, bt2 := range baseC.types {
					if bt2.Type == t.Type {
						bcol = j
					}
				}
				if bcol >= 0 {
					f := unitFactor[baseC.types[bcol].Unit] / unitFactor[t.Unit]
					for _, v := range baseC.stacks {
						x := v[bcol] * f
						if x < 0 {
							x = -x
						}
						bt += x
					}
					if tot, okt := legendTotal(legend); okt && bt > 0 && tot != bt {
						c.Violationf("diff_base/total-not-base-total", w, "legend total %d, base total %d (%v)", tot, bt, legend)
					}
				}
				// reopen the saved proto: same report
				c.Eval()
				d2 := map[string][]byte{"saved": r.Out}
				r2 := drive.Report(d2, []string{"saved"}, "top", "nodefraction=0", "nodecount=0", "sample_index="+t.Type, "unit="+t.Unit)
				if r2.Err == nil && r2.Panic == nil && string(r2.Out) != string(rt.Out) {
					c.Violationf("diff_base/reopened-proto-differs", w, "%s", firstDiff(string(rt.Out), string(r2.Out)))
				}
			}
		}
		w.SI = ""
	} else {
		// normalize: per common type, |total(scaled source) - total(base)| <= number of source samples / 2 + 1,
		// observed on the combined profile: total(result) = total(scaled source) - total(base)
		for j, t := range ref.types {
			var resTot int64
			for _, v := range gotSum {
				resTot += v[j]
			}
			var srcTot int64
			nsrc := 0
			for _, v := range srcC.stacks {
				_ = v
				nsrc++
			}
			for jj, st := range srcC.types {
				if st.Type == t.Type {
					for _, v := range srcC.stacks {
						srcTot += v[jj]
					}
				}
			}
			if srcTot == 0 {
				// The source has nothing in this column (all its values are zero by
				// construction of the inputs): there is nothing to scale, and the result
				// must be minus the base.
				var baseTot int64
				for jj, bt := range baseC.types {
					if bt.Type == t.Type {
						f := unitFactor[bt.Unit] / unitFactor[t.Unit]
						for _, v := range baseC.stacks {
							baseTot += v[jj] * f
						}
					}
				}
				if resTot != -baseTot {
					c.Violationf("normalize/zero-source-column", w, "type %s: the source total is 0, the base total %d, but the result total is %d (expected %d)", t.Type, baseTot, resTot, -baseTot)
				}
				continue
			}
			lim := int64(nsrc)/2 + 1
			if resTot > lim || resTot < -lim {
				cls := "normalize/totals-differ"
				// Known finding F4: Profile.ScaleN (used by Normalize) keeps a sample only if
				// one of its *rescaled* columns is non-zero. Attribute the failure to it only
				// if the whole result equals the reference normalisation with that defect built in.
				if dm := normalizeModel(srcC, baseC, true); dm != nil && diffSums(dm, gotSum) == "" {
					cls = "normalize/totals-differ/sample-dropped-by-ScaleN"
				}
				c.Violationf(cls, w, "type %s: total after -normalize and subtraction is %d, expected within +-%d of 0", t.Type, resTot, lim)
			}
		}
	}
	if nontrivial {
		c.Nontrivial(strings.Join(w.Sources, "+") + "-" + strings.Join(w.Bases, "+") + w.Mode)
	}
	if c.WantSample() {
		c.Sample(w)
	}
}

// asAPAll renders the combination including zero stacks (for a further combine).
func (c *combined) asAPAll() *ap.AP {
	a := &ap.AP{Types: c.types, Maps: enum.Maps2}
	for _, k := range c.order {
		a.Stacks = append(a.Stacks, ap.Stack{Locs: c.locs[k], Values: c.stacks[k]})
	}
	return a
}

func mixedUnits(srcs, bases []P) bool {
	units := map[string]string{}
	for _, p := range append(append([]P{}, srcs...), bases...) {
		for _, t := range typeVariants[p.TV].types {
			if u, ok := units[t.Type]; ok && u != t.Unit {
				return true
			}
			units[t.Type] = t.Unit
		}
	}
	return false
}

func zeroColumn(ps []P) bool {
	for _, p := range ps {
		for _, pat := range valuePatterns[p.Val] {
			for _, v := range pat {
				if v == 0 {
					return true
				}
			}
		}
	}
	return false
}

func diffSums(want, got map[string][]int64) string {
	keys := map[string]bool{}
	for k := range want {
		keys[k] = true
	}
	for k := range got {
		keys[k] = true
	}
	var ks []string
	for k := range keys {
		ks = append(ks, k)
	}
	sort.Strings(ks)
	for _, k := range ks {
		w, g := want[k], got[k]
		if isZero(w) && isZero(g) {
			continue
		}
		if !reflect.DeepEqual(w, g) {
			return fmt.Sprintf("stack %s: want %v got %v", k, w, g)
		}
	}
	return ""
}

func isZero(v []int64) bool {
	for _, x := range v {
		if x != 0 {
			return false
		}
	}
	return true
}

// stripUnits removes the unit suffix pprof appends to values so that the
// integer reader of parse.Top applies (the unit is fixed by -unit=<finest>).
func stripUnits(b []byte, unit string) []byte {
	suffix := map[string]string{"us": "us", "ms": "ms", "s": "s", "bytes": "B", "kb": "kB", "count": ""}[unit]
	if suffix == "" {
		return b
	}
	lines := strings.Split(string(b), "\n")
	for i, l := range lines {
		f := strings.Fields(l)
		if len(f) >= 6 && strings.HasSuffix(f[1], "%") {
			f[0] = strings.TrimSuffix(f[0], suffix)
			f[3] = strings.TrimSuffix(f[3], suffix)
			lines[i] = strings.Join(f, " ")
		}
	}
	return []byte(strings.Join(lines, "\n"))
}

func legendTotal(legend []string) (int64, bool) {
	for _, l := range legend {
		if i := strings.Index(l, "% of "); i >= 0 {
			f := strings.Fields(l[i+5:])
			if len(f) >= 2 && f[1] == "total" {
				var v int64
				s := strings.TrimRight(f[0], "abcdefghijklmnopqrstuvwxyzBk")
				if _, err := fmt.Sscan(s, &v); err == nil {
					return v, true
				}
			}
		}
	}
	return 0, false
}

func firstDiff(a, b string) string {
	la, lb := strings.Split(a, "\n"), strings.Split(b, "\n")
	for i := 0; i < len(la) && i < len(lb); i++ {
		if la[i] != lb[i] {
			return fmt.Sprintf("line %d:\n  direct:   %.160s\n  reopened: %.160s", i+1, la[i], lb[i])
		}
	}
	return fmt.Sprintf("lengths differ: %d vs %d lines", len(la), len(lb))
}

// normalizeModel computes source-normalised-to-base minus base per stack, on
// the types common to both (aligned, finest units). With defect=true it drops
// the samples Profile.ScaleN drops (all rescaled columns zero).
func normalizeModel(src, base *combined, defect bool) map[string][]int64 {
	both, ok := combine([]*ap.AP{src.asAPAll(), base.asAPAll()}, []int64{1, 0})
	if !ok {
		return nil
	}
	srcOnly := both // values of the source in the common types
	baseOnly, _ := combine([]*ap.AP{src.asAPAll(), base.asAPAll()}, []int64{0, 1})
	n := len(both.types)
	srcTot, baseTot := make([]int64, n), make([]int64, n)
	srcKeys := map[string]bool{}
	for i := range src.order {
		srcKeys[src.order[i]] = true
	}
	baseKeys := map[string]bool{}
	for i := range base.order {
		baseKeys[base.order[i]] = true
	}
	for k, v := range srcOnly.stacks {
		if srcKeys[k] {
			for j := range v {
				srcTot[j] += v[j]
			}
		}
	}
	for k, v := range baseOnly.stacks {
		if baseKeys[k] {
			for j := range v {
				baseTot[j] += v[j]
			}
		}
	}
	ratio := make([]float64, n)
	allOnes := true
	for j := range ratio {
		if srcTot[j] != 0 {
			ratio[j] = float64(baseTot[j]) / float64(srcTot[j])
		}
		if ratio[j] != 1 {
			allOnes = false
		}
	}
	out := map[string][]int64{}
	for k := range srcKeys {
		v := append([]int64(nil), srcOnly.stacks[k]...)
		if isZero(v) {
			continue // an all-zero sample is not in the merged source
		}
		keep := allOnes
		for j := range v {
			if ratio[j] != 1 {
				v[j] = int64(math.Round(float64(v[j]) * ratio[j]))
				if v[j] != 0 {
					keep = true
				}
			}
		}
		if defect && !keep {
			continue
		}
		out[k] = v
	}
	for k := range baseKeys {
		if out[k] == nil {
			out[k] = make([]int64, n)
		}
		for j, x := range baseOnly.stacks[k] {
			out[k][j] -= x
		}
	}
	return out
}
