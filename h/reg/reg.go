// Package reg is the registry of property checks compiled into the worker.
package reg

import "github.com/google/pprof/verifh/vk"

// Checks maps a property id to its check function.
var Checks = map[string]func(*vk.Ctx){}

// Register adds a check.
func Register(id string, f func(*vk.Ctx)) { Checks[id] = f }
