package c15

import (
	"fmt"
	"math/big"

	"github.com/google/pprof/internal/measurement"
	"github.com/google/pprof/profile"
)

// HCase is the generator coordinates of one ScaleProfiles call.
type HCase struct {
	Fn     string      `json:"fn"`
	Units  [][]string  `json:"units"`  // per profile, per sample type
	Values [][][]int64 `json:"values"` // per profile, per sample, per sample type
	Period []string    `json:"period_units,omitempty"`
}

// sample sets for profiles with two sample types (the first column is used for
// profiles with one). Values are no multiples of any unit ratio, so that
// choosing anything but the finest unit loses data.
var sampleSets = [][][]int64{
	{{1, 1}, {2, 3}},
	{{5, 0}, {0, 7}},   // each sample is zero in one column
	{{-3, 4}, {1, -9}}, // mixed signs
}

func mkProfile(units []string, vals [][]int64, periodUnit string) *profile.Profile {
	p := &profile.Profile{Period: 3}
	if periodUnit != "-" {
		p.PeriodType = &profile.ValueType{Type: "cpu", Unit: periodUnit}
	}
	for i, u := range units {
		p.SampleType = append(p.SampleType, &profile.ValueType{Type: fmt.Sprintf("t%d", i), Unit: u})
	}
	for _, v := range vals {
		p.Sample = append(p.Sample, &profile.Sample{Value: append([]int64(nil), v[:len(units)]...)})
	}
	return p
}

func totals(p *profile.Profile, n int) []*big.Int {
	t := make([]*big.Int, n)
	for i := range t {
		t[i] = new(big.Int)
	}
	for _, s := range p.Sample {
		for i := 0; i < n && i < len(s.Value); i++ {
			t[i].Add(t[i], big.NewInt(s.Value[i]))
		}
	}
	return t
}

// compatible is the reference notion: the units of one sample type across the
// profiles can be harmonised iff they are all the same string, or all known
// units of one family.
func (e *env) compatible(units []string) bool {
	same := true
	for _, u := range units[1:] {
		if u != units[0] {
			same = false
		}
	}
	if same {
		return true
	}
	r0 := e.res.Resolve(units[0])
	if !r0.Known() {
		return false
	}
	for _, u := range units[1:] {
		if r := e.res.Resolve(u); !r.Known() || r.Fam != r0.Fam {
			return false
		}
	}
	return true
}

func anyNonASCII(units ...string) bool {
	for _, u := range units {
		if !isASCII(u) {
			return true
		}
	}
	return false
}

// harmonise enumerates tuples of profiles and checks ScaleProfiles.
func (e *env) harmonise(idx int64) int64 {
	c := e.c
	// unit menu: spellings of several units per family, plural/upper-case
	// forms, unknown strings; GCU kept within 10^15 so that small values never
	// leave the int64 range.
	menu := []string{"b", "kb", "MB", "bytes", "ns", "us", "μs", "ms", "seconds", "hr", "gcu", "milligcu", "nanogcu", "count", "foo", ""}
	if c.Thorough() {
		menu = append(menu, "GB", "kilobytes", "μss", "ΜS", "Hours", "sec", "microseconds", "microGCU", "kilogcus", "bar")
	}
	type tuple struct {
		units [][]string
		per   []string
	}
	var tuples []tuple
	// two profiles, one sample type: all pairs
	for _, a := range menu {
		for _, b := range menu {
			tuples = append(tuples, tuple{units: [][]string{{a}, {b}}, per: []string{"ns", "ns"}})
		}
	}
	// two profiles, two sample types: all quadruples
	for _, a := range menu {
		for _, b := range menu {
			for _, a2 := range menu {
				for _, b2 := range menu {
					if !e.compatible([]string{a, b}) && !e.compatible([]string{a2, b2}) {
						continue // both columns incompatible adds nothing over the pairs
					}
					tuples = append(tuples, tuple{units: [][]string{{a, a2}, {b, b2}}, per: []string{"ms", "us"}})
				}
			}
		}
	}
	// three profiles, one sample type: all triples
	for _, a := range menu {
		for _, b := range menu {
			for _, d := range menu {
				tuples = append(tuples, tuple{units: [][]string{{a}, {b}, {d}}, per: []string{"-", "ms", "ms"}})
			}
		}
	}
	c.Note(fmt.Sprintf("ScaleProfiles: unit menu of %d strings; all pairs (1 sample type), all quadruples (2 profiles x 2 sample types, at least one column harmonisable), all triples (3 profiles): %d tuples x %d sample sets", len(menu), len(tuples), len(sampleSets)))
	for _, t := range tuples {
		for si := range sampleSets {
			if !c.Mine(idx) {
				idx++
				continue
			}
			idx++
			if c.Expired() {
				c.Cap("time budget: stopped in ScaleProfiles tuples")
				return idx
			}
			e.harmoniseCase(t.units, t.per, si)
		}
	}
	return idx
}

func (e *env) harmoniseCase(units [][]string, per []string, si int) {
	c := e.c
	np, nt := len(units), len(units[0])
	cs := HCase{Fn: "ScaleProfiles", Units: units, Period: per}
	var profs []*profile.Profile
	for j := 0; j < np; j++ {
		// rotate the sample sets so that the profiles differ
		vals := sampleSets[(si+j)%len(sampleSets)]
		if si == 1 {
			vals = sampleSets[1]
		}
		profs = append(profs, mkProfile(units[j], vals, per[j]))
		var vv [][]int64
		for _, v := range vals {
			vv = append(vv, v[:nt])
		}
		cs.Values = append(cs.Values, vv)
	}
	before := make([][]*big.Int, np)
	for j, p := range profs {
		before[j] = totals(p, nt)
	}
	var err error
	c.Eval()
	if !c.Guard("ScaleProfiles", cs, func() { err = measurement.ScaleProfiles(profs) }) {
		return
	}
	// Is every column harmonisable by the reference notion?
	allCompat := true
	nonASCII := false
	for i := 0; i < nt; i++ {
		col := make([]string, np)
		for j := range col {
			col[j] = units[j][i]
		}
		if !e.compatible(col) {
			allCompat = false
		}
		nonASCII = nonASCII || anyNonASCII(col...)
	}
	if err != nil {
		if allCompat {
			cl := "harmonise/rejected"
			if nonASCII {
				cl += "/non-ascii-alias"
			}
			c.Violationf(cl, cs, "units of one family (or equal strings) were refused: %v", err)
		} else {
			c.Count("harmonise/incompatible-refused", 1)
		}
		return
	}
	if !allCompat {
		c.Count("harmonise/incompatible-accepted", 1)
	}
	rescaled := false
	for i := 0; i < nt; i++ {
		var first Ref
		var firstS string
		for j, p := range profs {
			if len(p.SampleType) != nt {
				c.Violationf("harmonise/sample-types", cs, "profile %d has %d sample types afterwards", j, len(p.SampleType))
				return
			}
			ub, ua := units[j][i], p.SampleType[i].Unit
			rb, ra := e.res.Resolve(ub), e.res.Resolve(ua)
			after := totals(p, nt)[i]
			if !rb.Known() {
				// never treated as a known unit: same label, same numbers
				if ua != ub {
					c.Violationf("harmonise/unknown-unit-relabelled", cs, "profile %d type %d: unit %q became %q", j, i, ub, ua)
				} else if after.Cmp(before[j][i]) != 0 {
					cl := "harmonise/total"
					if d := e.droppedTotal(cs.Values[j], units[j], p, i); d != nil && d.Cmp(after) == 0 {
						cl += "/sample-zero-in-every-rescaled-column"
					}
					c.Violationf(cl, cs, "profile %d type %d: total %v %q became %v %q", j, i, before[j][i], ub, after, ua)
				}
			} else {
				if !ra.Known() || ra.Fam != rb.Fam {
					c.Violationf("harmonise/family", cs, "profile %d type %d: unit %q became %q", j, i, ub, ua)
					continue
				}
				// physical total preserved
				wantPhys := new(big.Rat).Mul(new(big.Rat).SetInt(before[j][i]), e.res.F(rb))
				gotPhys := new(big.Rat).Mul(new(big.Rat).SetInt(after), e.res.F(ra))
				// values whose exact image leaves int64 cannot be demanded
				img := new(big.Rat).Quo(e.absSum(cs.Values[j], i, rb), e.res.F(ra))
				if img.Cmp(maxInt64) > 0 {
					c.Count("harmonise/overflow-skipped", 1)
				} else if !within(gotPhys, wantPhys, relTol, nil) {
					cl := "harmonise/total"
					if d := e.droppedTotal(cs.Values[j], units[j], p, i); d != nil &&
						within(gotPhys, new(big.Rat).Mul(new(big.Rat).SetInt(d), e.res.F(rb)), relTol, nil) {
						cl += "/sample-zero-in-every-rescaled-column"
					}
					w, _ := wantPhys.Float64()
					g, _ := gotPhys.Float64()
					c.Violationf(cl, cs, "profile %d type %d: total %v %s became %v %s (%v vs %v base units)", j, i, before[j][i], ub, after, ua, w, g)
				} else if ra != rb {
					rescaled = true
				}
			}
			if j == 0 {
				first, firstS = ra, ua
			} else if allCompat && (ra != first || (!ra.Known() && ua != firstS)) {
				c.Violationf("harmonise/units-differ", cs, "type %d: profile 0 has unit %q, profile %d has %q afterwards", i, firstS, j, ua)
			}
		}
	}
	// The period is not a total; observe only.
	for j, p := range profs {
		if p.PeriodType == nil || per[j] == "-" {
			continue
		}
		rb, ra := e.res.Resolve(per[j]), e.res.Resolve(p.PeriodType.Unit)
		if rb.Known() && ra.Known() && rb.Fam == ra.Fam {
			want := new(big.Rat).Mul(ri(3), e.res.F(rb))
			got := new(big.Rat).Mul(ri(p.Period), e.res.F(ra))
			if want.Cmp(got) != 0 {
				c.Count("observed/period-not-exact", 1)
			}
		}
	}
	if rescaled {
		c.Count("harmonise/success-rescaled", 1)
		c.Nontrivial(fmt.Sprintf("h %v %d", units, si))
	} else {
		c.Count("harmonise/success-unchanged", 1)
	}
}

// absSum is sum |v| of column i, in base units of unit r.
func (e *env) absSum(vals [][]int64, i int, r Ref) *big.Rat {
	s := new(big.Int)
	for _, v := range vals {
		s.Add(s, new(big.Int).Abs(big.NewInt(v[i])))
	}
	return new(big.Rat).Mul(new(big.Rat).SetInt(s), e.res.F(r))
}

// droppedTotal is the defect model of the known sample-dropping defect (F4):
// the total of column col (in the units before the call) without the samples
// that are zero in every column whose unit changed and non-zero in a column
// whose unit stayed. It returns nil if there is no such sample. A wrong total is
// attributed to that defect only if it equals this total.
func (e *env) droppedTotal(vals [][]int64, ub []string, p *profile.Profile, col int) *big.Int {
	t := new(big.Int)
	found := false
	for _, v := range vals {
		allZero, otherNonZero, anyChanged := true, false, false
		for i := range ub {
			changed := e.res.Resolve(ub[i]) != e.res.Resolve(p.SampleType[i].Unit)
			if changed {
				anyChanged = true
				if v[i] != 0 {
					allZero = false
				}
			} else if v[i] != 0 {
				otherNonZero = true
			}
		}
		if anyChanged && allZero && otherNonZero {
			found = true
			continue
		}
		t.Add(t, big.NewInt(v[col]))
	}
	if !found {
		return nil
	}
	return t
}
