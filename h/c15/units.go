package c15

import (
	"math"
	"math/big"
	"sort"
	"strings"
	"unicode"
	"unicode/utf8"
)

// The reference unit model. It is written from pprof's documentation (the
// aliases listed for each unit, "case-insensitive, optional plural s") and from
// the definitions of the units themselves (1 kB = 1024 B, 1 hr = 3600 s, SI
// prefixes for GCU); the factors are exact rationals and are NOT read out of
// measurement.UnitTypes.

// U is one unit of a family.
type U struct {
	Display string   // the name pprof prints for the unit
	Aliases []string // the documented spellings (lower case, singular)
	F       *big.Rat // exact size in base units of the family
}

// Fam is a unit family.
type Fam struct {
	Name  string
	Units []U // ascending
}

func ri(n int64) *big.Rat { return new(big.Rat).SetInt64(n) }

func pow(base int64, e int) *big.Rat {
	x := big.NewInt(1)
	for i := 0; i < e; i++ {
		x.Mul(x, big.NewInt(base))
	}
	return new(big.Rat).SetInt(x)
}

func inv(r *big.Rat) *big.Rat { return new(big.Rat).Inv(r) }

// Families returns the reference table.
func Families() []Fam {
	return []Fam{
		{Name: "memory", Units: []U{
			{"B", []string{"b", "byte"}, pow(1024, 0)},
			{"kB", []string{"kb", "kbyte", "kilobyte"}, pow(1024, 1)},
			{"MB", []string{"mb", "mbyte", "megabyte"}, pow(1024, 2)},
			{"GB", []string{"gb", "gbyte", "gigabyte"}, pow(1024, 3)},
			{"TB", []string{"tb", "tbyte", "terabyte"}, pow(1024, 4)},
			{"PB", []string{"pb", "pbyte", "petabyte"}, pow(1024, 5)},
		}},
		{Name: "time", Units: []U{ // base: nanosecond
			{"ns", []string{"ns", "nanosecond"}, ri(1)},
			{"us", []string{"μs", "us", "microsecond"}, pow(10, 3)},
			{"ms", []string{"ms", "millisecond"}, pow(10, 6)},
			{"s", []string{"s", "sec", "second"}, pow(10, 9)},
			{"hrs", []string{"hour", "hr"}, new(big.Rat).Mul(ri(3600), pow(10, 9))},
		}},
		{Name: "gcu", Units: []U{ // base: GCU
			{"n*GCU", []string{"nanogcu"}, inv(pow(10, 9))},
			{"u*GCU", []string{"microgcu"}, inv(pow(10, 6))},
			{"m*GCU", []string{"milligcu"}, inv(pow(10, 3))},
			{"GCU", []string{"gcu"}, ri(1)},
			{"k*GCU", []string{"kilogcu"}, pow(10, 3)},
			{"M*GCU", []string{"megagcu"}, pow(10, 6)},
			{"G*GCU", []string{"gigagcu"}, pow(10, 9)},
			{"T*GCU", []string{"teragcu"}, pow(10, 12)},
			{"P*GCU", []string{"petagcu"}, pow(10, 15)},
		}},
	}
}

// Ref identifies a unit of the table; Fam < 0 means "not a known unit".
type Ref struct{ Fam, Unit int }

var unknown = Ref{-1, -1}

func (r Ref) Known() bool { return r.Fam >= 0 }

// Spelling is one way of writing a unit (or a string that is no unit at all).
type Spelling struct {
	S        string
	Ref      Ref
	Alias    string // the alias it was derived from ("" for unknown spellings)
	Form     string // lower | upper | title, +plural
	NonASCII bool   // the alias contains a non-ASCII letter
}

func isASCII(s string) bool {
	for i := 0; i < len(s); i++ {
		if s[i] >= utf8.RuneSelf {
			return false
		}
	}
	return true
}

func title(s string) string {
	r, n := utf8.DecodeRuneInString(s)
	return string(unicode.ToUpper(r)) + s[n:]
}

// Spellings enumerates every alias of every unit in lower, UPPER and Title case,
// singular and plural. The plural of a one-letter alias ("bs", "ss") is left
// out: pprof documents plural stripping only for names longer than two letters,
// so whether "bs" is a unit is not fixed by the property.
func Spellings(tab []Fam) []Spelling {
	var out []Spelling
	seen := map[string]bool{}
	add := func(s string, ref Ref, alias, form string) {
		if seen[s] {
			return
		}
		seen[s] = true
		out = append(out, Spelling{S: s, Ref: ref, Alias: alias, Form: form, NonASCII: !isASCII(alias)})
	}
	for _, plural := range []bool{false, true} {
		for _, form := range []string{"lower", "upper", "title"} {
			for fi, f := range tab {
				for ui, u := range f.Units {
					for _, a := range u.Aliases {
						s := a
						if plural {
							if utf8.RuneCountInString(a) < 2 {
								continue
							}
							s += "s"
						}
						fm := form
						switch form {
						case "upper":
							s = strings.ToUpper(s)
						case "title":
							s = title(s)
						}
						if plural {
							fm += "+plural"
						}
						add(s, Ref{fi, ui}, a, fm)
					}
				}
			}
		}
	}
	// the display name pprof prints for a unit (and feeds back as the target unit of a report) is a
	// spelling of that unit, exactly as written
	for fi, f := range tab {
		for ui, u := range f.Units {
			add(u.Display, Ref{fi, ui}, u.Aliases[0], "display")
		}
	}
	return out
}

// UnknownSpellings are strings that are no alias of any unit under the
// documented rule. "µs" is written with U+00B5 MICRO SIGN, which is not the
// listed alias (U+03BC GREEK SMALL LETTER MU).
func UnknownSpellings() []Spelling {
	var out []Spelling
	for _, s := range []string{"", "foo", "count", "sample", "unit", "bar", "k", "m", "min", "minute", "hrss", "kbb", " ms", "n*gcus", "µs", "bytess"} {
		out = append(out, Spelling{S: s, Ref: unknown, Form: "unknown"})
	}
	return out
}

// Resolver maps unit strings returned by pprof back to the table.
type Resolver struct {
	tab     []Fam
	display map[string]Ref
	alias   map[string]Ref
}

func NewResolver(tab []Fam) *Resolver {
	r := &Resolver{tab: tab, display: map[string]Ref{}, alias: map[string]Ref{}}
	for fi, f := range tab {
		for ui, u := range f.Units {
			r.display[u.Display] = Ref{fi, ui}
			for _, a := range u.Aliases {
				r.alias[a] = Ref{fi, ui}
				if utf8.RuneCountInString(a) >= 2 {
					r.alias[a+"s"] = Ref{fi, ui}
				}
			}
		}
	}
	return r
}

// Resolve reads a unit string: a display name as printed by pprof, or any
// documented spelling.
func (r *Resolver) Resolve(s string) Ref {
	if x, ok := r.display[s]; ok {
		return x
	}
	if x, ok := r.alias[strings.ToLower(s)]; ok {
		return x
	}
	return unknown
}

func (r *Resolver) F(x Ref) *big.Rat { return r.tab[x.Fam].Units[x.Unit].F }

// integerFactors reports whether every factor of the family is an integer (and
// therefore exactly representable as a float64 for this table).
func integerFactors(f Fam) bool {
	for _, u := range f.Units {
		if !u.F.IsInt() {
			return false
		}
	}
	return true
}

// Values returns the sorted list of boundary values: 0, +-1, +-2, and for every
// ratio r between two units of a family r-1, r, r+1 (and, with more, 3r/2, a
// label-rounding threshold, 999r, 1000r, 1023r+-1, 1024r), their negatives,
// 2^53+-1 and the int64 extremes.
func Values(tab []Fam, more bool) []int64 {
	set := map[int64]bool{0: true, 1: true, 2: true, 3: true, 5: true, 7: true, 10: true, 99: true, 100: true}
	maxI := new(big.Int).SetInt64(math.MaxInt64)
	addBig := func(x *big.Int) {
		if x.Sign() > 0 && x.Cmp(maxI) <= 0 {
			set[x.Int64()] = true
		}
	}
	for _, f := range tab {
		for i := range f.Units {
			for j := range f.Units {
				q := new(big.Rat).Quo(f.Units[i].F, f.Units[j].F)
				if !q.IsInt() || q.Cmp(ri(1)) <= 0 {
					continue
				}
				r := new(big.Int).Set(q.Num())
				for _, d := range []int64{-1, 0, 1} {
					addBig(new(big.Int).Add(r, big.NewInt(d)))
				}
				// 1.5 units
				h := new(big.Int).Mul(r, big.NewInt(3))
				if h.Bit(0) == 0 {
					addBig(h.Rsh(h, 1))
				}
				if more {
					for _, k := range []int64{2, 10, 999, 1000, 1023, 1024, 3599, 3600} {
						kr := new(big.Int).Mul(r, big.NewInt(k))
						for _, d := range []int64{-1, 0, 1} {
							addBig(new(big.Int).Add(kr, big.NewInt(d)))
						}
					}
					// around 1.005 and 1.995 units: the label rounding thresholds
					for _, k := range []int64{1005, 1995, 999995} {
						t := new(big.Int).Mul(r, big.NewInt(k))
						t.Quo(t, big.NewInt(1000))
						for _, d := range []int64{-1, 0, 1} {
							addBig(new(big.Int).Add(t, big.NewInt(d)))
						}
					}
				}
			}
		}
	}
	for _, v := range []int64{1<<53 - 1, 1 << 53, 1<<53 + 1, math.MaxInt64, math.MaxInt64 - 1, 1 << 62} {
		set[v] = true
	}
	var out []int64
	for v := range set {
		out = append(out, v)
		if v != 0 {
			out = append(out, -v)
		}
	}
	out = append(out, math.MinInt64)
	sort.Slice(out, func(i, j int) bool { return out[i] < out[j] })
	return out
}
