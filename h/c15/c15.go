// Package c15: unit conversion and value formatting preserve magnitude.
//
// Bounded-exhaustive enumeration of (value, from-spelling, to-spelling/mode)
// against measurement.Scale / ScaledLabel / Label, of (value, total) against
// Percentage, and of small profile tuples against ScaleProfiles, compared with
// an exact rational unit model (units.go).
package c15

import (
	"fmt"
	"math"
	"math/big"
	"runtime"
	"runtime/debug"
	"sort"
	"strings"

	"github.com/google/pprof/internal/measurement"

	"github.com/google/pprof/verifh/reg"
	"github.com/google/pprof/verifh/vk"
)

func init() { reg.Register("C15", Run) }

// Case is the generator coordinates of one Scale/ScaledLabel evaluation.
type Case struct {
	Fn    string `json:"fn"`
	Value int64  `json:"value"`
	From  string `json:"from"`
	To    string `json:"to"`
	Form  string `json:"form,omitempty"` // how the two spellings were derived
}

// relTol is the relative error allowed for a float64 result: the conversion is
// a handful of correctly rounded operations on float64 representations of the
// factors (each <= 2^-53), so 4 ulp = 2^-50 is generous and still 13 orders of
// magnitude below any wrong factor.
var relTol = new(big.Rat).SetFrac(big.NewInt(1), new(big.Int).Lsh(big.NewInt(1), 50))

var (
	one      = ri(1)
	half100  = big.NewRat(5, 1000) // display rounding of %.2f
	two53    = new(big.Rat).SetInt(new(big.Int).Lsh(big.NewInt(1), 53))
	maxInt64 = new(big.Rat).SetInt64(math.MaxInt64)
)

// absLess orders int64 by magnitude (MinInt64 last).
func absLess(a, b int64) bool {
	ua, ub := uint64(a), uint64(b)
	if a < 0 {
		ua = -ua
	}
	if b < 0 {
		ub = -ub
	}
	return ua < ub
}

func abs(r *big.Rat) *big.Rat { return new(big.Rat).Abs(r) }

// within reports |a-b| <= rel*|b| + absTol.
func within(a, b, rel, absTol *big.Rat) bool {
	d := new(big.Rat).Sub(a, b)
	d.Abs(d)
	t := new(big.Rat).Mul(rel, abs(b))
	if absTol != nil {
		t.Add(t, absTol)
	}
	return d.Cmp(t) <= 0
}

type env struct {
	c   *vk.Ctx
	tab []Fam
	res *Resolver
}

// Run is the check.
func Run(c *vk.Ctx) {
	// the oracle allocates many short-lived big.Rat values
	defer debug.SetGCPercent(debug.SetGCPercent(400))
	// 16 shards run side by side; one shard needs no more than the main
	// goroutine and a collector thread
	defer runtime.GOMAXPROCS(runtime.GOMAXPROCS(2))
	tab := Families()
	e := &env{c: c, tab: tab, res: NewResolver(tab)}
	e.compareTables()

	known := Spellings(tab)
	unk := UnknownSpellings()
	from := append(append([]Spelling{}, known...), unk...)
	to := append([]Spelling{}, from...)
	for _, m := range []string{"auto", "minimum"} {
		to = append(to, Spelling{S: m, Ref: unknown, Form: "mode"})
	}
	vals := Values(tab, c.Thorough())
	c.Note(fmt.Sprintf("Scale/ScaledLabel/Label: %d known spellings (every alias x lower/UPPER/Title x singular/plural) + %d unknown strings as source; the same + auto + minimum as target; all %d ordered pairs x %d boundary values", len(known), len(unk), len(from)*len(to), len(vals)))

	if !c.Thorough() {
		c.Note("quick tier: targets of another family than the source only in their lower-case spellings (all spellings in the thorough tier)")
	}
	var idx int64
	for i := range from {
		for j := range to {
			if !c.Thorough() && from[i].Ref.Known() && to[j].Ref.Known() && from[i].Ref.Fam != to[j].Ref.Fam && !strings.HasPrefix(to[j].Form, "lower") {
				continue
			}
			if c.Mine(idx) {
				if c.Expired() {
					c.Cap(fmt.Sprintf("time budget: stopped at spelling pair %d", idx))
					return
				}
				e.pair(from[i], to[j], vals)
			}
			idx++
		}
	}
	idx = e.percentages(idx)
	idx = e.harmonise(idx)
	idx = e.reports(idx, known, unk)

	if c.Counter("auto/cases-with-unit-switch") == 0 {
		c.Vacuous("no automatic unit selection picked a unit different from the source unit")
	}
	if c.Counter("label/read-back") == 0 {
		c.Vacuous("no label was read back")
	}
}

// compareTables records (as a note, not as a violation) whether the reference
// table lists the same units as measurement.UnitTypes; behaviour, not the table,
// is what the oracle judges.
func (e *env) compareTables() {
	n := 0
	for _, ut := range measurement.UnitTypes {
		for _, u := range ut.Units {
			n++
			r, ok := e.res.display[u.CanonicalName]
			if !ok {
				e.c.Count("table/unit-missing-in-reference", 1)
				e.c.Note("unit " + u.CanonicalName + " of measurement.UnitTypes is not in the reference table")
				continue
			}
			f, _ := e.res.F(r).Float64()
			if math.Abs(f-u.Factor) > 1e-12*math.Abs(f) {
				e.c.Count("table/factor-differs", 1)
			}
		}
	}
	m := 0
	for _, f := range e.tab {
		m += len(f.Units)
	}
	if m != n {
		e.c.Count("table/unit-count-differs", 1)
	}
}

func pred(role string, s Spelling) string {
	if s.NonASCII {
		return "/" + role + "-non-ascii-alias"
	}
	return ""
}

type outcome struct {
	ok    bool     // Scale result passed the conversion clause
	noMon bool     // the unit choice is already reported; leave it out of the monotone chain
	g     float64  // value returned by Scale
	gu    string   // unit returned by Scale
	ur    Ref      // gu resolved
	phys  *big.Rat // label read back, in base units (or plain number for unknown units)
	hasLb bool
	label string
}

// pair checks one (from, to) spelling pair over the sorted value list.
func (e *env) pair(from, to Spelling, vals []int64) {
	c := e.c
	results := make(map[int64]*outcome, len(vals))
	var prev *outcome
	var prevV int64
	mode := to.S == "auto" || to.S == "minimum"
	form := from.Form + ">" + to.Form
	nontrivial := false
	// evaluate simplest values first (1, -1, 0, 2, -2, ...), so that the
	// witness kept for a class is the simplest one
	bySize := append([]int64(nil), vals...)
	rank := func(v int64) int64 {
		if v == 0 {
			return 1
		}
		return v
	}
	sort.SliceStable(bySize, func(i, j int) bool {
		a, b := rank(bySize[i]), rank(bySize[j])
		if a == -b || a == b {
			return a > b || (a == b && bySize[i] != 0 && bySize[j] == 0)
		}
		return absLess(a, b)
	})
	if c.WantSample() && from.Ref.Known() && from.Ref != to.Ref {
		c.Sample(Case{Fn: "Scale", Value: bySize[len(bySize)/2], From: from.S, To: to.S, Form: form})
	}
	for _, v := range bySize {
		cs := Case{Fn: "Scale", Value: v, From: from.S, To: to.S, Form: form}
		o := &outcome{}
		results[v] = o
		c.Eval()
		if !c.Guard("Scale", cs, func() { o.g, o.gu = measurement.Scale(v, from.S, to.S) }) {
			continue
		}
		vr := new(big.Rat).SetInt64(v)
		if math.IsNaN(o.g) || math.IsInf(o.g, 0) {
			c.Violationf("convert/not-finite", cs, "Scale = (%v, %q)", o.g, o.gu)
			continue
		}
		gr := new(big.Rat).SetFloat64(o.g)
		o.ur = e.res.Resolve(o.gu)

		var m *big.Rat // exact magnitude in base units (known source only)
		if !from.Ref.Known() {
			// A value whose unit is not a known unit is never numerically converted.
			if o.g != float64(v) {
				c.Violationf("unknown-from/converted", cs, "Scale = (%v, %q): a value in the unknown unit %q was changed", o.g, o.gu, from.S)
				continue
			}
			o.ok = true
			c.Count("unknown-from/unchanged", 1)
		} else {
			m = new(big.Rat).Mul(vr, e.res.F(from.Ref))
			// The result (number, unit) denotes the same physical quantity, in
			// the family of the source unit.
			if !o.ur.Known() || o.ur.Fam != from.Ref.Fam {
				what := "is not a unit"
				if o.ur.Known() {
					what = "is a unit of family " + e.tab[o.ur.Fam].Name
				}
				c.Violationf("convert"+pred("from", from), cs, "Scale = (%v, %q): %q %s of the %s family of %q", o.g, o.gu, o.gu, what, e.tab[from.Ref.Fam].Name, from.S)
				continue
			}
			got := new(big.Rat).Mul(gr, e.res.F(o.ur))
			if !within(got, m, relTol, nil) {
				want, _ := new(big.Rat).Quo(m, e.res.F(o.ur)).Float64()
				c.Violationf("convert"+pred("from", from), cs, "Scale = (%v, %q), exact value in %s is %v", o.g, o.gu, o.gu, want)
				continue
			}
			o.ok = true
			if o.ur != from.Ref {
				nontrivial = true
			}
			// An explicit target of the same family is honoured.
			if to.Ref.Known() && to.Ref.Fam == from.Ref.Fam {
				if o.ur != to.Ref {
					c.Violationf("target"+pred("to", to), cs, "Scale = (%v, %q): asked for %q (%s)", o.g, o.gu, to.S, e.tab[to.Ref.Fam].Units[to.Ref.Unit].Display)
				} else if to.Ref == from.Ref {
					c.Count("identity/same-unit", 1)
				}
			} else if to.Ref.Known() {
				c.Count("cross-family/stayed-in-family", 1)
			}
			if mode {
				e.auto(cs, from, v, m, o)
			}
		}

		// Label read-back.
		fns := []string{"ScaledLabel"}
		if to.S == "auto" {
			fns = append(fns, "Label")
		}
		for _, fn := range fns {
			cs.Fn = fn
			var lb string
			c.Eval()
			if !c.Guard(fn, cs, func() {
				if fn == "Label" {
					lb = measurement.Label(v, from.S)
				} else {
					lb = measurement.ScaledLabel(v, from.S, to.S)
				}
			}) {
				continue
			}
			if !o.ok {
				continue // the conversion itself is already reported
			}
			phys, why := e.readBack(lb, from, vr, m, o)
			if why != "" {
				cl := "label" + pred("from", from)
				if fn == "Label" {
					cl = "label/Label" + pred("from", from)
				}
				c.Violationf(cl, cs, "%s = %q: %s", fn, lb, why)
				continue
			}
			c.Count("label/read-back", 1)
			if fn == "ScaledLabel" {
				o.phys, o.hasLb, o.label = phys, true, lb
				c.Outcome(lb)
			}
		}

	}
	// Monotone labels over the sorted value list.
	for _, v := range vals {
		o := results[v]
		if o.hasLb && !o.noMon {
			if prev != nil && prev.phys.Cmp(o.phys) > 0 {
				cs := Case{Fn: "ScaledLabel", Value: v, From: from.S, To: to.S, Form: form}
				c.Violationf("monotone"+pred("from", from), cs, "label(%d) = %q reads back larger than label(%d) = %q", prevV, prev.label, v, o.label)
			}
			if prev != nil {
				c.Count("monotone/adjacent-pairs", 1)
				if prev.label != o.label {
					c.Count("monotone/adjacent-pairs-with-different-labels", 1)
				}
			}
			prev, prevV = o, v
		}
	}
	// Negation.
	for _, v := range vals {
		if v <= 0 || v == math.MinInt64 {
			continue
		}
		p, n := results[v], results[-v]
		if p == nil || n == nil || !p.ok || !n.ok {
			continue
		}
		c.Count("negation/pairs", 1)
		if n.g != -p.g || n.gu != p.gu {
			cs := Case{Fn: "Scale", Value: v, From: from.S, To: to.S, Form: form}
			c.Violationf("negation", cs, "Scale(%d) = (%v, %q) but Scale(%d) = (%v, %q)", v, p.g, p.gu, -v, n.g, n.gu)
		}
	}
	if nontrivial {
		c.Nontrivial(from.S + "\x00" + to.S)
	}
}

// auto checks the automatic unit rule: the largest unit of the family that
// keeps the magnitude at or above one (when there is one).
func (e *env) auto(cs Case, from Spelling, v int64, m *big.Rat, o *outcome) {
	c := e.c
	fam := e.tab[from.Ref.Fam]
	am := abs(m)
	want := -1
	for i, u := range fam.Units {
		if am.Cmp(u.F) >= 0 {
			want = i
		}
	}
	if want < 0 {
		c.Count("auto/below-smallest-unit", 1) // nothing demanded (only 0 gets here)
		return
	}
	if want != from.Ref.Unit {
		c.Count("auto/cases-with-unit-switch", 1)
	}
	if want == o.ur.Unit {
		if am.Cmp(fam.Units[want].F) == 0 {
			c.Count("auto/exactly-one-unit", 1)
		}
		return
	}
	// A float64 computation cannot decide a boundary it cannot represent:
	// where the inputs are not exact in float64 (non-integer factors, or a
	// magnitude of 2^53 base units and more) a result within relTol of the
	// boundary between the two adjacent units is tolerated.
	exact := integerFactors(fam) && am.Cmp(two53) < 0
	if !exact {
		lo, hi := want, o.ur.Unit
		if lo > hi {
			lo, hi = hi, lo
		}
		if hi-lo == 1 {
			q := new(big.Rat).Quo(am, fam.Units[hi].F)
			if within(q, one, relTol, nil) {
				c.Count("auto/float-boundary-tolerated", 1)
				if c.Counter("auto/float-boundary-tolerated") <= 3 {
					c.Note(fmt.Sprintf("float boundary tolerated: Scale(%d, %q, %q) = (%v, %q)", v, cs.From, cs.To, o.g, o.gu))
				}
				return
			}
		}
	}
	cl := "auto" + pred("from", from)
	if v == math.MinInt64 {
		cl = "auto/minint64"
	}
	q, _ := new(big.Rat).Quo(m, fam.Units[want].F).Float64()
	o.noMon = true
	c.Violationf(cl, cs, "Scale = (%v, %q): the largest unit with magnitude >= 1 is %s (%v %s)", o.g, o.gu, fam.Units[want].Display, q, fam.Units[want].Display)
}

// splitLabel splits a label into its leading decimal number and the rest.
func splitLabel(lb string) (num, unit string, ok bool) {
	i := 0
	if i < len(lb) && lb[i] == '-' {
		i++
	}
	d := i
	for i < len(lb) && lb[i] >= '0' && lb[i] <= '9' {
		i++
	}
	if i == d {
		return "", "", false
	}
	if i+1 < len(lb) && lb[i] == '.' && lb[i+1] >= '0' && lb[i+1] <= '9' {
		i++
		for i < len(lb) && lb[i] >= '0' && lb[i] <= '9' {
			i++
		}
	}
	return lb[:i], lb[i:], true
}

// readBack parses a label and compares it with the exact value: the number
// printed, taken in the unit printed, is within display rounding (half a unit
// of the second decimal) of the original. It returns the physical quantity read
// back (base units for known sources, the plain number otherwise).
func (e *env) readBack(lb string, from Spelling, vr, m *big.Rat, o *outcome) (*big.Rat, string) {
	num, unit, ok := splitLabel(lb)
	if !ok {
		return nil, "label does not start with a number"
	}
	n, ok := new(big.Rat).SetString(num)
	if !ok {
		return nil, "unparsable number"
	}
	if !from.Ref.Known() {
		// plain number; the suffix is whatever the caller asked for
		if !within(n, vr, relTol, half100) {
			return nil, fmt.Sprintf("reads back as %s, the value is %s", n.FloatString(3), vr.FloatString(0))
		}
		return n, ""
	}
	var ur Ref
	if unit == "" && n.Sign() == 0 {
		// "0" is printed without unit; take the unit Scale chose.
		ur = o.ur
	} else {
		ur = e.res.Resolve(unit)
		if !ur.Known() || ur.Fam != from.Ref.Fam {
			return nil, fmt.Sprintf("unit %q is not a unit of the %s family", unit, e.tab[from.Ref.Fam].Name)
		}
	}
	f := e.res.F(ur)
	q := new(big.Rat).Quo(m, f) // exact value in the printed unit
	if !within(n, q, relTol, half100) {
		qf, _ := q.Float64()
		return nil, fmt.Sprintf("reads back as %s %s, the exact value is %v %s", num, unit, qf, e.tab[ur.Fam].Units[ur.Unit].Display)
	}
	return new(big.Rat).Mul(n, f), ""
}

// ---------------------------------------------------------------------------
// Percentage

var pctValues = []int64{0, 1, 2, 3, 7, 50, 99, 100, 101, 199, 200, 1000, 1999, 2000, 2001, 9994, 9995, 10000, 10005, 10006, 1000000, 1<<53 + 1, math.MaxInt64}

type PctCase struct {
	Fn    string `json:"fn"`
	Value int64  `json:"value"`
	Total int64  `json:"total"`
}

func (e *env) percentages(idx int64) int64 {
	c := e.c
	var vals []int64
	for _, v := range pctValues {
		vals = append(vals, v)
		if v != 0 {
			vals = append(vals, -v)
		}
	}
	vals = append(vals, math.MinInt64)
	c.Note(fmt.Sprintf("Percentage: all %d ordered pairs of %d values", len(vals)*len(vals), len(vals)))
	for _, v := range vals {
		for _, t := range vals {
			if !c.Mine(idx) {
				idx++
				continue
			}
			idx++
			cs := PctCase{"Percentage", v, t}
			var s string
			c.Eval()
			if !c.Guard("Percentage", cs, func() { s = measurement.Percentage(v, t) }) {
				continue
			}
			if t == 0 {
				// a ratio to zero is not defined by the property - but what is printed next to an entry of
				// an empty report must still be a number
				if strings.Contains(s, "NaN") || strings.Contains(s, "Inf") {
					c.Violationf("percentage/zero-total-not-a-number", cs, "Percentage(%d, 0) = %q", v, s)
				}
				c.Count("percentage/zero-total", 1)
				continue
			}
			// a function of |v/total|: the same string for all sign combinations
			for _, alt := range [][2]int64{{-v, t}, {v, -t}, {-v, -t}} {
				if (v == math.MinInt64 && alt[0] != v) || (t == math.MinInt64 && alt[1] != t) {
					continue
				}
				var s2 string
				c.Eval()
				c.Guard("Percentage", cs, func() { s2 = measurement.Percentage(alt[0], alt[1]) })
				if s2 != s {
					c.Violationf("percentage/sign", cs, "Percentage(%d,%d) = %q but Percentage(%d,%d) = %q", v, t, s, alt[0], alt[1], s2)
				}
			}
			// and its value is 100*|v/total| within the rounding of the format
			// (two decimals, or two significant digits below 1%, or the 100% band)
			txt := strings.TrimSuffix(strings.TrimSpace(s), "%")
			p, ok := new(big.Rat).SetString(txt)
			if !ok {
				c.Count("unparsed/percentage", 1)
				continue
			}
			r := new(big.Rat).SetFrac(new(big.Int).Abs(big.NewInt(v)), new(big.Int).Abs(big.NewInt(t)))
			if v == math.MinInt64 || t == math.MinInt64 {
				r = new(big.Rat).Quo(abs(new(big.Rat).SetInt64(v)), abs(new(big.Rat).SetInt64(t)))
			}
			r.Mul(r, ri(100))
			var good bool
			if r.Cmp(one) < 0 {
				good = within(p, r, big.NewRat(5, 100), nil)
			} else {
				good = within(p, r, relTol, big.NewRat(5, 100))
			}
			if !good {
				rf, _ := r.Float64()
				c.Violationf("percentage/value", cs, "Percentage = %q, 100*|value/total| = %v", s, rf)
				continue
			}
			c.Count("percentage/read-back", 1)
			c.Outcome("pct" + s)
			if v != 0 {
				c.Nontrivial(fmt.Sprintf("pct %d %d", v, t))
			}
		}
	}
	return idx
}
