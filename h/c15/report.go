package c15

import (
	"fmt"
	"math/big"
	"strings"

	"github.com/google/pprof/verifh/ap"
	"github.com/google/pprof/verifh/drive"
	"github.com/google/pprof/verifh/enum"
)

// RCase is the generator coordinates of one report run.
type RCase struct {
	Fn     string   `json:"fn"`
	Unit   string   `json:"sample_unit"`
	Option string   `json:"unit_option"` // "" = pprof's default
	Values [2]int64 `json:"values"`      // flat values of functions a and b
	Form   string   `json:"form,omitempty"`
}

// value pairs for the two functions of the report profile: equal and very
// different magnitudes (the report-wide unit choice looks at the smallest and
// the largest entry), unit boundaries, a negative entry.
var reportPairs = [][2]int64{
	{1, 1}, {1, 2000000}, {1500, 2000000}, {1023, 1024}, {5, 500}, {5, 501},
	{999, 1000}, {3600, 7200000}, {1024, 1048576 * 3}, {-1500, 2000000}, {1 << 40, 1<<50 + 1<<49},
}

// reports runs the real driver (pprof -top [-unit=...]) on two-function
// profiles whose sample unit is written in every lower-case spelling and reads
// the printed flat values back.
func (e *env) reports(idx int64, known, unk []Spelling) int64 {
	c := e.c
	var from []Spelling
	for _, s := range known {
		if s.Form == "lower" || s.Form == "display" || (c.Thorough() && (s.Form == "upper+plural" || s.Form == "title")) {
			from = append(from, s)
		}
	}
	for _, s := range unk {
		if s.S == "foo" || s.S == "count" || s.S == "µs" {
			from = append(from, s)
		}
	}
	opts := []Spelling{{S: "", Ref: unknown, Form: "default"}, {S: "minimum", Ref: unknown, Form: "mode"}, {S: "auto", Ref: unknown, Form: "mode"}, {S: "foo", Ref: unknown, Form: "unknown"}}
	for fi, f := range e.tab {
		for ui, u := range f.Units {
			opts = append(opts, Spelling{S: u.Aliases[0], Ref: Ref{fi, ui}, Alias: u.Aliases[0], Form: "lower", NonASCII: !isASCII(u.Aliases[0])})
		}
	}
	c.Note(fmt.Sprintf("pprof -top: %d sample-unit spellings x %d unit options (default, minimum, auto, unknown, every unit) x %d value pairs through the real driver", len(from), len(opts), len(reportPairs)))
	for _, f := range from {
		for _, o := range opts {
			for _, vp := range reportPairs {
				if !c.Mine(idx) {
					idx++
					continue
				}
				idx++
				if c.Expired() {
					c.Cap("time budget: stopped in report runs")
					return idx
				}
				e.reportCase(f, o, vp)
			}
		}
	}
	// divide_by: every value is divided (and truncated) before it is formatted, and the report-wide unit
	// of the default / minimum mode is chosen for the divided values
	for _, f := range from {
		if f.Form != "lower" {
			continue
		}
		for _, o := range opts[:3] {
			for _, div := range []int64{1000, 4096} {
				for _, vp := range append([][2]int64{{2048, 12288}, {12288, 3 << 30}, {999, 1000}}, reportPairs...) {
					if !c.Mine(idx) {
						idx++
						continue
					}
					idx++
					if c.Expired() {
						c.Cap("time budget: stopped in report runs")
						return idx
					}
					curDiv = div
					e.reportCase(f, o, vp)
					curDiv = 0
					c.Count("report/divide_by", 1)
				}
			}
		}
	}
	return idx
}

// curDiv is the divide_by option of the report runs (0 = not given).
var curDiv int64

// divided is what the report formats for a sample value v.
func divided(v int64) int64 {
	if curDiv == 0 {
		return v
	}
	return int64(float64(v) * (1 / float64(curDiv)))
}

func oneFrame(name string, addr uint64, v int64) ap.Stack {
	return ap.Stack{Locs: []ap.Loc{{Addr: addr, Map: 0, Lines: []ap.Line{{Func: name, File: name + ".c", Line: 1}}}}, Values: []int64{v}}
}

func (e *env) reportCase(from, opt Spelling, vp [2]int64) {
	c := e.c
	cs := RCase{Fn: "top", Unit: from.S, Option: opt.S, Values: vp, Form: from.Form + ">" + opt.Form}
	a := &ap.AP{Types: []ap.VT{{Type: "t", Unit: from.S}}, Maps: enum.Maps2,
		Stacks: []ap.Stack{oneFrame("a", 0x1000, vp[0]), oneFrame("b", 0x2000, vp[1])}}
	p := ap.Concretize(a, ap.Opts{})
	// nodefraction=0: the small entry of a pair must stay in the report (the report-wide unit choice of
	// unit=minimum looks at the smallest and the largest entry shown)
	flags := []string{"top", "nodefraction=0"}
	if opt.Form != "default" {
		flags = append(flags, "unit="+opt.S)
	}
	if curDiv != 0 {
		flags = append(flags, fmt.Sprintf("divide_by=%d", curDiv))
		cs.Form += fmt.Sprintf(" divide_by=%d", curDiv)
	}
	c.Eval()
	r := drive.Report(map[string][]byte{"p": drive.Encode(p)}, []string{"p"}, flags...)
	if r.Panic != nil {
		c.Violationf("panic/top", cs, "panic: %v\n%s", r.Panic, r.Stack)
		return
	}
	if r.Err != nil {
		c.Count("report/error", 1)
		return
	}
	rows, ok := topRows(r.Out)
	if !ok {
		c.Count("unparsed/top", 1)
		return
	}
	vals := map[string]int64{"a": divided(vp[0]), "b": divided(vp[1])}
	for _, row := range rows {
		v, ok := vals[row[1]]
		if !ok {
			c.Count("unparsed/top-row", 1)
			continue
		}
		lb := row[0]
		vr := new(big.Rat).SetInt64(v)
		var m *big.Rat
		o := &outcome{ur: unknown}
		if from.Ref.Known() {
			m = new(big.Rat).Mul(vr, e.res.F(from.Ref))
			// "0" is printed without unit
			if opt.Ref.Known() && opt.Ref.Fam == from.Ref.Fam {
				o.ur = opt.Ref
			} else {
				// the unit is pprof's choice and "0" does not show it: accept
				// a zero that is within display rounding in some unit of the family
				o.ur = Ref{from.Ref.Fam, len(e.tab[from.Ref.Fam].Units) - 1}
			}
		}
		_, why := e.readBack(lb, from, vr, m, o)
		if why == "" && from.Ref.Known() && opt.Ref.Known() && opt.Ref.Fam == from.Ref.Fam {
			// an explicit unit of the family is honoured
			if _, unit, _ := splitLabel(lb); lb != "0" && e.res.Resolve(unit) != opt.Ref {
				why = fmt.Sprintf("printed in %q although unit=%s was asked for", unit, opt.S)
			}
		}
		if why != "" {
			cl := "report/label"
			if from.NonASCII || opt.NonASCII {
				cl += "/non-ascii-alias"
			}
			c.Violationf(cl, cs, "flat value of %s (%d %s) printed as %q: %s\n%s", row[1], v, from.S, lb, why, r.Out)
			continue
		}
		c.Count("report/label-read-back", 1)
		c.Outcome("top " + lb)
		if from.Ref.Known() {
			c.Nontrivial(fmt.Sprintf("top %s %s %d", from.S, opt.S, v))
		}
		// the report-wide unit of the default / "minimum" mode is chosen from the smallest entry
		// shown (at worst 0.01 of it), and "auto" scales every value by itself: no entry that has
		// a value may be printed as a bare 0
		if from.Ref.Known() && (opt.Form == "default" || opt.Form == "mode") && v != 0 && lb == "0" {
			c.Violationf("report/nonzero-entry-printed-as-zero", cs, "flat value of %s (%d %s) printed as %q\n%s", row[1], v, from.S, lb, r.Out)
		}
	}
	// negation: the report of the negated profile shows the same labels with the opposite sign
	// (unit choice and formatting look at magnitudes only)
	an := &ap.AP{Types: a.Types, Maps: a.Maps, Stacks: []ap.Stack{oneFrame("a", 0x1000, -vp[0]), oneFrame("b", 0x2000, -vp[1])}}
	c.Eval()
	rn := drive.Report(map[string][]byte{"p": drive.Encode(ap.Concretize(an, ap.Opts{}))}, []string{"p"}, flags...)
	if rn.Panic != nil {
		c.Violationf("panic/top", cs, "negated profile: panic: %v\n%s", rn.Panic, rn.Stack)
		return
	}
	if rn.Err != nil {
		c.Violationf("report/negation", cs, "the report of the negated profile fails: %v", rn.Err)
		return
	}
	rowsN, okN := topRows(rn.Out)
	if !okN {
		c.Count("unparsed/top", 1)
		return
	}
	lab := map[string]string{}
	for _, row := range rows {
		lab[row[1]] = row[0]
	}
	for _, row := range rowsN {
		want, ok := lab[row[1]]
		if !ok {
			continue
		}
		switch {
		case strings.HasPrefix(want, "-"):
			want = want[1:]
		case want != "0":
			want = "-" + want
		}
		if row[0] != want {
			c.Violationf("report/negation", cs, "flat value of %s: %q in the report, %q in the report of the negated profile (want %q)\n%s\n%s", row[1], lab[row[1]], row[0], want, r.Out, rn.Out)
			break
		}
		c.Count("report/negation-mirrored", 1)
	}
}

// topRows reads the rows of a text report: (flat label, function name).
func topRows(b []byte) (rows [][2]string, ok bool) {
	lines := strings.Split(string(b), "\n")
	i := 0
	for ; i < len(lines); i++ {
		if strings.HasPrefix(strings.TrimSpace(lines[i]), "flat  flat%") {
			break
		}
	}
	if i == len(lines) {
		return nil, false
	}
	for _, l := range lines[i+1:] {
		if strings.TrimSpace(l) == "" {
			continue
		}
		f := strings.Fields(l)
		if len(f) != 6 || !strings.HasSuffix(f[1], "%") || !strings.HasSuffix(f[2], "%") || !strings.HasSuffix(f[4], "%") {
			return nil, false
		}
		rows = append(rows, [2]string{f[0], f[5]})
	}
	return rows, len(rows) > 0
}
