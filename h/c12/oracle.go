package c12

import (
	"encoding/json"
	"slices"
	"sort"
	"strings"

	"github.com/google/pprof/profile"
)

func jsonOf(v any) ([]byte, error) { return json.Marshal(v) }

func eqStrMap(a, b map[string][]string) bool {
	if len(a) != len(b) {
		return false
	}
	for k, v := range a {
		w, ok := b[k]
		if !ok || !slices.Equal(v, w) {
			return false
		}
	}
	return true
}

func eqIntMap(a, b map[string][]int64) bool {
	if len(a) != len(b) {
		return false
	}
	for k, v := range a {
		w, ok := b[k]
		if !ok || !slices.Equal(v, w) {
			return false
		}
	}
	return true
}

func eqVT(a, b *profile.ValueType) bool {
	if a == nil || b == nil {
		return a == b
	}
	return *a == *b
}

func sameRange(a, b *profile.Mapping) bool {
	if a == nil || b == nil {
		return a == b
	}
	return a.Start == b.Start && a.Limit == b.Limit && a.Offset == b.Offset
}

type locKey struct {
	addr, start, limit uint64
	hasMap             bool
}

func locKeys(ls []*profile.Location) []locKey {
	out := make([]locKey, 0, len(ls))
	for _, l := range ls {
		if l == nil {
			continue
		}
		k := locKey{addr: l.Address}
		if l.Mapping != nil {
			k.hasMap, k.start, k.limit = true, l.Mapping.Start, l.Mapping.Limit
		}
		out = append(out, k)
	}
	sort.Slice(out, func(i, j int) bool {
		a, b := out[i], out[j]
		if a.addr != b.addr {
			return a.addr < b.addr
		}
		if a.start != b.start {
			return a.start < b.start
		}
		if a.limit != b.limit {
			return a.limit < b.limit
		}
		return !a.hasMap && b.hasMap
	})
	return out
}

func indexOfFunc(fs []*profile.Function, f *profile.Function) int {
	for i, g := range fs {
		if g == f {
			return i
		}
	}
	return -1
}

// verify checks the frame condition of the statement on the profile after
// Symbolize returned (with or without an error).
func (o *obs) verify() {
	c, p, bf := o.x.c, o.p, o.bf
	if o.err != nil {
		c.Count("error-returned", 1)
	}
	if o.w.nErrAns > 0 {
		c.Count("answers/failure", 1)
	}

	// -- measurements: header, samples, values, labels, stacks
	hdr := len(p.SampleType) == len(bf.SampleType) && eqVT(p.PeriodType, bf.PeriodType) && p.Period == bf.Period &&
		p.TimeNanos == bf.TimeNanos && p.DurationNanos == bf.DurationNanos && slices.Equal(p.Comments, bf.Comments) &&
		p.DefaultSampleType == bf.DefaultSampleType && p.DropFrames == bf.DropFrames && p.KeepFrames == bf.KeepFrames
	if hdr {
		for i := range p.SampleType {
			hdr = hdr && eqVT(p.SampleType[i], bf.SampleType[i])
		}
	}
	if !hdr {
		o.fail("frame/header", "sample types, period, times or comments changed")
	}
	if len(p.Sample) != len(bf.Sample) {
		o.fail("frame/sample-count", "%d samples before, %d after", len(bf.Sample), len(p.Sample))
	} else {
		for i, s := range p.Sample {
			b := bf.Sample[i]
			if s == nil {
				o.fail("frame/sample-count", "sample %d is nil", i)
				continue
			}
			if !slices.Equal(s.Value, b.Value) {
				o.fail("frame/sample-values", "sample %d: values %v, were %v", i, s.Value, b.Value)
			}
			if !eqStrMap(s.Label, b.Label) || !eqIntMap(s.NumLabel, b.NumLabel) || !eqStrMap(s.NumUnit, b.NumUnit) {
				o.fail("frame/sample-labels", "sample %d: labels %v %v %v, were %v %v %v", i, s.Label, s.NumLabel, s.NumUnit, b.Label, b.NumLabel, b.NumUnit)
			}
			if len(s.Location) != len(b.Location) {
				o.fail("frame/stack-depth", "sample %d: %d locations, were %d", i, len(s.Location), len(b.Location))
				continue
			}
			for j, l := range s.Location {
				lb := b.Location[j]
				if l == nil {
					o.fail("frame/stack-order", "sample %d position %d: nil location", i, j)
					continue
				}
				if l.Address != lb.Address {
					o.fail("frame/location-address", "sample %d position %d: address %#x, was %#x", i, j, l.Address, lb.Address)
				}
				if !sameRange(l.Mapping, lb.Mapping) {
					o.fail("frame/location-mapping", "sample %d position %d (address %#x): mapping %v, was %v", i, j, lb.Address, l.Mapping, lb.Mapping)
				}
			}
		}
	}
	if !slices.Equal(locKeys(p.Location), locKeys(bf.Location)) {
		o.fail("frame/location-table", "location table (address, mapping range) is %v, was %v", locKeys(p.Location), locKeys(bf.Location))
	}
	sameMaps := len(p.Mapping) == len(bf.Mapping)
	if !sameMaps {
		o.fail("frame/mapping-count", "%d mappings, were %d", len(p.Mapping), len(bf.Mapping))
	} else {
		for i, m := range p.Mapping {
			b := bf.Mapping[i]
			if m == nil {
				continue // CheckValid reports it
			}
			if !sameRange(m, b) {
				o.fail("frame/mapping-range", "mapping %d: [%#x,%#x)+%#x, was [%#x,%#x)+%#x", i, m.Start, m.Limit, m.Offset, b.Start, b.Limit, b.Offset)
			}
			if m.File != b.File || m.BuildID != b.BuildID || m.KernelRelocationSymbol != b.KernelRelocationSymbol {
				o.fail("frame/mapping-identity", "mapping %d: file %q build id %q, were %q %q", i, m.File, m.BuildID, b.File, b.BuildID)
			}
		}
	}

	// -- the result is a valid profile with unique ids
	valid := true
	if err := p.CheckValid(); err != nil {
		valid = false
		o.invalid(err)
	}

	// -- mappings that carry symbols are left alone unless forced
	tablesKept := sameMaps && len(p.Location) >= len(bf.Location)
	for k := 0; tablesKept && k < len(bf.Location); k++ {
		tablesKept = p.Location[k] == o.origL[k]
	}
	if !tablesKept {
		c.Count("untouched/not-comparable", 1)
	}
	for i := 0; tablesKept && i < len(bf.Mapping); i++ {
		b, m := bf.Mapping[i], p.Mapping[i]
		if m == nil {
			continue
		}
		if !b.HasFunctions || (o.x.runs && o.x.force) {
			continue
		}
		c.Count("untouched-mappings-checked", 1)
		if m.HasFunctions != b.HasFunctions || m.HasFilenames != b.HasFilenames || m.HasLineNumbers != b.HasLineNumbers || m.HasInlineFrames != b.HasInlineFrames {
			o.fail("untouched/flags", "mapping %d has functions and force was not requested, but its flags changed", i)
		}
		for k, lb := range bf.Location {
			if lb.Mapping != b {
				continue
			}
			l := p.Location[k]
			same := len(l.Line) == len(lb.Line) && l.IsFolded == lb.IsFolded
			for q := 0; same && q < len(l.Line); q++ {
				la, lbq := l.Line[q], lb.Line[q]
				fi, fj := indexOfFunc(o.origF, la.Function), indexOfFunc(bf.Function, lbq.Function)
				same = la.Line == lbq.Line && la.Column == lbq.Column && fi == fj && fi >= 0
				if same {
					fa, fb := la.Function, lbq.Function
					if fa.SystemName != fb.SystemName || fa.Filename != fb.Filename || fa.StartLine != fb.StartLine {
						o.fail("untouched/function", "mapping %d has functions and force was not requested, but function %d of location %#x changed (system name, file or start line)", i, fb.ID, lb.Address)
					}
				}
			}
			if !same {
				o.fail("untouched/lines", "mapping %d has functions and force was not requested, but the lines of location %#x changed: %d lines, were %d", i, lb.Address, len(l.Line), len(lb.Line))
			}
		}
	}

	// -- no non-empty name becomes empty
	nameChanged := false
	for k, fb := range bf.Function {
		f := o.origF[k]
		if fb.Name != "" && f.Name == "" {
			o.fail("demangle/name-emptied", "function id %d: name %q (system name %q) became empty", fb.ID, fb.Name, fb.SystemName)
		}
		if fb.Name != f.Name {
			nameChanged = true
		}
	}
	newFuncs := 0
	for _, f := range p.Function {
		if f == nil || indexOfFunc(o.origF, f) >= 0 {
			continue
		}
		newFuncs++
		// Both symbolization paths create a function with Name == SystemName
		// == the name the source reported; only demangling rewrites Name.
		if f.SystemName != "" && f.Name == "" {
			o.fail("demangle/name-emptied", "new function with reported name %q ended with an empty name", f.SystemName)
		}
		if f.Name != f.SystemName {
			nameChanged = true
		}
	}
	if nameChanged {
		c.Count("names/changed-by-demangling", 1)
	}

	// -- non-vacuity bookkeeping
	var out [24]byte
	ob := out[:0]
	if o.err != nil {
		ob = append(ob, 'E')
	}
	ob = append(ob, byte('0'+newFuncs))
	for _, m := range p.Mapping {
		if m == nil {
			continue
		}
		var f byte = 'a'
		if m.HasFunctions {
			f |= 1
		}
		if m.HasFilenames {
			f |= 2
		}
		if m.HasLineNumbers {
			f |= 4
		}
		if m.HasInlineFrames {
			f |= 8
		}
		ob = append(ob, f)
	}
	replaced := false
	for k, l := range o.origL {
		ob = append(ob, byte('0'+len(l.Line)))
		if len(bf.Location[k].Line) > 0 && len(l.Line) > 0 && indexOfFunc(o.origF, l.Line[0].Function) < 0 {
			replaced = true
		}
	}
	c.Outcome(string(ob))
	if replaced {
		c.Count("lines-replaced-on-symbolized-location", 1)
		if o.x.force {
			c.Count("forced-resymbolization", 1)
		}
	}
	if newFuncs > 0 {
		c.Nontrivial(o.nontrivialKey())
		if valid && bf.Function != nil && !denseIDs(bf.Function) {
			c.Count("sparse-ids/no-collision", 1) // functions added to a table with gaps, ids still unique
		}
		if o.w.nPost > 0 && o.w.nSL == 0 {
			c.Count("attached/remote", 1)
		} else if o.w.nSL > 0 && o.w.nPost == 0 {
			c.Count("attached/local", 1)
		} else {
			c.Count("attached/local+remote", 1)
		}
	}
}

func denseIDs(fs []*profile.Function) bool {
	for _, f := range fs {
		if f.ID == 0 || f.ID > uint64(len(fs)) {
			return false
		}
	}
	return true
}

// invalid classifies a CheckValid failure structurally: by which table holds
// the duplicate or dangling id and which symbolization path(s) ran. The error
// text is only used to pick the table; it is pprof's own wording.
func (o *obs) invalid(err error) {
	path := "local+remote"
	switch {
	case o.w.nPost == 0:
		path = "local"
	case o.w.nSL == 0:
		path = "remote"
	}
	// duplicate function ids: decide structurally
	seen := map[uint64]bool{}
	for _, f := range o.p.Function {
		if f == nil {
			continue
		}
		if seen[f.ID] {
			o.fail("valid/duplicate-function-id/"+path, "new function got id %d, which is already taken: CheckValid: %v", f.ID, err)
			return
		}
		seen[f.ID] = true
	}
	kind := "other"
	if s := err.Error(); strings.Contains(s, "function") {
		kind = "function"
	} else if strings.Contains(s, "location") {
		kind = "location"
	} else if strings.Contains(s, "mapping") {
		kind = "mapping"
	}
	o.fail("valid/"+kind+"/"+path, "CheckValid: %v", err)
}
