// Package c12: symbolization only adds names; measurements are untouched.
//
// The real symbolizer (internal/symbolizer over internal/symbolz) is run on
// every profile of a small generated family, in every symbolization mode,
// against fake plug-ins (object tool, object file, HTTP transport of the
// symbol service) whose every answer is taken from an explicit answer
// sequence. All answer sequences with at most k non-default answers are
// enumerated by a stateless depth-first search over the recorded call log
// (re-execution from scratch per sequence). After each execution the frame
// condition of the property statement is checked on the resulting profile.
package c12

import (
	"fmt"
	"os"
	"strconv"
	"strings"

	"github.com/google/pprof/internal/symbolizer"
	"github.com/google/pprof/profile"

	"github.com/google/pprof/verifh/reg"
	"github.com/google/pprof/verifh/vk"
)

func init() { reg.Register("C12", Run) }

var modes = []string{
	"", "none", "local", "fastlocal", "remote", "force", "local:force", "remote:force",
	"demangle=none", "demangle=full", "demangle=templates", "demangle=default",
	"Local:Demangle=Templates", "bogus", "remote:no",
}

// modeInfo is the documented meaning of a -symbolize value: whether anything
// runs at all and whether force is requested (":force", or a demangle=
// full|none|templates option, which implies it).
func modeInfo(mode string) (runs, force bool) {
	for _, o := range strings.Split(strings.ToLower(mode), ":") {
		switch o {
		case "none", "no":
			return false, force
		case "force", "demangle=full", "demangle=none", "demangle=templates":
			force = true
		}
	}
	return true, force
}

// family is one sub-product of the generator space explored to one deviation
// bound.
type family struct {
	name                           string
	layouts, flags, pres, nms, src []int
	bound                          int
}

func upto(n int) []int {
	out := make([]int, n)
	for i := range out {
		out[i] = i
	}
	return out
}

// Run is the check.
func Run(c *vk.Ctx) {
	full := family{name: "full", layouts: upto(nLayouts), flags: upto(nFlags), pres: upto(nPre), nms: upto(len(names)), src: upto(nSrc), bound: 2}
	fams := []family{full,
		{name: "deep", layouts: upto(nLayouts), flags: upto(nFlags), pres: []int{0, 1, 2}, nms: []int{3}, src: []int{1, 2}, bound: 3}}
	if c.Thorough() {
		fams = []family{full,
			{name: "wide", layouts: upto(nLayouts), flags: upto(nFlags), pres: upto(nPre), nms: []int{0, 3}, src: upto(nSrc), bound: 3},
			{name: "deep", layouts: upto(nLayouts), flags: upto(nFlags), pres: []int{0, 1, 2, 4}, nms: []int{1, 3}, src: []int{1, 2}, bound: 4}}
	}
	for _, f := range fams {
		c.Note(fmt.Sprintf("family %s: %d layouts x %d flag patterns x %d function tables x %d name rotations x %d source maps x %d modes; every plug-in answer sequence with <= %d non-default answers (Open: %d answers, SourceLine: %d, symbolz POST: %d)",
			f.name, len(f.layouts), len(f.flags), len(f.pres), len(f.nms), len(f.src), len(modes), f.bound, len(altNames[kOpen]), len(altNames[kSourceLine]), len(altNames[kPost])))
	}
	var idx int64
	for _, f := range fams {
		if os.Getenv("VERIF_C12_ONLY") == "e2e" { // development aid: time one part alone
			break
		}
		for _, la := range f.layouts {
			for _, pre := range f.pres {
				for _, fl := range f.flags {
					for _, nm := range f.nms {
						for _, sr := range f.src {
							for _, mode := range modes {
								if c.Mine(idx) {
									if c.Expired() {
										c.Cap(fmt.Sprintf("time budget: stopped in family %s at case index %d", f.name, idx))
										return
									}
									cs := Case{Layout: la, Flags: fl, Pre: pre, Names: nm, Src: sr, Mode: mode}
									x := &explorer{c: c, cs: cs, bound: f.bound, idx: idx}
									x.prepare()
									x.explore(nil, 0)
								}
								idx++
							}
						}
					}
				}
			}
		}
	}
	if os.Getenv("VERIF_C12_ONLY") == "direct" {
		guards(c)
		return
	}
	idx = e2e(c, idx)
	soup(c, idx)
	if os.Getenv("VERIF_C12_ONLY") == "" {
		guards(c)
	}
}

func guards(c *vk.Ctx) {
	if c.NShards > 1 && c.Counter("executions") < 1000 {
		return // a tiny shard proves nothing about vacuity
	}
	for _, k := range []string{
		"attached/local", "attached/remote", "error-returned", "untouched-mappings-checked",
		"sparse-ids/no-collision", "names/changed-by-demangling", "answers/failure", "forced-resymbolization",
		"lines-replaced-on-symbolized-location", "names/brackets/rewritten", "names/mangled/rewritten",
	} {
		if c.Counter(k) == 0 {
			c.Vacuous("no execution with " + k)
		}
	}
}

// explorer runs the deviation-bounded search for one (profile, mode).
type explorer struct {
	c     *vk.Ctx
	cs    Case
	bound int
	idx   int64
	bf    *profile.Profile // pristine copy, never handed to pprof
	runs  bool
	force bool
	key   []byte
}

func (x *explorer) prepare() {
	w := &world{cs: &x.cs}
	x.bf, _ = build(&x.cs, w)
	x.runs, x.force = modeInfo(x.cs.Mode)
	if err := x.bf.CheckValid(); err != nil {
		x.c.Violation("harness/invalid-input", x.cs, err.Error())
	}
}

func (x *explorer) explore(pre []int, devs int) {
	alts := x.exec(pre)
	if devs >= x.bound {
		return
	}
	for i := len(pre); i < len(alts); i++ {
		for a := 1; a < int(alts[i]); a++ {
			np := make([]int, i+1)
			copy(np, pre)
			np[i] = a
			x.explore(np, devs+1)
		}
	}
}

// exec performs one execution with the given answer prefix and returns the
// number of alternatives of every plug-in call made.
func (x *explorer) exec(pre []int) []uint8 {
	c := x.c
	w := &world{cs: &x.cs, pre: pre}
	p, srcs := build(&x.cs, w)
	o := &obs{x: x, w: w, p: p, bf: x.bf}
	o.origL = append(o.origL, p.Location...)
	o.origF = append(o.origF, p.Function...)
	sym := &symbolizer.Symbolizer{Obj: &tool{w}, UI: &ui{w}, Transport: &transport{w}}
	c.Eval()
	c.Trace(1)
	c.Count("executions", 1)
	var err error
	ok := c.Guard("symbolize", o.witnessLazy(), func() { err = sym.Symbolize(x.cs.Mode, srcs, p) })
	c.Transition(int64(len(w.alts)))
	c.Count("calls/open", int64(w.nOpen))
	c.Count("calls/sourceline", int64(w.nSL))
	c.Count("calls/post", int64(w.nPost))
	if w.bad {
		o.fail("harness/replay-diverged", "an answer of the prefix does not fit the call made")
	}
	if !ok {
		return w.alts
	}
	o.err = err
	o.verify()
	return w.alts
}

// obs is one observed execution.
type obs struct {
	x     *explorer
	w     *world
	p, bf *profile.Profile
	origL []*profile.Location
	origF []*profile.Function
	err   error
}

type lazyWitness struct{ o *obs }

// MarshalJSON renders the witness only when it is actually written.
func (l lazyWitness) MarshalJSON() ([]byte, error) {
	return jsonOf(l.o.witness())
}

func (o *obs) witnessLazy() any { return lazyWitness{o} }

func (o *obs) witness() Case {
	cs := o.x.cs
	cs.Ans = append([]int(nil), o.w.pre...)
	cs.Calls = o.w.calls()
	w2 := &world{cs: &cs}
	bp, srcs := build(&cs, w2)
	cs.Desc = fmt.Sprintf("layout=%s; flags=%s; functions=%s; sources=%s :: ", layoutNames[cs.Layout], flagNames[cs.Flags], preNames[cs.Pre], srcNames[cs.Src]) + describe(bp, srcs)
	return cs
}

func (o *obs) fail(class string, format string, args ...any) {
	c := o.x.c
	if c.HasViolation(class) {
		c.Violation(class, nil, "")
		return
	}
	c.SetCase(o.x.idx)
	d := fmt.Sprintf(format, args...)
	if o.err != nil {
		d += fmt.Sprintf(" (Symbolize returned error: %v)", o.err)
	}
	c.Violation(class, o.witness(), d)
}

func (o *obs) nontrivialKey() string {
	b := strconv.AppendInt(nil, o.x.idx, 10)
	for _, a := range o.w.pre {
		b = append(b, ',', byte('0'+a))
	}
	return string(b)
}
