package c12

import (
	"errors"
	"fmt"
	"io"
	"net/http"
	"regexp"
	"strconv"
	"strings"

	"github.com/google/pprof/internal/plugin"
	"github.com/google/pprof/profile"
)

// names is the function-name alphabet: empty, plain, mangled C++, the
// placeholder some tools print, a template name, a name with a parenthesised
// prefix.
var names = []string{"", "f", "_Z1fv", "<unknown>", "a<b>", "(x)::y"}

// Generator coordinates (see Run for the bounds).
const (
	nLayouts = 11
	nFlags   = 4
	nPre     = 6
	nSrc     = 5
)

var layoutNames = []string{"A", "A+B", "A+nofile+nomapping-loc", "nofile-main+B", "A+[vdso]@0", "url-file+B", "dangling+A+B", "no mappings", "A+A2 (same file)", "fake mapping 0-0 with a file name", "A+B with return addresses on and past A's limit"}
var flagNames = []string{"none", "m0:F", "m0:file,m1:all", "m0:line,m1:F"}
// index 6 (the largest id there is: no fresh id is left) is used by the end-to-end family only
var preNames = []string{"unsymbolized", "ids 1,2,3", "ids 2,4,7", "ids 3,1,2", "ids 100,200,300", "ids 1,2,5", "ids 1,2,2^64-1"}
var srcNames = []string{"no sources", "file->/debug/pprof, offset 0", "buildid->/pprof/heap, offset +0x100", "file->[local file, /x/y], offset -0x800", "file->/debug/pprof, offset -0x1800 (overflows)"}

var preIDs = [][3]uint64{{}, {1, 2, 3}, {2, 4, 7}, {3, 1, 2}, {100, 200, 300}, {1, 2, 5}, {1, 2, ^uint64(0)}}

// Case is the generator coordinates of one execution.
type Case struct {
	Layout int      `json:"layout"`
	Flags  int      `json:"flags"`
	Pre    int      `json:"pre"`
	Names  int      `json:"names"`
	Src    int      `json:"src"`
	Mode   string   `json:"mode"`
	Ans    []int    `json:"answers"`         // answer sequence (trailing calls: default 0)
	Calls  []string `json:"calls,omitempty"` // the plug-in calls of the execution, with the answer given
	Desc   string   `json:"profile,omitempty"`
	E2E    bool     `json:"e2e,omitempty"`
}

// world is everything the fake plug-ins of one execution share: the answer
// sequence and the facts needed to fabricate consistent answers.
type world struct {
	cs      *Case
	pre     []int
	pos     int
	alts    []uint8
	kinds   []uint8
	taken   []uint8
	bad     bool // replay prefix did not fit the calls made (harness error)
	buildID map[string]string
	offs    []int64  // per mapping index: offset the symbolz client applies
	addrs   []uint64 // all location addresses
	nOpen   int
	nSL     int
	nPost   int
	nErrAns int // answers given that are failures of the source
	e2e     bool
	binDir  string
	printed int
}

const (
	kOpen = iota
	kSourceLine
	kPost
	kOpenSearch
)

var kindNames = []string{"Open", "SourceLine", "POST", "Open(search path)"}
var altNames = [][]string{
	{"ok", "error", "other build id", "no build id"},
	{"1 frame", "2 frames (inlined)", "no frames", "error", "blank frame"},
	{"complete", "partial", "extra addresses", "garbage", "transport error", "HTTP 500", "overflowing address", "empty names, duplicates, no final newline"},
	{"not found", "found", "found, other build id"},
}

func (w *world) choose(kind uint8, n int) int {
	i := w.pos
	w.pos++
	v := 0
	if i < len(w.pre) {
		v = w.pre[i]
		if v >= n {
			w.bad = true
			v = 0
		}
	}
	w.alts = append(w.alts, uint8(n))
	w.kinds = append(w.kinds, kind)
	w.taken = append(w.taken, uint8(v))
	return v
}

func (w *world) calls() []string {
	out := make([]string, len(w.kinds))
	for i, k := range w.kinds {
		out[i] = kindNames[k] + ": " + altNames[k][w.taken[i]]
	}
	return out
}

func (w *world) nameOf(addr uint64) string {
	return names[(int(addr>>11)+w.cs.Names)%len(names)]
}

// ---- profile builder -------------------------------------------------------

type locSpec struct {
	addr uint64
	m    int // mapping index, -1 none
}

func mkMap(id uint64, start, limit, off uint64, file, buildID string) *profile.Mapping {
	return &profile.Mapping{ID: id, Start: start, Limit: limit, Offset: off, File: file, BuildID: buildID}
}

// build constructs the profile of a case afresh, its mapping sources and the
// world facts. It is deterministic: two calls give structurally equal results.
func build(cs *Case, w *world) (*profile.Profile, plugin.MappingSources) {
	var maps []*profile.Mapping
	var locs []locSpec
	A := func() { maps = append(maps, mkMap(uint64(len(maps)+1), 0x1000, 0x2000, 0, "/bin/a", "ba")) }
	B := func() { maps = append(maps, mkMap(uint64(len(maps)+1), 0x2000, 0x3000, 0x1000, "/lib/b.so", "")) }
	locsA := func(m int) {
		locs = append(locs, locSpec{0x1000, m}, locSpec{0x1800, m}, locSpec{0x1fff, m})
	}
	locsB := func(m int) { locs = append(locs, locSpec{0x2000, m}, locSpec{0x2fff, m}) }
	lm := []int{0, 1} // the mappings that have locations
	switch cs.Layout {
	case 0:
		A()
		locsA(0)
		lm = []int{0}
	case 1:
		A()
		B()
		locsA(0)
		locsB(1)
	case 2: // second mapping without a file name, one location without mapping
		A()
		maps = append(maps, mkMap(2, 0x2000, 0x3000, 0, "", ""))
		locsA(0)
		locsB(1)
		locs = append(locs, locSpec{0x5000, -1})
	case 3: // main binary without a file name
		maps = append(maps, mkMap(1, 0x1000, 0x2000, 0, "", "bm"))
		B()
		locsA(0)
		locsB(1)
	case 4: // a well-known system mapping at address 0
		A()
		maps = append(maps, mkMap(2, 0, 0x1000, 0, "[vdso]", ""))
		locsA(0)
		locs = append(locs, locSpec{0, 1}, locSpec{0xfff, 1})
	case 5: // a mapping whose file is the source URL
		maps = append(maps, mkMap(1, 0x1000, 0x2000, 0, "http://m0.host/debug/pprof/profile", ""))
		B()
		locsA(0)
		locsB(1)
	case 6: // a dangling mapping first
		maps = append(maps, mkMap(1, 0x9000, 0xa000, 0, "/bin/d", "bd"))
		A()
		B()
		locsA(1)
		locsB(2)
		lm = []int{1, 2}
	case 7: // no mapping at all (the driver adds a fake one)
		locs = append(locs, locSpec{0x1000, -1}, locSpec{0x1800, -1}, locSpec{0x1fff, -1})
		lm = nil
	case 9: // the fake mapping the driver adds to a profile without mappings (range 0-0), named by an executable override
		maps = append(maps, mkMap(1, 0, 0, 0, "/bin/a", ""))
		locsA(0)
		lm = []int{0}
	case 10: // locations of A at its limit and beyond (a return address after the last call of a segment)
		A()
		B()
		locsA(0)
		locsB(1)
		locs = append(locs, locSpec{0x2000, 0}, locSpec{0x2001, 0})
	case 8: // two segments of the same binary
		A()
		maps = append(maps, mkMap(2, 0x2000, 0x3000, 0x1000, "/bin/a", "ba"))
		locsA(0)
		locsB(1)
	}
	fl := cs.Flags
	if len(lm) == 0 {
		fl = 0
	}
	switch fl {
	case 1:
		maps[lm[0]].HasFunctions = true
	case 2:
		maps[lm[0]].HasFilenames = true
		if len(lm) > 1 {
			m := maps[lm[1]]
			m.HasFunctions, m.HasFilenames, m.HasLineNumbers, m.HasInlineFrames = true, true, true, true
		}
	case 3:
		maps[lm[0]].HasLineNumbers = true
		if len(lm) > 1 {
			maps[lm[1]].HasFunctions = true
		}
	}
	p := &profile.Profile{
		SampleType:    []*profile.ValueType{{Type: "n", Unit: "count"}, {Type: "t", Unit: "nanoseconds"}},
		PeriodType:    &profile.ValueType{Type: "t", Unit: "nanoseconds"},
		Period:        7,
		TimeNanos:     11,
		DurationNanos: 13,
		Comments:      []string{"c"},
		Mapping:       maps,
	}
	for i, ls := range locs {
		l := &profile.Location{ID: uint64(i + 1), Address: ls.addr}
		if ls.m >= 0 {
			l.Mapping = maps[ls.m]
		}
		p.Location = append(p.Location, l)
	}
	if cs.Pre > 0 {
		n := cs.Names
		ids := preIDs[cs.Pre]
		f0 := &profile.Function{ID: ids[0], Name: names[n], SystemName: names[n], Filename: "old.c", StartLine: 1}
		f1 := &profile.Function{ID: ids[1], Name: "g", SystemName: names[(n+1)%len(names)], Filename: "old.h"}
		f2 := &profile.Function{ID: ids[2], Name: "", SystemName: names[(n+2)%len(names)]}
		p.Function = []*profile.Function{f0, f1, f2}
		// second location of the first mapping: two lines, folded
		p.Location[1].Line = []profile.Line{{Function: f1, Line: 3}, {Function: f0, Line: 10, Column: 2}}
		p.Location[1].IsFolded = true
		// first location of the second mapping: one line
		if len(lm) > 1 {
			p.Location[3].Line = []profile.Line{{Function: f0, Line: 20}}
		}
	}
	L := p.Location
	smp := func(v1, v2 int64, ls ...*profile.Location) *profile.Sample {
		return &profile.Sample{Value: []int64{v1, v2}, Location: ls}
	}
	s0 := smp(1, 2, L[0], L[1], L[len(L)-1])
	s0.Label = map[string][]string{"k": {"v", "w"}}
	s0.NumLabel = map[string][]int64{"bytes": {8}}
	s0.NumUnit = map[string][]string{"bytes": {"bytes"}}
	s1 := smp(3, -4, L[2], L[0])
	s2 := smp(5, 6)
	p.Sample = []*profile.Sample{s0, s1, s2}
	if len(L) > 3 {
		s3 := smp(0, 7, L[3:]...)
		s3.Label = map[string][]string{"k": {"x"}}
		p.Sample = append(p.Sample, s3, smp(1, 1, L[4], L[3], L[1], L[4]))
	}

	// sources
	var srcs plugin.MappingSources
	w.offs = make([]int64, len(maps))
	w.buildID = map[string]string{}
	type src = struct {
		Source string
		Start  uint64
	}
	if cs.Src > 0 {
		srcs = plugin.MappingSources{}
	}
	for i, m := range maps {
		w.buildID[m.File] = m.BuildID
		host := fmt.Sprintf("http://m%d.host", i)
		switch cs.Src {
		case 1:
			srcs[m.File] = append(srcs[m.File], src{host + "/debug/pprof/profile?seconds=1", m.Start})
		case 2:
			key := m.BuildID
			if key == "" {
				key = m.File
			}
			srcs[key] = append(srcs[key], src{host + "/pprof/heap", m.Start + 0x100})
			w.offs[i] = 0x100
		case 3:
			srcs[m.File] = append(srcs[m.File], src{"/tmp/local.pb", 0}, src{host + "/x/y", m.Start - 0x800})
			w.offs[i] = -0x800
		case 4:
			srcs[m.File] = append(srcs[m.File], src{host + "/debug/pprof/profile", m.Start - 0x1800})
			w.offs[i] = -0x1800
		}
	}
	w.addrs = w.addrs[:0]
	for _, l := range p.Location {
		w.addrs = append(w.addrs, l.Address)
	}
	return p, srcs
}

func describe(p *profile.Profile, srcs plugin.MappingSources) string {
	var b strings.Builder
	for _, m := range p.Mapping {
		fmt.Fprintf(&b, "mapping %d [%#x,%#x) off=%#x file=%q buildid=%q", m.ID, m.Start, m.Limit, m.Offset, m.File, m.BuildID)
		if m.HasFunctions {
			b.WriteString(" HasFunctions")
		}
		if m.HasFilenames {
			b.WriteString(" HasFilenames")
		}
		if m.HasLineNumbers {
			b.WriteString(" HasLineNumbers")
		}
		if m.HasInlineFrames {
			b.WriteString(" HasInlineFrames")
		}
		b.WriteString("; ")
	}
	for _, f := range p.Function {
		fmt.Fprintf(&b, "function id=%d name=%q system=%q; ", f.ID, f.Name, f.SystemName)
	}
	for _, l := range p.Location {
		mid := uint64(0)
		if l.Mapping != nil {
			mid = l.Mapping.ID
		}
		fmt.Fprintf(&b, "location %d @%#x mapping=%d lines=[", l.ID, l.Address, mid)
		for i, ln := range l.Line {
			if i > 0 {
				b.WriteString(" ")
			}
			if ln.Function != nil {
				fmt.Fprintf(&b, "fn%d:%d", ln.Function.ID, ln.Line)
			} else {
				b.WriteString("nil")
			}
		}
		b.WriteString("]; ")
	}
	for k, v := range srcs {
		fmt.Fprintf(&b, "source[%q]=%v; ", k, v)
	}
	return b.String()
}

// ---- fake plug-ins ---------------------------------------------------------

type ui struct{ w *world }

func (u *ui) ReadLine(string) (string, error)     { return "", io.EOF }
func (u *ui) Print(...interface{})                {}
func (u *ui) PrintErr(...interface{})             { u.w.printed++ }
func (u *ui) IsTerminal() bool                    { return false }
func (u *ui) WantBrowser() bool                   { return false }
func (u *ui) SetAutoComplete(func(string) string) {}

type tool struct{ w *world }

func (t *tool) Open(file string, start, limit, offset uint64, relocationSymbol string) (plugin.ObjFile, error) {
	w := t.w
	if w.e2e && strings.HasPrefix(file, w.binDir) {
		// the driver probing its search path: by default nothing is there
		switch w.choose(kOpenSearch, 3) {
		case 1:
			return &objFile{w: w, name: file, id: w.buildIDOfBase(file)}, nil
		case 2:
			return &objFile{w: w, name: file, id: "zz"}, nil
		}
		return nil, errors.New("no such file")
	}
	w.nOpen++
	switch w.choose(kOpen, 4) {
	case 1:
		w.nErrAns++
		return nil, errors.New("cannot open object file")
	case 2:
		return &objFile{w: w, name: file, id: "zz"}, nil
	case 3:
		return &objFile{w: w, name: file, id: ""}, nil
	}
	return &objFile{w: w, name: file, id: w.buildID[file]}, nil
}

func (w *world) buildIDOfBase(file string) string {
	for f, id := range w.buildID {
		if f != "" && strings.HasSuffix(file, f) {
			return id
		}
	}
	return ""
}

func (t *tool) Disasm(file string, start, end uint64, intelSyntax bool) ([]plugin.Inst, error) {
	return nil, errors.New("no disassembly in the harness")
}

type objFile struct {
	w    *world
	name string
	id   string
}

func (f *objFile) Name() string                        { return f.name }
func (f *objFile) ObjAddr(addr uint64) (uint64, error) { return addr ^ 0x40000, nil }
func (f *objFile) BuildID() string                     { return f.id }
func (f *objFile) Close() error                        { return nil }
func (f *objFile) Symbols(r *regexp.Regexp, addr uint64) ([]*plugin.Sym, error) {
	return nil, errors.New("no symbol table in the harness")
}

func (f *objFile) SourceLine(addr uint64) ([]plugin.Frame, error) {
	w := f.w
	w.nSL++
	n := w.nameOf(addr)
	switch w.choose(kSourceLine, 5) {
	case 1:
		return []plugin.Frame{
			{Func: names[(int(addr>>11)+w.cs.Names+1)%len(names)], File: "inl.h", Line: 3, Column: 4},
			{Func: n, File: "a.c", Line: int(addr & 0xff), StartLine: 5},
		}, nil
	case 2:
		return nil, nil
	case 3:
		w.nErrAns++
		return nil, errors.New("addr2line failed")
	case 4:
		return []plugin.Frame{{}}, nil
	}
	return []plugin.Frame{{Func: n, File: "a.c", Line: int(addr&0xff) + 1, Column: 1, StartLine: 5}}, nil
}

type transport struct{ w *world }

type errBody struct{}

func (t *transport) RoundTrip(req *http.Request) (*http.Response, error) {
	w := t.w
	w.nPost++
	var body []byte
	if req.Body != nil {
		body, _ = io.ReadAll(req.Body)
		req.Body.Close()
	}
	mi := 0
	if h := req.URL.Host; len(h) > 1 && h[0] == 'm' {
		mi, _ = strconv.Atoi(strings.TrimSuffix(h[1:], ".host"))
	}
	var off int64
	if mi < len(w.offs) {
		off = w.offs[mi]
	}
	var asked []uint64
	for _, a := range strings.Split(string(body), "+") {
		if v, err := strconv.ParseUint(a, 0, 64); err == nil {
			asked = append(asked, v)
		}
	}
	var b strings.Builder
	status := 200
	complete := func() {
		for _, a := range asked {
			fmt.Fprintf(&b, "%#x %s\n", a, w.nameOf(a))
		}
	}
	switch w.choose(kPost, 8) {
	case 0:
		complete()
	case 1:
		if len(asked) > 1 {
			fmt.Fprintf(&b, "%#x %s\n", asked[0], w.nameOf(asked[0]))
		}
	case 2:
		complete()
		for _, a := range w.addrs { // every location of the profile, asked for or not
			fmt.Fprintf(&b, "%#x extra\n", uint64(int64(a)+off))
		}
		b.WriteString("0xdead0000 nowhere\n")
	case 3:
		b.WriteString("\x00\xff<html>not a symbolz answer</html>\n0xzz f\n 12 g\n\n0x\n")
	case 4:
		w.nErrAns++
		return nil, errors.New("connection refused")
	case 5:
		w.nErrAns++
		status = 500
		b.WriteString("internal error")
	case 6:
		w.nErrAns++
		b.WriteString("0xffffffffffffffff top\n0x0 bottom\n0x7fffffffffffffff mid\n0x8000000000000000 mid2\n")
		complete()
	case 7:
		for _, a := range asked {
			fmt.Fprintf(&b, "%#x \n%#x  two words\n", a, a)
		}
		if len(asked) > 0 {
			fmt.Fprintf(&b, "%#x cut", asked[0])
		}
	}
	resp := &http.Response{
		Status:     strconv.Itoa(status) + " " + http.StatusText(status),
		StatusCode: status,
		Proto:      "HTTP/1.1", ProtoMajor: 1, ProtoMinor: 1,
		Header:  http.Header{"Content-Type": {"text/plain; charset=utf-8"}, "X-Go-Pprof": {"1"}},
		Body:    io.NopCloser(strings.NewReader(b.String())),
		Request: req,
	}
	return resp, nil
}
