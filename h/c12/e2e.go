package c12

import (
	"fmt"
	"os"
	"path/filepath"
	"slices"

	"github.com/google/pprof/internal/symbolizer"
	"github.com/google/pprof/profile"

	"github.com/google/pprof/verifh/drive"
	"github.com/google/pprof/verifh/vk"
)

// End-to-end family: the same fake plug-ins behind the real driver
// (fetch -> locateBinaries -> Symbolize -> CheckValid -> "-proto" report).
// The oracle is differential: the run with -symbolize=<mode> must yield the
// same measurements as the run with -symbolize=none under the same answers,
// and must not be refused unless a symbol source answered with a failure.

var e2eModes = []string{"", "local", "remote", "force", "fastlocal:demangle=full"}

type absSample struct {
	values []int64
	label  map[string][]string
	num    map[string][]int64
	unit   map[string][]string
	addrs  []uint64
	ranges [][3]uint64
}

func abstractOut(p *profile.Profile) []absSample {
	out := make([]absSample, 0, len(p.Sample))
	for _, s := range p.Sample {
		a := absSample{values: s.Value, label: s.Label, num: s.NumLabel, unit: s.NumUnit}
		for _, l := range s.Location {
			a.addrs = append(a.addrs, l.Address)
			var r [3]uint64
			if m := l.Mapping; m != nil {
				r = [3]uint64{m.Start, m.Limit, m.Offset}
			}
			a.ranges = append(a.ranges, r)
		}
		out = append(out, a)
	}
	return out
}

func diffAbs(a, b []absSample) string {
	if len(a) != len(b) {
		return fmt.Sprintf("%d samples, %d without symbolization", len(a), len(b))
	}
	for i := range a {
		x, y := a[i], b[i]
		switch {
		case !slices.Equal(x.values, y.values):
			return fmt.Sprintf("sample %d: values %v vs %v", i, x.values, y.values)
		case !eqStrMap(x.label, y.label) || !eqIntMap(x.num, y.num) || !eqStrMap(x.unit, y.unit):
			return fmt.Sprintf("sample %d: labels differ", i)
		case !slices.Equal(x.addrs, y.addrs):
			return fmt.Sprintf("sample %d: stack addresses %#x vs %#x", i, x.addrs, y.addrs)
		case !slices.Equal(x.ranges, y.ranges):
			return fmt.Sprintf("sample %d: mapping ranges %#x vs %#x", i, x.ranges, y.ranges)
		}
	}
	return ""
}

type e2eExplorer struct {
	c     *vk.Ctx
	cs    Case
	bound int
	idx   int64
}

func e2e(c *vk.Ctx, idx int64) int64 {
	bound := 1
	pres := []int{0, 1, 2, 6}
	if c.Thorough() {
		bound = 2
		pres = []int{0, 1, 2, 5, 6}
	}
	c.Note(fmt.Sprintf("family e2e (real driver, -proto, differential against -symbolize=none): %d layouts x %d function tables x flags {none, m0:F} x {file source, URL source} x %d modes; answer sequences with <= %d non-default answers (search-path Open: 3 answers)", nLayouts, len(pres), len(e2eModes), bound))
	for la := 0; la < nLayouts; la++ {
		for _, pre := range pres {
			for fl := 0; fl < 2; fl++ {
				for src := 0; src < 2; src++ {
					for _, mode := range e2eModes {
						if c.Mine(idx) {
							if c.Expired() {
								c.Cap(fmt.Sprintf("time budget: stopped in family e2e at case index %d", idx))
								return idx
							}
							x := &e2eExplorer{c: c, bound: bound, idx: idx, cs: Case{Layout: la, Flags: fl, Pre: pre, Names: 3, Src: src, Mode: mode, E2E: true}}
							x.explore(nil, 0)
						}
						idx++
					}
				}
			}
		}
	}
	if c.Counter("e2e/executions") > 200 {
		for _, k := range []string{"e2e/functions-attached", "e2e/refused-after-source-failure", "e2e/search-path-binary-found"} {
			if c.Counter(k) == 0 {
				c.Vacuous("no execution with " + k)
			}
		}
	}
	return idx
}

func (x *e2eExplorer) explore(pre []int, devs int) {
	alts := x.exec(pre)
	if devs >= x.bound {
		return
	}
	for i := len(pre); i < len(alts); i++ {
		for a := 1; a < int(alts[i]); a++ {
			np := make([]int, i+1)
			copy(np, pre)
			np[i] = a
			x.explore(np, devs+1)
		}
	}
}

func (x *e2eExplorer) run(mode string, pre []int) (*drive.Result, *world) {
	sbx := drive.Sandbox()
	if x.cs.Src == 1 && mode != "none" {
		// a profile from a URL is saved under $PPROF_TMPDIR with a fresh
		// numbered name; keep the directory from filling up
		tmp := filepath.Join(sbx, "tmp")
		os.RemoveAll(tmp)
		os.MkdirAll(tmp, 0755)
	}
	w := &world{cs: &x.cs, pre: pre, e2e: true, binDir: filepath.Join(sbx, "bin")}
	p, _ := build(&x.cs, w)
	fake := &tool{w}
	tr := &transport{w}
	u := &drive.UI{}
	url := ""
	if x.cs.Src == 1 {
		url = "http://m0.host/debug/pprof/profile?seconds=1"
	}
	s := &drive.Session{
		Flags: drive.MkFlags([]string{"p"}, "proto", "symbolize="+mode),
		Fetch: &drive.Fetcher{Prof: map[string]func() *profile.Profile{"p": func() *profile.Profile { return p }}, Src: map[string]string{"p": url}},
		Sym:   &symbolizer.Symbolizer{Obj: fake, UI: u, Transport: tr},
		Obj:   fake, UI: u, Tr: tr,
	}
	return drive.Run(s), w
}

func (x *e2eExplorer) exec(pre []int) []uint8 {
	c := x.c
	c.Eval()
	c.Trace(1)
	c.Count("e2e/executions", 1)
	r, w := x.run(x.cs.Mode, pre)
	c.Transition(int64(len(w.alts)))
	fail := func(class, format string, args ...any) {
		if c.HasViolation(class) {
			c.Violation(class, nil, "")
			return
		}
		c.SetCase(x.idx)
		cs := x.cs
		cs.Ans = append([]int(nil), pre...)
		cs.Calls = w.calls()
		w2 := &world{cs: &cs}
		bp, _ := build(&cs, w2)
		cs.Desc = fmt.Sprintf("layout=%s; flags=%s; functions=%s; profile source=%s :: ", layoutNames[cs.Layout], flagNames[cs.Flags], preNames[cs.Pre], []string{"file", "URL"}[cs.Src]) + describe(bp, nil)
		c.Violation(class, cs, fmt.Sprintf(format, args...))
	}
	for i, k := range w.kinds {
		if k == kOpenSearch && w.taken[i] == 1 {
			c.Count("e2e/search-path-binary-found", 1)
			break
		}
	}
	if w.bad {
		fail("harness/replay-diverged", "an answer of the prefix does not fit the call made")
	}
	if r.Panic != nil {
		fail("e2e/panic", "panic: %v\n%s", r.Panic, r.Stack)
		return w.alts
	}
	base, _ := x.run("none", pre)
	if base.Panic != nil || base.Err != nil {
		fail("harness/e2e-baseline", "the run with -symbolize=none failed: %v %v", base.Err, base.Panic)
		return w.alts
	}
	if r.Err != nil {
		if w.nErrAns > 0 {
			c.Count("e2e/refused-after-source-failure", 1)
		} else if x.cs.Pre == 6 {
			// no fresh function id is left: refusing the profile is the valid answer (an invalid one is not)
			c.Count("e2e/refused-id-space-exhausted", 1)
		} else {
			fail("e2e/profile-refused", "no symbol source reported a failure, yet pprof refuses the profile after symbolization: %v", r.Err)
		}
		return w.alts
	}
	po, err := profile.ParseData(r.Out)
	if err != nil {
		fail("e2e/output-unparsable", "%v", err)
		return w.alts
	}
	pb, err := profile.ParseData(base.Out)
	if err != nil {
		fail("harness/e2e-baseline", "baseline output unparsable: %v", err)
		return w.alts
	}
	if d := diffAbs(abstractOut(po), abstractOut(pb)); d != "" {
		fail("e2e/measurements-changed", "%s", d)
	}
	if len(po.Function) > len(pb.Function) {
		c.Count("e2e/functions-attached", 1)
		c.Nontrivial(fmt.Sprint("e2e", x.idx, pre))
	}
	c.Outcome(fmt.Sprint("e2e", len(po.Function), len(po.Sample), r.Err != nil))
	return w.alts
}
