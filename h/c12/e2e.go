package c12

import "github.com/google/pprof/verifh/vk"

func e2e(c *vk.Ctx, idx int64) {}
