package c12

import (
	"fmt"

	"github.com/google/pprof/internal/symbolizer"
	"github.com/google/pprof/profile"

	"github.com/google/pprof/verifh/vk"
)

// Name families for the last clause of the statement ("demangling never
// replaces a non-empty name by an empty one"): every string over a small
// alphabet up to a length bound is given to the real Demangle as the name of a
// not yet demangled function (Name == SystemName), in every demangler mode.
//
//   brackets: the characters the "already demangled" heuristics look at
//   mangled:  "_Z" / "__Z" followed by every tail over Itanium-ABI letters

var bracketAlphabet = []byte("a<>():[]. ")
var mangledAlphabet = []byte("NE12abvicIJLUlSt_CDKPpd")
var demangleModes = []string{"", "templates", "full", "none"}

type soupCase struct {
	Family string `json:"family"`
	Name   string `json:"name"`
	Mode   string `json:"demangle"`
	Force  bool   `json:"force"`
}

func soup(c *vk.Ctx, idx int64) int64 {
	bl, ml := 6, 4
	if c.Thorough() {
		bl, ml = 7, 5
	}
	c.Note(fmt.Sprintf("family names: Demangle on every string over %q up to length %d, and on \"_Z\"/\"__Z\" + every tail over %q up to length %d; modes %q, force off and on",
		bracketAlphabet, bl, mangledAlphabet, ml, demangleModes))
	f := &profile.Function{ID: 1}
	p := &profile.Profile{Function: []*profile.Function{f}}
	run := func(family, name string) {
		for _, mode := range demangleModes {
			for _, force := range []bool{false, true} {
				f.Name, f.SystemName = name, name
				c.Eval()
				cs := soupCase{family, name, mode, force}
				if !c.Guard("demangle", cs, func() { symbolizer.Demangle(p, force, mode) }) {
					continue
				}
				if f.SystemName != name {
					c.Violationf("demangle/system-name-changed", cs, "system name %q became %q", name, f.SystemName)
				}
				if f.Name == "" {
					cl := "demangle/name-emptied"
					if family == "mangled" {
						cl += "/mangled"
					}
					c.Violationf(cl, cs, "name %q became empty", name)
				}
				if f.Name != name {
					c.Count("names/"+family+"/rewritten", 1)
				}
			}
		}
	}
	// enumerate strings of length 1..max over the alphabet, shortest first
	enum := func(alpha []byte, max int, each func(s string)) {
		buf := make([]byte, 0, max)
		for n := 1; n <= max; n++ {
			total := int64(1)
			for i := 0; i < n; i++ {
				total *= int64(len(alpha))
			}
			// shard on blocks of the last two characters
			block := int64(len(alpha) * len(alpha))
			if n < 3 {
				block = 1
			}
			for base := int64(0); base < total; base += block {
				mine := c.Mine(idx)
				idx++
				if !mine {
					continue
				}
				if c.Expired() {
					c.Cap("time budget: stopped in family names")
					return
				}
				for k := base; k < base+block && k < total; k++ {
					buf = buf[:n]
					v := k
					for i := n - 1; i >= 0; i-- {
						buf[i] = alpha[v%int64(len(alpha))]
						v /= int64(len(alpha))
					}
					each(string(buf))
				}
			}
		}
	}
	enum(bracketAlphabet, bl, func(s string) { run("brackets", s) })
	enum(mangledAlphabet, ml, func(s string) {
		run("mangled", "_Z"+s)
		run("mangled", "__Z"+s)
	})
	return idx
}
