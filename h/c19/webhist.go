package c19

import (
	"fmt"
	"net/http"
	"strings"

	"github.com/google/pprof/internal/driver"
	"github.com/google/pprof/verifh/ap"
	"github.com/google/pprof/verifh/drive"
	"github.com/google/pprof/verifh/enum"
	"github.com/google/pprof/verifh/vk"
)

// webHistories drives the same operations through the handlers of ONE running web
// UI (/saveconfig, /deleteconfig): every sequence of up to three operations,
// without merging histories that reach the same model state - a handler may keep
// state of its own between requests, which the settings file does not show.
func webHistories(c *vk.Ctx, cfgRaw func(string) string, idx *int64) {
	a := &ap.AP{Types: []ap.VT{{Type: "n", Unit: "count"}}, Maps: enum.Maps2[:1], Period: 1}
	a.Stacks = []ap.Stack{{Locs: []ap.Loc{{Addr: 0x1010, Map: 0, Lines: []ap.Line{{Func: "f", File: "f.go", Line: 1}}}}, Values: []int64{1}}}
	data := map[string][]byte{"p": drive.Encode(ap.Concretize(a, ap.Opts{}))}
	var rec func(h []Op)
	rec = func(h []Op) {
		if len(h) > 0 {
			if c.Mine(*idx) {
				webHistory(c, data, h, cfgRaw)
			}
			*idx++
		}
		if len(h) == 3 {
			return
		}
		for _, o := range alphabet {
			rec(append(append([]Op(nil), h...), o))
		}
	}
	rec(nil)
}

func webHistory(c *vk.Ctx, data map[string][]byte, h []Op, cfgRaw func(string) string) {
	resetFile()
	driver.VerifReset()
	r := drive.Web(data, []string{"p"})
	if r.Handlers == nil {
		c.Violation("harness/no-web-handlers", nil, fmt.Sprint(r.Err, r.Panic))
		return
	}
	var m []entry
	for i, o := range h {
		target := "/deleteconfig?config=" + o.Name
		if o.Kind == "save" {
			target = "/saveconfig?config=" + o.Name + "&" + o.Cfg
		}
		code, body, pan := drive.Get(r.Handlers, "GET", target)
		c.Eval()
		var okModel bool
		m, okModel = modelApply(m, o, cfgRaw)
		w := witness{History: strs(h[:i]), Op: "GET " + target}
		switch {
		case pan != nil:
			c.Violationf("web-history/panic", w, "%v", pan)
			return
		case okModel && code != http.StatusOK:
			c.Violationf("web-history/unexpected-error", w, "status %d: %s", code, strings.TrimSpace(string(body)))
			return
		case !okModel && code == http.StatusOK:
			c.Violationf("web-history/missing-error", w, "deleting an unknown configuration answered 200")
		}
		got, _, rerr := readState()
		if rerr != nil {
			c.Violationf("web-history/unreadable-file", w, "%v", rerr)
			return
		}
		if fmt.Sprint(got) != fmt.Sprint(m) {
			c.Violationf("web-history/list-model", w, "settings after the request:\n want %v\n got  %v", m, got)
			return
		}
	}
	c.Count("web-histories", 1)
	if len(h) >= 2 {
		c.Nontrivial("webhist:" + strings.Join(strs(h), ";"))
	}
}
