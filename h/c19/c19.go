// Package c19: saved view configurations are durable and faithfully restored.
//
// (a) config <-> URL: every config field x value menu, saved through the real
//
//	setConfig and restored through the menu URL the web UI would offer.
//
// (b) histories of save/delete operations (explicit-state BFS; state = parsed
//
//	settings file) against an ordered-list model.
//
// (c) crash points and I/O faults: for every operation from every state reachable
//
//	in <= k steps, every fault alternative of every file operation (error,
//	short write at every byte, kill at every byte) - afterwards the file holds
//	the complete old or the complete new contents.
//
// (d) schedules: all interleavings (preemption bound) of 2-3 concurrent
//
//	save/delete requests - the final file equals some sequential order.
package c19

import (
	"encoding/json"
	"fmt"
	"net/url"
	"os"
	"path/filepath"
	"sort"
	"strings"

	"github.com/google/pprof/internal/driver"
	"github.com/google/pprof/internal/verifrt"
	"github.com/google/pprof/internal/verifrt/vos"
	"github.com/google/pprof/verifh/drive"
	"github.com/google/pprof/verifh/reg"
	"github.com/google/pprof/verifh/vk"
)

func init() { reg.Register("C19", Run) }

// Op is one settings operation.
type Op struct {
	Kind string // save | delete
	Name string
	Cfg  string // URL parameters of the config to save ("f=a")
}

func (o Op) String() string {
	if o.Kind == "save" {
		return fmt.Sprintf("save(%s,%s)", o.Name, o.Cfg)
	}
	return fmt.Sprintf("delete(%s)", o.Name)
}

var alphabet = []Op{
	{"save", "A", "f=a"}, {"save", "A", "n=7&h=b"}, {"save", "B", "f=a"}, {"save", "B", "n=7&h=b"},
	{"delete", "A", ""}, {"delete", "B", ""},
}

func fname() string {
	return filepath.Join(drive.Sandbox(), "cfg", "pprof", "settings.json")
}

func resetFile() {
	os.RemoveAll(filepath.Dir(fname()))
}

// apply performs op on the real implementation.
func apply(o Op) error {
	driver.VerifReset()
	if o.Kind == "save" {
		u, _ := url.Parse("/saveconfig?config=" + o.Name + "&" + o.Cfg)
		return driver.VerifSetConfig(fname(), *u)
	}
	return driver.VerifRemoveConfig(fname(), o.Name)
}

// entry is one named config of the model / of the parsed file.
type entry struct {
	Name string
	Raw  string // canonical JSON of the stored config (without the name)
}

func readState() (list []entry, raw string, err error) {
	b, err := os.ReadFile(fname())
	if err != nil {
		if os.IsNotExist(err) {
			return nil, "<absent>", nil
		}
		return nil, "", err
	}
	var s struct {
		Configs []map[string]any `json:"configs"`
	}
	if err := json.Unmarshal(b, &s); err != nil {
		return nil, string(b), fmt.Errorf("settings file is not valid JSON: %v", err)
	}
	for _, c := range s.Configs {
		name, _ := c["name"].(string)
		delete(c, "name")
		cb, _ := json.Marshal(c)
		list = append(list, entry{name, string(cb)})
	}
	return list, string(b), nil
}

// modelApply is the reference: an ordered list of named configs.
func modelApply(list []entry, o Op, cfgRaw func(string) string) ([]entry, bool) {
	out := append([]entry(nil), list...)
	switch o.Kind {
	case "save":
		for i := range out {
			if out[i].Name == o.Name {
				out[i].Raw = cfgRaw(o.Cfg)
				return out, true
			}
		}
		return append(out, entry{o.Name, cfgRaw(o.Cfg)}), true
	default:
		for i := range out {
			if out[i].Name == o.Name {
				return append(out[:i:i], out[i+1:]...), true
			}
		}
		return out, false // deleting an unknown name is an error and changes nothing
	}
}

type witness struct {
	History []string `json:"history,omitempty"`
	Op      string   `json:"op,omitempty"`
	Ops     []string `json:"concurrent,omitempty"`
	Fault   string   `json:"fault,omitempty"`
	Choices []int    `json:"choices,omitempty"`
	Field   string   `json:"field,omitempty"`
	Value   string   `json:"value,omitempty"`
}

func strs(ops []Op) []string {
	var s []string
	for _, o := range ops {
		s = append(s, o.String())
	}
	return s
}

// Run is the check.
func Run(c *vk.Ctx) {
	if verifrt.Flavour != "instr" {
		c.Violation("harness/wrong-build", nil, "C19 needs the instrumented build")
		return
	}
	depthB, depthC, preempt := 3, 1, 2
	if c.Thorough() {
		depthB, depthC, preempt = 4, 2, 3
	}
	c.Note(fmt.Sprintf("(a) every config field x value menu; (b) histories <= %d over %d ops; (c) every fault alternative of every file operation for each op from every state reachable in <= %d steps; (d) 2-3 concurrent requests, preemption bound %d", depthB, len(alphabet), depthC, preempt))
	// canonical stored form of the two configs, taken from a fault-free save
	cfgRaw := map[string]string{}
	for _, o := range alphabet {
		if o.Kind != "save" || cfgRaw[o.Cfg] != "" {
			continue
		}
		resetFile()
		if err := apply(o); err != nil {
			c.Violationf("save/unexpected-error", witness{Op: o.String()}, "%v", err)
			return
		}
		l, _, err := readState()
		if err != nil || len(l) != 1 {
			c.Violationf("save/unreadable", witness{Op: o.String()}, "%v %v", l, err)
			return
		}
		cfgRaw[o.Cfg] = l[0].Raw
		cfgRawGlobal[o.Cfg] = l[0].Raw
	}
	if c.Shard == 0 {
		urlRoundTrip(c)
		foreignFiles(c, func(s string) string { return cfgRaw[s] })
	}
	histories(c, depthB, func(s string) string { return cfgRaw[s] })
	var widx int64
	webHistories(c, func(s string) string { return cfgRaw[s] }, &widx)
	faults(c, depthC)
	schedules(c, preempt)
}

// ---------------------------------------------------------------------------
// (b) histories

func histories(c *vk.Ctx, depth int, cfgRaw func(string) string) {
	type node struct{ hist []Op }
	frontier := []node{{}}
	seen := map[string]bool{"": true}
	var idx int64
	for d := 0; d < depth; d++ {
		var next []node
		for _, n := range frontier {
			for _, o := range alphabet {
				h := append(append([]Op(nil), n.hist...), o)
				// model state after h
				var m []entry
				for _, x := range h {
					m, _ = modelApply(m, x, cfgRaw)
				}
				key := fmt.Sprint(m)
				if c.Mine(idx) {
					checkHistory(c, h, cfgRaw)
				}
				idx++
				c.Transition(1)
				if !seen[key] {
					seen[key] = true
					next = append(next, node{h})
				}
			}
		}
		frontier = next
	}
	for k := range seen {
		c.State("hist:" + k)
	}
}

func checkHistory(c *vk.Ctx, h []Op, cfgRaw func(string) string) {
	resetFile()
	var m []entry
	for i, o := range h {
		before, _, _ := readState()
		err := apply(o)
		var okModel bool
		m, okModel = modelApply(m, o, cfgRaw)
		w := witness{History: strs(h[:i]), Op: o.String()}
		c.Eval()
		if okModel && err != nil {
			c.Violationf("history/unexpected-error", w, "%v", err)
			return
		}
		if !okModel && err == nil {
			c.Violationf("history/missing-error", w, "deleting an unknown configuration reported success")
		}
		got, _, rerr := readState()
		if rerr != nil {
			c.Violationf("history/unreadable-file", w, "%v", rerr)
			return
		}
		if fmt.Sprint(got) != fmt.Sprint(m) {
			c.Violationf("history/list-model", w, "settings after the operation:\n want %v\n got  %v", m, got)
			return
		}
		// other entries byte-identical
		for _, b := range before {
			if b.Name == o.Name {
				continue
			}
			found := false
			for _, g := range got {
				if g == b {
					found = true
				}
			}
			if !found {
				c.Violationf("history/other-entry-altered", w, "entry %v changed or vanished", b)
			}
		}
	}
	if len(h) >= 2 {
		c.Nontrivial("hist:" + strings.Join(strs(h), ";"))
	}
}

// ---------------------------------------------------------------------------
// (c) crash points and I/O faults

func reachable(depth int) [][]Op {
	out := [][]Op{{}}
	seen := map[string]bool{}
	frontier := [][]Op{{}}
	for d := 0; d < depth; d++ {
		var next [][]Op
		for _, h := range frontier {
			for _, o := range alphabet {
				nh := append(append([]Op(nil), h...), o)
				var m []entry
				for _, x := range nh {
					m, _ = modelApply(m, x, func(s string) string { return s })
				}
				k := fmt.Sprint(m)
				if seen[k] || len(m) == 0 {
					continue
				}
				seen[k] = true
				next = append(next, nh)
				out = append(out, nh)
			}
		}
		frontier = next
	}
	return out
}

func setup(h []Op) {
	resetFile()
	for _, o := range h {
		apply(o)
	}
}

// cfgRawGlobal: canonical stored form of the configs of the alphabet (set by Run).
var cfgRawGlobal = map[string]string{}

// snapshotDir / restoreDir save and restore the whole settings directory
// (settings file plus whatever an interrupted save left behind).
func snapshotDir() map[string][]byte {
	out := map[string][]byte{}
	dir := filepath.Dir(fname())
	ents, _ := os.ReadDir(dir)
	for _, e := range ents {
		if b, err := os.ReadFile(filepath.Join(dir, e.Name())); err == nil {
			out[e.Name()] = b
		}
	}
	return out
}

func restoreDir(m map[string][]byte) {
	dir := filepath.Dir(fname())
	os.RemoveAll(dir)
	os.MkdirAll(dir, 0700)
	for n, b := range m {
		os.WriteFile(filepath.Join(dir, n), b, 0644)
	}
}

func fileBytes() string {
	b, err := os.ReadFile(fname())
	if err != nil {
		return "<absent>"
	}
	return string(b)
}

func faults(c *vk.Ctx, depth int) {
	var idx int64 = 1 << 20
	for _, h := range reachable(depth) {
		for _, o := range alphabet {
			if !c.Mine(idx) {
				idx++
				continue
			}
			idx++
			if c.Expired() {
				c.Cap("time budget hit in the fault family")
				return
			}
			setup(h)
			old := fileBytes()
			errNoFault := apply(o)
			newb := fileBytes()
			var opErr, err2 error
			var mid string
			var midSet bool
			var follow int
			var firstLog []string
			body := func() {
				midSet, follow = false, 0
				verifrt.Quiet(func() { setup(h) })
				vos.Reset()
				opErr = apply(o)
				mid, midSet = fileBytes(), true
				firstLog = append([]string(nil), vos.Log...)
				// The request failed but pprof lives on (the web UI keeps serving): every next request in the
				// same process must act on what the file holds, not on what the failed request left in memory.
				faulted := false
				for _, l := range firstLog {
					faulted = faulted || strings.Contains(l, "->")
				}
				if faulted {
					follow = verifrt.Choose(len(alphabet)+1, verifrt.KFree, "next request in the same process")
					if follow > 0 {
						verifrt.Quiet(func() { err2 = apply(alphabet[follow-1]) })
					}
				}
			}
			e := &verifrt.Explorer{Bounds: verifrt.Bounds{verifrt.KFault: 1}, Body: body, NoSched: true}
			nfaults := 0
			e.Check = func(x *verifrt.Exec) bool {
				c.Eval()
				c.Trace(1)
				got := fileBytes()
				log := vos.Log
				if midSet {
					got, log = mid, firstLog
				}
				fault := ""
				for _, l := range log {
					if strings.Contains(l, "->") {
						fault = l
					}
				}
				w := witness{History: strs(h), Op: o.String(), Fault: fault, Choices: trim(x.Choices)}
				if x.Diverged != "" {
					c.Violation("harness/divergence", w, x.Diverged)
					return true
				}
				if x.Hung != "" {
					c.Violation("fault/hang", w, x.Hung)
					return false
				}
				if len(x.Panics) > 0 {
					c.Violation("fault/panic", w, strings.Join(x.Panics, "\n"))
					return true
				}
				if fault == "" {
					if got != newb || (opErr == nil) != (errNoFault == nil) {
						c.Violationf("harness/fault-free-run-differs", w, "got %q want %q", got, newb)
					}
					return true
				}
				if follow > 0 && midSet && len(x.Panics) == 0 && x.Hung == "" && x.Diverged == "" {
					o2 := alphabet[follow-1]
					w.Op = o.String() + " [" + fault + "] then, in the same process, " + o2.String()
					if got != old && got != newb {
						return true // reported by the execution without a follow-up
					}
					after, raw2, rerr := readState()
					base := stateOf(got)
					want, okm := modelApply(base, o2, func(s string) string { return cfgRawGlobal[s] })
					if rerr != nil {
						c.Violationf("durability/io-error/next-request-corrupts-file", w, "%v\n %.200q", rerr, raw2)
					} else if okm && (err2 != nil || fmt.Sprint(after) != fmt.Sprint(want)) {
						c.Violationf("durability/io-error/next-request-wrong-result", w, "err=%v\n file after the failed request: %.200q\n want %v\n got  %v", err2, got, want, after)
					} else if !okm && fmt.Sprint(after) != fmt.Sprint(base) {
						c.Violationf("durability/io-error/next-request-wrong-result", w, "the request is an error for the reference, yet the settings changed\n want %v\n got  %v", base, after)
					}
					c.Count("fault-then-next-request", 1)
					return !c.Expired()
				}
				nfaults++
				kind := "io-error"
				if x.Crashed != "" {
					kind = "crash"
				}
				if got != old && got != newb {
					c.Violationf("durability/"+kind+"/neither-old-nor-new", w, "after %s the settings file holds neither the complete previous nor the complete new contents\n old: %.120q\n new: %.120q\n got: %.120q", fault, old, newb, got)
				}
				if x.Crashed == "" && opErr == nil && got != newb {
					c.Violationf("durability/io-error/reported-success", w, "the operation reported success after %s but the file does not hold the new contents", fault)
				}
				// After a kill or a failed write, pprof is restarted and used again: every
				// follow-up operation must act on the complete old or new settings, whatever
				// the interrupted save left lying around (temporary files, partial files).
				if got == old || got == newb {
					leftovers := snapshotDir()
					for _, o2 := range alphabet {
						restoreDir(leftovers)
						var base []entry
						base, _, _ = readState()
						want, okm := modelApply(base, o2, func(s string) string { return cfgRawGlobal[s] })
						err2 := apply(o2)
						after, raw2, rerr := readState()
						w2 := w
						w2.Op = o.String() + " [" + fault + "] then " + o2.String()
						c.Eval()
						if rerr != nil {
							c.Violationf("durability/"+kind+"/follow-up-corrupts-file", w2, "after the interrupted operation, %s leaves an unreadable settings file: %v\n %.200q", o2, rerr, raw2)
							break
						}
						if okm && (err2 != nil || fmt.Sprint(after) != fmt.Sprint(want)) {
							c.Violationf("durability/"+kind+"/follow-up-wrong-result", w2, "err=%v\n want %v\n got  %v", err2, want, after)
							break
						}
					}
				}
				return !c.Expired()
			}
			e.Run()
			c.Transition(e.Transitions)
			c.State("fault:" + fmt.Sprint(strs(h)) + o.String())
			c.Count("fault-executions", int64(e.Execs))
			if nfaults >= 2 {
				c.Nontrivial("fault:" + fmt.Sprint(strs(h)) + o.String())
			}
			if c.WantSample() {
				c.Sample(map[string]any{"state": strs(h), "op": o.String(), "fault_alternatives_executed": nfaults})
			}
		}
	}
}

// ---------------------------------------------------------------------------
// (d) schedules

func schedules(c *vk.Ctx, preempt int) {
	var idx int64 = 2 << 20
	var combos [][]Op
	for i := range alphabet {
		for j := range alphabet {
			if i < j {
				combos = append(combos, []Op{alphabet[i], alphabet[j]})
			}
		}
	}
	// same-name double save and three distinct requests
	combos = append(combos, []Op{alphabet[0], alphabet[0]}, []Op{alphabet[0], alphabet[3], alphabet[4]}, []Op{alphabet[0], alphabet[2], alphabet[5]})
	for _, h := range [][]Op{{}, {alphabet[0], alphabet[3]}} {
		for _, ops := range combos {
			if !c.Mine(idx) {
				idx++
				continue
			}
			idx++
			if c.Expired() {
				c.Cap("time budget hit in the schedule family")
				return
			}
			// sequential outcomes: every order of the requests
			want := map[string]bool{}
			for _, perm := range permutations(len(ops)) {
				setup(h)
				for _, i := range perm {
					apply(ops[i])
				}
				l, _, _ := readState()
				want[fmt.Sprint(l)] = true
			}
			bound := preempt
			if len(ops) > 2 && bound > 2 {
				bound = 2
			}
			body := func() {
				verifrt.Quiet(func() { setup(h) })
				done := 0
				for i := range ops {
					o := ops[i]
					verifrt.Go(func() {
						applyNoReset(o)
						done++
					})
				}
				verifrt.SchedPoint(func() bool { return done == len(ops) }, "join")
			}
			e := &verifrt.Explorer{Bounds: verifrt.Bounds{verifrt.KSched: bound, verifrt.KSwitch: 1}, Body: body}
			outcomes := map[string]bool{}
			e.Check = func(x *verifrt.Exec) bool {
				c.Eval()
				c.Trace(1)
				w := witness{History: strs(h), Ops: strs(ops), Choices: trim(x.Choices)}
				switch {
				case x.Diverged != "":
					c.Violation("harness/divergence", w, x.Diverged)
					return true
				case x.Hung != "":
					c.Violation("concurrent/hang", w, x.Hung)
					return false
				case x.Deadlock != "":
					c.Violation("concurrent/deadlock", w, x.Deadlock)
					return true
				case len(x.Panics) > 0:
					c.Violation("concurrent/panic", w, strings.Join(x.Panics, "\n"))
					return true
				}
				l, _, err := readState()
				if err != nil {
					c.Violationf("concurrent/unreadable-file", w, "%v", err)
					return true
				}
				outcomes[fmt.Sprint(l)] = true
				if !want[fmt.Sprint(l)] {
					c.Violationf("concurrent/not-serializable", w, "final settings %v are not the result of any sequential order of the requests %v", l, sortedKeys(want))
				}
				return !c.Expired()
			}
			e.Run()
			c.Transition(e.Transitions)
			c.State("sched:" + fmt.Sprint(strs(h)) + fmt.Sprint(strs(ops)))
			c.Outcome(fmt.Sprint(len(outcomes)))
			c.Count("schedule-executions", int64(e.Execs))
			if e.Execs > 5 {
				c.Nontrivial("sched:" + fmt.Sprint(strs(h)) + fmt.Sprint(strs(ops)))
			}
			if c.WantSample() {
				c.Sample(map[string]any{"state": strs(h), "concurrent": strs(ops), "schedules": e.Execs, "distinct_final_states": len(outcomes)})
			}
		}
	}
}

// applyNoReset is apply without resetting driver globals (requests of one session).
func applyNoReset(o Op) error {
	if o.Kind == "save" {
		u, _ := url.Parse("/saveconfig?config=" + o.Name + "&" + o.Cfg)
		return driver.VerifSetConfig(fname(), *u)
	}
	return driver.VerifRemoveConfig(fname(), o.Name)
}

func permutations(n int) [][]int {
	var out [][]int
	p := make([]int, n)
	for i := range p {
		p[i] = i
	}
	var rec func(k int)
	rec = func(k int) {
		if k == n {
			out = append(out, append([]int(nil), p...))
			return
		}
		for i := k; i < n; i++ {
			p[k], p[i] = p[i], p[k]
			rec(k + 1)
			p[k], p[i] = p[i], p[k]
		}
	}
	rec(0)
	return out
}

func sortedKeys(m map[string]bool) []string {
	var s []string
	for k := range m {
		s = append(s, k)
	}
	sort.Strings(s)
	return s
}

func trim(ch []int) []int {
	n := len(ch)
	for n > 0 && ch[n-1] == 0 {
		n--
	}
	return ch[:n]
}

// ---------------------------------------------------------------------------
// (e) a settings file pprof did not write

// foreignContents are settings files as another program, an older version or a
// crash of something else may have left them.
var foreignContents = []string{
	"", "{", "garbage", "[]", "null", "7", `{"configs":null}`, `{"configs":[]}`, `{"configs":{}}`, `{"configs":[null]}`,
	`{"configs":[{"name":"B","focus":"a"}],"other":1}`, `{"configs":[{"name":"A"}]}`, `{"configs":[{"name":"A"},{"name":"A","focus":"z"}]}`,
	`{"configs":[{"name":"B","nodecount":"many"}]}`, "\x00\x01\x02",
}

// foreignFiles: every operation of the alphabet on every foreign settings file.
// The operation either reports an error and leaves the file byte for byte as it
// was, or succeeds and leaves a readable file in which the names are those the
// reference list gives (a saved entry holding the saved configuration); it never
// panics.
func foreignFiles(c *vk.Ctx, cfgRaw func(string) string) {
	for _, content := range foreignContents {
		for _, o := range alphabet {
			c.Eval()
			resetFile()
			os.MkdirAll(filepath.Dir(fname()), 0700)
			os.WriteFile(fname(), []byte(content), 0644)
			w := witness{Op: o.String(), Value: fmt.Sprintf("file contents %q", content)}
			before, _, berr := readState()
			var err error
			pan := func() (p any) {
				defer func() { p = recover() }()
				err = apply(o)
				return nil
			}()
			if pan != nil {
				c.Violationf("foreign-file/panic", w, "%v", pan)
				continue
			}
			after := fileBytes()
			if err != nil {
				if after != content {
					c.Violationf("foreign-file/error-but-file-changed", w, "error %v, file now %.200q", err, after)
				}
				c.Outcome("foreign-file/error")
				continue
			}
			got, _, rerr := readState()
			if rerr != nil {
				c.Violationf("foreign-file/unreadable-after-success", w, "%v: %.200q", rerr, after)
				continue
			}
			c.Outcome("foreign-file/ok")
			if berr != nil {
				continue // contents the reference reader cannot list: success must only leave a readable file
			}
			want, _ := modelApply(before, o, cfgRaw)
			var wn, gn []string
			for _, e := range want {
				wn = append(wn, e.Name)
			}
			for _, e := range got {
				gn = append(gn, e.Name)
			}
			if fmt.Sprint(wn) != fmt.Sprint(gn) {
				c.Violationf("foreign-file/names", w, "names after the operation %v, expected %v", gn, wn)
			}
			if o.Kind == "save" {
				n := 0
				for _, e := range got {
					if e.Name == o.Name && e.Raw == cfgRaw(o.Cfg) {
						n++
					}
				}
				if n == 0 {
					c.Violationf("foreign-file/saved-entry", w, "the saved configuration is not in the file: %v", got)
				}
			}
			c.Nontrivial("foreign:" + content + o.String())
		}
	}
}

// stateOf parses settings file contents ("<absent>" = no file) with the reference reader.
func stateOf(raw string) []entry {
	if raw == "<absent>" {
		return nil
	}
	var s struct {
		Configs []map[string]any `json:"configs"`
	}
	if json.Unmarshal([]byte(raw), &s) != nil {
		return nil
	}
	var list []entry
	for _, c := range s.Configs {
		name, _ := c["name"].(string)
		delete(c, "name")
		cb, _ := json.Marshal(c)
		list = append(list, entry{name, string(cb)})
	}
	return list
}
