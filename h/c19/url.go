package c19

import (
	"encoding/json"
	"fmt"
	"net/url"
	"strings"

	"github.com/google/pprof/internal/driver"
	"github.com/google/pprof/verifh/vk"
)

var valueMenu = []string{"true", "false", "7", "0", "-3", "0.25", "0.123456789", "0.015625001", "1e-12", "a", " a", "a ", "operator new ", "x y&c=d%+#ü", "cum", "lines", "k", ""}

// urlRoundTrip: for every saved config field and every value of the menu that
// the option parser accepts (and every pair of fields in the thorough tier):
// set the option (through its URL parameter when it has one, else as the current
// option value), save the configuration as "A" through the real setConfig, take
// the URL the config menu offers for "A", apply it to a default configuration and
// compare every saved field with what was saved ("" counts as the default).
func urlRoundTrip(c *vk.Ctx) {
	fields := driver.VerifConfigFields()
	type fv struct {
		f [4]string
		v string
	}
	var singles []fv
	for _, f := range fields {
		if f[2] != "true" {
			continue
		}
		for _, v := range valueMenu {
			driver.VerifReset()
			if err := driver.VerifConfigure(f[0], v); err != nil {
				continue
			}
			singles = append(singles, fv{f, v})
		}
	}
	c.Note(fmt.Sprintf("(a) %d saved fields, %d accepted (field, value) assignments", len(fields), len(singles)))
	check := func(set []fv, viaURL bool) {
		c.Eval()
		resetFile()
		driver.VerifReset()
		q := url.Values{"config": {"A"}}
		var desc []string
		for _, s := range set {
			desc = append(desc, s.f[0]+"="+s.v)
			if viaURL && s.f[1] != "" {
				q.Set(s.f[1], s.v)
			} else if err := driver.VerifConfigure(s.f[0], s.v); err != nil {
				return
			}
		}
		w := witness{Field: strings.Join(desc, ","), Value: fmt.Sprint("via-url=", viaURL)}
		u := url.URL{Path: "/saveconfig", RawQuery: q.Encode()}
		if err := driver.VerifSetConfig(fname(), u); err != nil {
			return // a value the URL parser rejects is answered with an error, not saved
		}
		// What must have been saved, computed without the URL code: every field at its
		// default, except the assigned ones; a URL parameter given with an empty value
		// counts as unset. The canonical spelling of a value is what assigning it as an
		// option yields.
		want := map[string]string{}
		for _, f := range fields {
			want[f[0]] = f[3]
		}
		for _, s := range set {
			if viaURL && s.f[1] != "" && s.v == "" {
				continue
			}
			driver.VerifReset()
			if err := driver.VerifConfigure(s.f[0], s.v); err != nil {
				return
			}
			want[s.f[0]], _ = driver.VerifConfigGet(s.f[0])
		}
		stored, err := driver.VerifReadSettings(fname())
		if err != nil || stored["A"] == nil {
			c.Violationf("url-roundtrip/not-stored", w, "configuration A is not in the settings file: %v", err)
			return
		}
		// a text option (an option that takes any text as it is) is stored byte for byte as it was given:
		// blanks at either end are part of a regular expression
		for _, s := range set {
			if viaURL && s.f[1] != "" && s.v != "" && textField(s.f[0]) {
				if got := stored["A"][s.f[0]]; got != s.v {
					c.Violationf("url-to-config/text-altered/"+s.f[0], w, "field %s given as %q, stored as %q", s.f[0], s.v, got)
				}
			}
		}
		for _, f := range fields {
			if f[2] != "true" {
				continue
			}
			if got := stored["A"][f[0]]; got != want[f[0]] {
				c.Violationf("url-to-config/field-wrong/"+f[0], w, "field %s stored as %q, expected %q", f[0], got, want[f[0]])
			}
		}
		saved := stored["A"]
		var menuURL string
		for _, e := range driver.VerifConfigMenu(fname()) {
			if e[0] == "A" {
				menuURL = e[1]
			}
		}
		if menuURL == "" {
			c.Violationf("url-roundtrip/no-menu-entry", w, "saved configuration A is not offered in the menu")
			return
		}
		mu, err := url.Parse(menuURL)
		if err != nil {
			c.Violationf("url-roundtrip/bad-menu-url", w, "%q: %v", menuURL, err)
			return
		}
		restored, _, err := driver.VerifURLRoundTrip(mu.Query())
		if err != nil {
			c.Violationf("url-roundtrip/restore-error", w, "applying %q: %v", menuURL, err)
			return
		}
		// the same through the stored form alone: what the link restores, written the way the settings
		// file writes it, is what the file holds for A (numbers compared as numbers, not as pprof prints them)
		if rj, err := driver.VerifURLToJSON(mu.Query()); err == nil {
			var rm, dm map[string]any
			json.Unmarshal([]byte(rj), &rm)
			dj, _ := driver.VerifURLToJSON(url.Values{})
			json.Unmarshal([]byte(dj), &dm)
			if list, _, rerr := readState(); rerr == nil {
				for _, e := range list {
					if e.Name != "A" {
						continue
					}
					var sm map[string]any
					json.Unmarshal([]byte(e.Raw), &sm)
					for k, rv := range rm {
						if k == "name" {
							continue
						}
						sv, stored := sm[k]
						if !stored {
							sv = dm[k] // stored empty = unset: takes its default
						}
						if fmt.Sprint(sv) != fmt.Sprint(rv) {
							c.Violationf("url-roundtrip/stored-form-differs/"+k, w, "stored for A: %s\nrestored via %q: %s", e.Raw, menuURL, rj)
						}
					}
				}
			}
		}
		for _, f := range fields {
			if f[2] != "true" {
				continue
			}
			want, got := saved[f[0]], restored[f[0]]
			if want == got || (want == "" && got == f[3]) {
				continue
			}
			c.Violationf("url-roundtrip/field-lost/"+f[0], w, "field %s saved as %q but restored as %q through %q", f[0], want, got, menuURL)
		}
		c.Nontrivial("url:" + w.Field + w.Value)
	}
	for _, s := range singles {
		check([]fv{s}, false)
		check([]fv{s}, true)
	}
	restoreFromOtherView(c, fields)
	if c.Thorough() {
		for i, a := range singles {
			for _, b := range singles[i+1:] {
				if a.f[0] == b.f[0] {
					continue
				}
				check([]fv{a, b}, true)
			}
		}
	}
}

// restoreFromOtherView: a configuration saved with field=v is selected from the
// menu of a page that shows field=w (every ordered pair of accepted values of
// the field, including values of which the other is a proper prefix: 7/70,
// 0/0.25, a/ab): following the link must give the saved value, whatever the
// page showed.
func restoreFromOtherView(c *vk.Ctx, fields [][4]string) {
	menu := append(append([]string{}, valueMenu...), "70", "ab", "0.2", "tr")
	for _, f := range fields {
		if f[2] != "true" || f[1] == "" {
			continue
		}
		var ok []string
		for _, v := range menu {
			driver.VerifReset()
			if v != "" && driver.VerifConfigure(f[0], v) == nil {
				ok = append(ok, v)
			}
		}
		for _, v := range ok {
			for _, pv := range ok {
				if v == pv {
					continue
				}
				c.Eval()
				resetFile()
				driver.VerifReset()
				w := witness{Field: f[0] + "=" + v, Value: "page shows " + f[1] + "=" + pv}
				if err := driver.VerifSetConfig(fname(), url.URL{Path: "/saveconfig", RawQuery: url.Values{"config": {"A"}, f[1]: {v}}.Encode()}); err != nil {
					continue
				}
				stored, err := driver.VerifReadSettings(fname())
				if err != nil || stored["A"] == nil {
					continue
				}
				var link string
				for _, e := range driver.VerifConfigMenuOn(fname(), url.Values{f[1]: {pv}}.Encode()) {
					if e[0] == "A" {
						link = e[1]
					}
				}
				mu, err := url.Parse(link)
				if link == "" || err != nil {
					c.Violationf("url-roundtrip/no-menu-entry", w, "menu link %q: %v", link, err)
					continue
				}
				driver.VerifReset()
				restored, _, err := driver.VerifURLRoundTrip(mu.Query())
				if err != nil {
					c.Violationf("url-roundtrip/restore-error", w, "applying %q: %v", link, err)
					continue
				}
				if got, want := restored[f[0]], stored["A"][f[0]]; got != want {
					c.Violationf("url-roundtrip/restored-from-other-view/"+f[0], w, "saved %s=%q; selected from a page showing %s=%q through %q: restored as %q", f[0], want, f[1], pv, link, got)
				}
				c.Count("url/restore-from-other-view", 1)
			}
		}
	}
}

// textFields are the options that take any text: those that accept, unchanged, a
// value no number, boolean or choice could be.
var textFields map[string]bool

func textField(name string) bool {
	if textFields == nil {
		textFields = map[string]bool{}
		for _, f := range driver.VerifConfigFields() {
			driver.VerifReset()
			const probe = "zz(q)?"
			if driver.VerifConfigure(f[0], probe) == nil {
				if got, _ := driver.VerifConfigGet(f[0]); got == probe {
					textFields[f[0]] = true
				}
			}
		}
		driver.VerifReset()
	}
	return textFields[name]
}
