package c03

import (
	"fmt"

	"github.com/google/pprof/verifh/ap"
	"github.com/google/pprof/verifh/vk"
)

// keyAmbiguity: frames that differ in two attributes at once in such a way that
// their identity would coincide if the fields of a location or sample key were
// written without separators (in hexadecimal or decimal): (line, column) =
// (1,16)/(17,0) and (1,10)/(11,0); with 22 functions in the profile, (function
// number 1, line 0x6f)/(function number 0x16, line 0xf); label values "a"+"bc"
// / "ab"+"c"; numeric label values 1,23 / 12,3. All frames sit at address 0
// without a mapping (an address-less profile), so only these fields tell them
// apart. Each profile is merged alone, with a copy of itself and with its
// reversed twin; the reference keeps every stack apart.
func keyAmbiguity(c *vk.Ctx, r *runner) {
	frame := func(fn string, line, col int64) ap.Loc {
		return ap.Loc{Addr: 0, Map: -1, Lines: []ap.Line{{Func: fn, Sys: fn, File: "k.go", Start: 1, Line: line, Col: col}}}
	}
	mk := func(stacks []ap.Stack) *ap.AP {
		return &ap.AP{Types: append([]ap.VT(nil), sampleTypes...), PeriodType: &ap.VT{Type: "cpu", Unit: "nanoseconds"}, Period: 1, Stacks: stacks}
	}
	var menus [][]ap.Stack
	// line / column
	for _, pr := range [][2][2]int64{{{1, 16}, {17, 0}}, {{1, 10}, {11, 0}}, {{2, 0x21}, {0x22, 1}}} {
		menus = append(menus, []ap.Stack{
			{Locs: []ap.Loc{frame("f", pr[0][0], pr[0][1])}, Values: []int64{1, 10}},
			{Locs: []ap.Loc{frame("f", pr[1][0], pr[1][1])}, Values: []int64{2, 20}},
		})
	}
	// function number / line: functions get their numbers in order of first appearance
	var many []ap.Stack
	for i := 1; i <= 22; i++ {
		line := int64(0x100 + i)
		switch i {
		case 1:
			line = 0x6f
		case 22:
			line = 0xf
		case 2:
			line = 111 // decimal twin: function 2, line 111 / function 21, line 11
		case 21:
			line = 11
		}
		many = append(many, ap.Stack{Locs: []ap.Loc{frame(fmt.Sprintf("fn%02d", i), line, 0)}, Values: []int64{int64(i), int64(100 + i)}})
	}
	menus = append(menus, many)
	// labels
	one := frame("f", 1, 0)
	menus = append(menus, []ap.Stack{
		{Locs: []ap.Loc{one}, Values: []int64{1, 10}, Labels: map[string][]string{"k": {"a", "bc"}}},
		{Locs: []ap.Loc{one}, Values: []int64{2, 20}, Labels: map[string][]string{"k": {"ab", "c"}}},
		{Locs: []ap.Loc{one}, Values: []int64{4, 40}, Labels: map[string][]string{"ka": {"b"}}},
		{Locs: []ap.Loc{one}, Values: []int64{8, 80}, Labels: map[string][]string{"k": {"ab"}}},
	})
	menus = append(menus, []ap.Stack{
		{Locs: []ap.Loc{one}, Values: []int64{1, 10}, NumLabel: map[string][]int64{"n": {1, 23}}},
		{Locs: []ap.Loc{one}, Values: []int64{2, 20}, NumLabel: map[string][]int64{"n": {12, 3}}},
		{Locs: []ap.Loc{one}, Values: []int64{4, 40}, NumLabel: map[string][]int64{"n": {123}}},
		{Locs: []ap.Loc{one}, Values: []int64{8, 80}, NumLabel: map[string][]int64{"n": {1}, "n2": {3}}},
	})
	for mi, st := range menus {
		rev := make([]ap.Stack, len(st))
		for i := range st {
			rev[len(st)-1-i] = st[i].Clone()
		}
		for k, ins := range [][]*input{
			{{a: mk(st)}},
			{{a: mk(st)}, {a: mk(st)}},
			{{a: mk(st)}, {a: mk(rev), o: shifted}},
		} {
			if !r.next() {
				continue
			}
			cs := &Case{Family: "key-ambiguity", Stacks: []string{fmt.Sprintf("menu %d", mi)}, Placement: fmt.Sprintf("%d-inputs/%d", len(ins), k)}
			evalCase(c, cs, ins)
		}
	}
}
