package c03

import (
	"fmt"
	"sort"
	"strconv"
	"strings"

	"github.com/google/pprof/verifh/ap"
)

// binaryID is the identity of the binary a location belongs to, as far as the
// property fixes it: the build id when there is one, otherwise the file name.
// Size, offset, flags and the load address are not part of it, so a merge that
// also distinguishes those is finer than required and tolerated.
func binaryID(a *ap.AP, m int) (id string, start uint64) {
	if m < 0 || m >= len(a.Maps) {
		return "-", 0
	}
	mp := a.Maps[m]
	if mp.BuildID != "" {
		return "B" + strconv.Quote(mp.BuildID), mp.Start
	}
	return "F" + strconv.Quote(mp.File), mp.Start
}

// ident is the identity of a stack exactly as the property statement lists
// it: per location the binary identity, the address relative to the mapping,
// the folded flag and the inline nesting (which lines share the location, in
// order); per line function name, system name, file, start line, line and
// column; and the label set (string values as a multiset per key, numeric
// values paired with their units, absent unit = empty unit).
type ident struct {
	locs   []identLoc
	labels string
	nums   string
}

type identLoc struct {
	bin    string
	rel    uint64
	folded bool
	lines  []ap.Line
}

func identOf(a *ap.AP, s *ap.Stack) *ident {
	id := &ident{}
	for _, l := range s.Locs {
		bin, start := binaryID(a, l.Map)
		id.locs = append(id.locs, identLoc{bin: bin, rel: l.Addr - start, folded: l.Folded, lines: l.Lines})
	}
	var parts []string
	for k, vs := range s.Labels {
		if len(vs) == 0 {
			continue
		}
		sv := append([]string(nil), vs...)
		sort.Strings(sv)
		parts = append(parts, fmt.Sprintf("%q=%q", k, sv))
	}
	sort.Strings(parts)
	id.labels = strings.Join(parts, ";")
	parts = parts[:0]
	for k, vs := range s.NumLabel {
		if len(vs) == 0 {
			continue
		}
		us := s.NumUnit[k]
		pv := make([]string, len(vs))
		for i, v := range vs {
			u := ""
			if i < len(us) {
				u = us[i]
			}
			pv[i] = fmt.Sprintf("%d%q", v, u)
		}
		sort.Strings(pv)
		parts = append(parts, fmt.Sprintf("%q=%v", k, pv))
	}
	sort.Strings(parts)
	id.nums = strings.Join(parts, ";")
	return id
}

// String is the canonical form of an identity (the aggregation key).
func (id *ident) String() string {
	var b strings.Builder
	for _, l := range id.locs {
		b.WriteString("[")
		b.WriteString(l.bin)
		b.WriteString(" +")
		b.WriteString(strconv.FormatUint(l.rel, 16))
		if l.folded {
			b.WriteString(" folded")
		}
		for _, ln := range l.lines {
			b.WriteString(" (")
			b.WriteString(strconv.Quote(ln.Func))
			b.WriteString(strconv.Quote(ln.Sys))
			b.WriteString(strconv.Quote(ln.File))
			b.WriteString(strconv.FormatInt(ln.Start, 10))
			b.WriteByte(':')
			b.WriteString(strconv.FormatInt(ln.Line, 10))
			b.WriteByte(':')
			b.WriteString(strconv.FormatInt(ln.Col, 10))
			b.WriteString(")")
		}
		b.WriteString("]")
	}
	b.WriteString(" {")
	b.WriteString(id.labels)
	b.WriteString("} {")
	b.WriteString(id.nums)
	b.WriteString("}")
	return b.String()
}

func stackID(a *ap.AP, s *ap.Stack) string { return identOf(a, s).String() }

// diff lists the kinds of attributes in which two identities differ.
func (id *ident) diff(o *ident) []string {
	set := map[string]bool{}
	if id.labels != o.labels {
		set["label"] = true
	}
	if id.nums != o.nums {
		set["numlabel"] = true
	}
	if len(id.locs) != len(o.locs) {
		set["stack.depth"] = true
	} else {
		for i := range id.locs {
			a, b := id.locs[i], o.locs[i]
			if a.bin != b.bin {
				set["loc.binary"] = true
			}
			if a.rel != b.rel {
				set["loc.address"] = true
			}
			if a.folded != b.folded {
				set["loc.folded"] = true
			}
			if len(a.lines) != len(b.lines) {
				set["loc.nlines"] = true
				continue
			}
			for j := range a.lines {
				x, y := a.lines[j], b.lines[j]
				if x.Func != y.Func {
					set["func.name"] = true
				}
				if x.Sys != y.Sys {
					set["func.sysname"] = true
				}
				if x.File != y.File {
					set["func.file"] = true
				}
				if x.Start != y.Start {
					set["func.startline"] = true
				}
				if x.Line != y.Line {
					set["line.line-"+lastness(j)] = true
				}
				if x.Col != y.Col {
					set["line.column-"+lastness(j)] = true
				}
			}
		}
	}
	out := make([]string, 0, len(set))
	for k := range set {
		out = append(out, k)
	}
	sort.Strings(out)
	return out
}

// agg is a profile aggregated by stack identity.
type agg map[string]*entry

type entry struct {
	id   *ident
	vals []int64
}

func isZero(v []int64) bool {
	for _, x := range v {
		if x != 0 {
			return false
		}
	}
	return true
}

// add sums the value vectors of a's stacks into g by identity. rawZero counts
// stacks of a that are all zero themselves.
func (g agg) add(a *ap.AP) (rawZero int) {
	for i := range a.Stacks {
		s := &a.Stacks[i]
		if isZero(s.Values) {
			rawZero++
		}
		id := identOf(a, s)
		k := id.String()
		cur := g[k]
		if cur == nil {
			cur = &entry{id: id, vals: make([]int64, len(s.Values))}
			g[k] = cur
		}
		for j, v := range s.Values {
			if j < len(cur.vals) {
				cur.vals[j] += v
			}
		}
	}
	return rawZero
}

// dropZero removes the identities whose sum is all zero.
func (g agg) dropZero() {
	for k, v := range g {
		if isZero(v.vals) {
			delete(g, k)
		}
	}
}

// reference is the model of Merge: sum by (frames, labels) over all inputs.
func reference(ins []*ap.AP) agg {
	g := agg{}
	for _, a := range ins {
		g.add(a)
	}
	g.dropZero()
	return g
}

func sameVals(v, w []int64) bool {
	if len(v) != len(w) {
		return false
	}
	for i := range v {
		if v[i] != w[i] {
			return false
		}
	}
	return true
}

func (g agg) equal(h agg) bool {
	if len(g) != len(h) {
		return false
	}
	for k, v := range g {
		w, ok := h[k]
		if !ok || !sameVals(v.vals, w.vals) {
			return false
		}
	}
	return true
}

func (g agg) String() string {
	keys := make([]string, 0, len(g))
	for k := range g {
		keys = append(keys, k)
	}
	sort.Strings(keys)
	var b strings.Builder
	for _, k := range keys {
		fmt.Fprintf(&b, "  %v %s\n", g[k].vals, k)
	}
	if len(keys) == 0 {
		return "  (no stacks)\n"
	}
	return b.String()
}

// projectKinds are the attributes of the identity that can be erased one at
// a time, most specific first.
var projectKinds = []string{
	"line.column-nonlast", "line.column-last", "line.line-nonlast", "line.line-last",
	"func.startline", "func.sysname", "func.file", "func.name",
	"loc.folded", "loc.address", "loc.binary", "loc.nesting", "label", "numlabel",
}

// project returns a copy of id with one attribute erased.
func (id *ident) project(kind string) *ident {
	o := &ident{labels: id.labels, nums: id.nums}
	switch kind {
	case "label":
		o.labels = ""
	case "numlabel":
		o.nums = ""
	}
	for _, l := range id.locs {
		l.lines = append([]ap.Line(nil), l.lines...)
		switch kind {
		case "loc.folded":
			l.folded = false
		case "loc.address":
			l.rel = 0
		case "loc.binary":
			l.bin = ""
		}
		for j := range l.lines {
			ln := &l.lines[j]
			switch kind {
			case "func.name":
				ln.Func = ""
			case "func.sysname":
				ln.Sys = ""
			case "func.file":
				ln.File = ""
			case "func.startline":
				ln.Start = 0
			case "line.line-last", "line.line-nonlast":
				if kind == "line.line-"+lastness(j) {
					ln.Line = 0
				}
			case "line.column-last", "line.column-nonlast":
				if kind == "line.column-"+lastness(j) {
					ln.Col = 0
				}
			}
		}
		if kind == "loc.nesting" && len(l.lines) > 1 {
			for _, ln := range l.lines {
				o.locs = append(o.locs, identLoc{bin: l.bin, rel: l.rel, folded: l.folded, lines: []ap.Line{ln}})
			}
			continue
		}
		o.locs = append(o.locs, l)
	}
	return o
}

// project re-aggregates g with one attribute erased from every identity.
func (g agg) project(kind string) agg {
	o := agg{}
	for _, e := range g {
		id := e.id.project(kind)
		k := id.String()
		cur := o[k]
		if cur == nil {
			cur = &entry{id: id, vals: make([]int64, len(e.vals))}
			o[k] = cur
		}
		for j, v := range e.vals {
			cur.vals[j] += v
		}
	}
	o.dropZero()
	return o
}

// classify names the structural predicate of a conservation failure. If the
// result equals the reference once a single attribute is erased from every
// identity on both sides, the merge is coarser than allowed (or alters stacks)
// in exactly that attribute and the attribute is the predicate. Otherwise
// nearestDiff describes the witness.
func classify(want, got, inputs agg) string {
	for _, k := range projectKinds {
		if want.project(k).equal(got.project(k)) {
			return k
		}
	}
	return nearestDiff(want, got, inputs)
}

// nearestDiff: every expected identity that is missing from the result is
// compared with the nearest identity of the result that is not an exact match
// itself; the attributes in which the two differ are what the merge lost or
// altered.
func nearestDiff(want, got, inputs agg) string {
	var cands []*entry
	var gk []string
	for k := range got {
		gk = append(gk, k)
	}
	sort.Strings(gk)
	extra := false
	for _, k := range gk {
		w, ok := want[k]
		if !ok {
			extra = true
		}
		if !ok || !sameVals(w.vals, got[k].vals) {
			cands = append(cands, got[k])
		}
	}
	var wk []string
	for k := range want {
		wk = append(wk, k)
	}
	sort.Strings(wk)
	kinds := map[string]bool{}
	missing, wrong := false, false
	nearest := func(id *ident, among []*entry) {
		var best []string
		for _, c := range among {
			d := id.diff(c.id)
			if best == nil || len(d) < len(best) {
				best = d
			}
		}
		for _, d := range best {
			kinds[d] = true
		}
	}
	for _, k := range wk {
		g, ok := got[k]
		if ok {
			if !sameVals(g.vals, want[k].vals) {
				wrong = true
			}
			continue
		}
		missing = true
		nearest(want[k].id, cands)
	}
	if len(kinds) == 0 && wrong && extra {
		// nothing is missing but sums are short and there are identities
		// nobody asked for: part of a stack's weight moved to an altered copy
		var extras []*entry
		for _, k := range gk {
			if _, ok := want[k]; !ok {
				extras = append(extras, got[k])
			}
		}
		for _, k := range wk {
			if g, ok := got[k]; ok && !sameVals(g.vals, want[k].vals) {
				nearest(want[k].id, extras)
			}
		}
	}
	if missing && len(cands) == 0 {
		// nothing in the result to compare with (the merged stacks cancelled
		// out): compare the missing identities with each other
		for _, k := range wk {
			if _, ok := got[k]; ok {
				continue
			}
			var best []string
			for _, k2 := range wk {
				if _, ok := got[k2]; ok || k2 == k {
					continue
				}
				d := want[k].id.diff(want[k2].id)
				if best == nil || len(d) < len(best) {
					best = d
				}
			}
			for _, d := range best {
				kinds[d] = true
			}
		}
	}
	if len(kinds) == 0 && extra {
		// identities nobody asked for: compare them with the nearest identity
		// of any input stack (also those whose sums cancel)
		var ik []string
		for k := range inputs {
			ik = append(ik, k)
		}
		sort.Strings(ik)
		for _, k := range gk {
			if _, ok := want[k]; ok {
				continue
			}
			var best []string
			for _, k2 := range ik {
				d := got[k].id.diff(inputs[k2].id)
				if best == nil || len(d) < len(best) {
					best = d
				}
			}
			for _, d := range best {
				kinds[d] = true
			}
		}
	}
	if len(kinds) > 0 {
		var ks []string
		for k := range kinds {
			ks = append(ks, k)
		}
		sort.Strings(ks)
		return strings.Join(ks, "+")
	}
	switch {
	case missing:
		return "stack-dropped"
	case extra:
		return "stack-added"
	case wrong:
		return "values"
	}
	return "unclassified"
}

// header is the documented combination of the header fields of the inputs
// (in merge order).
type header struct {
	Period, Time, Duration int64
	Comments               []string
}

func refHeader(ins []*ap.AP) header {
	var h header
	seen := map[string]bool{}
	for i, a := range ins {
		if i == 0 || a.Period > h.Period {
			h.Period = a.Period
		}
		if a.TimeNanos != 0 && (h.Time == 0 || a.TimeNanos < h.Time) {
			h.Time = a.TimeNanos
		}
		h.Duration += a.DurationNanos
		for _, c := range a.Comments {
			if !seen[c] {
				seen[c] = true
				h.Comments = append(h.Comments, c)
			}
		}
	}
	return h
}

func eqStrings(a, b []string) bool {
	if len(a) != len(b) {
		return false
	}
	for i := range a {
		if a[i] != b[i] {
			return false
		}
	}
	return true
}

// timePredicate is the structural predicate of a collection-time witness.
func timePredicate(ins []*ap.AP) string {
	nonzeroSeen, zeroAfter, zero := false, false, false
	for _, a := range ins {
		if a.TimeNanos == 0 {
			zero = true
			if nonzeroSeen {
				zeroAfter = true
			}
		} else {
			nonzeroSeen = true
		}
	}
	switch {
	case zeroAfter:
		return "zero-after-nonzero"
	case zero:
		return "zero-first"
	}
	return "all-nonzero"
}

func oneOf(got string, ins []*ap.AP, f func(*ap.AP) string) bool {
	for _, a := range ins {
		if f(a) == got {
			return true
		}
	}
	return false
}

// documentedStacks aggregates the stacks of a by the identity above refined by
// the documented mapping identity of every location: "Normalize addresses to
// handle address space randomization. Round up to next 4K boundary to avoid
// minor discrepancies" - two mappings of a binary are one iff their sizes
// rounded up to 4K and their file offsets agree. It returns value vectors per
// refined identity (all-zero sums dropped), as sorted strings.
func documentedStacks(aps []*ap.AP) []string {
	sums := map[string][]int64{}
	for _, a := range aps {
		for i := range a.Stacks {
			s := &a.Stacks[i]
			k := identOf(a, s).String() + " maps:"
			for _, l := range s.Locs {
				if l.Map < 0 || l.Map >= len(a.Maps) {
					k += " -"
					continue
				}
				m := a.Maps[l.Map]
				size := m.Limit - m.Start
				size = (size + 0xfff) / 0x1000 * 0x1000
				k += fmt.Sprintf(" %x@%x", size, m.Offset)
			}
			cur := sums[k]
			if cur == nil {
				cur = make([]int64, len(s.Values))
				sums[k] = cur
			}
			for j, v := range s.Values {
				if j < len(cur) {
					cur[j] += v
				}
			}
		}
	}
	var out []string
	for k, v := range sums {
		if !isZero(v) {
			out = append(out, fmt.Sprintf("%v %s", v, k))
		}
	}
	sort.Strings(out)
	return out
}
