package c03

import (
	"fmt"

	"github.com/google/pprof/verifh/ap"
)

// vstack is one abstract stack together with the binaries its locations live
// in (Loc.Map indexes into maps, -1 = no mapping).
type vstack struct {
	st   ap.Stack
	maps []ap.Map
}

func (v *vstack) clone() *vstack {
	return &vstack{st: v.st.Clone(), maps: append([]ap.Map(nil), v.maps...)}
}

// variant changes exactly one attribute of the base stack.
type variant struct {
	name  string // unique, e.g. "line.column@1.2"
	kind  string // structural predicate used in violation classes, e.g. "line.column-nonlast"
	apply func(v *vstack) bool
}

var mapA = ap.Map{Start: 0x1000, Limit: 0x3000, File: "/bin/a", BuildID: "ida", HasFunctions: true, HasFilenames: true, HasLineNumbers: true, HasInlineFrames: true}
var mapB = ap.Map{Start: 0x10000, Limit: 0x12000, File: "/lib/b", BuildID: "idb", HasFunctions: true, HasFilenames: true, HasLineNumbers: true, HasInlineFrames: true}

// baseStack is the stack every variant deviates from: a root location with one
// line and a leaf location with three lines (two levels of inlining), both in
// binary A, one string label and one numeric label with a unit.
func baseStack() *vstack {
	return &vstack{
		maps: []ap.Map{mapA},
		st: ap.Stack{
			Locs: []ap.Loc{
				{Addr: 0x1100, Map: 0, Lines: []ap.Line{{Func: "main", Sys: "main_s", File: "main.go", Start: 1, Line: 5, Col: 2}}},
				{Addr: 0x1200, Map: 0, Lines: []ap.Line{
					{Func: "f", Sys: "f_s", File: "f.go", Start: 10, Line: 11, Col: 1},
					{Func: "g", Sys: "g_s", File: "g.go", Start: 20, Line: 21, Col: 2},
					{Func: "h", Sys: "h_s", File: "h.go", Start: 30, Line: 31, Col: 3},
				}},
			},
			Labels:   map[string][]string{"k": {"v"}},
			NumLabel: map[string][]int64{"n": {8}},
			NumUnit:  map[string][]string{"n": {"bytes"}},
		},
	}
}

// addMap returns the index of m in v.maps, appending it if absent.
func (v *vstack) addMap(m ap.Map) int {
	for i, x := range v.maps {
		if x == m {
			return i
		}
	}
	v.maps = append(v.maps, m)
	return len(v.maps) - 1
}

// gcMaps drops binaries no location refers to.
func (v *vstack) gcMaps() {
	used := map[int]int{}
	var maps []ap.Map
	for i := range v.st.Locs {
		m := v.st.Locs[i].Map
		if m < 0 {
			continue
		}
		n, ok := used[m]
		if !ok {
			n = len(maps)
			maps = append(maps, v.maps[m])
			used[m] = n
		}
		v.st.Locs[i].Map = n
	}
	v.maps = maps
}

// lastness names the position of a line inside profile.Location.Line (leaf
// first): the outermost caller is the last entry there.
func lastness(li int) string {
	if li == 0 {
		return "last"
	}
	return "nonlast"
}

func variants() []variant {
	var out []variant
	add := func(name, kind string, f func(v *vstack) bool) {
		out = append(out, variant{name, kind, f})
	}
	line := func(v *vstack, lo, li int) *ap.Line {
		if lo >= len(v.st.Locs) || li >= len(v.st.Locs[lo].Lines) {
			return nil
		}
		return &v.st.Locs[lo].Lines[li]
	}
	// line positions of the base stack: (location, line) root first / caller first
	pos := [][2]int{{0, 0}, {1, 0}, {1, 1}, {1, 2}}
	for _, p := range pos {
		lo, li := p[0], p[1]
		at := fmt.Sprintf("@%d.%d", lo, li)
		add("func.name"+at, "func.name", func(v *vstack) bool {
			l := line(v, lo, li)
			if l == nil {
				return false
			}
			l.Func += "X"
			return true
		})
		add("func.sysname"+at, "func.sysname", func(v *vstack) bool {
			l := line(v, lo, li)
			if l == nil {
				return false
			}
			l.Sys += "X"
			return true
		})
		// a system name that repeats the name, and none at all: two different functions
		add("func.sysname-is-name"+at, "func.sysname", func(v *vstack) bool {
			l := line(v, lo, li)
			if l == nil {
				return false
			}
			l.Sys = l.Func
			return true
		})
		add("func.sysname-empty"+at, "func.sysname", func(v *vstack) bool {
			l := line(v, lo, li)
			if l == nil {
				return false
			}
			l.Sys = ""
			return true
		})
		add("func.file"+at, "func.file", func(v *vstack) bool {
			l := line(v, lo, li)
			if l == nil {
				return false
			}
			l.File += "X"
			return true
		})
		add("func.startline"+at, "func.startline", func(v *vstack) bool {
			l := line(v, lo, li)
			if l == nil {
				return false
			}
			l.Start += 100
			return true
		})
		add("line.function"+at, "line.function-"+lastness(li), func(v *vstack) bool {
			l := line(v, lo, li)
			if l == nil {
				return false
			}
			l.Func, l.Sys, l.File, l.Start = "x", "x_s", "x.go", 40
			return true
		})
		add("line.line"+at, "line.line-"+lastness(li), func(v *vstack) bool {
			l := line(v, lo, li)
			if l == nil {
				return false
			}
			l.Line += 100
			return true
		})
		add("line.column"+at, "line.column-"+lastness(li), func(v *vstack) bool {
			l := line(v, lo, li)
			if l == nil {
				return false
			}
			l.Col += 100
			return true
		})
	}
	for lo := 0; lo < 2; lo++ {
		lo := lo
		at := fmt.Sprintf("@%d", lo)
		loc := func(v *vstack) *ap.Loc {
			if lo >= len(v.st.Locs) {
				return nil
			}
			return &v.st.Locs[lo]
		}
		add("loc.address"+at, "loc.address", func(v *vstack) bool {
			l := loc(v)
			if l == nil {
				return false
			}
			l.Addr += 8
			return true
		})
		add("loc.folded"+at, "loc.folded", func(v *vstack) bool {
			l := loc(v)
			if l == nil {
				return false
			}
			l.Folded = !l.Folded
			return true
		})
		add("loc.unsymbolized"+at, "loc.nlines", func(v *vstack) bool {
			l := loc(v)
			if l == nil || len(l.Lines) == 0 {
				return false
			}
			l.Lines = nil
			return true
		})
		add("loc.binary-other"+at, "loc.binary", func(v *vstack) bool {
			l := loc(v)
			if l == nil || l.Map < 0 {
				return false
			}
			old := v.maps[l.Map]
			l.Addr = l.Addr - old.Start + mapB.Start // same address relative to the mapping
			l.Map = v.addMap(mapB)
			v.gcMaps()
			return true
		})
		add("loc.binary-none"+at, "loc.binary", func(v *vstack) bool {
			l := loc(v)
			if l == nil || l.Map < 0 {
				return false
			}
			l.Map = -1
			v.gcMaps()
			return true
		})
	}
	add("loc.nlines-addleaf@0", "loc.nlines", func(v *vstack) bool {
		if len(v.st.Locs) < 1 || len(v.st.Locs[0].Lines) == 0 {
			return false
		}
		l := &v.st.Locs[0]
		l.Lines = append(l.Lines, ap.Line{Func: "i", Sys: "i_s", File: "i.go", Start: 50, Line: 51, Col: 5})
		return true
	})
	add("loc.nlines-dropleaf@1", "loc.nlines", func(v *vstack) bool {
		if len(v.st.Locs) < 2 || len(v.st.Locs[1].Lines) < 2 {
			return false
		}
		l := &v.st.Locs[1]
		l.Lines = l.Lines[:len(l.Lines)-1]
		return true
	})
	add("loc.nlines-droproot@1", "loc.nlines", func(v *vstack) bool {
		if len(v.st.Locs) < 2 || len(v.st.Locs[1].Lines) < 2 {
			return false
		}
		l := &v.st.Locs[1]
		l.Lines = l.Lines[1:]
		return true
	})
	add("loc.nlines-dupleaf@1", "loc.nlines", func(v *vstack) bool {
		if len(v.st.Locs) < 2 || len(v.st.Locs[1].Lines) < 1 {
			return false
		}
		l := &v.st.Locs[1]
		l.Lines = append(l.Lines, l.Lines[len(l.Lines)-1])
		return true
	})
	for i := 0; i < 2; i++ {
		i := i
		add(fmt.Sprintf("loc.lineorder@1.%d", i), "loc.lineorder", func(v *vstack) bool {
			if len(v.st.Locs) < 2 || len(v.st.Locs[1].Lines) < i+2 {
				return false
			}
			ls := v.st.Locs[1].Lines
			ls[i], ls[i+1] = ls[i+1], ls[i]
			return true
		})
		// inline nesting: the same frames at the same address, split into two locations
		add(fmt.Sprintf("loc.nesting-split@1.%d", i), "loc.nesting", func(v *vstack) bool {
			if len(v.st.Locs) < 2 || len(v.st.Locs[1].Lines) < 3 {
				return false
			}
			l := v.st.Locs[1]
			a, b := l, l
			a.Lines = append([]ap.Line(nil), l.Lines[:i+1]...)
			b.Lines = append([]ap.Line(nil), l.Lines[i+1:]...)
			locs := append([]ap.Loc(nil), v.st.Locs[:1]...)
			locs = append(locs, a, b)
			locs = append(locs, v.st.Locs[2:]...)
			v.st.Locs = locs
			return true
		})
	}

	// mapping attributes, applied to the binary of the leaf location only (the
	// profile then holds two mappings of the binary) or of every location.
	type mapEdit struct {
		name, kind string
		shiftAddr  int64
		f          func(m *ap.Map)
	}
	edits := []mapEdit{
		{"map.start-rebased", "map.start", 0x4000, func(m *ap.Map) { m.Start += 0x4000; m.Limit += 0x4000 }}, // same binary mapped elsewhere, same relative addresses
		{"map.start-only", "map.start", 0, func(m *ap.Map) { m.Start -= 0x800; m.Limit -= 0x800 }},           // relative addresses differ
		{"map.size-sameclass", "map.size", 0, func(m *ap.Map) { m.Limit -= 0x100 }},
		{"map.size-otherclass", "map.size", 0, func(m *ap.Map) { m.Limit += 0x1000 }},
		{"map.size-onebyte-more", "map.size", 0, func(m *ap.Map) { m.Limit++ }}, // one byte over a page multiple: the next size class
		{"map.offset", "map.offset", 0, func(m *ap.Map) { m.Offset += 0x1000 }},
		{"map.file-withbuildid", "map.file-withbuildid", 0, func(m *ap.Map) { m.File += "2" }},
		{"map.buildid", "map.buildid", 0, func(m *ap.Map) { m.BuildID += "2" }},
		{"map.nobuildid", "map.buildid", 0, func(m *ap.Map) { m.BuildID = "" }},
		{"map.nobuildid-file", "map.file-nobuildid", 0, func(m *ap.Map) { m.BuildID = ""; m.File += "2" }},
		{"map.fake", "map.fake", 0, func(m *ap.Map) { m.BuildID = ""; m.File = "" }},
		{"map.flags", "map.flags", 0, func(m *ap.Map) { m.HasFunctions = false; m.HasInlineFrames = false }},
		{"map.kernelreloc", "map.kernelreloc", 0, func(m *ap.Map) { m.KernelRelocSym = "_stext" }},
	}
	for _, e := range edits {
		e := e
		for _, all := range []bool{false, true} {
			all := all
			sfx := "@1"
			if all {
				sfx = "@all"
			}
			add(e.name+sfx, e.kind, func(v *vstack) bool {
				done := false
				for i := range v.st.Locs {
					l := &v.st.Locs[i]
					if l.Map < 0 || (!all && i != len(v.st.Locs)-1) {
						continue
					}
					m := v.maps[l.Map]
					e.f(&m)
					l.Map = v.addMap(m)
					l.Addr = uint64(int64(l.Addr) + e.shiftAddr)
					done = true
				}
				v.gcMaps()
				return done
			})
		}
	}

	// sample attributes
	setLabel := func(name, kind string, lab map[string][]string) {
		add(name, kind, func(v *vstack) bool {
			v.st.Labels = nil
			if lab != nil {
				v.st.Labels = map[string][]string{}
				for k, x := range lab {
					v.st.Labels[k] = append([]string{}, x...)
				}
			}
			return true
		})
	}
	setLabel("label.key", "label.key", map[string][]string{"k2": {"v"}})
	setLabel("label.value", "label.value", map[string][]string{"k": {"w"}})
	setLabel("label.value-twice", "label.multiplicity", map[string][]string{"k": {"v", "v"}})
	setLabel("label.value-second", "label.multiplicity", map[string][]string{"k": {"v", "w"}})
	setLabel("label.value-swapped", "label.valueorder", map[string][]string{"k": {"w", "v"}})
	setLabel("label.extrakey", "label.key", map[string][]string{"k": {"v"}, "j": {"v"}})
	setLabel("label.none", "label.key", nil)
	setLabel("label.emptylist", "label.multiplicity", map[string][]string{"k": {}})
	setNum := func(name, kind string, num map[string][]int64, unit map[string][]string) {
		add(name, kind, func(v *vstack) bool {
			v.st.NumLabel, v.st.NumUnit = nil, nil
			if num != nil {
				v.st.NumLabel = map[string][]int64{}
				for k, x := range num {
					v.st.NumLabel[k] = append([]int64{}, x...)
				}
			}
			if unit != nil {
				v.st.NumUnit = map[string][]string{}
				for k, x := range unit {
					v.st.NumUnit[k] = append([]string{}, x...)
				}
			}
			return true
		})
	}
	setNum("num.key", "num.key", map[string][]int64{"m": {8}}, map[string][]string{"m": {"bytes"}})
	setNum("num.value", "num.value", map[string][]int64{"n": {9}}, map[string][]string{"n": {"bytes"}})
	setNum("num.negative", "num.value", map[string][]int64{"n": {-8}}, map[string][]string{"n": {"bytes"}})
	setNum("num.value-twice", "num.multiplicity", map[string][]int64{"n": {8, 8}}, map[string][]string{"n": {"bytes", "bytes"}})
	setNum("num.unit", "num.unit", map[string][]int64{"n": {8}}, map[string][]string{"n": {"kb"}})
	setNum("num.unit-second", "num.unit-multiplicity", map[string][]int64{"n": {8, 8}}, map[string][]string{"n": {"bytes", "kb"}})
	setNum("num.unit-none", "num.unit", map[string][]int64{"n": {8}}, nil)
	setNum("num.unit-empty", "num.unit", map[string][]int64{"n": {8}}, map[string][]string{"n": {""}})
	setNum("num.none", "num.key", nil, nil)
	setNum("num.extrakey", "num.key", map[string][]int64{"n": {8}, "m": {8}}, map[string][]string{"n": {"bytes"}, "m": {"bytes"}})

	add("stack.order", "stack.order", func(v *vstack) bool {
		if len(v.st.Locs) < 2 {
			return false
		}
		v.st.Locs[0], v.st.Locs[1] = v.st.Locs[1], v.st.Locs[0]
		v.gcMaps()
		return true
	})
	add("stack.depth-droproot", "stack.depth", func(v *vstack) bool {
		if len(v.st.Locs) < 1 {
			return false
		}
		v.st.Locs = v.st.Locs[1:]
		v.gcMaps()
		return true
	})
	add("stack.depth-dropleaf", "stack.depth", func(v *vstack) bool {
		if len(v.st.Locs) < 1 {
			return false
		}
		v.st.Locs = v.st.Locs[:len(v.st.Locs)-1]
		v.gcMaps()
		return true
	})
	add("stack.depth-recursion", "stack.depth", func(v *vstack) bool {
		if len(v.st.Locs) < 1 {
			return false
		}
		l := v.st.Locs[0]
		l.Lines = append([]ap.Line(nil), l.Lines...)
		v.st.Locs = append(v.st.Locs, l)
		return true
	})
	add("stack.empty", "stack.depth", func(v *vstack) bool {
		if len(v.st.Locs) == 0 {
			return false
		}
		v.st.Locs = nil
		v.gcMaps()
		return true
	})
	return out
}

// tstack is a stack of the enumeration: the base with zero, one or two
// attributes changed.
type tstack struct {
	name  string
	parts []string // names of the variants applied
	kinds []string // their kinds, parallel to parts
	v     *vstack
}

// family builds the base and every single-attribute variant of it; with
// doubles it also returns every applicable two-attribute variant.
func family(doubles bool) (singles, dbl []*tstack) {
	vs := variants()
	singles = append(singles, &tstack{name: "base", v: baseStack()})
	for _, va := range vs {
		b := baseStack()
		if !va.apply(b) {
			panic("c03: variant not applicable to the base: " + va.name)
		}
		singles = append(singles, &tstack{name: va.name, parts: []string{va.name}, kinds: []string{va.kind}, v: b})
	}
	if !doubles {
		return singles, nil
	}
	for i, va := range vs {
		for j := i + 1; j < len(vs); j++ {
			vb := vs[j]
			b := baseStack()
			if !va.apply(b) || !vb.apply(b) {
				continue
			}
			dbl = append(dbl, &tstack{name: va.name + "&" + vb.name, parts: []string{va.name, vb.name}, kinds: []string{va.kind, vb.kind}, v: b})
		}
	}
	return singles, dbl
}

// withValues returns a copy of the stack with the given value vector.
func (t *tstack) withValues(vals []int64) *vstack {
	v := t.v.clone()
	v.st.Values = append([]int64(nil), vals...)
	return v
}

var sampleTypes = []ap.VT{{Type: "samples", Unit: "count"}, {Type: "cpu", Unit: "nanoseconds"}}

// mkAP assembles an abstract profile out of stacks; equal binaries become one
// mapping, binaries that differ in any attribute stay separate mappings.
func mkAP(stacks []*vstack) *ap.AP {
	a := &ap.AP{Types: append([]ap.VT(nil), sampleTypes...), PeriodType: &ap.VT{Type: "cpu", Unit: "nanoseconds"}, Period: 1}
	for _, v := range stacks {
		st := v.st.Clone()
		for i := range st.Locs {
			if st.Locs[i].Map < 0 {
				continue
			}
			m := v.maps[st.Locs[i].Map]
			ix := -1
			for j, x := range a.Maps {
				if x == m {
					ix = j
				}
			}
			if ix < 0 {
				ix = len(a.Maps)
				a.Maps = append(a.Maps, m)
			}
			st.Locs[i].Map = ix
		}
		a.Stacks = append(a.Stacks, st)
	}
	return a
}
