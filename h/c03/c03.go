// Package c03: merging conserves every stack's weight and symbol information.
//
// Bounded-exhaustive enumeration of lists of 1..3 small profiles whose stacks
// are a base stack or the base with one (thorough: two) attribute changed, for
// every attribute a stack is identified by and many it is not; every pair
// (thorough: triple) of such stacks, in the same or in different inputs, with
// colliding or disjoint ids, shared or duplicated entities, value vectors
// that add up, cancel or are zero, and every order of the inputs. The real
// profile.Merge / (*Profile).Compact run on each list and the result is
// compared with a reference "sum by (frames, labels)" computed on the abstract
// profiles, plus header rules, validity, idempotence of compaction, and
// independence of inputs and result in memory.
package c03

import (
	"bytes"
	"fmt"
	"strings"

	"github.com/google/pprof/profile"

	"github.com/google/pprof/verifh/ap"
	"github.com/google/pprof/verifh/reg"
	"github.com/google/pprof/verifh/vk"
)

func init() { reg.Register("C03", Run) }

// Case is the generator coordinates of one list of inputs.
type Case struct {
	Family    string    `json:"family"`
	Stacks    []string  `json:"stacks,omitempty"`    // names of the stacks (base / changed attributes)
	Values    [][]int64 `json:"values,omitempty"`    // their value vectors
	Placement string    `json:"placement,omitempty"` // how the stacks are distributed over inputs
	Order     []int     `json:"order,omitempty"`     // order in which the inputs were merged
	Inputs    []*ap.AP  `json:"inputs,omitempty"`    // the inputs, in generator order
}

// input is one profile of the list.
type input struct {
	a       *ap.AP
	ts      []*tstack // which stack of the enumeration each a.Stacks[i] is (nil in the header family)
	o       ap.Opts
	unshare bool // every line gets its own Function, every location its own Mapping
}

func (in *input) build() *profile.Profile {
	p := ap.Concretize(in.a, in.o)
	if in.unshare {
		unshare(p, in.o.IDBase)
	}
	return p
}

// unshare gives every line its own copy of its Function and every location its
// own copy of its Mapping (duplicate entities inside one profile).
func unshare(p *profile.Profile, base uint64) {
	var funcs []*profile.Function
	var maps []*profile.Mapping
	if len(p.Mapping) > 0 {
		maps = append(maps, p.Mapping[0]) // the main binary stays first
	}
	nf, nm := base+1000, base+1000
	for _, l := range p.Location {
		for i := range l.Line {
			if l.Line[i].Function == nil {
				continue
			}
			f := *l.Line[i].Function
			nf += 3
			f.ID = nf
			l.Line[i].Function = &f
			funcs = append(funcs, &f)
		}
		if l.Mapping != nil {
			m := *l.Mapping
			nm += 5
			m.ID = nm
			l.Mapping = &m
			maps = append(maps, &m)
		}
	}
	p.Function = funcs
	p.Mapping = maps
}

var shifted = ap.Opts{IDBase: 1 << 33, IDStride: 3, Reverse: true, NoShare: true}

// value vectors for pairs of stacks (two sample types)
var valuePairs = [][2][]int64{
	{{1, 2}, {3, 4}},   // add up
	{{1, -2}, {-1, 2}}, // cancel when the stacks are the same
	{{0, 0}, {5, 0}},   // an all-zero input stack
	{{-1, 0}, {1, 7}},  // cancel in one type only
	{{3, -3}, {5, 0}},  // a vector whose types cancel each other is not an empty one
	{{5, 0}, {0, -5}},  // ... nor is a sum of that kind
}

// value vectors for triples of stacks
var valueTriples = [][3][]int64{
	{{1, 2}, {3, 4}, {-4, -6}}, // all three cancel
	{{1, -2}, {-1, 2}, {5, 0}}, // the first two cancel
	{{2, 0}, {0, 3}, {-2, -3}}, // partial sums
}

func perms(n int) [][]int {
	switch n {
	case 1:
		return [][]int{{0}}
	case 2:
		return [][]int{{0, 1}, {1, 0}}
	}
	return [][]int{{0, 1, 2}, {0, 2, 1}, {1, 0, 2}, {1, 2, 0}, {2, 0, 1}, {2, 1, 0}}
}

type runner struct {
	c   *vk.Ctx
	idx int64
	cap bool
}

// next reports whether the next case of the enumeration belongs to this shard.
func (r *runner) next() bool {
	i := r.idx
	r.idx++
	if r.cap {
		return false
	}
	if !r.c.Mine(i) {
		return false
	}
	if i%64 == 0 && r.c.Expired() {
		r.c.Cap(fmt.Sprintf("time budget: stopped at case index %d", i))
		r.cap = true
		return false
	}
	return true
}

// place distributes stacks over inputs. groups lists, per input, the indices
// of the stacks it holds; mode selects ids and sharing.
func place(ts []*tstack, vals [][]int64, groups [][]int, opts []ap.Opts, unsh []bool) []*input {
	var ins []*input
	for gi, g := range groups {
		var vs []*vstack
		var tt []*tstack
		for _, si := range g {
			vs = append(vs, ts[si].withValues(vals[si]))
			tt = append(tt, ts[si])
		}
		in := &input{a: mkAP(vs), ts: tt}
		if gi < len(opts) {
			in.o = opts[gi]
		}
		if gi < len(unsh) {
			in.unshare = unsh[gi]
		}
		ins = append(ins, in)
	}
	return ins
}

// Run is the check.
func Run(c *vk.Ctx) {
	singles, doubles := family(c.Thorough())
	r := &runner{c: c}
	c.Note(fmt.Sprintf("stacks: base + %d single-attribute variants (%d attribute kinds); thorough adds %d two-attribute variants", len(singles)-1, nKinds(singles), len(doubles)))
	c.Note("pairs: all ordered pairs of {base, singles} x 4 value-vector pairs x placements {one input; one input with every entity duplicated; two inputs with colliding ids; two inputs, second with disjoint sparse ids and duplicated entities; three inputs [A],[B],[B'] (quick: first two value pairs only)} x every order of the inputs")
	c.Note("header: all assignments of (TimeNanos in {0,5,9} x Period in {0,3,7}) to 1..3 inputs; (Duration in {0,4,10} x 5 comment lists) to 1..3 inputs; (DefaultSampleType x DocURL x DropFrames x KeepFrames) to 1..2 inputs; thorough: joint product of 216 headers on 2 inputs")
	if c.Thorough() {
		c.Note("thorough: all unordered triples of {base, singles} x 3 value triples x placements {one input; [A,B],[C]; [A],[B],[C]} x every order; every two-attribute variant paired (both ways) with the base and with the two single-attribute variants it is one attribute away from x 4 value pairs x the 5 placements x every order")
	}

	// singles alone
	for _, t := range singles {
		for pl := 0; pl < 2; pl++ {
			if !r.next() {
				continue
			}
			cs := &Case{Family: "single", Stacks: []string{t.name}, Values: [][]int64{{1, 2}}}
			ts := []*tstack{t}
			if pl == 0 {
				cs.Placement = "one-input"
				evalCase(c, cs, place(ts, cs.Values, [][]int{{0}}, nil, nil))
			} else {
				cs.Placement = "one-input-duplicated-entities"
				evalCase(c, cs, place(ts, cs.Values, [][]int{{0}}, []ap.Opts{shifted}, []bool{true}))
			}
		}
	}

	// pairs
	pairPlacements := func(fam string, a, b *tstack, nplace int) {
		ts := []*tstack{a, b}
		for vi, vp := range valuePairs {
			vals := [][]int64{vp[0], vp[1]}
			for pl := 0; pl < nplace; pl++ {
				if pl == 4 && vi >= 2 && !c.Thorough() {
					continue // quick: three inputs only with the adding and the cancelling value pair
				}
				if !r.next() {
					continue
				}
				cs := &Case{Family: fam, Stacks: []string{a.name, b.name}, Values: vals}
				switch pl {
				case 0:
					cs.Placement = "one-input"
					evalCase(c, cs, place(ts, vals, [][]int{{0, 1}}, nil, nil))
				case 1:
					cs.Placement = "two-inputs-colliding-ids"
					evalCase(c, cs, place(ts, vals, [][]int{{0}, {1}}, nil, nil))
				case 2:
					cs.Placement = "two-inputs-disjoint-ids"
					evalCase(c, cs, place(ts, vals, [][]int{{0}, {1}}, []ap.Opts{{}, shifted}, []bool{false, true}))
				case 3:
					cs.Placement = "one-input-duplicated-entities"
					evalCase(c, cs, place(ts, vals, [][]int{{0, 1}}, []ap.Opts{shifted}, []bool{true}))
				case 4:
					cs.Placement = "three-inputs-A-B-B"
					evalCase(c, cs, place(ts, vals, [][]int{{0}, {1}, {1}}, []ap.Opts{{}, {}, shifted}, []bool{false, false, true}))
				}
			}
		}
	}
	for _, a := range singles {
		for _, b := range singles {
			pairPlacements("pair", a, b, 5)
		}
	}

	headers(c, r)
	keyAmbiguity(c, r)

	if c.Thorough() {
		for i := 0; i < len(singles); i++ {
			for j := i; j < len(singles); j++ {
				for k := j; k < len(singles); k++ {
					ts := []*tstack{singles[i], singles[j], singles[k]}
					for _, vt := range valueTriples {
						vals := [][]int64{vt[0], vt[1], vt[2]}
						for pl := 0; pl < 3; pl++ {
							if !r.next() {
								continue
							}
							cs := &Case{Family: "triple", Stacks: []string{ts[0].name, ts[1].name, ts[2].name}, Values: vals}
							switch pl {
							case 0:
								cs.Placement = "one-input"
								evalCase(c, cs, place(ts, vals, [][]int{{0, 1, 2}}, nil, nil))
							case 1:
								cs.Placement = "two-inputs-AB-C"
								evalCase(c, cs, place(ts, vals, [][]int{{0, 1}, {2}}, nil, nil))
							case 2:
								cs.Placement = "three-inputs"
								evalCase(c, cs, place(ts, vals, [][]int{{0}, {1}, {2}}, []ap.Opts{{}, {}, shifted}, []bool{false, false, true}))
							}
						}
					}
				}
			}
		}
		// a two-attribute variant against the base and against the two
		// single-attribute variants it is one attribute away from
		byName := map[string]*tstack{}
		for _, s := range singles {
			byName[s.name] = s
		}
		for _, d := range doubles {
			for _, s := range []*tstack{singles[0], byName[d.parts[0]], byName[d.parts[1]]} {
				pairPlacements("double", d, s, 5)
				pairPlacements("double", s, d, 5)
			}
		}
	}

	if !r.cap {
		for _, k := range []string{"cases/reference-sums-several-stacks", "cases/reference-keeps-stacks-apart", "cases/reference-cancels-to-zero"} {
			if c.Counter(k) == 0 {
				c.Vacuous("no case with " + k)
			}
		}
	}
}

func nKinds(ts []*tstack) int {
	m := map[string]bool{}
	for _, t := range ts {
		for _, k := range t.kinds {
			m[k] = true
		}
	}
	return len(m)
}

// headers enumerates the header-field family: every input holds the base stack.
func headers(c *vk.Ctx, r *runner) {
	base := &tstack{name: "base", v: baseStack()}
	type hdr struct {
		time, period, dur int64
		comments          []string
		dst, doc, drop    string
		keep              string
		pt                int // period type: 0 cpu/nanoseconds, 1 absent (nil), 2 empty (what the decoder leaves)
	}
	mk := func(hs []hdr) []*input {
		var ins []*input
		for i, h := range hs {
			a := mkAP([]*vstack{base.withValues([]int64{1, 2})})
			a.TimeNanos, a.Period, a.DurationNanos = h.time, h.period, h.dur
			a.Comments = append([]string(nil), h.comments...)
			a.DefaultSampleType, a.DocURL, a.DropFrames, a.KeepFrames = h.dst, h.doc, h.drop, h.keep
			switch h.pt {
			case 1:
				a.PeriodType = nil
			case 2:
				a.PeriodType = &ap.VT{}
			}
			in := &input{a: a, ts: []*tstack{base}}
			if i == 2 {
				in.o = shifted
			}
			ins = append(ins, in)
		}
		return ins
	}
	run := func(fam string, menu []hdr, maxK int) {
		for k := 1; k <= maxK; k++ {
			n := 1
			for i := 0; i < k; i++ {
				n *= len(menu)
			}
			for x := 0; x < n; x++ {
				if !r.next() {
					continue
				}
				hs := make([]hdr, k)
				y := x
				var desc []string
				for i := 0; i < k; i++ {
					hs[i] = menu[y%len(menu)]
					y /= len(menu)
					desc = append(desc, fmt.Sprintf("%+v", hs[i]))
				}
				cs := &Case{Family: fam, Stacks: desc, Placement: fmt.Sprintf("%d-inputs", k)}
				evalOrders(c, cs, mk(hs), [][]int{perms(k)[0]})
			}
		}
	}
	var m1, m2, m3, m4 []hdr
	for _, t := range []int64{0, 5, 9} {
		for _, p := range []int64{0, 3, 7} {
			m1 = append(m1, hdr{time: t, period: p})
		}
	}
	commentMenu := [][]string{nil, {"a"}, {"b", "a"}, {"a", "a", "c"}, {"c", "b"}}
	for _, d := range []int64{0, 4, 10} {
		for _, cm := range commentMenu {
			m2 = append(m2, hdr{dur: d, comments: cm, period: 1})
		}
	}
	for _, dst := range []string{"", "samples", "cpu"} {
		for _, doc := range []string{"", "http://u1", "http://u2"} {
			for _, drop := range []string{"", "d.*"} {
				for _, keep := range []string{"", "k.*"} {
					m3 = append(m3, hdr{dst: dst, doc: doc, drop: drop, keep: keep, period: 1})
				}
			}
		}
	}
	run("header-time-period", m1, 3)
	run("header-duration-comments", m2, 3)
	run("header-other", m3, 2)
	// profiles without a period type, built in memory (nil) or decoded (empty value type): the same thing
	run("header-no-period-type", []hdr{{pt: 1, period: 1}, {pt: 2, period: 1}}, 3)
	if c.Thorough() {
		for _, t := range []int64{0, 5, 9} {
			for _, p := range []int64{0, 3, 7} {
				for _, d := range []int64{0, 4} {
					for _, cm := range commentMenu[:3] {
						for _, dst := range []string{"", "cpu"} {
							for _, doc := range []string{"", "http://u1"} {
								m4 = append(m4, hdr{time: t, period: p, dur: d, comments: cm, dst: dst, doc: doc})
							}
						}
					}
				}
			}
		}
		run("header-joint", m4, 2)
	}
}

// evalCase merges the inputs in every order.
func evalCase(c *vk.Ctx, cs *Case, ins []*input) {
	evalOrders(c, cs, ins, perms(len(ins)))
}

func evalOrders(c *vk.Ctx, cs *Case, ins []*input, orders [][]int) {
	// what the reference says about this list (independent of the order)
	var aps []*ap.AP
	nonzero := 0
	for _, in := range ins {
		aps = append(aps, in.a)
		for i := range in.a.Stacks {
			if !isZero(in.a.Stacks[i].Values) {
				nonzero++
			}
		}
	}
	want := reference(aps)
	all := agg{}
	for _, a := range aps {
		all.add(a)
	}
	key := fmt.Sprintf("%s|%v|%v|%s", cs.Family, cs.Stacks, cs.Values, cs.Placement)
	if nonzero >= 2 || strings.HasPrefix(cs.Family, "header") && len(ins) >= 2 {
		c.Nontrivial(key)
	}
	if nonzero > len(all) {
		c.Count("cases/reference-sums-several-stacks", 1)
	}
	if len(want) >= 2 {
		c.Count("cases/reference-keeps-stacks-apart", 1)
	}
	cancels := false
	for _, a := range aps {
		for i := range a.Stacks {
			if e := all[stackID(a, &a.Stacks[i])]; e != nil && isZero(e.vals) && !isZero(a.Stacks[i].Values) {
				cancels = true
			}
		}
	}
	if cancels {
		c.Count("cases/reference-cancels-to-zero", 1)
	}
	c.Count("cases/"+cs.Family, 1)
	if c.WantSample() && c.Counter("cases/"+cs.Family) == 1 {
		s := *cs
		s.Inputs = aps
		c.Sample(s)
	}

	// serialized inputs before any merge (the builder is deterministic)
	before := make([][]byte, len(ins))
	for i, in := range ins {
		p := in.build()
		if err := p.CheckValid(); err != nil {
			c.Violation("harness/invalid-input", witness(cs, ins, nil), err.Error())
			return
		}
		b, ok := encode(p)
		if !ok {
			c.Violation("harness/unencodable-input", witness(cs, ins, nil), "")
			return
		}
		before[i] = b
		// the abstraction function must invert the builder
		if back := ap.Abstract(p); !sameAgg(back, in.a) {
			c.Violation("harness/abstract-concretize", witness(cs, ins, nil), "Abstract(Concretize(a)) differs from a")
			return
		}
	}
	for _, ord := range orders {
		evalOrder(c, cs, ins, ord, want, all, before)
	}
	if len(orders) > 0 {
		mergeAfterWrite(c, cs, ins, orders[0])
	}
}

// mergeAfterWrite: one of the inputs has been written (saved, copied) before the
// merge - which leaves the encoder's scratch state in it - and the others have
// not: the merge is the same as without the write.
func mergeAfterWrite(c *vk.Ctx, cs *Case, ins []*input, ord []int) {
	if len(ord) < 2 {
		return
	}
	plain, err := profile.Merge(buildAll(ins, ord))
	if err != nil {
		return // reported by evalOrder
	}
	want := agg{}
	want.add(ap.Abstract(plain))
	want.dropZero()
	for _, k := range []int{0, len(ord) - 1} {
		c.Eval()
		wit := func() Case { return witness(cs, ins, ord) }
		srcs := buildAll(ins, ord)
		if _, ok := encode(srcs[k]); !ok {
			continue
		}
		var res *profile.Profile
		if !c.Guard("merge-after-write", wit(), func() { res, err = profile.Merge(srcs) }) {
			return
		}
		if err != nil {
			c.Violationf("merge/after-write/error", wit(), "input %d was written before the merge: %v", k, err)
			return
		}
		got := agg{}
		got.add(ap.Abstract(res))
		got.dropZero()
		if !got.equal(want) {
			c.Violationf("merge/after-write/differs", wit(), "input %d was written before the merge:\n%s\nwithout the write:\n%s", k, got, want)
			return
		}
		c.Count("merges/after-write", 1)
	}
}

func sameAgg(a, b *ap.AP) bool {
	x, y := agg{}, agg{}
	x.add(a)
	y.add(b)
	return x.equal(y)
}

func witness(cs *Case, ins []*input, ord []int) Case {
	w := *cs
	w.Order = ord
	for _, in := range ins {
		w.Inputs = append(w.Inputs, in.a)
	}
	return w
}

func buildAll(ins []*input, ord []int) []*profile.Profile {
	ps := make([]*profile.Profile, len(ord))
	for i, o := range ord {
		ps[i] = ins[o].build()
	}
	return ps
}

func evalOrder(c *vk.Ctx, cs *Case, ins []*input, ord []int, want, all agg, before [][]byte) {
	c.Eval()
	c.Count("merges", 1)
	wit := func() Case { return witness(cs, ins, ord) }
	ordered := make([]*ap.AP, len(ord))
	for i, o := range ord {
		ordered[i] = ins[o].a
	}
	srcs := buildAll(ins, ord)
	var res *profile.Profile
	var err error
	if !c.Guard("merge", wit(), func() { res, err = profile.Merge(srcs) }) {
		return
	}
	if err != nil {
		c.Violation("merge/error-on-compatible-inputs", wit(), err.Error())
		return
	}

	// clause: inputs are not modified
	for i, o := range ord {
		b, ok := encode(srcs[i])
		if !ok || !bytes.Equal(b, before[o]) {
			c.Violationf("inputs/modified", wit(), "input %d serializes differently after Merge", i)
		}
	}

	// clause: the result is a valid profile
	if e := res.CheckValid(); e != nil {
		c.Violation("valid/checkvalid", wit(), e.Error())
		return
	}
	resBytes, ok := encode(res)
	if !ok {
		c.Violation("valid/unencodable", wit(), "the merged profile cannot be serialized")
		return
	}
	got := agg{}
	gotAP := ap.Abstract(res)
	rawZero := got.add(gotAP)
	nGroups := len(got)
	got.dropZero()
	if back, e := profile.ParseUncompressed(resBytes); e != nil {
		c.Violation("valid/unparsable", wit(), e.Error())
	} else {
		g2 := agg{}
		g2.add(ap.Abstract(back))
		g2.dropZero()
		if !g2.equal(got) {
			c.Violationf("valid/roundtrip", wit(), "the merged profile changes when written and read back:\nin memory:\n%sread back:\n%s", got, g2)
		}
	}

	// clause: all-zero stacks disappear
	if rawZero > 0 {
		c.Violationf("zero/stack-kept", wit(), "%d all-zero sample(s) in the result:\n%s", rawZero, dump(gotAP))
	}

	// clause: per identity, the value vector is the sum over all inputs; nothing added, dropped or altered
	if len(gotAP.Stacks) > nGroups {
		c.Count("merges/finer-than-required", 1) // tolerated: split on attributes the statement does not list
	}
	// the same with the documented mapping identity (size rounded up to 4K, file offset): no two stacks that
	// differ in it are fused, and the result does not hold the same mapping twice
	if ws, gs := documentedStacks(ordered), documentedStacks([]*ap.AP{gotAP}); got.equal(want) && strings.Join(ws, "\n") != strings.Join(gs, "\n") {
		c.Violationf("conservation/documented-mapping-identity", wit(), "by the documented mapping identity (size rounded up to 4K, offset) the inputs hold\n%s\nbut the result holds\n%s", strings.Join(ws, "\n"), strings.Join(gs, "\n"))
	}
	seenMap := map[string]int{}
	for i, m := range gotAP.Maps {
		id := m.BuildID
		if id == "" {
			id = m.File
		}
		k := fmt.Sprintf("%q %x@%x", id, (m.Limit-m.Start+0xfff)/0x1000*0x1000, m.Offset)
		if j, dup := seenMap[k]; dup {
			c.Violationf("conservation/same-mapping-twice", wit(), "mappings %d and %d of the result are the same mapping by the documented identity (%s): %+v and %+v", j, i, k, gotAP.Maps[j], m)
			break
		}
		seenMap[k] = i
	}
	if !got.equal(want) {
		c.Violationf("conservation/"+classify(want, got, all), wit(), "expected (sum by identity over the inputs):\n%sgot (merge result, aggregated by the same identity):\n%s", want, got)
	} else {
		c.Count("merges/conserved", 1)
	}
	if ord[0] == 0 && (len(ord) < 2 || ord[1] == 1) {
		c.Outcome(got.String())
	}

	// clause: header fields
	checkHeader(c, wit, ordered, gotAP)

	// clause: compacting twice equals compacting once
	var c1, c2 *profile.Profile
	if c.Guard("compact", wit(), func() { c1 = res.Compact(); c2 = c1.Compact() }) && c1 != nil && c2 != nil {
		b1, ok1 := encode(c1)
		b2, ok2 := encode(c2)
		if !ok1 || !ok2 || !bytes.Equal(b1, b2) {
			c.Violationf("compact/not-idempotent", wit(), "Compact(Compact(m)) != Compact(m) for the merge result m:\nonce:\n%stwice:\n%s", dump(ap.Abstract(c1)), dump(ap.Abstract(c2)))
		}
		if len(srcs) == 1 && (!ok1 || !bytes.Equal(b1, resBytes)) {
			c.Violationf("compact/not-idempotent", wit(), "Compact(Compact(p)) != Compact(p) for the input p:\nonce:\n%stwice:\n%s", dump(gotAP), dump(ap.Abstract(c1)))
		}
	}

	// clause: inputs and result do not share memory. Every kind of memory
	// reachable from the inputs is overwritten in turn and the result must not
	// change; then the same the other way round.
	scrIn := make([]*scrambler, len(srcs))
	for i, s := range srcs {
		scrIn[i] = newScrambler(s)
	}
	scrRes := newScrambler(res)
	reported := map[string]bool{}
	fp := fingerprint(res)
	for _, g := range scrambleGroups {
		for i := range srcs {
			scrIn[i].apply(g)
			if f := fingerprint(res); f != fp {
				fp = f
				if !reported[g] {
					reported[g] = true
					c.Violationf("alias/"+g, wit(), "writing to the %s memory of input %d (in merge order) changes the merge result", g, i)
				}
			}
		}
	}
	fpi := make([]uint64, len(srcs))
	for i, s := range srcs {
		fpi[i] = fingerprint(s)
	}
	for _, g := range scrambleGroups {
		scrRes.apply(g)
		for i, s := range srcs {
			if f := fingerprint(s); f != fpi[i] {
				fpi[i] = f
				if !reported[g] {
					reported[g] = true
					c.Violationf("alias/"+g, wit(), "writing to the %s memory of the merge result changes input %d (in merge order)", g, i)
				}
			}
		}
	}
	if len(reported) == 0 {
		c.Count("merges/no-shared-memory", 1)
	}
}

func checkHeader(c *vk.Ctx, wit func() Case, ins []*ap.AP, got *ap.AP) {
	h := refHeader(ins)
	if got.Period != h.Period {
		c.Violationf("header/period", wit(), "periods %v: expected the maximum %d, got %d", field(ins, func(a *ap.AP) int64 { return a.Period }), h.Period, got.Period)
	}
	if got.TimeNanos != h.Time {
		c.Violationf("header/timenanos/"+timePredicate(ins), wit(), "collection times %v: expected the earliest non-zero one %d, got %d", field(ins, func(a *ap.AP) int64 { return a.TimeNanos }), h.Time, got.TimeNanos)
	}
	if got.DurationNanos != h.Duration {
		c.Violationf("header/duration", wit(), "durations %v: expected the sum %d, got %d", field(ins, func(a *ap.AP) int64 { return a.DurationNanos }), h.Duration, got.DurationNanos)
	}
	if !eqStrings(got.Comments, h.Comments) {
		c.Violationf("header/comments", wit(), "expected the de-duplicated union in order %q, got %q", h.Comments, got.Comments)
	}
	types := len(got.Types) == len(ins[0].Types)
	for i := 0; types && i < len(got.Types); i++ {
		types = got.Types[i] == ins[0].Types[i]
	}
	if types && ins[0].PeriodType != nil {
		types = got.PeriodType != nil && *got.PeriodType == *ins[0].PeriodType
	}
	if !types {
		c.Violationf("header/types", wit(), "sample or period types of the result %v %v differ from the inputs' %v %v", got.Types, got.PeriodType, ins[0].Types, ins[0].PeriodType)
	}
	// fields without a documented rule: the result must not invent a value
	if !oneOf(got.DefaultSampleType, ins, func(a *ap.AP) string { return a.DefaultSampleType }) ||
		!oneOf(got.DocURL, ins, func(a *ap.AP) string { return a.DocURL }) ||
		!oneOf(got.DropFrames, ins, func(a *ap.AP) string { return a.DropFrames }) ||
		!oneOf(got.KeepFrames, ins, func(a *ap.AP) string { return a.KeepFrames }) {
		c.Violationf("header/invented-value", wit(), "default sample type %q, doc url %q, drop %q, keep %q: one of them occurs in no input", got.DefaultSampleType, got.DocURL, got.DropFrames, got.KeepFrames)
	}
}

func field(ins []*ap.AP, f func(*ap.AP) int64) []int64 {
	var out []int64
	for _, a := range ins {
		out = append(out, f(a))
	}
	return out
}

func dump(a *ap.AP) string {
	var b strings.Builder
	for i := range a.Stacks {
		fmt.Fprintf(&b, "  %v %s\n", a.Stacks[i].Values, stackID(a, &a.Stacks[i]))
	}
	if len(a.Stacks) == 0 {
		return "  (no stacks)\n"
	}
	return b.String()
}
