package c03

import (
	"bytes"
	"sort"

	"github.com/google/pprof/profile"
)

// encode serializes a profile; ok is false if the profile cannot be
// serialized.
func encode(p *profile.Profile) (b []byte, ok bool) {
	defer func() {
		if recover() != nil {
			b, ok = nil, false
		}
	}()
	var buf bytes.Buffer
	if err := p.WriteUncompressed(&buf); err != nil {
		return nil, false
	}
	return buf.Bytes(), true
}

// fingerprint hashes every exported field reachable from p (everything that
// serialization writes, and the table membership of entities), without
// touching p. Two fingerprints of the same profile differ iff somebody wrote
// to its memory in between (up to 64-bit hash collisions).
func fingerprint(p *profile.Profile) uint64 {
	h := fnv{14695981039346656037}
	vt := func(t *profile.ValueType) {
		if t == nil {
			h.u(0)
			return
		}
		h.s(t.Type)
		h.s(t.Unit)
	}
	h.u(uint64(len(p.SampleType)))
	for _, t := range p.SampleType {
		vt(t)
	}
	vt(p.PeriodType)
	h.u(uint64(p.Period))
	h.u(uint64(p.TimeNanos))
	h.u(uint64(p.DurationNanos))
	h.s(p.DefaultSampleType)
	h.s(p.DocURL)
	h.s(p.DropFrames)
	h.s(p.KeepFrames)
	h.u(uint64(len(p.Comments)))
	for _, c := range p.Comments {
		h.s(c)
	}
	fn := func(f *profile.Function) {
		if f == nil {
			h.u(0)
			return
		}
		h.u(f.ID)
		h.s(f.Name)
		h.s(f.SystemName)
		h.s(f.Filename)
		h.u(uint64(f.StartLine))
	}
	mp := func(m *profile.Mapping) {
		if m == nil {
			h.u(0)
			return
		}
		h.u(m.ID)
		h.u(m.Start)
		h.u(m.Limit)
		h.u(m.Offset)
		h.s(m.File)
		h.s(m.BuildID)
		h.s(m.KernelRelocationSymbol)
		h.b(m.HasFunctions)
		h.b(m.HasFilenames)
		h.b(m.HasLineNumbers)
		h.b(m.HasInlineFrames)
	}
	loc := func(l *profile.Location) {
		if l == nil {
			h.u(0)
			return
		}
		h.u(l.ID)
		h.u(l.Address)
		h.b(l.IsFolded)
		mp(l.Mapping)
		h.u(uint64(len(l.Line)))
		for _, ln := range l.Line {
			fn(ln.Function)
			h.u(uint64(ln.Line))
			h.u(uint64(ln.Column))
		}
	}
	h.u(uint64(len(p.Mapping)))
	for _, m := range p.Mapping {
		mp(m)
	}
	h.u(uint64(len(p.Function)))
	for _, f := range p.Function {
		fn(f)
	}
	h.u(uint64(len(p.Location)))
	for _, l := range p.Location {
		loc(l)
	}
	h.u(uint64(len(p.Sample)))
	var keys []string
	for _, s := range p.Sample {
		if s == nil {
			h.u(0)
			continue
		}
		h.u(uint64(len(s.Value)))
		for _, v := range s.Value {
			h.u(uint64(v))
		}
		h.u(uint64(len(s.Location)))
		for _, l := range s.Location {
			loc(l)
		}
		keys = keys[:0]
		for k := range s.Label {
			keys = append(keys, k)
		}
		sort.Strings(keys)
		h.u(uint64(len(keys)))
		for _, k := range keys {
			h.s(k)
			h.u(uint64(len(s.Label[k])))
			for _, v := range s.Label[k] {
				h.s(v)
			}
		}
		keys = keys[:0]
		for k := range s.NumLabel {
			keys = append(keys, k)
		}
		sort.Strings(keys)
		h.u(uint64(len(keys)))
		for _, k := range keys {
			h.s(k)
			h.u(uint64(len(s.NumLabel[k])))
			for _, v := range s.NumLabel[k] {
				h.u(uint64(v))
			}
		}
		keys = keys[:0]
		for k := range s.NumUnit {
			keys = append(keys, k)
		}
		sort.Strings(keys)
		h.u(uint64(len(keys)))
		for _, k := range keys {
			h.s(k)
			h.u(uint64(len(s.NumUnit[k])))
			for _, v := range s.NumUnit[k] {
				h.s(v)
			}
		}
	}
	return h.h
}

type fnv struct{ h uint64 }

func (f *fnv) u(v uint64) {
	h := (f.h ^ v) * 0x9E3779B97F4A7C15
	f.h = h ^ (h >> 29)
}

func (f *fnv) s(s string) {
	f.u(uint64(len(s)))
	for i := 0; i < len(s); i++ {
		f.h ^= uint64(s[i])
		f.h *= 1099511628211
	}
}

func (f *fnv) b(v bool) {
	if v {
		f.u(1)
	} else {
		f.u(2)
	}
}

// scrambleGroups are the kinds of memory reachable from a profile, in the
// order they are overwritten.
var scrambleGroups = []string{
	"valuetype", "comments", "sample.value", "sample.location", "sample.label", "sample.numlabel", "sample.numunit",
	"location.line", "location", "function", "mapping", "tables",
}

// scrambler overwrites the memory reachable from a profile kind by kind. The
// reachable objects are collected up front, so that overwriting pointers does
// not hide anything.
type scrambler struct {
	p       *profile.Profile
	samples []*profile.Sample
	locs    []*profile.Location
	funcs   []*profile.Function
	maps    []*profile.Mapping
}

func newScrambler(p *profile.Profile) *scrambler {
	s := &scrambler{p: p}
	seenL, seenF, seenM := map[*profile.Location]bool{}, map[*profile.Function]bool{}, map[*profile.Mapping]bool{}
	addM := func(m *profile.Mapping) {
		if m != nil && !seenM[m] {
			seenM[m] = true
			s.maps = append(s.maps, m)
		}
	}
	addF := func(f *profile.Function) {
		if f != nil && !seenF[f] {
			seenF[f] = true
			s.funcs = append(s.funcs, f)
		}
	}
	addL := func(l *profile.Location) {
		if l != nil && !seenL[l] {
			seenL[l] = true
			s.locs = append(s.locs, l)
			addM(l.Mapping)
			for _, ln := range l.Line {
				addF(ln.Function)
			}
		}
	}
	for _, l := range p.Location {
		addL(l)
	}
	for _, f := range p.Function {
		addF(f)
	}
	for _, m := range p.Mapping {
		addM(m)
	}
	for _, sm := range p.Sample {
		if sm == nil {
			continue
		}
		s.samples = append(s.samples, sm)
		for _, l := range sm.Location {
			addL(l)
		}
	}
	return s
}

var (
	dummyLoc  = &profile.Location{ID: 0x5a5a5a}
	dummyFunc = &profile.Function{ID: 0x5a5a5a, Name: "ZZfunc"}
	dummyMap  = &profile.Mapping{ID: 0x5a5a5a, File: "ZZmap"}
)

// apply overwrites all memory of kind g with sentinel values.
func (s *scrambler) apply(g string) {
	p := s.p
	switch g {
	case "valuetype":
		for _, st := range p.SampleType {
			if st != nil {
				st.Type, st.Unit = "ZZtype", "ZZunit"
			}
		}
		if p.PeriodType != nil {
			p.PeriodType.Type, p.PeriodType.Unit = "ZZtype", "ZZunit"
		}
	case "comments":
		for i := range p.Comments {
			p.Comments[i] = "ZZcomment"
		}
	case "sample.value":
		for _, sm := range s.samples {
			for i := range sm.Value {
				sm.Value[i] = 0x5a5a5a
			}
		}
	case "sample.location":
		for _, sm := range s.samples {
			for i := range sm.Location {
				sm.Location[i] = dummyLoc
			}
		}
	case "sample.label":
		for _, sm := range s.samples {
			for _, vs := range sm.Label {
				for i := range vs {
					vs[i] = "ZZlabel"
				}
			}
			if sm.Label != nil {
				sm.Label["ZZkey"] = []string{"ZZlabel"}
			}
		}
	case "sample.numlabel":
		for _, sm := range s.samples {
			for _, vs := range sm.NumLabel {
				for i := range vs {
					vs[i] = 0x5a5a5a
				}
			}
			if sm.NumLabel != nil {
				sm.NumLabel["ZZnum"] = []int64{0x5a5a5a}
			}
		}
	case "sample.numunit":
		for _, sm := range s.samples {
			for _, vs := range sm.NumUnit {
				for i := range vs {
					vs[i] = "ZZunit"
				}
			}
			if sm.NumUnit != nil {
				sm.NumUnit["ZZnumunit"] = []string{"ZZunit"}
			}
		}
	case "location.line":
		for _, l := range s.locs {
			for i := range l.Line {
				l.Line[i] = profile.Line{Function: dummyFunc, Line: 0x5a5a5a, Column: 0x5a5a5a}
			}
		}
	case "location":
		for _, l := range s.locs {
			l.ID += 0x5a0000
			l.Address ^= 0x5a5a5a
			l.IsFolded = !l.IsFolded
			l.Mapping = dummyMap
			l.Line = nil
		}
	case "function":
		for _, f := range s.funcs {
			f.ID += 0x5a0000
			f.Name, f.SystemName, f.Filename, f.StartLine = "ZZname", "ZZsys", "ZZfile", 0x5a5a5a
		}
	case "mapping":
		for _, m := range s.maps {
			m.ID += 0x5a0000
			m.Start ^= 0x5a5a5a
			m.Limit ^= 0x5a5a5a
			m.Offset ^= 0x5a5a5a
			m.File, m.BuildID, m.KernelRelocationSymbol = "ZZfile", "ZZbuild", "ZZreloc"
			m.HasFunctions, m.HasFilenames, m.HasLineNumbers, m.HasInlineFrames = !m.HasFunctions, !m.HasFilenames, !m.HasLineNumbers, !m.HasInlineFrames
		}
	case "tables":
		for i := range p.SampleType {
			p.SampleType[i] = &profile.ValueType{Type: "ZZtype", Unit: "ZZunit"}
		}
		for i := range p.Sample {
			p.Sample[i] = &profile.Sample{}
		}
		for i := range p.Location {
			p.Location[i] = dummyLoc
		}
		for i := range p.Function {
			p.Function[i] = dummyFunc
		}
		for i := range p.Mapping {
			p.Mapping[i] = dummyMap
		}
	}
}
