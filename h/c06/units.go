package c06

import (
	"math/big"
	"strings"
	"unicode/utf8"
)

// The reference unit model (same idea as the C15 table, copied so that this
// package is self-contained). Written from pprof's documentation: the aliases
// of each unit are case-insensitive with an optional plural "s" on names longer
// than two letters; 1 kB = 1024 B, 1 hr = 3600 s, SI prefixes for GCU. The
// factors are exact rationals and are NOT read out of measurement.UnitTypes.

type unitRef struct {
	fam int      // -1: not a unit of the table
	f   *big.Rat // exact size in base units of the family
}

func ri(n int64) *big.Rat { return new(big.Rat).SetInt64(n) }

func pow(base int64, e int) *big.Rat {
	x := big.NewInt(1)
	for i := 0; i < e; i++ {
		x.Mul(x, big.NewInt(base))
	}
	return new(big.Rat).SetInt(x)
}

func inv(r *big.Rat) *big.Rat { return new(big.Rat).Inv(r) }

var unitAlias = func() map[string]unitRef {
	type u struct {
		aliases []string
		f       *big.Rat
	}
	fams := [][]u{
		{ // memory, base: byte
			{[]string{"b", "byte"}, pow(1024, 0)},
			{[]string{"kb", "kbyte", "kilobyte"}, pow(1024, 1)},
			{[]string{"mb", "mbyte", "megabyte"}, pow(1024, 2)},
			{[]string{"gb", "gbyte", "gigabyte"}, pow(1024, 3)},
			{[]string{"tb", "tbyte", "terabyte"}, pow(1024, 4)},
			{[]string{"pb", "pbyte", "petabyte"}, pow(1024, 5)},
		},
		{ // time, base: nanosecond
			{[]string{"ns", "nanosecond"}, ri(1)},
			{[]string{"μs", "us", "microsecond"}, pow(10, 3)},
			{[]string{"ms", "millisecond"}, pow(10, 6)},
			{[]string{"s", "sec", "second"}, pow(10, 9)},
			{[]string{"hour", "hr"}, new(big.Rat).Mul(ri(3600), pow(10, 9))},
		},
		{ // GCU, base: GCU
			{[]string{"nanogcu"}, inv(pow(10, 9))},
			{[]string{"microgcu"}, inv(pow(10, 6))},
			{[]string{"milligcu"}, inv(pow(10, 3))},
			{[]string{"gcu"}, ri(1)},
			{[]string{"kilogcu"}, pow(10, 3)},
			{[]string{"megagcu"}, pow(10, 6)},
			{[]string{"gigagcu"}, pow(10, 9)},
			{[]string{"teragcu"}, pow(10, 12)},
			{[]string{"petagcu"}, pow(10, 15)},
		},
	}
	m := map[string]unitRef{}
	for fi, fam := range fams {
		for _, x := range fam {
			for _, a := range x.aliases {
				m[a] = unitRef{fi, x.f}
				if utf8.RuneCountInString(a) > 2 {
					m[a+"s"] = unitRef{fi, x.f}
				}
			}
		}
	}
	return m
}()

// resolveUnit reads a unit string as documented. Spellings whose status the
// documentation leaves open (the plural of a one- or two-letter alias such as
// "kbs") are reported as ambiguous.
func resolveUnit(s string) (r unitRef, ambiguous bool) {
	l := strings.ToLower(s)
	if x, ok := unitAlias[l]; ok {
		return x, false
	}
	if strings.HasSuffix(l, "s") {
		if _, ok := unitAlias[strings.TrimSuffix(l, "s")]; ok {
			return unitRef{fam: -1}, true
		}
	}
	return unitRef{fam: -1}, false
}
