package c06

import (
	"math/big"
	"regexp"
	"sort"
	"strconv"
	"strings"

	"github.com/google/pprof/verifh/ap"
)

// ---------------------------------------------------------------------------
// Filter settings
// ---------------------------------------------------------------------------

// Filt is one filter setting: the value of each of the nine options ("" =
// not set).
type Filt struct {
	Focus     string `json:"focus,omitempty"`
	Ignore    string `json:"ignore,omitempty"`
	Hide      string `json:"hide,omitempty"`
	Show      string `json:"show,omitempty"`
	ShowFrom  string `json:"show_from,omitempty"`
	TagFocus  string `json:"tagfocus,omitempty"`
	TagIgnore string `json:"tagignore,omitempty"`
	TagShow   string `json:"tagshow,omitempty"`
	TagHide   string `json:"taghide,omitempty"`
}

// kinds in the order pprof documents them.
var kindNames = []string{"focus", "ignore", "hide", "show", "show_from", "tagfocus", "tagignore", "tagshow", "taghide"}

func (f *Filt) field(kind string) *string {
	switch kind {
	case "focus":
		return &f.Focus
	case "ignore":
		return &f.Ignore
	case "hide":
		return &f.Hide
	case "show":
		return &f.Show
	case "show_from":
		return &f.ShowFrom
	case "tagfocus":
		return &f.TagFocus
	case "tagignore":
		return &f.TagIgnore
	case "tagshow":
		return &f.TagShow
	case "taghide":
		return &f.TagHide
	}
	panic("unknown filter kind " + kind)
}

// With returns a copy of f with one option set.
func (f Filt) With(kind, value string) Filt {
	*f.field(kind) = value
	return f
}

// Active lists the kinds that are set.
func (f Filt) Active() []string {
	var out []string
	for _, k := range kindNames {
		if *f.field(k) != "" {
			out = append(out, k)
		}
	}
	return out
}

// Opts renders the setting as option name -> value.
func (f Filt) Opts() map[string]string {
	m := map[string]string{}
	for _, k := range f.Active() {
		m[k] = *f.field(k)
	}
	return m
}

// Flags renders the setting as command-line flags.
func (f Filt) Flags() []string {
	var out []string
	for _, k := range f.Active() {
		out = append(out, k+"="+*f.field(k))
	}
	return out
}

func (f Filt) String() string { return strings.Join(f.Flags(), " ") }

// ---------------------------------------------------------------------------
// Regular expressions (shared cache; expressions of the menus are all valid)
// ---------------------------------------------------------------------------

var rxCache = map[string]*regexp.Regexp{}

func rx(expr string) *regexp.Regexp {
	if expr == "" {
		return nil
	}
	if r, ok := rxCache[expr]; ok {
		return r
	}
	r := regexp.MustCompile(expr)
	rxCache[expr] = r
	return r
}

// ---------------------------------------------------------------------------
// Tag filter expressions, as documented in doc/README.md ("Tag filtering")
// ---------------------------------------------------------------------------

// tri is a three-valued truth value: the documentation does not say whether a
// range without a unit applies to a label that has one (and similar), so the
// reference answers "unspecified" there and the case is not compared.
type tri int

const (
	no tri = iota
	yes
	unspecified
)

func or3(a, b tri) tri {
	switch {
	case a == yes || b == yes:
		return yes
	case a == unspecified || b == unspecified:
		return unspecified
	}
	return no
}

type bound struct {
	n    int64
	unit string
}

// tagExpr is a parsed tagfocus/tagignore value.
type tagExpr struct {
	key     string
	hasKey  bool
	isRange bool
	lo, hi  *bound // range: nil = open
	rxs     []*regexp.Regexp
}

var boundRx = regexp.MustCompile(`^([+-]?[0-9]+)([A-Za-z]*)$`)

func parseBound(s string) *bound {
	m := boundRx.FindStringSubmatch(s)
	if m == nil {
		return nil
	}
	n, err := strconv.ParseInt(m[1], 10, 64)
	if err != nil {
		return nil
	}
	return &bound{n, m[2]}
}

// parseTagExpr reads "[key=]value" where value is a range (N, N:, :N, N:M with
// optional unit suffixes) or a comma-separated list of regular expressions.
func parseTagExpr(v string) *tagExpr {
	e := &tagExpr{}
	if i := strings.Index(v, "="); i >= 0 {
		e.key, e.hasKey, v = v[:i], true, v[i+1:]
	}
	parts := strings.Split(v, ":")
	switch len(parts) {
	case 1:
		if b := parseBound(parts[0]); b != nil {
			e.isRange, e.lo, e.hi = true, b, b
		}
	case 2:
		lo, hi := parseBound(parts[0]), parseBound(parts[1])
		switch {
		case parts[0] == "" && hi != nil:
			e.isRange, e.hi = true, hi
		case parts[1] == "" && lo != nil:
			e.isRange, e.lo = true, lo
		case lo != nil && hi != nil:
			e.isRange, e.lo, e.hi = true, lo, hi
		}
	}
	if !e.isRange {
		for _, r := range strings.Split(v, ",") {
			e.rxs = append(e.rxs, regexp.MustCompile(r))
		}
	}
	return e
}

var tagCache = map[string]*tagExpr{}

func tagx(v string) *tagExpr {
	if v == "" {
		return nil
	}
	if e, ok := tagCache[v]; ok {
		return e
	}
	e := parseTagExpr(v)
	tagCache[v] = e
	return e
}

// cmpBound compares a label value (v in unit lu) with a bound. ok=false: the
// comparison is not defined by the documentation.
//
//	both units in the same family:  exact comparison after conversion
//	both known, different families: the value is not in the range (incomparable)
//	neither is a unit of the table: plain numbers, provided the bound has no
//	                                unit or the same spelling as the label
//	everything else:                unspecified
func cmpBound(v int64, lu string, b *bound) (cmp int, comparable bool, ok bool) {
	lr, la := resolveUnit(lu)
	br, ba := resolveUnit(b.unit)
	if la || ba {
		return 0, false, false
	}
	switch {
	case lr.fam >= 0 && br.fam >= 0:
		if lr.fam != br.fam {
			return 0, false, true
		}
		x := new(big.Rat).Mul(ri(v), lr.f)
		y := new(big.Rat).Mul(ri(b.n), br.f)
		return x.Cmp(y), true, true
	case lr.fam < 0 && br.fam < 0:
		if b.unit == "" || b.unit == lu {
			switch {
			case v < b.n:
				return -1, true, true
			case v > b.n:
				return 1, true, true
			}
			return 0, true, true
		}
	}
	return 0, false, false
}

func (e *tagExpr) inRange(v int64, lu string) tri {
	if e.lo != nil {
		c, comparable, ok := cmpBound(v, lu, e.lo)
		if !ok {
			return unspecified
		}
		if !comparable || c < 0 {
			return no
		}
	}
	if e.hi != nil {
		c, comparable, ok := cmpBound(v, lu, e.hi)
		if !ok {
			return unspecified
		}
		if !comparable || c > 0 {
			return no
		}
	}
	return yes
}

// labelUnits gives the unit of each numeric label key of a profile: the unit
// the key's values carry (the harness never mixes units under one key); keys
// without a unit are plain numbers, spelled like the key.
func labelUnits(a *ap.AP) map[string]string {
	m := map[string]string{}
	for _, s := range a.Stacks {
		for k := range s.NumLabel {
			for _, u := range s.NumUnit[k] {
				if u != "" && m[k] == "" {
					m[k] = u
				}
			}
		}
	}
	for _, s := range a.Stacks {
		for k := range s.NumLabel {
			if m[k] == "" {
				m[k] = k
			}
		}
	}
	return m
}

// match decides whether a sample (its labels) matches a tag expression.
// valueOnly selects the reading announced in the documentation as the future
// behaviour of the key-less regexp form (match against the value instead of
// "key:value"); both are accepted.
func (e *tagExpr) match(labels map[string][]string, num map[string][]int64, units map[string]string, valueOnly bool) tri {
	if e.isRange {
		if e.hasKey {
			r := no
			for _, v := range num[e.key] {
				r = or3(r, e.inRange(v, units[e.key]))
			}
			return r
		}
		r := no
		for k, vs := range num {
			for _, v := range vs {
				r = or3(r, e.inRange(v, units[k]))
			}
		}
		return r
	}
	if e.hasKey {
		// "matching either regex1 or regex2"
		for _, r := range e.rxs {
			for _, v := range labels[e.key] {
				if r.MatchString(v) {
					return yes
				}
			}
		}
		return no
	}
	// "a tag value matching regex1 and a tag value matching regex2"
	for _, r := range e.rxs {
		found := false
		for k, vs := range labels {
			for _, v := range vs {
				s := k + ":" + v
				if valueOnly {
					s = v
				}
				if r.MatchString(s) {
					found = true
				}
			}
		}
		if !found {
			return no
		}
	}
	return yes
}

// ---------------------------------------------------------------------------
// The reference: frame-level predicates over the abstract profile
// ---------------------------------------------------------------------------

// reading selects among the orders of application the statement leaves open
// when several options are combined. The zero value is the order of
// driver.applyFocus.
type reading struct {
	selFinal     bool // focus/ignore look at the frames left by hide/show/show_from (instead of all frames)
	sfFirst      bool // show_from is applied before hide/show (instead of after)
	tagShowFirst bool // tagfocus/tagignore look at the labels left by tagshow/taghide
	valueOnly    bool // key-less tag regexps are matched against the value only
}

func allReadings() []reading {
	var out []reading
	for i := 0; i < 16; i++ {
		out = append(out, reading{i&1 != 0, i&2 != 0, i&4 != 0, i&8 != 0})
	}
	return out
}

// defects switches the executable models of the known defects on.
//
//	f7b: show_from truncates, in every location on the leaf side of the
//	     sample's highest match, the lines above that location's own highest
//	     match (the truncation is done per location, for all samples at once).
//	f15: show removes every location without line information, also when its
//	     binary matches.
type defects struct{ f7b, f15 bool }

// Exp is an expected result: the kept samples. Optional marks samples the
// statement allows to be kept or dropped (samples that had no frame to begin
// with, under a frame-removing option).
type Exp struct {
	Stacks   []ap.Stack
	Optional []bool
}

func frameMatches(a *ap.AP, l *ap.Loc, line int, r *regexp.Regexp) bool {
	if l.Map >= 0 && l.Map < len(a.Maps) && r.MatchString(a.Maps[l.Map].File) {
		return true
	}
	if len(l.Lines) == 0 {
		return false
	}
	return r.MatchString(l.Lines[line].Func) || r.MatchString(l.Lines[line].File)
}

func mapMatches(a *ap.AP, l *ap.Loc, r *regexp.Regexp) bool {
	return l.Map >= 0 && l.Map < len(a.Maps) && r.MatchString(a.Maps[l.Map].File)
}

// width is the number of frames of a location (a location without lines is one frame).
func width(l *ap.Loc) int {
	if len(l.Lines) == 0 {
		return 1
	}
	return len(l.Lines)
}

// Apply evaluates a setting on a profile. ok=false: the documentation does not
// define the outcome (see tri).
func Apply(a *ap.AP, f Filt, rd reading, df defects) (exp *Exp, ok bool) {
	focus, ignore, hide, show, from := rx(f.Focus), rx(f.Ignore), rx(f.Hide), rx(f.Show), rx(f.ShowFrom)
	tf, ti := tagx(f.TagFocus), tagx(f.TagIgnore)
	tshow, thide := rx(f.TagShow), rx(f.TagHide)
	units := labelUnits(a)
	exp = &Exp{}
	frameFilter := hide != nil || show != nil || from != nil

	for si := range a.Stacks {
		s := &a.Stacks[si]
		keep := make([][]bool, len(s.Locs))
		for li := range s.Locs {
			keep[li] = make([]bool, width(&s.Locs[li]))
			for i := range keep[li] {
				keep[li][i] = true
			}
		}
		hideShow := func() {
			for li := range s.Locs {
				l := &s.Locs[li]
				for i := range keep[li] {
					if hide != nil && frameMatches(a, l, i, hide) {
						keep[li][i] = false
					}
					if show != nil && !frameMatches(a, l, i, show) {
						keep[li][i] = false
					}
					if show != nil && df.f15 && len(l.Lines) == 0 {
						keep[li][i] = false
					}
				}
			}
		}
		showFrom := func() {
			if from == nil {
				return
			}
			found := false
			for li := range s.Locs {
				l := &s.Locs[li]
				if !found {
					for i := range keep[li] {
						if keep[li][i] && frameMatches(a, l, i, from) {
							found = true
							break
						}
						keep[li][i] = false
					}
					continue
				}
				if df.f7b && !mapMatches(a, l, from) {
					first := -1
					for i := range keep[li] {
						if keep[li][i] && frameMatches(a, l, i, from) {
							first = i
							break
						}
					}
					for i := 0; i < first; i++ {
						keep[li][i] = false
					}
				}
			}
		}
		if rd.sfFirst {
			showFrom()
			hideShow()
		} else {
			hideShow()
			showFrom()
		}

		// sample selection by frames
		any := func(r *regexp.Regexp) bool {
			for li := range s.Locs {
				for i := range keep[li] {
					if (keep[li][i] || !rd.selFinal) && frameMatches(a, &s.Locs[li], i, r) {
						return true
					}
				}
			}
			return false
		}
		if focus != nil && !any(focus) {
			continue
		}
		if ignore != nil && any(ignore) {
			continue
		}

		// labels
		keepKey := func(k string) bool {
			return (tshow == nil || tshow.MatchString(k)) && (thide == nil || !thide.MatchString(k))
		}
		outLabels, outNum, outUnit := map[string][]string{}, map[string][]int64{}, map[string][]string{}
		for k, v := range s.Labels {
			if keepKey(k) {
				outLabels[k] = v
			}
		}
		for k, v := range s.NumLabel {
			if keepKey(k) {
				outNum[k] = v
				if u, ok := s.NumUnit[k]; ok {
					outUnit[k] = u
				}
			}
		}
		selLabels, selNum := s.Labels, s.NumLabel
		if rd.tagShowFirst {
			selLabels, selNum = outLabels, outNum
		}
		if tf != nil {
			switch tf.match(selLabels, selNum, units, rd.valueOnly) {
			case unspecified:
				return nil, false
			case no:
				continue
			}
		}
		if ti != nil {
			switch ti.match(selLabels, selNum, units, rd.valueOnly) {
			case unspecified:
				return nil, false
			case yes:
				continue
			}
		}

		// frames
		out := ap.Stack{Values: s.Values}
		if len(outLabels) > 0 {
			out.Labels = outLabels
		}
		if len(outNum) > 0 {
			out.NumLabel = outNum
		}
		if len(outUnit) > 0 {
			out.NumUnit = outUnit
		}
		for li, l := range s.Locs {
			if len(l.Lines) == 0 {
				if keep[li][0] {
					out.Locs = append(out.Locs, l)
				}
				continue
			}
			var lines []ap.Line
			for i, ln := range l.Lines {
				if keep[li][i] {
					lines = append(lines, ln)
				}
			}
			if len(lines) > 0 {
				l.Lines = lines
				out.Locs = append(out.Locs, l)
			}
		}
		optional := false
		if len(out.Locs) == 0 && frameFilter {
			if len(s.Locs) > 0 {
				continue // "dropping a sample only when no frame is left"
			}
			optional = true
		}
		exp.Stacks = append(exp.Stacks, out)
		exp.Optional = append(exp.Optional, optional)
	}
	return exp, true
}

// ---------------------------------------------------------------------------
// Comparison of an observed result with an expected one
// ---------------------------------------------------------------------------

func valuesKey(v []int64) string {
	var b strings.Builder
	for _, x := range v {
		b.WriteString(strconv.FormatInt(x, 10))
		b.WriteByte(',')
	}
	return b.String()
}

func eqLoc(in *ap.AP, x *ap.Loc, got *ap.AP, y *ap.Loc) bool {
	if x.Addr != y.Addr || x.Folded != y.Folded || len(x.Lines) != len(y.Lines) {
		return false
	}
	if (x.Map < 0) != (y.Map < 0) || in.MapFile(x.Map) != got.MapFile(y.Map) {
		return false
	}
	for i := range x.Lines {
		if x.Lines[i] != y.Lines[i] {
			return false
		}
	}
	return true
}

func eqLocs(in *ap.AP, x []ap.Loc, got *ap.AP, y []ap.Loc) bool {
	if len(x) != len(y) {
		return false
	}
	for i := range x {
		if !eqLoc(in, &x[i], got, &y[i]) {
			return false
		}
	}
	return true
}

func eqStrMap(a, b map[string][]string) bool {
	if len(a) != len(b) {
		return false
	}
	for k, v := range a {
		w, ok := b[k]
		if !ok || len(v) != len(w) {
			return false
		}
		for i := range v {
			if v[i] != w[i] {
				return false
			}
		}
	}
	return true
}

func eqNumMap(a, b map[string][]int64) bool {
	if len(a) != len(b) {
		return false
	}
	for k, v := range a {
		w, ok := b[k]
		if !ok || len(v) != len(w) {
			return false
		}
		for i := range v {
			if v[i] != w[i] {
				return false
			}
		}
	}
	return true
}

// eqUnits compares the units of the numeric labels that are present (a unit
// entry left behind for a removed label is not observable in any output).
func eqUnits(num map[string][]int64, a, b map[string][]string) bool {
	for k := range num {
		x, y := a[k], b[k]
		if len(x) != len(y) {
			// all-empty units are the same as no units
			if !allEmpty(x) || !allEmpty(y) {
				return false
			}
			continue
		}
		for i := range x {
			if x[i] != y[i] {
				return false
			}
		}
	}
	return true
}

func allEmpty(u []string) bool {
	for _, s := range u {
		if s != "" {
			return false
		}
	}
	return true
}

// diff compares got with exp. It returns "" when they agree, else the clause
// that fails and a description. Samples are identified by their value vector
// (distinct per sample by construction); the order of samples is not compared.
func diff(in *ap.AP, exp *Exp, got *ap.AP) (clause, detail string) {
	gotBy := map[string]*ap.Stack{}
	for i := range got.Stacks {
		k := valuesKey(got.Stacks[i].Values)
		if gotBy[k] != nil {
			return "sample-duplicated", "two result samples with values " + k
		}
		gotBy[k] = &got.Stacks[i]
	}
	inBy := map[string]*ap.Stack{}
	for i := range in.Stacks {
		inBy[valuesKey(in.Stacks[i].Values)] = &in.Stacks[i]
	}
	for k := range gotBy {
		if inBy[k] == nil {
			return "values-changed", "result sample with values " + k + " which no input sample has"
		}
	}
	seen := map[string]bool{}
	for i := range exp.Stacks {
		e := &exp.Stacks[i]
		k := valuesKey(e.Values)
		seen[k] = true
		g := gotBy[k]
		if g == nil {
			if exp.Optional[i] {
				continue
			}
			if len(inBy[k].Locs) == 0 {
				return "sample-dropped/frameless", "sample " + k + " (no frames, " + e.LabelKey() + ") is missing from the result"
			}
			return "sample-dropped", "sample " + k + " " + render(inBy[k].Locs) + " is missing; expected it with frames " + render(e.Locs)
		}
		if !eqLocs(in, e.Locs, got, g.Locs) {
			c := "frames-differ"
			switch {
			case subseq(g.Locs, e.Locs):
				c = "frames-removed-too-many"
			case subseq(e.Locs, g.Locs):
				c = "frames-removed-too-few"
			}
			return c, "sample " + k + " " + render(inBy[k].Locs) + ": expected frames " + render(e.Locs) + ", got " + render(g.Locs)
		}
		if !eqStrMap(e.Labels, g.Labels) || !eqNumMap(e.NumLabel, g.NumLabel) || !eqUnits(e.NumLabel, e.NumUnit, g.NumUnit) {
			return "labels-differ", "sample " + k + ": expected labels " + e.LabelKey() + ", got " + g.LabelKey()
		}
	}
	var extra []string
	for k := range gotBy {
		if !seen[k] {
			extra = append(extra, k)
		}
	}
	if len(extra) > 0 {
		sort.Strings(extra)
		k := extra[0]
		return "sample-kept", "sample " + k + " " + render(inBy[k].Locs) + " {" + inBy[k].LabelKey() + "} should have been dropped; got it with frames " + render(gotBy[k].Locs)
	}
	return "", ""
}

type fkey struct {
	ap.Line
	addr    uint64
	noLines bool
}

func frameKeys(locs []ap.Loc) []fkey {
	var out []fkey
	for _, l := range locs {
		if len(l.Lines) == 0 {
			out = append(out, fkey{addr: l.Addr, noLines: true})
			continue
		}
		for _, ln := range l.Lines {
			out = append(out, fkey{Line: ln, addr: l.Addr})
		}
	}
	return out
}

// subseq reports whether the frames of a are a proper subsequence of those of b.
func subseq(a, b []ap.Loc) bool {
	fa, fb := frameKeys(a), frameKeys(b)
	if len(fa) >= len(fb) {
		return false
	}
	i := 0
	for _, f := range fb {
		if i < len(fa) && fa[i] == f {
			i++
		}
	}
	return i == len(fa)
}

// render prints a stack as "a|b+c|?" (root first; | between locations, +
// between inlined lines, ? for a location without lines, with its binary).
func render(locs []ap.Loc) string {
	if len(locs) == 0 {
		return "<empty>"
	}
	var b strings.Builder
	for i, l := range locs {
		if i > 0 {
			b.WriteByte('|')
		}
		if len(l.Lines) == 0 {
			b.WriteString("?" + strconv.Itoa(l.Map+1))
		}
		for j, ln := range l.Lines {
			if j > 0 {
				b.WriteByte('+')
			}
			b.WriteString(ln.Func)
		}
	}
	return b.String()
}

func renderAP(a *ap.AP) string {
	var parts []string
	for i := range a.Stacks {
		parts = append(parts, render(a.Stacks[i].Locs)+"{"+a.Stacks[i].LabelKey()+"}")
	}
	return "[" + strings.Join(parts, " ; ") + "]"
}
