package c06

import (
	"fmt"
	"os"

	"github.com/google/pprof/verifh/ap"
	"github.com/google/pprof/verifh/drive"
	"github.com/google/pprof/verifh/enum"
)

func dbg() bool {
	if os.Getenv("C06_DBG") == "" {
		return false
	}
	a := build(sigma6, []enum.Shape{{{0}, {1, 0}, {5}}}, []int{11})
	data := drive.Encode(ap.Concretize(a, ap.Opts{}))
	r := drive.Report(map[string][]byte{"p": data}, []string{"p"}, "traces")
	fmt.Println(string(r.Out), r.Err)
	g, ok := gotTraces(r.Out)
	fmt.Println(g, ok)
	fmt.Println(wantTraces(a, a.Stacks))
	return true
}
