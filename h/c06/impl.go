package c06

import (
	"fmt"
	"regexp"
	"strings"

	"github.com/google/pprof/internal/driver"
	"github.com/google/pprof/profile"

	"github.com/google/pprof/verifh/ap"
	"github.com/google/pprof/verifh/drive"
	"github.com/google/pprof/verifh/vk"
)

// Case is the generator coordinates of one evaluated case (the witness).
type Case struct {
	Family string   `json:"family"`           // names | tags | cross | frameless | e2e | interactive
	Stacks []string `json:"stacks"`           // one per sample, root first: | separates locations, + joins inlined frames, ?1/?2 = address without symbols in binary m1/m2
	Labels []string `json:"labels,omitempty"` // label set of each sample
	Ids    string   `json:"ids,omitempty"`    // id / sharing / address scheme
	Filter Filt     `json:"filter"`
	Via    string   `json:"via"` // profile-api | applyFocus | proto | proto,relative_percentages | traces | top | interactive
}

// ---------------------------------------------------------------------------
// Running the implementation
// ---------------------------------------------------------------------------

// runProfileAPI applies a setting with the exported methods of package profile
// (and the driver's tag filter compiler), in the documented order.
func runProfileAPI(p *profile.Profile, f Filt) error {
	ui := &drive.UI{}
	if f.Focus != "" || f.Ignore != "" || f.Hide != "" || f.Show != "" {
		p.FilterSamplesByName(rx(f.Focus), rx(f.Ignore), rx(f.Hide), rx(f.Show))
	}
	if f.ShowFrom != "" {
		p.ShowFrom(rx(f.ShowFrom))
	}
	if f.TagFocus != "" || f.TagIgnore != "" {
		units, _ := p.NumLabelUnits()
		tf, err := driver.VerifCompileTagFilter("tagfocus", f.TagFocus, units, ui)
		if err != nil {
			return err
		}
		ti, err := driver.VerifCompileTagFilter("tagignore", f.TagIgnore, units, ui)
		if err != nil {
			return err
		}
		p.FilterSamplesByTag(tf, ti)
	}
	if f.TagShow != "" || f.TagHide != "" {
		p.FilterTagsByName(rx(f.TagShow), rx(f.TagHide))
	}
	return nil
}

func runApplyFocus(p *profile.Profile, f Filt) error {
	return driver.VerifApplyFocus(p, f.Opts(), &drive.UI{})
}

// ---------------------------------------------------------------------------
// Judging a result
// ---------------------------------------------------------------------------

// verdict of one comparison.
type verdict struct {
	ok      bool
	skipped bool   // outcome not defined by the documentation
	alt     bool   // agreed with a reading other than applyFocus' order
	known   string // known-defect class (the result equals the defect model)
	clause  string
	detail  string
}

func relevantReadings(f Filt) []reading {
	sel := (f.Focus != "" || f.Ignore != "") && (f.Hide != "" || f.Show != "" || f.ShowFrom != "")
	sf := f.ShowFrom != "" && (f.Hide != "" || f.Show != "")
	tg := (f.TagFocus != "" || f.TagIgnore != "") && (f.TagShow != "" || f.TagHide != "")
	vo := false
	for _, v := range []string{f.TagFocus, f.TagIgnore} {
		if e := tagx(v); e != nil && !e.isRange && !e.hasKey {
			vo = true
		}
	}
	var out []reading
	for _, r := range allReadings() {
		if r == (reading{}) || (r.selFinal && !sel) || (r.sfFirst && !sf) || (r.tagShowFirst && !tg) || (r.valueOnly && !vo) {
			continue
		}
		out = append(out, r)
	}
	return out
}

const (
	classF7b  = "show_from/lower-location-truncated-at-own-match"
	classF15  = "show/unsymbolized-frame-of-matching-binary-dropped"
	classBoth = "show+show_from/both-known-patterns"
)

// judge compares an observed result with the reference.
func judge(a *ap.AP, f Filt, got *ap.AP) verdict {
	exp, ok := Apply(a, f, reading{}, defects{})
	if !ok {
		return verdict{ok: true, skipped: true}
	}
	clause, detail := diff(a, exp, got)
	if clause == "" {
		return verdict{ok: true}
	}
	if clause == "sample-dropped/frameless" {
		// a structural predicate of its own only where frames decide (the name options)
		clause = "sample-dropped"
		if f.Focus != "" || f.Ignore != "" || f.Hide != "" || f.Show != "" || f.ShowFrom != "" {
			clause = "frameless-sample-dropped"
		}
	}
	for _, rd := range relevantReadings(f) {
		if e2, ok := Apply(a, f, rd, defects{}); ok {
			if c, _ := diff(a, e2, got); c == "" {
				return verdict{ok: true, alt: true}
			}
		}
	}
	v := verdict{clause: clause, detail: detail}
	type dm struct {
		df    defects
		class string
	}
	var models []dm
	if f.ShowFrom != "" {
		models = append(models, dm{defects{f7b: true}, classF7b})
	}
	if f.Show != "" {
		models = append(models, dm{defects{f15: true}, classF15})
	}
	if f.Show != "" && f.ShowFrom != "" {
		models = append(models, dm{defects{f7b: true, f15: true}, classBoth})
	}
	for _, m := range models {
		if e2, ok := Apply(a, f, reading{}, m.df); ok {
			if c, _ := diff(a, e2, got); c == "" {
				v.known = m.class
				return v
			}
		}
	}
	return v
}

// checker carries the context and the per-run bookkeeping.
type checker struct {
	c *vk.Ctx
}

// classify turns a failed verdict into a violation class. A failure of a
// combination is attributed to a single option when that option alone already
// fails on the same profile (one root cause, one class).
func (k *checker) classify(cs Case, a *ap.AP, o ap.Opts, v verdict) string {
	if v.known != "" {
		return v.known
	}
	act := cs.Filter.Active()
	if len(act) > 1 {
		for _, kind := range act {
			single := Filt{}.With(kind, *cs.Filter.field(kind))
			p := ap.Concretize(a, o)
			var err error
			func() {
				defer func() { recover() }()
				err = runApplyFocus(p, single)
			}()
			if err != nil {
				continue
			}
			if sv := judge(a, single, ap.Abstract(p)); !sv.ok {
				if sv.known != "" {
					return sv.known
				}
				return kind + "/" + sv.clause
			}
		}
	}
	return strings.Join(act, "+") + "/" + v.clause
}

// account records a verdict; it returns false on a violation.
func (k *checker) account(cs Case, a *ap.AP, o ap.Opts, got *ap.AP, v verdict) bool {
	c := k.c
	switch {
	case v.skipped:
		c.Count("not-compared/outcome-unspecified-by-doc", 1)
		return true
	case v.ok:
		if v.alt {
			c.Count("agreed-with-alternative-order-reading", 1)
		}
		return true
	}
	class := k.classify(cs, a, o, v)
	if !strings.HasPrefix(cs.Via, "profile-api") && cs.Via != "applyFocus" {
		// end to end: the same class as the library level when the library
		// level fails on this case too, else a class of its own
		p := ap.Concretize(a, o)
		failedBelow := false
		func() {
			defer func() {
				if recover() != nil {
					failedBelow = true
				}
			}()
			if err := runApplyFocus(p, cs.Filter); err != nil {
				return
			}
			if lv := judge(a, cs.Filter, ap.Abstract(p)); !lv.ok {
				failedBelow = true
			}
		}()
		if !failedBelow {
			class = "e2e/" + cs.Via + "/" + v.clause
		}
	}
	c.Violationf(class, cs, "%s\ninput    %s\nobserved %s", v.detail, renderAP(a), renderAP(got))
	return false
}

// evalLib runs one case at the library level. via: "profile-api" or "applyFocus".
func (k *checker) evalLib(cs Case, a *ap.AP, o ap.Opts, via string) (got *ap.AP, v verdict) {
	c := k.c
	cs.Via = via
	p := ap.Concretize(a, o)
	var err error
	c.Eval()
	if !c.Guard(via, cs, func() {
		if via == "profile-api" {
			err = runProfileAPI(p, cs.Filter)
		} else {
			err = runApplyFocus(p, cs.Filter)
		}
	}) {
		return nil, verdict{}
	}
	if err != nil {
		c.Violationf("error/"+via, cs, "unexpected error on a valid setting: %v", err)
		return nil, verdict{}
	}
	got = ap.Abstract(p)
	v = judge(a, cs.Filter, got)
	k.account(cs, a, o, got, v)
	return got, v
}

// ---------------------------------------------------------------------------
// End to end
// ---------------------------------------------------------------------------

func (k *checker) runOK(cs Case, r *drive.Result) bool {
	if r.Panic != nil {
		k.c.Violationf("panic/"+cs.Via, cs, "panic: %v\n%s", r.Panic, r.Stack)
		return false
	}
	if r.Err != nil {
		k.c.Violationf("error/"+cs.Via, cs, "unexpected error: %v", r.Err)
		return false
	}
	return true
}

// evalProto runs `pprof -proto <filters>` and compares the saved profile.
func (k *checker) evalProto(cs Case, a *ap.AP, data []byte, rel bool) (got *ap.AP) {
	c := k.c
	cs.Via = "proto"
	flags := append([]string{"proto"}, cs.Filter.Flags()...)
	if rel {
		cs.Via = "proto,relative_percentages"
		flags = append(flags, "relative_percentages")
	}
	c.Eval()
	r := drive.Report(map[string][]byte{"p": data}, []string{"p"}, flags...)
	if !k.runOK(cs, r) {
		return nil
	}
	q, err := profile.ParseData(r.Out)
	if err != nil {
		c.Violationf("e2e/proto-unparsable", cs, "%v", err)
		return nil
	}
	got = ap.Abstract(q)
	c.Count("e2e/proto-compared", 1)
	k.account(cs, a, ap.Opts{}, got, judge(a, cs.Filter, got))
	return got
}

var totalRx = regexp.MustCompile(`Showing nodes accounting for (-?[0-9]+), .* of (-?[0-9]+) total`)

// topTotals runs `pprof -top` and returns (sum of the shown flat values, the
// total the percentages refer to).
func (k *checker) topTotals(cs Case, data []byte, f Filt, rel bool) (shown, total int64, ok bool) {
	flags := append([]string{"top", "nodefraction=0", "edgefraction=0", "nodecount=0"}, f.Flags()...)
	if rel {
		flags = append(flags, "relative_percentages")
	}
	k.c.Eval()
	cs.Via, cs.Filter = "top", f
	r := drive.Report(map[string][]byte{"p": data}, []string{"p"}, flags...)
	if !k.runOK(cs, r) {
		return 0, 0, false
	}
	m := totalRx.FindSubmatch(r.Out)
	if m == nil {
		k.c.Count("unparsed/top-legend", 1)
		return 0, 0, false
	}
	fmt.Sscan(string(m[1]), &shown)
	fmt.Sscan(string(m[2]), &total)
	return shown, total, true
}
