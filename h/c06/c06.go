// Package c06: sample filters keep exactly the documented samples, values
// untouched.
//
// Exhaustive enumeration of small profiles (every frame sequence over a small
// alphabet of frame kinds up to a depth bound, every grouping of the frames
// into locations, one or two samples sharing locations, label sets from a
// menu) times filter settings from a small grammar (each of the nine options
// alone, every pair of options, the triple focus+ignore+hide). Every case is
// run through the real code at two levels - the profile API / the driver's
// applyFocus, and the whole driver (`pprof -proto`, `-traces`, `-top`, with and
// without relative_percentages, and the interactive `cmd focus -ignore` form) -
// and the resulting samples are compared with frame-level predicates written
// from doc/README.md (ref.go).
package c06

import (
	"fmt"
	"reflect"
	"sort"
	"strings"

	"github.com/google/pprof/profile"

	"github.com/google/pprof/verifh/ap"
	"github.com/google/pprof/verifh/drive"
	"github.com/google/pprof/verifh/enum"
	"github.com/google/pprof/verifh/model"
	"github.com/google/pprof/verifh/parse"
	"github.com/google/pprof/verifh/reg"
	"github.com/google/pprof/verifh/vk"
)

func init() { reg.Register("C06", Run) }

// ---------------------------------------------------------------------------
// Alphabets and menus
// ---------------------------------------------------------------------------

// Two binaries. No name of the alphabet matches an expression of the menu by
// accident (the paths contain none of a, b, c, f, g, o, x).
var maps2 = []ap.Map{
	{Start: 0x1000, Limit: 0x5000, File: "/q/m1", HasFunctions: true, HasFilenames: true, HasLineNumbers: true, HasInlineFrames: true},
	{Start: 0x8000, Limit: 0xc000, File: "/q/m2", HasFunctions: true, HasFilenames: true, HasLineNumbers: true, HasInlineFrames: true},
}

// Frame kinds: a, b live in binary m1, c and ab in m2; b and c share a source
// file; ab is named by "a", "b" and "a|b" but not by "^a$"; ?1 and ?2 are
// addresses without symbols in m1 and m2; n is a function outside any binary.
var (
	kA  = enum.Kind{Line: ap.Line{Func: "a", Sys: "a_sys", File: "f1.go", Start: 1, Line: 1}, Map: 0, Tag: "a"}
	kB  = enum.Kind{Line: ap.Line{Func: "b", Sys: "b_sys", File: "f2.go", Start: 1, Line: 2}, Map: 0, Tag: "b"}
	kC  = enum.Kind{Line: ap.Line{Func: "c", Sys: "c_sys", File: "f2.go", Start: 5, Line: 6, Col: 3}, Map: 1, Tag: "c"}
	kAB = enum.Kind{Line: ap.Line{Func: "ab", Sys: "ab_sys", File: "f3.go", Start: 1, Line: 4}, Map: 1, Tag: "ab"}
	kU1 = enum.Kind{Unsym: true, Map: 0, Tag: "?1"}
	kU2 = enum.Kind{Unsym: true, Map: 1, Tag: "?2"}
	kN  = enum.Kind{Line: ap.Line{Func: "n", Sys: "n_sys", File: "f4.go", Start: 1, Line: 9}, Map: -1, Tag: "n"}

	sigma6 = []enum.Kind{kA, kB, kC, kAB, kU1, kU2}
	sigma7 = []enum.Kind{kA, kB, kC, kAB, kU1, kU2, kN}
	sigma3 = []enum.Kind{kA, kB, kU1}
)

// Name expressions: a function, two functions, a source file, a binary, an
// alternation, an anchored name, everything, every source file, nothing, a
// function name or another function's source file.
var (
	nameRx      = []string{"a", "b", "f2", "m1", "m2", "a|b", "^a$", ".", "go", "x", "a|f2"}
	nameRxPair  = []string{"a", "b", "f2", "m1", "a|b", "^a$", "."}
	nameRxSmall = []string{"a", "b", "m1", "f2"}
	nameKinds   = []string{"focus", "ignore", "hide", "show", "show_from"}
	tagSelKinds = []string{"tagfocus", "tagignore"}
	tagKeyKinds = []string{"tagshow", "taghide"}
)

// Tag expressions: regexps (plain, key=, comma lists with and without key,
// "key:value" spellings) and ranges (exact, open, closed, with key, with units
// of the label's family in another magnitude, of another family, of no family).
var (
	tagVals = []string{
		"v", "w", "x", "k=v", "j=v", "k=v,w", "k=x,w", "v,w", "v,x", "k:v", "j:", "^v", "^k",
		"5", "5:", ":5", "2:8", "n=2:8", "n=5", "n=9:", "-3:3",
		"5kb", "sz=5kb", "5120b", "sz=1mb:", "1b:2kb", "4kb:", ":3ms", "t=1s:", "2000us:4ms", "t=3000us",
		"sz=5", "n=5kb", "1mb:", ":1mb",
		// bounds in a unit coarser than the label's, next to label values that are not whole multiples of it
		":1s", "1s", "sz=:5kb", ":2kb",
		// a key-restricted expression whose value part contains '=' itself (the key ends at the first '=')
		"k=v=w", "k=v=.*", "k=.*=w",
		// anchored expressions on a key that may hold several values: each value is matched on its own
		"k=^w$", "k=^v$", "k=w$", "k=^v", "k=^v.w$",
	}
	tagValsSmall = []string{"v", "k=v", "v,w", "k=v,w", "k:v", "5", "2:8", "n=2:8", "sz=5kb", "1b:2kb", ":3ms"}
	tagKeyRx     = []string{"k", "j", "n", "sz", "k|n", "^.$", "x"}
)

// labelSet is one choice of labels for a sample. Every key has one unit
// throughout: n none, sz bytes, t milliseconds.
type labelSet struct {
	name string
	str  map[string][]string
	num  map[string][]int64
}

var numUnits = map[string]string{"sz": "bytes", "t": "milliseconds", "kb": "kilobytes"}

var labelSets = []labelSet{
	{name: "-"},
	{name: "k:v", str: map[string][]string{"k": {"v"}}},
	{name: "k:v,w", str: map[string][]string{"k": {"v", "w"}}},
	{name: "k:w j:v", str: map[string][]string{"k": {"w"}, "j": {"v"}}},
	{name: "j:w", str: map[string][]string{"j": {"w"}}},
	// the same number under two keys of different units: 2048 bytes and 2048 kilobytes lie on opposite
	// sides of 1mb (each label is judged in its own unit)
	{name: "sz:2048", num: map[string][]int64{"sz": {2048}}},
	{name: "kb:2048", num: map[string][]int64{"kb": {2048}}},
	// one expression of a list matches two labels, another none: every expression needs its own match
	{name: "k:v j:v", str: map[string][]string{"k": {"v"}, "j": {"v"}}},
	{name: "k:v=w", str: map[string][]string{"k": {"v=w"}}},
	{name: "n:5", num: map[string][]int64{"n": {5}}},
	{name: "n:2,9", num: map[string][]int64{"n": {2, 9}}},
	{name: "sz:5120", num: map[string][]int64{"sz": {5120}}},
	{name: "sz:1,2097152", num: map[string][]int64{"sz": {1, 2097152}}},
	{name: "t:3", num: map[string][]int64{"t": {3}}},
	{name: "t:5000 n:-2", num: map[string][]int64{"t": {5000}, "n": {-2}}},
	{name: "k:v n:5 sz:5120", str: map[string][]string{"k": {"v"}}, num: map[string][]int64{"n": {5}, "sz": {5120}}},
	// values just above a whole multiple of a coarser unit (5 kB + 1, 2 kB + 1, 1.5 s)
	{name: "sz:5121", num: map[string][]int64{"sz": {5121}}},
	{name: "sz:2049 t:1500", num: map[string][]int64{"sz": {2049}, "t": {1500}}},
}

func labelSetByName(n string) int {
	for i, l := range labelSets {
		if l.name == n {
			return i
		}
	}
	panic("no label set " + n)
}

func (l labelSet) apply(s *ap.Stack) {
	if len(l.str) > 0 {
		s.Labels = map[string][]string{}
		for k, v := range l.str {
			s.Labels[k] = append([]string(nil), v...)
		}
	}
	if len(l.num) > 0 {
		s.NumLabel = map[string][]int64{}
		for k, v := range l.num {
			s.NumLabel[k] = append([]int64(nil), v...)
			if u := numUnits[k]; u != "" {
				if s.NumUnit == nil {
					s.NumUnit = map[string][]string{}
				}
				for range v {
					s.NumUnit[k] = append(s.NumUnit[k], u)
				}
			}
		}
	}
}

// Distinct value vectors identify the samples.
var sampleValues = [][]int64{{1, 3}, {2, 5}, {4, 9}}

var types = []ap.VT{{Type: "n", Unit: "count"}, {Type: "v", Unit: "count"}}

// build constructs a profile: sample i has stack shapes[i] and label set ls[i].
func build(sigma []enum.Kind, shapes []enum.Shape, ls []int) *ap.AP {
	a := &ap.AP{Types: types, Maps: maps2, PeriodType: &ap.VT{Type: "n", Unit: "count"}, Period: 1}
	for i, sh := range shapes {
		st := sh.Stack(sigma, sampleValues[i])
		labelSets[ls[i]].apply(&st)
		a.Stacks = append(a.Stacks, st)
	}
	return a
}

type scheme struct {
	name     string
	o        ap.Opts
	zeroAddr bool
}

var (
	schDense  = scheme{name: ""}
	schSparse = scheme{name: "sparse-reversed-ids", o: ap.Opts{IDBase: 100, IDStride: 3, Reverse: true}}
	schSplit  = scheme{name: "unshared-locations", o: ap.Opts{NoShare: true}}
	schZero   = scheme{name: "all-addresses-zero", zeroAddr: true}
)

func (s scheme) on(a *ap.AP) *ap.AP {
	if !s.zeroAddr {
		return a
	}
	b := a.Clone()
	for i := range b.Stacks {
		for j := range b.Stacks[i].Locs {
			b.Stacks[i].Locs[j].Addr = 0
		}
	}
	return b
}

func depthOf(s enum.Shape) int {
	n := 0
	for _, g := range s {
		n += len(g)
	}
	return n
}

// ---------------------------------------------------------------------------
// Settings
// ---------------------------------------------------------------------------

func singles(kinds, vals []string) []Filt {
	var out []Filt
	for _, k := range kinds {
		for _, v := range vals {
			out = append(out, Filt{}.With(k, v))
		}
	}
	return out
}

func pairsOf(k1 []string, v1 []string, k2 []string, v2 []string, sameFamily bool) []Filt {
	var out []Filt
	for i, a := range k1 {
		for j, b := range k2 {
			if sameFamily && j <= i {
				continue
			}
			for _, x := range v1 {
				for _, y := range v2 {
					out = append(out, Filt{}.With(a, x).With(b, y))
				}
			}
		}
	}
	return out
}

// nameSettings: each name option alone, every pair of name options (full
// product of the expression menu), the triple focus+ignore+hide.
func nameSettings(thorough bool) []Filt {
	out := singles(nameKinds, nameRx)
	pm := nameRxPair
	if thorough {
		pm = nameRx
	}
	out = append(out, pairsOf(nameKinds, pm, nameKinds, pm, true)...)
	for _, f := range nameRxSmall {
		for _, i := range nameRxSmall {
			for _, h := range nameRxSmall {
				out = append(out, Filt{Focus: f, Ignore: i, Hide: h})
			}
		}
	}
	return out
}

// tagSettings: each tag option alone and every pair of tag options.
func tagSettings() []Filt {
	out := singles(tagSelKinds, tagVals)
	out = append(out, singles(tagKeyKinds, tagKeyRx)...)
	out = append(out, pairsOf(tagSelKinds, tagVals, tagSelKinds, tagVals, true)...)
	out = append(out, pairsOf(tagSelKinds, tagVals, tagKeyKinds, tagKeyRx, false)...)
	out = append(out, pairsOf(tagKeyKinds, tagKeyRx, tagKeyKinds, tagKeyRx, true)...)
	return out
}

// crossSettings: every pair (name option, tag option).
func crossSettings() []Filt {
	out := pairsOf(nameKinds, nameRxSmall, tagSelKinds, tagValsSmall, false)
	return append(out, pairsOf(nameKinds, nameRxSmall, tagKeyKinds, []string{"k", "n", "k|n"}, false)...)
}

// e2eSettings: every option alone (full menus) and every pair of options on
// reduced menus, plus the triple.
func e2eSettings(thorough bool) []Filt {
	out := singles(nameKinds, nameRx)
	out = append(out, singles(tagSelKinds, tagVals)...)
	out = append(out, singles(tagKeyKinds, tagKeyRx)...)
	nv, tv, kv := []string{"a", "m1"}, []string{"k=v", "2:8"}, []string{"k"}
	if thorough {
		nv, tv, kv = nameRxSmall, []string{"v", "k=v", "v,w", "2:8", "sz=5kb"}, []string{"k", "k|n"}
	}
	out = append(out, pairsOf(nameKinds, nv, nameKinds, nv, true)...)
	out = append(out, pairsOf(nameKinds, nv, tagSelKinds, tv, false)...)
	out = append(out, pairsOf(nameKinds, nv, tagKeyKinds, kv, false)...)
	out = append(out, pairsOf(tagSelKinds, tv, tagSelKinds, tv, true)...)
	out = append(out, pairsOf(tagSelKinds, tv, tagKeyKinds, kv, false)...)
	out = append(out, pairsOf(tagKeyKinds, kv, tagKeyKinds, kv, true)...)
	out = append(out, Filt{Focus: "a", Ignore: "b", Hide: "m1"}, Filt{Focus: "m1", Ignore: "f2", Hide: "a"})
	return out
}

// ---------------------------------------------------------------------------
// Run
// ---------------------------------------------------------------------------

// Run is the check.
func Run(c *vk.Ctx) {
	k := &checker{c: c}
	dSingle, dPairEach, dPairSum, dBinary := 3, 2, 4, 5
	if c.Thorough() {
		dSingle, dPairEach, dPairSum, dBinary = 4, 3, 5, 6
	}
	single7 := enum.Shapes(sigma7, dSingle)
	shapes6 := enum.Shapes(sigma6, 3)
	shapes3 := enum.Shapes(sigma3, dBinary)
	nset, tset, xset, eset := nameSettings(c.Thorough()), tagSettings(), crossSettings(), e2eSettings(c.Thorough())
	c.Note(fmt.Sprintf("names: alphabet 7 kinds (a b c ab ?1 ?2 n; binaries m1 m2), all inline groupings; single stacks depth<=%d (%d) x 4 id/sharing/address schemes (depth 4: dense ids only), pairs of stacks (6 kinds) of depth<=%d each and <=%d together sharing equal locations x 2 schemes (5 frames together: dense ids only), deep single stacks over (a b ?1) depth<=%d (%d); x %d name settings (5 options alone x %d expressions, all 10 pairs x %d^2, triple focus+ignore+hide x %d^3); "+
		"tags: %d label sets, all ordered pairs%s x %d tag settings (4 options alone, all pairs; %d tag expressions, %d key expressions); cross: %d settings (name option x tag option); frameless: samples without frames; "+
		"e2e: %d settings x (proto, proto+relative_percentages, traces) on stacks of depth<=%d and pairs of depth<=1, top totals for focus/ignore partitions, interactive 'proto F -I'",
		dSingle, len(single7), dPairEach, dPairSum, dBinary, len(shapes3), len(nset), len(nameRx), pairMenuLen(c.Thorough()), len(nameRxSmall),
		len(labelSets), map[bool]string{false: "", true: " and triples"}[c.Thorough()], len(tset), len(tagVals), len(tagKeyRx), len(xset), len(eset), map[bool]int{false: 2, true: 3}[c.Thorough()]))

	var idx int64
	mineCount := 0
	expired := func() bool {
		if mineCount++; mineCount&0x3 == 0 && c.Expired() {
			c.Cap(fmt.Sprintf("time budget: stopped at profile index %d", idx))
			return true
		}
		return false
	}
	defaultLabels := []int{labelSetByName("k:v n:5 sz:5120"), labelSetByName("k:v,w"), labelSetByName("-")}

	// Family "names", single stacks, wide alphabet, four schemes.
	for _, sh := range single7 {
		if depthOf(sh) == 0 {
			continue
		}
		if c.Mine(idx) {
			if expired() {
				return
			}
			shs := []enum.Shape{sh}
			a0 := build(sigma7, shs, defaultLabels)
			cs := Case{Family: "names", Stacks: tags(sigma7, shs)}
			if c.WantSample() && depthOf(sh) == dSingle {
				c.Sample(cs)
			}
			schemes := []scheme{schDense, schSparse, schSplit, schZero}
			if depthOf(sh) > 3 {
				schemes = schemes[:1]
			}
			for _, sch := range schemes {
				a := sch.on(a0)
				cs.Ids = sch.name
				k.nameCases(cs, a, sch.o, nset)
			}
		}
		idx++
	}

	// Family "frameless" : a sample without any frame
	// next to an ordinary one.
	for _, sh := range enum.Shapes(sigma3, 1) {
		for _, first := range []bool{true, false} {
			if c.Mine(idx) && depthOf(sh) > 0 {
				shs := []enum.Shape{{}, sh}
				if !first {
					shs = []enum.Shape{sh, {}}
				}
				a := build(sigma3, shs, defaultLabels)
				cs := Case{Family: "frameless", Stacks: tags(sigma3, shs), Labels: lsNames(defaultLabels[:2])}
				for _, f := range append(append(singles(nameKinds, nameRx), singles(tagSelKinds, tagValsSmall)...), singles(tagKeyKinds, tagKeyRx)...) {
					cs.Filter = f
					k.evalLib(cs, a, ap.Opts{}, "profile-api")
					k.evalLib(cs, a, ap.Opts{}, "applyFocus")
				}
				k.partition(cs, a, ap.Opts{})
			}
			idx++
		}
	}

	// Family "names", deep single stacks over three kinds (recursion, long
	// inline chains).
	for _, sh := range shapes3 {
		if depthOf(sh) <= dSingle {
			continue // covered above
		}
		if c.Mine(idx) {
			if expired() {
				return
			}
			shs := []enum.Shape{sh}
			a := build(sigma3, shs, defaultLabels)
			cs := Case{Family: "names", Stacks: tags(sigma3, shs)}
			k.nameCases(cs, a, ap.Opts{}, nset)
		}
		idx++
	}

	// Family "names", pairs of stacks sharing equal locations.
	for i := range shapes6 {
		for j := i; j < len(shapes6); j++ {
			di, dj := depthOf(shapes6[i]), depthOf(shapes6[j])
			if di == 0 || di > dPairEach || dj > dPairEach || di+dj > dPairSum {
				continue
			}
			if c.Mine(idx) {
				if expired() {
					return
				}
				shs := []enum.Shape{shapes6[i], shapes6[j]}
				a0 := build(sigma6, shs, defaultLabels)
				cs := Case{Family: "names", Stacks: tags(sigma6, shs)}
				schemes := []scheme{schDense, schZero}
				if di+dj > 4 {
					schemes = schemes[:1]
				}
				for _, sch := range schemes {
					cs.Ids = sch.name
					k.nameCases(cs, sch.on(a0), sch.o, nset)
				}
			}
			idx++
		}
	}

	// Family "tags": fixed stacks, label sets varied.
	tagStacks := []enum.Shape{{{0}, {1}}, {{0}, {2}}, {{1}}}
	nls := len(labelSets)
	tuples := [][]int{}
	for i := 0; i < nls; i++ {
		for j := 0; j < nls; j++ {
			tuples = append(tuples, []int{i, j})
		}
	}
	if c.Thorough() {
		for i := 0; i < nls; i++ {
			for j := 0; j < nls; j++ {
				for l := 0; l < nls; l++ {
					tuples = append(tuples, []int{i, j, l})
				}
			}
		}
	}
	for _, tu := range tuples {
		if c.Mine(idx) {
			if expired() {
				return
			}
			shs := tagStacks[:len(tu)]
			a := build(sigma6, shs, tu)
			cs := Case{Family: "tags", Stacks: tags(sigma6, shs), Labels: lsNames(tu)}
			if c.WantSample() {
				c.Sample(cs)
			}
			for _, f := range tset {
				cs.Filter = f
				if len(f.Active()) == 1 {
					k.evalLib(cs, a, ap.Opts{}, "profile-api")
				}
				_, v := k.evalLib(cs, a, ap.Opts{}, "applyFocus")
				k.tagStats(a, f, v)
			}
			k.partition(cs, a, ap.Opts{})
		}
		idx++
	}

	// Family "cross": name option x tag option.
	small := enum.Shapes(sigma6, 1)
	crossLabels := [][]int{
		{labelSetByName("k:v n:5 sz:5120"), labelSetByName("k:v,w")},
		{labelSetByName("k:w j:v"), labelSetByName("n:2,9")},
		{labelSetByName("-"), labelSetByName("t:3")},
	}
	for i := range small {
		for j := i; j < len(small); j++ {
			if depthOf(small[i]) == 0 {
				continue
			}
			for _, ls := range crossLabels {
				if c.Mine(idx) {
					if expired() {
						return
					}
					shs := []enum.Shape{small[i], small[j]}
					a := build(sigma6, shs, ls)
					cs := Case{Family: "cross", Stacks: tags(sigma6, shs), Labels: lsNames(ls)}
					for _, f := range xset {
						cs.Filter = f
						k.evalLib(cs, a, ap.Opts{}, "applyFocus")
					}
				}
				idx++
			}
		}
	}

	// Family "e2e": the whole driver.
	e2eShapes := enum.Shapes(sigma6, 2)
	type e2eProfile struct {
		shs []enum.Shape
		ls  []int
	}
	var eps []e2eProfile
	for _, sh := range e2eShapes {
		if depthOf(sh) > 0 {
			eps = append(eps, e2eProfile{[]enum.Shape{sh}, defaultLabels})
		}
	}
	for i := range small {
		for j := i; j < len(small); j++ {
			if depthOf(small[i]) > 0 {
				eps = append(eps, e2eProfile{[]enum.Shape{small[i], small[j]}, crossLabels[(i+j)%len(crossLabels)]})
			}
		}
	}
	// the witnesses of the known patterns and a frameless sample
	eps = append(eps,
		e2eProfile{[]enum.Shape{{{0}, {1, 0}}}, defaultLabels},
		e2eProfile{[]enum.Shape{{{1, 0}}, {{0}, {1, 0}}}, defaultLabels},
		e2eProfile{[]enum.Shape{{}, {{0}}}, defaultLabels},
	)
	if c.Thorough() {
		for _, sh := range shapes6 {
			if depthOf(sh) == 3 {
				eps = append(eps, e2eProfile{[]enum.Shape{sh}, defaultLabels})
			}
		}
	}
	for _, ep := range eps {
		if c.Mine(idx) {
			if expired() {
				return
			}
			a := build(sigma6, ep.shs, ep.ls)
			cs := Case{Family: "e2e", Stacks: tags(sigma6, ep.shs), Labels: lsNames(ep.ls[:len(ep.shs)])}
			k.e2e(cs, a, eset)
		}
		idx++
	}

	// Non-vacuity guards (every shard sees hundreds of profiles of each family).
	for _, g := range []string{
		"focus/sample-kept", "focus/sample-dropped", "ignore/sample-kept", "ignore/sample-dropped",
		"hide/frames-removed", "hide/line-removed-inside-location", "hide/whole-location-by-binary", "hide/sample-emptied",
		"show/frames-removed", "show/line-removed-inside-location", "show/whole-location-by-binary", "show/sample-emptied",
		"show_from/cut", "show_from/cut-inside-location", "show_from/no-match-sample-dropped", "show_from/match-by-binary",
		"shared-location/line-removed", "combination/two-name-options-both-effective",
		"tag/regexp-match", "tag/regexp-no-match", "tag/comma-and-distinguishes", "tag/comma-or-distinguishes", "tag/key-restriction-distinguishes",
		"tag/range-match", "tag/range-no-match", "tag/range-unit-converted-match", "tag/range-other-family-no-match",
		"tagshow/label-removed", "taghide/label-removed", "partition/checked", "partition/both-sides-nonempty",
		"e2e/proto-compared", "e2e/traces-compared", "e2e/top-totals-compared", "e2e/interactive-compared",
	} {
		if c.Counter(g) == 0 {
			c.Vacuous("no case with " + g)
		}
	}
}

func pairMenuLen(thorough bool) int {
	if thorough {
		return len(nameRx)
	}
	return len(nameRxPair)
}

func tags(sigma []enum.Kind, shs []enum.Shape) []string {
	var out []string
	for _, s := range shs {
		out = append(out, s.Tag(sigma))
	}
	return out
}

func lsNames(ls []int) []string {
	var out []string
	for _, i := range ls {
		out = append(out, labelSets[i].name)
	}
	return out
}

// nameCases runs all name settings on one profile at the library level.
func (k *checker) nameCases(cs Case, a *ap.AP, o ap.Opts, settings []Filt) {
	eff := map[string]bool{}
	for _, f := range settings {
		cs.Filter = f
		if len(f.Active()) == 1 {
			k.evalLib(cs, a, o, "profile-api")
		}
		got, v := k.evalLib(cs, a, o, "applyFocus")
		if got != nil && (v.ok && !v.skipped) {
			k.nameStats(cs, a, f, got, eff)
		}
	}
	k.partition(cs, a, o)
}

// ---------------------------------------------------------------------------
// Non-vacuity accounting (on results that agreed with the reference)
// ---------------------------------------------------------------------------

func nframes(s *ap.Stack) int {
	n := 0
	for i := range s.Locs {
		n += width(&s.Locs[i])
	}
	return n
}

// eff remembers, per profile, whether a single option had an effect.
func (k *checker) nameStats(cs Case, a *ap.AP, f Filt, got *ap.AP, eff map[string]bool) {
	c := k.c
	act := f.Active()
	gotBy := map[string]*ap.Stack{}
	for i := range got.Stacks {
		gotBy[valuesKey(got.Stacks[i].Values)] = &got.Stacks[i]
	}
	changed := false
	for si := range a.Stacks {
		s := &a.Stacks[si]
		g := gotBy[valuesKey(s.Values)]
		if len(act) == 1 {
			kind := act[0]
			r := rx(*f.field(kind))
			switch kind {
			case "focus", "ignore":
				if g != nil {
					c.Count(kind+"/sample-kept", 1)
				} else {
					c.Count(kind+"/sample-dropped", 1)
					changed = true
				}
			case "hide", "show":
				if g == nil {
					c.Count(kind+"/sample-emptied", 1)
					changed = true
					break
				}
				if nframes(g) < nframes(s) {
					c.Count(kind+"/frames-removed", 1)
					changed = true
					if len(g.Locs) < len(s.Locs) {
						for li := range s.Locs {
							if mapMatches(a, &s.Locs[li], r) == (kind == "hide") {
								c.Count(kind+"/whole-location-by-binary", 1)
								break
							}
						}
					}
					gi := 0
					for li := range s.Locs {
						if gi < len(g.Locs) && g.Locs[gi].Addr == s.Locs[li].Addr && len(g.Locs[gi].Lines) > 0 {
							if len(g.Locs[gi].Lines) < len(s.Locs[li].Lines) {
								c.Count(kind+"/line-removed-inside-location", 1)
								if len(a.Stacks) > 1 {
									c.Count("shared-location/line-removed", 1)
								}
							}
							gi++
						}
					}
				}
			case "show_from":
				switch {
				case g == nil:
					c.Count("show_from/no-match-sample-dropped", 1)
					changed = true
				case nframes(g) < nframes(s):
					c.Count("show_from/cut", 1)
					changed = true
					if len(g.Locs) > 0 && len(g.Locs[0].Lines) > 0 {
						for li := range s.Locs {
							if s.Locs[li].Addr == g.Locs[0].Addr && len(s.Locs[li].Lines) > len(g.Locs[0].Lines) {
								c.Count("show_from/cut-inside-location", 1)
								break
							}
						}
					}
					if len(g.Locs) > 0 && mapMatches(got, &g.Locs[0], r) {
						c.Count("show_from/match-by-binary", 1)
					}
				}
			}
		} else if g == nil || nframes(g) < nframes(s) {
			changed = true
		}
	}
	if len(act) == 1 {
		eff[f.String()] = changed
	} else if len(act) == 2 && changed {
		// both options have an effect of their own on this profile?
		if eff[Filt{}.With(act[0], *f.field(act[0])).String()] && eff[Filt{}.With(act[1], *f.field(act[1])).String()] {
			c.Count("combination/two-name-options-both-effective", 1)
		}
	}
	if changed {
		c.Nontrivial(cs.Family + strings.Join(cs.Stacks, ";") + "/" + cs.Ids + "/" + f.String())
	}
	c.Outcome(fmt.Sprintf("%v/%d/%d", act, len(got.Stacks), func() int {
		n := 0
		for i := range got.Stacks {
			n += nframes(&got.Stacks[i])
		}
		return n
	}()))
}

func (k *checker) tagStats(a *ap.AP, f Filt, v verdict) {
	c := k.c
	if !v.ok || v.skipped {
		return
	}
	act := f.Active()
	if len(act) != 1 {
		return
	}
	kind := act[0]
	val := *f.field(kind)
	units := labelUnits(a)
	switch kind {
	case "tagfocus", "tagignore":
		e := tagx(val)
		for si := range a.Stacks {
			s := &a.Stacks[si]
			m := e.match(s.Labels, s.NumLabel, units, false)
			if e.isRange {
				switch m {
				case yes:
					c.Count("tag/range-match", 1)
					b := e.lo
					if b == nil {
						b = e.hi
					}
					for key := range s.NumLabel {
						if r, _ := resolveUnit(units[key]); r.fam >= 0 && !strings.EqualFold(units[key], b.unit) {
							if br, _ := resolveUnit(b.unit); br.fam == r.fam && br.f.Cmp(r.f) != 0 {
								c.Count("tag/range-unit-converted-match", 1)
							}
						}
					}
				case no:
					c.Count("tag/range-no-match", 1)
					b := e.lo
					if b == nil {
						b = e.hi
					}
					br, _ := resolveUnit(b.unit)
					for key := range s.NumLabel {
						if r, _ := resolveUnit(units[key]); r.fam >= 0 && br.fam >= 0 && r.fam != br.fam {
							c.Count("tag/range-other-family-no-match", 1)
						}
					}
				}
				continue
			}
			if m == yes {
				c.Count("tag/regexp-match", 1)
			} else {
				c.Count("tag/regexp-no-match", 1)
			}
			if len(e.rxs) > 1 {
				// does the comma semantics matter here? compare AND with OR
				and, or := true, false
				for _, r := range e.rxs {
					one := &tagExpr{key: e.key, hasKey: e.hasKey, rxs: e.rxs[:0:0]}
					one.rxs = append(one.rxs, r)
					if one.match(s.Labels, s.NumLabel, units, false) == yes {
						or = true
					} else {
						and = false
					}
				}
				if and != or {
					if e.hasKey {
						c.Count("tag/comma-or-distinguishes", 1)
					} else {
						c.Count("tag/comma-and-distinguishes", 1)
					}
				}
			}
			if e.hasKey {
				free := &tagExpr{rxs: e.rxs}
				if free.match(s.Labels, s.NumLabel, units, true) != m {
					c.Count("tag/key-restriction-distinguishes", 1)
				}
			}
		}
		c.Nontrivial("tags/" + renderAP(a) + "/" + f.String())
	case "tagshow", "taghide":
		r := rx(val)
		for si := range a.Stacks {
			s := &a.Stacks[si]
			for key := range s.Labels {
				if r.MatchString(key) == (kind == "taghide") {
					c.Count(kind+"/label-removed", 1)
				}
			}
			for key := range s.NumLabel {
				if r.MatchString(key) == (kind == "taghide") {
					c.Count(kind+"/label-removed", 1)
				}
			}
		}
	}
}

// ---------------------------------------------------------------------------
// The partition law, checked on the implementation's results alone
// ---------------------------------------------------------------------------

func (k *checker) partition(cs Case, a *ap.AP, o ap.Opts) {
	c := k.c
	run := func(f Filt) (map[string]*ap.Stack, []int64, bool) {
		p := ap.Concretize(a, o)
		var err error
		cs.Filter, cs.Via = f, "applyFocus"
		c.Eval()
		if !c.Guard("applyFocus", cs, func() { err = runApplyFocus(p, f) }) || err != nil {
			return nil, nil, false
		}
		g := ap.Abstract(p)
		by := map[string]*ap.Stack{}
		tot := make([]int64, len(a.Types))
		for i := range g.Stacks {
			by[valuesKey(g.Stacks[i].Values)] = &g.Stacks[i]
			for t, v := range g.Stacks[i].Values {
				tot[t] += v
			}
		}
		return by, tot, true
	}
	total := make([]int64, len(a.Types))
	for i := range a.Stacks {
		for t, v := range a.Stacks[i].Values {
			total[t] += v
		}
	}
	type pr struct{ pos, neg Filt }
	var prs []pr
	for _, r := range nameRx {
		prs = append(prs, pr{Filt{Focus: r}, Filt{Ignore: r}})
	}
	hasLabels := false
	for i := range a.Stacks {
		if len(a.Stacks[i].Labels)+len(a.Stacks[i].NumLabel) > 0 {
			hasLabels = true
		}
	}
	if hasLabels && cs.Family != "names" {
		for _, t := range tagVals {
			prs = append(prs, pr{Filt{TagFocus: t}, Filt{TagIgnore: t}})
		}
	}
	for _, p := range prs {
		pos, tp, ok1 := run(p.pos)
		neg, tn, ok2 := run(p.neg)
		if !ok1 || !ok2 {
			continue
		}
		c.Count("partition/checked", 1)
		if len(pos) > 0 && len(neg) > 0 {
			c.Count("partition/both-sides-nonempty", 1)
		}
		kind := p.pos.Active()[0] + "," + p.neg.Active()[0]
		cs.Filter, cs.Via = p.pos, "applyFocus"
		bad := false
		for i := range a.Stacks {
			s := &a.Stacks[i]
			key := valuesKey(s.Values)
			switch {
			case pos[key] != nil && neg[key] != nil:
				c.Violationf("partition/"+kind+"/sample-in-both", cs, "sample %s %s is kept by %s and by %s", key, render(s.Locs), p.pos, p.neg)
				bad = true
			case pos[key] == nil && neg[key] == nil:
				cl := "partition/" + kind + "/sample-in-neither"
				if len(s.Locs) == 0 {
					cl = "partition/" + kind + "/frameless-sample-in-neither"
				}
				c.Violationf(cl, cs, "sample %s %s {%s} is kept neither by %s nor by %s", key, render(s.Locs), s.LabelKey(), p.pos, p.neg)
				bad = true
			}
		}
		if !bad {
			sum := make([]int64, len(total))
			for t := range sum {
				sum[t] = tp[t] + tn[t]
			}
			if !reflect.DeepEqual(sum, total) {
				c.Violationf("partition/"+kind+"/totals", cs, "totals %v (%s) + %v (%s) != %v (unfiltered)", tp, p.pos, tn, p.neg, total)
			}
		}
	}
}

// ---------------------------------------------------------------------------
// End to end
// ---------------------------------------------------------------------------

type trace struct {
	v      int64
	frames string
}

func sortTraces(t []trace) {
	sort.Slice(t, func(i, j int) bool {
		if t[i].v != t[j].v {
			return t[i].v < t[j].v
		}
		return t[i].frames < t[j].frames
	})
}

// wantTraces renders stacks the way `-traces` prints them: one entry per
// sample with frames, value of the last sample type, frames leaf first.
func wantTraces(a *ap.AP, stacks []ap.Stack) []trace {
	var out []trace
	for i := range stacks {
		s := &stacks[i]
		fr := s.Frames()
		if len(fr) == 0 {
			continue
		}
		var names []string
		for j := len(fr) - 1; j >= 0; j-- {
			// -traces names a frame by its function, an address without symbols
			// by its binary
			if fr[j].NoLines {
				names = append(names, model.Key{Obj: a.MapFile(fr[j].Map)}.Printable())
			} else {
				names = append(names, fr[j].Func)
			}
		}
		out = append(out, trace{s.Values[len(s.Values)-1], strings.Join(names, " <- ")})
	}
	sortTraces(out)
	return out
}

func gotTraces(out []byte) ([]trace, bool) {
	vals, stacks, ok := parse.Traces(out)
	if !ok || len(vals) != len(stacks) {
		return nil, false
	}
	var t []trace
	for i := range vals {
		t = append(t, trace{vals[i], strings.Join(stacks[i], " <- ")})
	}
	sortTraces(t)
	return t, true
}

func eqTraces(a, b []trace) bool {
	if len(a) != len(b) {
		return false
	}
	for i := range a {
		if a[i] != b[i] {
			return false
		}
	}
	return true
}

func (k *checker) e2e(cs Case, a *ap.AP, settings []Filt) {
	c := k.c
	data := drive.Encode(ap.Concretize(a, ap.Opts{}))
	src := map[string][]byte{"p": data}

	// calibration: the unfiltered profile, so that a change of the report
	// layout downgrades the traces clause instead of raising an alarm
	tracesOK := false
	cs.Filter, cs.Via = Filt{}, "traces"
	c.Eval()
	if r := drive.Report(src, []string{"p"}, "traces"); k.runOK(cs, r) {
		if t, ok := gotTraces(r.Out); ok && eqTraces(t, wantTraces(a, a.Stacks)) {
			tracesOK = true
		} else {
			c.Count("unparsed/traces", 1)
		}
	}
	cs.Via = "proto"
	c.Eval()
	if r := drive.Report(src, []string{"p"}, "proto"); k.runOK(cs, r) {
		q, err := profile.ParseData(r.Out)
		if err != nil {
			c.Violationf("e2e/proto-unparsable", cs, "%v", err)
			return
		}
		if cl, d := diff(a, &Exp{Stacks: a.Stacks, Optional: make([]bool, len(a.Stacks))}, ap.Abstract(q)); cl != "" {
			c.Violationf("e2e/no-filter/"+cl, cs, "%s", d)
			return
		}
	}

	for _, f := range settings {
		cs.Filter = f
		plain := k.evalProto(cs, a, data, false)
		rel := k.evalProto(cs, a, data, true)
		// relative_percentages changes what percentages refer to, never which samples, frames and
		// labels are kept: the saved profile is the same with and without it, whatever order the
		// documentation leaves open for the options themselves
		if plain != nil && rel != nil {
			if cl, d := diff(plain, &Exp{Stacks: plain.Stacks, Optional: make([]bool, len(plain.Stacks))}, rel); cl != "" {
				cs.Via = "proto,relative_percentages"
				c.Violationf("e2e/relative_percentages-changes-selection/"+cl, cs, "the saved profile differs from the one saved without relative_percentages: %s\nwithout %s\nwith    %s", d, renderAP(plain), renderAP(rel))
			}
		}
		if !tracesOK {
			continue
		}
		cs.Via = "traces"
		c.Eval()
		r := drive.Report(src, []string{"p"}, append([]string{"traces"}, f.Flags()...)...)
		if !k.runOK(cs, r) {
			continue
		}
		t, ok := gotTraces(r.Out)
		if !ok {
			c.Count("unparsed/traces", 1)
			continue
		}
		c.Count("e2e/traces-compared", 1)
		// The report must show what the library level produces; whether that is
		// right is judged on the abstract result.
		p := ap.Concretize(a, ap.Opts{})
		if err := runApplyFocus(p, f); err != nil {
			continue
		}
		lib := ap.Abstract(p)
		if !eqTraces(t, wantTraces(lib, lib.Stacks)) {
			c.Violationf("e2e/traces/not-as-library", cs, "traces show %v, the filtered profile is %s\n%s", t, renderAP(lib), r.Out)
			continue
		}
		k.account(cs, a, ap.Opts{}, lib, judge(a, f, lib))
	}

	// focus=R / ignore=R totals in `top`, with and without relative_percentages
	for _, rel := range []bool{false, true} {
		s0, t0, ok := k.topTotals(cs, data, Filt{}, rel)
		if !ok {
			continue
		}
		for _, r := range nameRxSmall {
			sf, tf, ok1 := k.topTotals(cs, data, Filt{Focus: r}, rel)
			si, ti, ok2 := k.topTotals(cs, data, Filt{Ignore: r}, rel)
			if !ok1 || !ok2 {
				continue
			}
			c.Count("e2e/top-totals-compared", 1)
			cs.Filter, cs.Via = Filt{Focus: r}, "top"
			if rel {
				cs.Via = "top,relative_percentages"
			}
			// value of the samples without frames (they are shown nowhere, but
			// they are part of the profile's total)
			var frameless int64
			for i := range a.Stacks {
				if len(a.Stacks[i].Locs) == 0 {
					frameless += a.Stacks[i].Values[len(a.Stacks[i].Values)-1]
				}
			}
			if sf+si != s0 {
				c.Violationf("partition/e2e/shown-totals", cs, "shown: focus=%s %d + ignore=%s %d != unfiltered %d", r, sf, r, si, s0)
			}
			if rel && tf+ti != t0 {
				cl := "partition/e2e/relative-totals"
				if frameless != 0 && tf+ti == t0-frameless {
					cl = "partition/focus,ignore/frameless-sample-in-neither"
				}
				c.Violationf(cl, cs, "totals: focus=%s %d + ignore=%s %d != unfiltered %d", r, tf, r, ti, t0)
			}
		}
	}

	// interactive: `proto F -I >O`
	for _, fo := range []string{"", "a", "m1", "a|b"} {
		for _, ig := range []string{"", "b", "f2"} {
			if fo == "" && ig == "" {
				continue
			}
			line := "proto"
			if fo != "" {
				line += " " + fo
			}
			if ig != "" {
				line += " -" + ig
			}
			cs.Filter, cs.Via = Filt{Focus: fo, Ignore: ig}, "interactive"
			fl := drive.MkFlags([]string{"p"})
			delete(fl.Strings, "output")
			w := &drive.Writer{}
			c.Eval()
			r := drive.Run(&drive.Session{Fetch: &drive.Fetcher{Data: src}, Flags: fl, UI: &drive.UI{Lines: []string{line + " >O"}}, W: w})
			if r.Panic != nil {
				c.Violationf("panic/interactive", cs, "panic: %v\n%s", r.Panic, r.Stack)
				continue
			}
			var out []byte
			for _, f := range w.Files {
				if f.Name == "O" {
					out = f.Bytes()
				}
			}
			q, err := profile.ParseData(out)
			if err != nil {
				c.Count("unparsed/interactive", 1)
				continue
			}
			c.Count("e2e/interactive-compared", 1)
			got := ap.Abstract(q)
			k.account(cs, a, ap.Opts{}, got, judge(a, cs.Filter, got))
		}
	}
}
