//go:build verif_all || verif_c15

package main

import _ "github.com/google/pprof/verifh/c15"
