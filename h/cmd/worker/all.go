package main

import (
	_ "github.com/google/pprof/verifh/c04"
	_ "github.com/google/pprof/verifh/c08"
)
