//go:build verif_all || verif_c09

package main

import _ "github.com/google/pprof/verifh/c09"
