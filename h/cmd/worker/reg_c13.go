//go:build verif_all || verif_c13

package main

import _ "github.com/google/pprof/verifh/c13"
