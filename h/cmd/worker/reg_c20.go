//go:build verif_all || verif_c20

package main

import _ "github.com/google/pprof/verifh/c20"
