// Command worker runs one shard of one property check against the pprof tree it
// was compiled with (through the /verif overlay) and writes a vk.Result.
package main

import (
	"flag"
	"fmt"
	"os"
	"runtime/pprof"

	"github.com/google/pprof/verifh/drive"
	"github.com/google/pprof/verifh/reg"
	"github.com/google/pprof/verifh/vk"
)

func main() {
	prop := flag.String("prop", "", "property id")
	tier := flag.String("tier", "quick", "quick|thorough")
	shard := flag.Int("shard", 0, "shard index")
	nshards := flag.Int("nshards", 1, "number of shards")
	seed := flag.Int64("seed", 0, "seed (rotates sample selection only)")
	out := flag.String("out", "", "result file")
	journal := flag.String("journal", "", "journal file")
	only := flag.String("only", "", "replay: report only this violation class")
	budget := flag.Duration("budget", 0, "time budget after which enumeration is capped")
	flag.Parse()
	f := reg.Checks[*prop]
	if f == nil {
		fmt.Fprintf(os.Stderr, "worker: no check registered for %q\n", *prop)
		os.Exit(2)
	}
	c := vk.New(*prop, *tier, *shard, *nshards, *seed, *budget, *journal)
	c.Only = *only
	drive.Sandbox()
	if pf := os.Getenv("VERIF_CPUPROFILE"); pf != "" {
		w, _ := os.Create(pf)
		pprof.StartCPUProfile(w)
		defer pprof.StopCPUProfile()
	}
	f(c)
	drive.Cleanup()
	if err := c.Finish(*out); err != nil {
		fmt.Fprintf(os.Stderr, "worker: %v\n", err)
		os.Exit(2)
	}
}
