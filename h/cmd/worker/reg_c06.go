//go:build verif_all || verif_c06

package main

import _ "github.com/google/pprof/verifh/c06"
