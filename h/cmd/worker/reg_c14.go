//go:build verif_all || verif_c14

package main

import _ "github.com/google/pprof/verifh/c14"
