//go:build verif_all || verif_c01

package main

import _ "github.com/google/pprof/verifh/c01"
