//go:build verif_all || verif_c03

package main

import _ "github.com/google/pprof/verifh/c03"
