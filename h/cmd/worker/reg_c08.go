//go:build verif_all || verif_c08

package main

import _ "github.com/google/pprof/verifh/c08"
