//go:build verif_all || verif_c19

package main

import _ "github.com/google/pprof/verifh/c19"
