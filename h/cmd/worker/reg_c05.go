//go:build verif_all || verif_c05

package main

import _ "github.com/google/pprof/verifh/c05"
