//go:build verif_all || verif_c17

package main

import _ "github.com/google/pprof/verifh/c17"
