//go:build verif_all || verif_c02

package main

import _ "github.com/google/pprof/verifh/c02"
