//go:build verif_all || verif_c16

package main

import _ "github.com/google/pprof/verifh/c16"
