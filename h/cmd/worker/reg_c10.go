//go:build verif_all || verif_c10

package main

import _ "github.com/google/pprof/verifh/c10"
