//go:build verif_all || verif_c04

package main

import _ "github.com/google/pprof/verifh/c04"
