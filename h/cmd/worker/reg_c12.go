//go:build verif_all || verif_c12

package main

import _ "github.com/google/pprof/verifh/c12"
