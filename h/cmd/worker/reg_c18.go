//go:build verif_all || verif_c18

package main

import _ "github.com/google/pprof/verifh/c18"
