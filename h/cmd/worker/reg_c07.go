//go:build verif_all || verif_c07

package main

import _ "github.com/google/pprof/verifh/c07"
