//go:build verif_all || verif_c11

package main

import _ "github.com/google/pprof/verifh/c11"
