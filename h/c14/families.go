package c14

import "fmt"

// Each family has a part A (numbers x stacks x header variants, plain layout,
// no memory map) and a part B (fixed records x header variants x every
// placement of comment/blank lines x layouts x memory-map variants).

// ---------------------------------------------------------------------------
// heap

type heapHdr struct {
	name string
	rate int64
}

func heapHdrs(thorough bool) []heapHdr {
	var out []heapHdr
	v2 := []int64{1, 2, 100, 524288}
	gohdr := []int64{2, 4, 200, 1048576} // the Go runtime prints 2*MemProfileRate: even
	if thorough {
		v2 = append(v2, 7, 4096, 100000000)
		gohdr = append(gohdr, 14, 8192)
	}
	for _, n := range []string{"heap_v2", "heapz_v2"} {
		for _, r := range v2 {
			out = append(out, heapHdr{n, r})
		}
	}
	for _, r := range gohdr {
		out = append(out, heapHdr{"heap", r})
	}
	for _, n := range []string{"heapprofile", "growthz", "growth", "fragmentationz", "fragmentation"} {
		out = append(out, heapHdr{n, 0})
	}
	return out
}

func isGrowthLike(n string) bool {
	return n == "growthz" || n == "growth" || n == "fragmentationz" || n == "fragmentation"
}

func (r *runner) heap() {
	th := r.c.Thorough()
	inuse := [][2]int64{{0, 0}, {2, 0}, {1, 16}, {2, 200}, {1, 524288}, {5, 2621443}, {3, 100000000}}
	allocs := [][2]int64{{0, 0}, {5, 1000}, {7, 3670016}}
	if th {
		inuse = append(inuse, [2]int64{1, 1}, [2]int64{5, 1000}, [2]int64{2, 1048577})
		allocs = append(allocs, [2]int64{1, 1})
	}
	stacksSmall := textStacks(true)
	stacksA := stacksSmall
	if th {
		stacksA = append([][]uint64{{}}, seqs(alphabet(true), 1, 2)...)
	}
	menu := func(stacks [][]uint64, mode int) []Rec {
		var out []Rec
		for _, st := range stacks {
			for _, iu := range inuse {
				switch mode {
				case 0:
					out = append(out, Rec{Addrs: st, N: iu[0], B: iu[1], AN: iu[0], AB: iu[1]})
				case 1:
					out = append(out, Rec{Addrs: st, N: iu[0], B: iu[1]})
				default:
					for _, al := range allocs {
						out = append(out, Rec{Addrs: st, N: iu[0], B: iu[1], AN: al[0], AB: al[1]})
					}
				}
			}
		}
		return out
	}
	hdrs := heapHdrs(th)
	modes := []int{0, 1, 2}
	if th {
		modes = append(modes, 3)
	}
	r.c.Note(fmt.Sprintf("heap A: %d header/rate variants x alloc-column modes %v x 0..2 records from (stacks %d [alloc mode 3: %d]) x in-use %v x alloc %v", len(hdrs), modes, len(stacksA), len(stacksSmall), inuse, allocs))
	for _, h := range hdrs {
		for _, mode := range modes {
			if isGrowthLike(h.name) && (mode == 1 || mode == 3) {
				continue
			}
			st := stacksA
			if mode == 3 {
				st = stacksSmall
			}
			m := menu(st, mode)
			tuples(len(m), 2, func(ix []int) {
				r.doc(&Doc{Fam: "heap", Hdr: h.name, Rate: h.rate, Alloc: mode, Recs: pick(m, ix)})
			})
		}
	}
	// headers whose allocation totals differ from the in-use totals in one figure only, or hold one zero:
	// the allocation columns are data as soon as either figure says so
	for _, h := range hdrs {
		if isGrowthLike(h.name) {
			continue
		}
		for _, mode := range []int{3, 4, 5, 6} {
			m := menu(stacksSmall[:2], mode)
			if len(m) > 12 {
				m = m[:12]
			}
			tuples(len(m), 2, func(ix []int) {
				r.doc(&Doc{Fam: "heap", Hdr: h.name, Rate: h.rate, Alloc: mode, Recs: pick(m, ix)})
			})
		}
	}
	if th {
		// three records from a smaller menu
		saveI, saveA := inuse, allocs
		inuse = [][2]int64{{0, 0}, {2, 200}, {1, 524288}, {5, 2621443}}
		allocs = allocs[:2]
		for _, h := range hdrs {
			for _, mode := range []int{0, 2} {
				m := menu(stacksSmall[:4], mode)
				tuplesExact(len(m), 3, func(ix []int) {
					r.doc(&Doc{Fam: "heap", Hdr: h.name, Rate: h.rate, Alloc: mode, Recs: pick(m, ix)})
				})
			}
		}
		inuse, allocs = saveI, saveA
	}

	// part B
	w := alphabet(true)
	fixed := []Rec{
		{Addrs: []uint64{w[1], w[0]}, N: 2, B: 200, AN: 5, AB: 1000},
		{Addrs: []uint64{w[3], w[2], w[0]}, N: 1, B: 524288, AN: 7, AB: 3670016},
	}
	hb := []heapHdr{{"heap_v2", 100}, {"heapz_v2", 524288}, {"heap", 200}, {"heapprofile", 0}, {"growthz", 0}, {"growth", 0}, {"fragmentationz", 0}, {"fragmentation", 0}}
	maps := mapDocs(true, true)
	r.c.Note(fmt.Sprintf("heap B: %d headers x alloc modes {0,2} x 0..2 fixed records x 4 line kinds at each of k+1 positions x 2 layouts x %d memory-map variants", len(hb), len(maps)))
	for _, h := range hb {
		for _, mode := range []int{0, 2} {
			for k := 0; k <= 2; k++ {
				recs := append([]Rec{}, fixed[:k]...)
				if mode == 0 {
					for i := range recs {
						recs[i].AN, recs[i].AB = recs[i].N, recs[i].B
					}
				}
				for lay := 0; lay < 2; lay++ {
					for _, md := range maps {
						noises(k+1, 4, func(n []int) {
							r.doc(&Doc{Fam: "heap", Hdr: h.name, Rate: h.rate, Alloc: mode, Recs: recs, Noise: n, Lay: lay, Map: md})
						})
					}
				}
			}
		}
	}
}

// ---------------------------------------------------------------------------
// Go count profiles

func (r *runner) count() {
	th := r.c.Thorough()
	alpha := alphabet(true)
	stacks := seqs(alpha, 1, 2)
	stacks = append(stacks, [][]uint64{{alpha[3], alpha[2], alpha[0]}, {alpha[1], alpha[2], alpha[3]}, {alpha[0], alpha[0], alpha[0]}, {alpha[2], alpha[1], alpha[2]}}...)
	if th {
		stacks = seqs(alpha, 1, 3)
	}
	counts := []int64{0, 1, 2, 5}
	var menu []Rec
	for _, st := range stacks {
		for _, n := range counts {
			menu = append(menu, Rec{Addrs: st, N: n})
		}
	}
	names := []string{"goroutine", "threadcreate"}
	r.c.Note(fmt.Sprintf("count A: names %v x 0..2 records from %d stacks x counts %v", names, len(stacks), counts))
	for _, nm := range names {
		tuples(len(menu), 2, func(ix []int) {
			r.doc(&Doc{Fam: "count", Hdr: nm, Recs: pick(menu, ix)})
		})
	}
	if th {
		small := menu[:40] // the ten shortest stacks x 4 counts
		tuplesExact(len(small), 3, func(ix []int) {
			r.doc(&Doc{Fam: "count", Hdr: "goroutine", Recs: pick(small, ix)})
		})
	}
	fixed := []Rec{
		{Addrs: []uint64{alpha[1], alpha[0]}, N: 2},
		{Addrs: []uint64{alpha[3], alpha[2], alpha[0]}, N: 5},
	}
	maps := mapDocs(false, true)
	r.c.Note(fmt.Sprintf("count B: 0..2 fixed records x 4 line kinds at each of k+2 positions (incl. before the header) x 2 address layouts x %d memory-map variants", len(maps)))
	for k := 0; k <= 2; k++ {
		for lay := 0; lay < 2; lay++ {
			for _, md := range maps {
				noises(k+2, 4, func(n []int) {
					r.doc(&Doc{Fam: "count", Hdr: "goroutine", Recs: fixed[:k], Noise: n, Lay: lay, Map: md})
				})
			}
		}
	}
}

// ---------------------------------------------------------------------------
// contention

func (r *runner) contention() {
	th := r.c.Thorough()
	hdrs := []string{"contentionz", "mutex", "contention"}
	hzs := []int64{0, 1000000000, 3201000000}
	periods := []int64{-1, 1, 100}
	vals := [][2]int64{{0, 0}, {1, 768}, {27, 19490304}, {5, 123456789012}, {1, 1}} // count, cycles
	stacks := textStacks(true)
	if th {
		hzs = append(hzs, 2500000000, 999999937)
		periods = append(periods, 7)
		vals = append(vals, [2]int64{3, 3201}, [2]int64{1000, 1})
		stacks = append([][]uint64{{}}, seqs(alphabet(true), 1, 2)...)
	}
	var menu []Rec
	for _, st := range stacks {
		for _, v := range vals {
			menu = append(menu, Rec{Addrs: st, N: v[0], B: v[1]})
		}
	}
	r.c.Note(fmt.Sprintf("contention A: headers %v x cycles/second %v x sampling period %v (-1 = absent) x 0..2 records from %d stacks x (count,cycles) %v", hdrs, hzs, periods, len(stacks), vals))
	for _, h := range hdrs {
		for _, hz := range hzs {
			for _, p := range periods {
				tuples(len(menu), 2, func(ix []int) {
					r.doc(&Doc{Fam: "contention", Hdr: h, Hz: hz, Rate: p, Recs: pick(menu, ix)})
				})
			}
		}
	}
	alpha := alphabet(true)
	fixed := []Rec{
		{Addrs: []uint64{alpha[1], alpha[0]}, N: 27, B: 19490304},
		{Addrs: []uint64{alpha[3], alpha[2], alpha[0]}, N: 1, B: 768},
	}
	maps := mapDocs(false, true)
	r.c.Note(fmt.Sprintf("contention B: 3 headers x {hz+period, neither} x 4 attribute layouts x 0..2 fixed records x 4 line kinds at each of k+2 positions x %d memory-map variants", len(maps)))
	for _, h := range hdrs {
		for _, attrs := range [][2]int64{{3201000000, 100}, {0, -1}} {
			for lay := 0; lay < 4; lay++ {
				for k := 0; k <= 2; k++ {
					for _, md := range maps {
						noises(k+2, 4, func(n []int) {
							r.doc(&Doc{Fam: "contention", Hdr: h, Hz: attrs[0], Rate: attrs[1], Recs: fixed[:k], Noise: n, Lay: lay, Map: md})
						})
					}
				}
			}
		}
	}
}

// ---------------------------------------------------------------------------
// threadz

func (r *runner) threadz() {
	th := r.c.Thorough()
	alpha := alphabet(true)
	all3 := seqs(alpha, 1, 3)
	all2 := seqs(alpha, 1, 2)
	mk := func(stacks [][]uint64) []Rec {
		out := []Rec{{Same: true}}
		for _, st := range stacks {
			out = append(out, Rec{Addrs: st, N: 1})
		}
		return out
	}
	m3, m2 := mk(all3), mk(all2)
	r.c.Note(fmt.Sprintf("threadz A: {with, without} threadz header x 3 stack layouts x (1..2 records from %d stacks + 'same as previous'; 3 records from %d stacks + same%s)", len(all3), len(all2), map[bool]string{true: " (from all 84 for two of the layouts); 4 records from 5 stacks + same", false: ""}[th]))
	for _, lay := range []int{0, 1, 2, 4, 5, 6} {
		emit := func(m []Rec, k int) {
			tuplesExact(len(m), k, func(ix []int) {
				if ix[0] == 0 {
					return // a first thread cannot be "same as previous"
				}
				r.doc(&Doc{Fam: "threadz", Lay: lay, Recs: pick(m, ix), Map: MapDoc{Ents: 1}})
			})
		}
		emit(m3, 1)
		emit(m3, 2)
		if th && (lay == 0 || lay == 5) {
			emit(m3, 3)
		} else {
			emit(m2, 3)
		}
		if th {
			emit(m2[:6], 4)
		}
	}
	fixed := []Rec{
		{Addrs: []uint64{alpha[1], alpha[0]}, N: 1},
		{Same: true},
		{Addrs: []uint64{alpha[3], alpha[2], alpha[0]}, N: 1},
	}
	maps := mapDocs(false, false)
	r.c.Note(fmt.Sprintf("threadz B: 16 layouts (3 stack layouts+1 x header x 'no stack trace' end line) x fixed records (stack, same, stack) x 4 line kinds before the header and inside each stack x %d memory-map variants", len(maps)))
	for lay := 0; lay < 16; lay++ {
		if lay&3 == 3 {
			continue
		}
		for _, md := range maps {
			noises(3, 4, func(n []int) {
				r.doc(&Doc{Fam: "threadz", Lay: lay, Recs: fixed, Noise: n, Map: md})
			})
		}
	}
}

// ---------------------------------------------------------------------------
// binary CPU profiles

type enc struct {
	word int
	be   bool
}

var encs = []enc{{32, false}, {32, true}, {64, false}, {64, true}}

func (r *runner) cpu() {
	th := r.c.Thorough()
	r.c.Note("cpu A (C++): 4 encodings (32/64 bit x LE/BE) x [1 record: 84 stacks (len<=3) x counts {0,1,2,5} x periods {1,10000,1000000}; 2 records: 84^2 stacks x count pairs {(1,2),(5,1)}; 3 records: " +
		map[bool]string{false: "20^3 stacks (len<=2)", true: "84^3 stacks; 4 records: 20^4 stacks"}[th] + "]; large profiles of 31..96 records around every multiple of 32 and 33 for the 1-in-32 margin")
	for _, e := range encs {
		alpha := alphabet(e.word == 64)
		all3 := seqs(alpha, 1, 3)
		all2 := seqs(alpha, 1, 2)
		mk := func(recs []Rec, rate int64) *Doc {
			return &Doc{Fam: "cpu", Hdr: "cpp", Word: e.word, BE: e.be, Rate: rate, Recs: recs}
		}
		for _, st := range all3 {
			for _, n := range []int64{0, 1, 2, 5} {
				for _, p := range []int64{1, 10000, 1000000} {
					r.doc(mk([]Rec{{Addrs: st, N: n}}, p))
				}
			}
		}
		for _, s1 := range all3 {
			for _, s2 := range all3 {
				for _, cp := range [][2]int64{{1, 2}, {5, 1}} {
					r.doc(mk([]Rec{{Addrs: s1, N: cp[0]}, {Addrs: s2, N: cp[1]}}, 10000))
				}
			}
		}
		m := all2
		if th {
			m = all3
		}
		for _, s1 := range m {
			for _, s2 := range m {
				for _, s3 := range m {
					r.doc(mk([]Rec{{Addrs: s1, N: 1}, {Addrs: s2, N: 2}, {Addrs: s3, N: 5}}, 10000))
				}
			}
		}
		if th {
			for _, s1 := range all2 {
				for _, s2 := range all2 {
					for _, s3 := range all2 {
						for _, s4 := range all2 {
							r.doc(mk([]Rec{{Addrs: s1, N: 1}, {Addrs: s2, N: 2}, {Addrs: s3, N: 5}, {Addrs: s4, N: 1}}, 10000))
						}
					}
				}
			}
		}
		// the margin: one differing sample per 32 is allowed
		a, b, cc, dd := alpha[0], alpha[1], alpha[2], alpha[3]
		// (same, differing, single-frame) counts; the totals sit on both sides of every multiple of 32
		// and of 33, so that a margin of n/32 is told apart from n/31 and n/33
		for _, sh := range [][3]int{{32, 1, 0}, {32, 2, 0}, {39, 1, 0}, {30, 10, 0}, {39, 0, 1}, {64, 2, 0}, {64, 3, 0},
			{31, 1, 0}, {30, 1, 0}, {31, 2, 0}, {62, 2, 0}, {61, 2, 0}, {63, 2, 0}, {93, 3, 0}, {92, 3, 0}, {31, 0, 1}, {30, 0, 1}} {
			for _, sig := range [][]uint64{{b}, {b, cc}} {
				var recs []Rec
				for i := 0; i < sh[0]; i++ {
					leaf := []uint64{a, dd, cc}[i%3]
					st := append([]uint64{leaf}, sig...)
					st = append(st, dd)
					recs = append(recs, Rec{Addrs: st, N: int64(1 + i%3)})
				}
				for i := 0; i < sh[1]; i++ {
					recs = append(recs, Rec{Addrs: []uint64{cc, a, dd}, N: 1})
				}
				for i := 0; i < sh[2]; i++ {
					recs = append(recs, Rec{Addrs: []uint64{cc}, N: 1})
				}
				// the differing samples at the end and at the front
				r.doc(mk(recs, 10000))
				rev := make([]Rec, len(recs))
				for i := range recs {
					rev[len(recs)-1-i] = recs[i]
				}
				r.doc(mk(rev, 10000))
			}
		}
		// part B: memory map
		fixed := []Rec{
			{Addrs: []uint64{b, a}, N: 2},
			{Addrs: []uint64{dd, cc, a}, N: 5},
			{Addrs: []uint64{cc, dd, b}, N: 1},
		}
		for k := 0; k <= 3; k++ {
			for _, md := range mapDocs(false, true) {
				r.doc(&Doc{Fam: "cpu", Hdr: "cpp", Word: e.word, BE: e.be, Rate: 10000, Recs: fixed[:k], Map: md})
			}
		}
	}
	// Java CPU profiles: addresses are ids into the location table
	ids := []uint64{3, 6, 4, 5, 0x1d, 0x2a}
	js := seqs(ids, 1, 2)
	if th {
		js = seqs(ids, 1, 3)
	}
	r.c.Note(fmt.Sprintf("cpu A (Java): 4 encodings x 2 table layouts x 0..2 records from %d id stacks x counts", len(js)))
	var menu []Rec
	for _, st := range js {
		menu = append(menu, Rec{Addrs: st, N: 2})
	}
	for _, e := range encs {
		for lay := 0; lay < 2; lay++ {
			for _, nz := range [][]int{nil, {1}} {
				tuples(len(menu), 2, func(ix []int) {
					recs := pick(menu, ix)
					if len(recs) == 2 {
						recs[1].N = 5
					}
					r.doc(&Doc{Fam: "cpu", Hdr: "java", Word: e.word, BE: e.be, Rate: 10000, Lay: lay, Noise: nz, Recs: recs})
				})
			}
		}
	}
}

// ---------------------------------------------------------------------------
// Java heapz / contentionz

func (r *runner) java() {
	th := r.c.Thorough()
	ids := []uint64{3, 6, 4, 5, 0x1d, 0x2a}
	js := seqs(ids, 1, 2)
	if th {
		js = seqs(ids, 1, 3)
	}
	hv := [][2]int64{{1, 16}, {1, 7048}, {9, 4752}, {1, 524288}, {5, 2621443}, {3, 100000000}} // count, bytes
	var hm []Rec
	for _, st := range js {
		for _, v := range hv {
			hm = append(hm, Rec{Addrs: st, N: v[0], B: v[1]})
		}
	}
	r.c.Note(fmt.Sprintf("java heapz: 0..2 records from %d id stacks x (count,bytes) %v; layouts: 4 x blank lines at k+3 positions for fixed records", len(js), hv))
	tuples(len(hm), 2, func(ix []int) {
		r.doc(&Doc{Fam: "java", Hdr: "heapz", Recs: pick(hm, ix)})
	})
	cv := [][2]int64{{1, 1}, {1, 14}, {2, 2}, {3, 123456789}} // count, delay
	var cm []Rec
	for _, st := range js {
		for _, v := range cv {
			cm = append(cm, Rec{Addrs: st, N: v[0], B: v[1]})
		}
	}
	periods := []int64{-1, 1, 100}
	r.c.Note(fmt.Sprintf("java contentionz: sampling period %v (-1 absent) x 0..2 records from %d id stacks x (count,delay) %v", periods, len(js), cv))
	for _, p := range periods {
		tuples(len(cm), 2, func(ix []int) {
			r.doc(&Doc{Fam: "java", Hdr: "contentionz", Rate: p, Recs: pick(cm, ix)})
		})
	}
	fixedH := []Rec{{Addrs: []uint64{3, 4}, N: 1, B: 7048}, {Addrs: []uint64{0x2a, 5, 0x1d}, N: 9, B: 4752}}
	fixedC := []Rec{{Addrs: []uint64{3, 4}, N: 1, B: 14}, {Addrs: []uint64{0x2a, 5, 0x1d}, N: 2, B: 2}}
	for k := 0; k <= 2; k++ {
		for lay := 0; lay < 8; lay++ {
			noises(k+3, 2, func(n []int) {
				if lay < 4 {
					r.doc(&Doc{Fam: "java", Hdr: "heapz", Lay: lay, Noise: n, Recs: fixedH[:k]})
				}
				for _, p := range []int64{-1, 100} {
					r.doc(&Doc{Fam: "java", Hdr: "contentionz", Rate: p, Lay: lay, Noise: n, Recs: fixedC[:k]})
				}
			})
		}
	}
}
