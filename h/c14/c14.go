// Package c14: legacy text and binary profiles convert with the documented
// values.
//
// An abstract legacy document (format, header variant, rate/period, records
// with addresses and numbers, comment/blank lines, memory-map section) is
// rendered by one printer per legacy format; the expected abstract profile is
// computed from the rules written in the format documentation (comments of
// profile/legacy_profile.go and legacy_java_profile.go): one sample per record
// in order, call sites moved back by one, values raw / multiplied by the
// period / unsampled by 1/(1-exp(-size/rate)) (math/big, tolerance +-1), the
// "bytes" label, mappings from the trailing memory map, the CPU signal-frame
// and duplicate-leaf rules. The printed bytes go through profile.ParseData and
// the result, abstracted by ap.Abstract, is compared. All documents of an
// explicitly bounded space are enumerated; nothing is sampled.
package c14

import (
	"bytes"
	"encoding/hex"
	"fmt"
	"strconv"
	"strings"

	"github.com/google/pprof/profile"

	"github.com/google/pprof/verifh/ap"
	"github.com/google/pprof/verifh/reg"
	"github.com/google/pprof/verifh/vk"
)

func init() { reg.Register("C14", Run) }

type runner struct {
	c       *vk.Ctx
	idx     int64
	buf     bytes.Buffer
	key     []byte
	stopped bool
	sampled map[string]bool
}

// Witness is what a violation records.
type Witness struct {
	Doc  *Doc   `json:"doc"`
	Text string `json:"text,omitempty"`
	Hex  string `json:"hex,omitempty"`
}

func witness(d *Doc, data []byte) Witness {
	cp := *d
	w := Witness{Doc: &cp}
	if d.Fam == "cpu" {
		w.Hex = hex.EncodeToString(data)
	} else {
		w.Text = string(data)
	}
	return w
}

func (r *runner) viol(class string, d *Doc, data []byte, format string, args ...any) {
	if r.c.HasViolation(class) {
		r.c.Violation(class, nil, "")
		return
	}
	r.c.Violation(class, witness(d, data), fmt.Sprintf(format, args...))
}

// doc evaluates one enumerated document if it belongs to this shard.
func (r *runner) doc(d *Doc) {
	if r.stopped {
		return
	}
	i := r.idx
	r.idx++
	if i&0xfff == 0 && r.c.Expired() {
		r.c.Cap(fmt.Sprintf("time budget: stopped at document index %d", i))
		r.stopped = true
		return
	}
	if !r.c.Mine(i) {
		return
	}
	r.check(d)
}

func (r *runner) check(d *Doc) {
	c := r.c
	r.buf.Reset()
	Print(&r.buf, d)
	data := r.buf.Bytes()
	var exp *Exp
	var cs cpuStats
	switch d.Fam {
	case "heap":
		exp = expectHeap(d)
	case "count":
		exp = expectCount(d)
	case "contention":
		exp = expectContention(d)
	case "threadz":
		exp = expectThreadz(d)
	case "cpu":
		exp, cs = expectCPU(d)
	case "java":
		exp = expectJava(d)
	}
	kind := d.Kind()
	c.Eval()
	c.Count("docs/"+d.Fam, 1)
	var p *profile.Profile
	var err error
	func() {
		defer func() {
			if x := recover(); x != nil {
				r.viol("panic/"+kind, d, data, "panic: %v", x)
				p, err = nil, fmt.Errorf("panic")
			}
		}()
		// ParseData keeps no reference to its input after returning, but the
		// buffer is reused: hand it a private copy.
		p, err = profile.ParseData(append([]byte(nil), data...))
	}()
	if err != nil {
		if err.Error() != "panic" {
			r.viol("rejected/"+kind, d, data, "well-formed %s document rejected: %v", kind, err)
		}
		return
	}
	got := ap.Abstract(p)
	if len(d.Recs) > 0 {
		c.Nontrivial(string(data))
	}
	if c.WantSample() && len(d.Recs) > 1 && d.Map.Ents > 1 && !r.sampled[d.Fam] {
		r.sampled[d.Fam] = true
		c.Sample(witness(d, data))
	}

	// clause records: one sample per input record, in input order
	if len(got.Stacks) != len(exp.Stacks) {
		r.viol("records/"+kind, d, data, "expected %d samples, got %d", len(exp.Stacks), len(got.Stacks))
		return
	}
	// clause types: the meaning of the value columns
	if !sameTypes(got.Types, exp.Types) {
		r.viol("types/"+kind, d, data, "sample types: expected %v, got %v", exp.Types, got.Types)
		return
	}
	gpt := ap.VT{}
	if got.PeriodType != nil {
		gpt = *got.PeriodType
	}
	if got.Period != exp.Period || gpt != exp.PeriodType {
		r.viol("period/"+kind, d, data, "period: expected %d %v, got %d %v", exp.Period, exp.PeriodType, got.Period, gpt)
	}
	r.key = r.key[:0]
	for i := range exp.Stacks {
		es, gs := &exp.Stacks[i], &got.Stacks[i]
		// clause addr: the stack addresses given, call sites moved back by one
		gl := make([]ELoc, len(gs.Locs))
		for j := range gs.Locs {
			l := gs.Locs[len(gs.Locs)-1-j] // leaf first
			gl[j] = ELoc{Addr: l.Addr, Lines: l.Lines}
		}
		ok := sameLocs(gl, es.Locs)
		for _, alt := range es.AltLocs {
			ok = ok || sameLocs(gl, alt)
		}
		if !ok {
			cl := "addr/"
			if exp.Symbolized {
				cl = "symbol/"
			}
			r.viol(cl+kind, d, data, "sample %d: expected stack (leaf first) %s, got %s", i, fmtLocs(es.Locs), fmtLocs(gl))
		}
		// clause value
		if len(gs.Values) != len(es.Vals) {
			r.viol("value/"+kind, d, data, "sample %d: expected %d values, got %v", i, len(es.Vals), gs.Values)
		} else {
			for j, v := range gs.Values {
				if !es.Vals[j].has(v) {
					r.viol("value/"+kind, d, data, "sample %d value %d (%s): expected %s, got %d", i, j, exp.Types[j].Type, es.Vals[j], v)
					break
				}
				if es.Vals[j].Lo != es.Vals[j].Hi {
					c.Count("values-unsampled-or-scaled", 1)
				}
			}
		}
		// clause label: the block size
		if es.Bytes != nil {
			l := gs.NumLabel["bytes"]
			ok := false
			for _, b := range es.Bytes {
				ok = ok || (len(l) == 1 && l[0] == b)
			}
			if !ok {
				r.viol("label/"+kind, d, data, "sample %d: expected bytes label %v, got %v", i, es.Bytes, l)
			}
			c.Count("block-size-labels", 1)
		}
		for _, l := range gl {
			r.key = strconv.AppendUint(r.key, l.Addr, 16)
			r.key = append(r.key, ',')
		}
		for _, v := range gs.Values {
			r.key = strconv.AppendInt(r.key, v, 10)
			r.key = append(r.key, ';')
		}
	}
	c.Outcome(kind + string(r.key))

	// clause mapping: mappings taken from the trailing memory map
	if !exp.Symbolized {
		r.checkMaps(d, data, got, kind)
	}

	if cs.signal > 0 {
		c.Count("cpu/signal-frame-removed", int64(cs.signal))
	}
	if cs.dup > 0 {
		c.Count("cpu/duplicate-leaf-removed", int64(cs.dup))
	}
	if cs.ambiguous {
		c.Count("cpu/rule-order-open", 1)
	}
	if d.Fam == "threadz" {
		for _, rc := range d.Recs {
			if rc.Same {
				c.Count("threadz/same-as-previous", 1)
			}
		}
	}
}

func (r *runner) checkMaps(d *Doc, data []byte, got *ap.AP, kind string) {
	c := r.c
	wide := d.Fam != "cpu" || d.Word == 64
	md := d.Map
	want := expectedMaps(md, wide)
	if len(want) == 0 {
		return
	}
	form := "map/" + []string{"procmaps", "brief", "brief-offset-buildid", "brief-attr", "brief-logprefix"}[md.Form]
	// every listed executable region is a mapping of the profile; the
	// documented workaround may have extended a region down to its offset 0
	for _, w := range want {
		found := false
		for _, g := range got.Maps {
			if g.File == w.File && g.BuildID == w.BuildID && g.Limit == w.Limit &&
				((g.Start == w.Start && g.Offset == w.Offset) || (w.Offset != 0 && g.Start == w.Start-w.Offset && g.Offset == 0)) {
				found = true
			}
		}
		if !found {
			r.viol(form+".listed", d, data, "listed mapping %+v not in the profile; got %+v", w, got.Maps)
			return
		}
	}
	// the main binary comes first: "Use heuristics to identify main binary and move it to the top of the
	// list of mappings" - the first listed mapping with a name that is neither a library (.so) nor bracketed
	for _, w := range want {
		if w.File == "" || w.File[0] == '[' || strings.HasSuffix(w.File, ".so") || strings.Contains(w.File, ".so.") {
			continue
		}
		if len(got.Maps) > 0 && got.Maps[0].File != w.File {
			r.viol(form+".main-binary-first", d, data, "the first mapping of the profile is %q; the first listed candidate for the main binary is %q; got %+v", got.Maps[0].File, w.File, got.Maps)
			return
		}
		c.Count("map/main-binary-first", 1)
		break
	}
	if len(want) < countExec(md, wide) {
		c.Count("map/adjacent-merged", 1)
	} else if md.Ents == 7 {
		c.Count("map/adjacent-not-merged", 1)
	}
	for i := range got.Stacks {
		for _, l := range got.Stacks[i].Locs {
			var w *ap.Map
			for k := range want {
				if want[k].Start <= l.Addr && l.Addr < want[k].Limit {
					w = &want[k]
				}
			}
			if w == nil {
				c.Count("map/location-outside-listed", 1)
				continue
			}
			if l.Map < 0 || l.Map >= len(got.Maps) {
				r.viol(form+".location", d, data, "location %#x lies in listed %+v but has no mapping", l.Addr, *w)
				return
			}
			g := got.Maps[l.Map]
			if g.File != w.File || g.BuildID != w.BuildID || g.Start != w.Start || g.Limit != w.Limit || g.Offset != w.Offset {
				r.viol(form+".location", d, data, "location %#x: expected mapping %+v, got %+v", l.Addr, *w, g)
				return
			}
			c.Count("map/location-mapped", 1)
		}
	}
}

func countExec(md MapDoc, wide bool) int {
	n := 0
	for _, e := range entries(md.Ents, wide) {
		if e.Exec {
			n++
		}
	}
	return n
}

func sameTypes(a, b []ap.VT) bool {
	if len(a) != len(b) {
		return false
	}
	for i := range a {
		if a[i] != b[i] {
			return false
		}
	}
	return true
}

func sameLocs(a, b []ELoc) bool {
	if len(a) != len(b) {
		return false
	}
	for i := range a {
		if a[i].Addr != b[i].Addr || len(a[i].Lines) != len(b[i].Lines) {
			return false
		}
		for j := range a[i].Lines {
			// function name, file and line of the location table entry; the
			// system name, start line and column are not compared
			x, y := a[i].Lines[j], b[i].Lines[j]
			if x.Func != y.Func || x.File != y.File || x.Line != y.Line {
				return false
			}
		}
	}
	return true
}

func fmtLocs(l []ELoc) string {
	var p []string
	for _, x := range l {
		if len(x.Lines) > 0 {
			p = append(p, fmt.Sprintf("%#x%+v", x.Addr, x.Lines))
		} else {
			p = append(p, fmt.Sprintf("%#x", x.Addr))
		}
	}
	return "[" + strings.Join(p, " ") + "]"
}

// ---------------------------------------------------------------------------
// Menus.

const (
	aA = 0x1000
	aB = 0x2000
	aC = 0x2001
)

func alphabet(wide bool) []uint64 {
	if wide {
		return []uint64{aA, aB, aC, 0x7f0000001000}
	}
	return []uint64{aA, aB, aC, 0x7f001000}
}

// seqs returns all address sequences of length lo..hi over alpha, shortest first.
func seqs(alpha []uint64, lo, hi int) [][]uint64 {
	var out [][]uint64
	var rec func(cur []uint64, n int)
	rec = func(cur []uint64, n int) {
		if len(cur) == n {
			out = append(out, append([]uint64{}, cur...))
			return
		}
		for _, a := range alpha {
			rec(append(cur, a), n)
		}
	}
	for n := lo; n <= hi; n++ {
		rec(nil, n)
	}
	return out
}

// textStacks is the small stack menu of the text formats, where every address
// is treated alike (all moved back by one).
func textStacks(withEmpty bool) [][]uint64 {
	w := alphabet(true)
	a, b, cc, dd := w[0], w[1], w[2], w[3]
	out := [][]uint64{{a}, {b, a}, {a, b}, {cc, b}, {a, a}, {dd, cc, a}, {b, cc, dd}}
	if withEmpty {
		out = append([][]uint64{{}}, out...)
	}
	return out
}

// tuples calls f with every k-tuple of indices below n (k = 0..maxK), shortest first.
func tuples(n, maxK int, f func(ix []int)) {
	var rec func(cur []int, k int)
	rec = func(cur []int, k int) {
		if len(cur) == k {
			f(cur)
			return
		}
		for i := 0; i < n; i++ {
			rec(append(cur, i), k)
		}
	}
	for k := 0; k <= maxK; k++ {
		rec(nil, k)
	}
}

func pick(menu []Rec, ix []int) []Rec {
	out := make([]Rec, len(ix))
	for i, x := range ix {
		out[i] = menu[x]
	}
	return out
}

// noises calls f with every assignment of kinds (0..nk-1) to npos positions.
func noises(npos, nk int, f func(n []int)) {
	tuplesExact(nk, npos, f)
}

func tuplesExact(n, k int, f func(ix []int)) {
	cur := make([]int, k)
	var rec func(i int)
	rec = func(i int) {
		if i == k {
			f(append([]int{}, cur...))
			return
		}
		for v := 0; v < n; v++ {
			cur[i] = v
			rec(i + 1)
		}
	}
	rec(0)
}

// mapDocs lists the memory-map variants: none, empty section, and every entry
// list in every form (and, for heap, both sentinels).
func mapDocs(bothSentinels, allowAbsent bool) []MapDoc {
	var out []MapDoc
	if allowAbsent {
		out = append(out, MapDoc{})
	}
	sents := 1
	if bothSentinels {
		sents = 2
	}
	for s := 0; s < sents; s++ {
		out = append(out, MapDoc{Ents: 1, Sent: s})
		for e := 2; e <= 8; e++ {
			for f := 0; f < 5; f++ {
				out = append(out, MapDoc{Ents: e, Form: f, Sent: s})
			}
		}
		// lines that are no entries between the entries (main + data + library, and library first)
		for _, e := range []int{2, 3} {
			for f := 0; f < 5; f++ {
				for g := 1; g <= 3; g++ {
					out = append(out, MapDoc{Ents: e, Form: f, Sent: s, Gap: g})
				}
			}
		}
	}
	return out
}

// ---------------------------------------------------------------------------
// Run.

// Run is the check.
func Run(c *vk.Ctx) {
	r := &runner{c: c, sampled: map[string]bool{}}
	selfCheck(c)
	r.heap()
	r.count()
	r.contention()
	r.threadz()
	r.cpu()
	r.java()
	c.Count("documents-enumerated", 0)
	if c.NShards <= 1 || c.Shard == 0 {
		c.Count("documents-enumerated", r.idx)
	}
	if !r.stopped {
		for _, k := range []string{"docs/heap", "docs/count", "docs/contention", "docs/threadz", "docs/cpu", "docs/java",
			"values-unsampled-or-scaled", "cpu/signal-frame-removed", "cpu/duplicate-leaf-removed", "threadz/same-as-previous",
			"map/location-mapped", "map/adjacent-merged", "map/adjacent-not-merged", "block-size-labels"} {
			if c.Counter(k) == 0 {
				c.Vacuous("no case counted for " + k)
			}
		}
	}
}

// selfCheck validates the big-float exponential against known values.
func selfCheck(c *vk.Ctx) {
	// 1/(1-exp(-1)) = 1.5819767068693265...
	lo, hi := unsample(1000000, 1000000*7, 7)
	_ = hi
	if !lo.has(1581976) && !lo.has(1581977) {
		c.Violation("harness/expneg", nil, fmt.Sprintf("unsample(1e6, 7e6, 7) = %v, want about 1581976.7", lo))
	}
	// tiny ratio: scale ~ rate/size + 1/2
	a, _ := unsample(1, 1, 524288)
	if !a.has(524288) {
		c.Violation("harness/expneg", nil, fmt.Sprintf("unsample(1, 1, 524288) = %v, want about 524288.5", a))
	}
	// huge ratio: scale 1
	b, _ := unsample(3, 300000000, 2)
	if !b.has(3) || b.has(5) {
		c.Violation("harness/expneg", nil, fmt.Sprintf("unsample(3, 3e8, 2) = %v, want 3", b))
	}
}
