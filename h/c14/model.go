package c14

import (
	"fmt"
	"math/big"

	"github.com/google/pprof/verifh/ap"
)

// ---------------------------------------------------------------------------
// The abstract legacy document.

// Rec is one input record. Addrs are the addresses as written, leaf first.
type Rec struct {
	Addrs []uint64 `json:"addrs"`
	// N, B: heap in-use objects/bytes; count profile: N; contention: N = count,
	// B = delay (cycles or resolution units); CPU: N = count; Java heapz: N =
	// count, B = bytes.
	N  int64 `json:"n"`
	B  int64 `json:"b,omitempty"`
	AN int64 `json:"an,omitempty"` // heap: allocated objects
	AB int64 `json:"ab,omitempty"` // heap: allocated bytes
	// Same marks a threadz "same as previous thread" record.
	Same bool `json:"same,omitempty"`
}

// MapDoc describes the trailing memory-map section.
type MapDoc struct {
	Ents int `json:"ents"` // 0 = no section; 1 = section without entries; 2..7 = entry lists (see entries)
	Form int `json:"form"` // 0 /proc/maps, 1 brief, 2 brief with 0x, offset and build id, 3 brief with $attr substitution, 4 brief behind a log prefix
	Sent int `json:"sent"` // 0 "--- Memory map: ---", 1 "MAPPED_LIBRARIES:"
	// Gap: a line that is no entry, printed between the entries of the section (documented as
	// ignored): 0 none, 1 blank line, 2 '#' comment, 3 free text without '=' or address range
	Gap int `json:"gap,omitempty"`
}

// Doc is an abstract legacy document; one printer per family renders it.
type Doc struct {
	Fam   string `json:"fam"`            // heap count contention threadz cpu javaheapz javacontentionz
	Hdr   string `json:"hdr"`            // header variant (format name)
	Rate  int64  `json:"rate,omitempty"` // number printed as rate / sampling period (-1: line absent)
	Hz    int64  `json:"hz,omitempty"`   // contention: cycles/second (0: line absent)
	Alloc int    `json:"alloc,omitempty"`
	Recs  []Rec  `json:"recs"`
	Noise []int  `json:"noise,omitempty"` // noise kind per position
	Lay   int    `json:"lay,omitempty"`   // layout variant of the printer
	Map   MapDoc `json:"map"`
	Word  int    `json:"word,omitempty"` // cpu: 32 | 64
	BE    bool   `json:"be,omitempty"`   // cpu: big endian
}

// Kind is the family/format name used in violation classes.
func (d *Doc) Kind() string {
	switch d.Fam {
	case "cpu":
		e := "le"
		if d.BE {
			e = "be"
		}
		return fmt.Sprintf("cpu.%s%d%s", d.Hdr, d.Word, e)
	case "count", "threadz":
		return d.Fam
	}
	return d.Fam + "." + d.Hdr
}

// ---------------------------------------------------------------------------
// The expectation.

// Range is an inclusive interval of acceptable values; Alt, if set, is a
// second acceptable interval (the format leaves the choice open).
type Range struct {
	Lo, Hi int64
	Alt    *Range
}

func exact(v int64) Range { return Range{Lo: v, Hi: v} }

func (r Range) has(v int64) bool {
	if r.Lo <= v && v <= r.Hi {
		return true
	}
	return r.Alt != nil && r.Alt.has(v)
}

func (r Range) String() string {
	s := fmt.Sprintf("%d", r.Lo)
	if r.Hi != r.Lo {
		s = fmt.Sprintf("[%d..%d]", r.Lo, r.Hi)
	}
	if r.Alt != nil {
		s += " or " + r.Alt.String()
	}
	return s
}

// ELoc is an expected location, leaf first in EStack.Locs.
type ELoc struct {
	Addr  uint64
	Lines []ap.Line
}

// EStack is an expected sample.
type EStack struct {
	Locs    []ELoc
	AltLocs [][]ELoc // other acceptable address lists (rule order left open by the documentation)
	Vals    []Range
	Bytes   []int64 // acceptable values of the "bytes" numeric label, nil = not checked
}

// Exp is the expected abstract result.
type Exp struct {
	Types      []ap.VT
	PeriodType ap.VT
	Period     int64
	Stacks     []EStack
	Maps       []ap.Map // expected mappings (after the documented merge of adjacent regions)
	HasMaps    bool     // the document has a memory map section with entries
	Symbolized bool     // Java: locations carry lines, addresses are dropped
}

// ---------------------------------------------------------------------------
// Unsampling, computed independently with math/big.

const prec = 320

func bf(v int64) *big.Float { return new(big.Float).SetPrec(prec).SetInt64(v) }

// expNeg returns exp(-x) for x >= 0.
func expNeg(x *big.Float) *big.Float {
	if x.Cmp(bf(20000)) > 0 {
		// below 2^-28000: irrelevant at any tolerance used here
		return bf(0)
	}
	y := new(big.Float).SetPrec(prec).Set(x)
	half := new(big.Float).SetPrec(prec).SetFloat64(0.5)
	m := 0
	for y.Cmp(half) > 0 {
		y.Quo(y, bf(2))
		m++
	}
	sum, term := bf(1), bf(1)
	for k := int64(1); k < 90; k++ {
		term.Mul(term, y)
		term.Quo(term, bf(k))
		sum.Add(sum, term)
	}
	for i := 0; i < m; i++ {
		sum.Mul(sum, sum)
	}
	return new(big.Float).SetPrec(prec).Quo(bf(1), sum)
}

// around returns the integers within +-1 of the real number x.
func around(x *big.Float) Range {
	lo := new(big.Float).SetPrec(prec).Sub(x, bf(1))
	hi := new(big.Float).SetPrec(prec).Add(x, bf(1))
	l, _ := lo.Int(nil) // truncated toward zero
	if lo.Sign() > 0 && !lo.IsInt() {
		l.Add(l, big.NewInt(1)) // ceil
	}
	h, _ := hi.Int(nil)
	if hi.Sign() < 0 && !hi.IsInt() {
		h.Sub(h, big.NewInt(1)) // floor
	}
	return Range{Lo: l.Int64(), Hi: h.Int64()}
}

type scaleKey struct{ c, s, r int64 }

var scaleCache = map[scaleKey][2]Range{}

// unsample is the documented heapz v2 rule: a sample of average size S taken
// by a Poisson process of rate R appears with probability 1-exp(-S/R); count
// and size are divided by it. rate <= 1 means "everything was collected" (or
// unknown): no scaling.
func unsample(count, size, rate int64) (Range, Range) {
	if count == 0 || size == 0 {
		// no bytes: 1/(1-exp(-0)) is undefined; the converter documents 0, 0 for such a record
		return exact(0), exact(0)
	}
	if rate <= 1 {
		return exact(count), exact(size)
	}
	k := scaleKey{count, size, rate}
	if v, ok := scaleCache[k]; ok {
		return v[0], v[1]
	}
	x := new(big.Float).SetPrec(prec).Quo(bf(size), new(big.Float).SetPrec(prec).Mul(bf(count), bf(rate)))
	den := new(big.Float).SetPrec(prec).Sub(bf(1), expNeg(x))
	c := new(big.Float).SetPrec(prec).Quo(bf(count), den)
	s := new(big.Float).SetPrec(prec).Quo(bf(size), den)
	v := [2]Range{around(c), around(s)}
	scaleCache[k] = v
	return v[0], v[1]
}

// ---------------------------------------------------------------------------
// Memory map model.

// Ent is one line of the memory map section.
type Ent struct {
	Start, Limit, Off uint64
	File, ID          string
	Exec              bool
}

const (
	mainFile = "/bin/main"
	libFile  = "/lib/libc-2.15.so"
)

// entries returns the abstract entry list of a map variant. wide selects a
// library region above 4 GiB (text formats and 64-bit CPU profiles).
func entries(n int, wide bool) []Ent {
	lib := uint64(0x7f000000)
	if wide {
		lib = 0x7f0000000000
	}
	mainE := Ent{Start: 0x1000, Limit: 0x3000, File: mainFile, ID: "abc123", Exec: true}
	data := Ent{Start: 0x3000, Limit: 0x4000, Off: 0x2000, File: mainFile, ID: "abc123"}
	libE := Ent{Start: lib, Limit: lib + 0x2000, Off: 0x1000, File: libFile, ID: "def456", Exec: true}
	switch n {
	case 2: // main, its data segment (not executable), a library
		return []Ent{mainE, data, libE}
	case 3: // library listed first
		return []Ent{libE, mainE, data}
	case 4: // main binary split into two adjacent regions
		m1 := mainE
		m1.Limit = 0x2000
		m2 := mainE
		m2.Start, m2.Off = 0x2000, 0x1000
		return []Ent{m1, m2, data, libE}
	case 5: // only a library: the main binary's addresses are not covered
		return []Ent{libE}
	case 6: // library split into two adjacent regions with consistent non-zero offsets
		l1 := libE
		l1.Limit = lib + 0x1000
		l2 := libE
		l2.Start, l2.Off = lib+0x1000, 0x2000
		return []Ent{mainE, l1, l2}
	case 8: // the main binary, a second executable file that is no library (a plug-in), a library
		plug := Ent{Start: 0x5000, Limit: 0x6000, File: "/bin/plugin.bin", ID: "0a0b0c", Exec: true}
		return []Ent{libE, mainE, plug}
	case 7: // two adjacent regions of the same file whose offsets do not continue: two mappings
		l1 := libE
		l1.Limit = lib + 0x1000
		l2 := libE
		l2.Start, l2.Off = lib+0x1000, 0x5000
		return []Ent{mainE, l1, l2}
	}
	return nil
}

// expressible returns the entry as the given form can express it; ok is false
// if the form's printer leaves the entry out or the parser is documented to
// skip it (non-executable regions).
func expressible(e Ent, form int) (ap.Map, bool) {
	if !e.Exec {
		return ap.Map{}, false
	}
	m := ap.Map{Start: e.Start, Limit: e.Limit, File: e.File}
	switch form {
	case 0:
		m.Offset = e.Off
	case 2:
		m.Offset = e.Off
		m.BuildID = e.ID
	}
	return m, true
}

// adjacentM is the documented merge rule of massageMappings: "Merge adjacent
// regions with matching names, checking that the offsets match".
func adjacentM(a, b ap.Map) bool {
	if a.File != "" && b.File != "" && a.File != b.File {
		return false
	}
	if a.BuildID != "" && b.BuildID != "" && a.BuildID != b.BuildID {
		return false
	}
	if a.Limit != b.Start {
		return false
	}
	if a.Offset != 0 && b.Offset != 0 && a.Offset+(a.Limit-a.Start) != b.Offset {
		return false
	}
	return true
}

// expectedMaps lists the mappings the section describes.
func expectedMaps(md MapDoc, wide bool) []ap.Map {
	var out []ap.Map
	for _, e := range entries(md.Ents, wide) {
		m, ok := expressible(e, md.Form)
		if !ok {
			continue
		}
		if n := len(out); n > 0 && adjacentM(out[n-1], m) {
			out[n-1].Limit = m.Limit
			if m.File != "" {
				out[n-1].File = m.File
			}
			if m.BuildID != "" {
				out[n-1].BuildID = m.BuildID
			}
			continue
		}
		out = append(out, m)
	}
	return out
}

// ---------------------------------------------------------------------------
// Per-family expectations.

func adj(a uint64) uint64 { return a - 1 }

func locsAllBack(addrs []uint64) []ELoc {
	out := make([]ELoc, len(addrs))
	for i, a := range addrs {
		out[i] = ELoc{Addr: adj(a)}
	}
	return out
}

func locsLeafKept(addrs []uint64) []ELoc {
	out := make([]ELoc, len(addrs))
	for i, a := range addrs {
		if i > 0 {
			a = adj(a)
		}
		out[i] = ELoc{Addr: a}
	}
	return out
}

// heapRate is the sampling rate a heap header announces.
func heapRate(d *Doc) (rate int64, sampled bool) {
	switch d.Hdr {
	case "heap_v2", "heapz_v2":
		return d.Rate, true
	case "heap":
		// the Go runtime prints twice its MemProfileRate
		return d.Rate / 2, true
	}
	// heapprofile, growth, fragmentation: unsampled, period 1
	return 1, false
}

// heapTotals returns the totals printed in the header.
func heapTotals(d *Doc) (n, b, an, ab int64) {
	for _, r := range d.Recs {
		n += r.N
		b += r.B
		an += r.AN
		ab += r.AB
	}
	switch d.Alloc {
	case 0:
		an, ab = n, b
	case 1:
		an, ab = 0, 0
	case 2:
		an, ab = n+an+3, b+ab+300
	case 3:
		an, ab = n, b+300
	case 4: // only the object totals differ
		an, ab = n+3, b
	case 5: // one allocation total is zero, the other differs
		an, ab = 0, b+300
	case 6:
		an, ab = n+3, 0
	}
	return
}

// heapHasAlloc: the allocation columns are distinct data when the header's
// allocation totals differ from the in-use totals and are not zero.
func heapHasAlloc(d *Doc) bool {
	if d.Hdr == "growthz" || d.Hdr == "growth" || d.Hdr == "fragmentationz" || d.Hdr == "fragmentation" {
		return false
	}
	return d.Alloc >= 2
}

func expectHeap(d *Doc) *Exp {
	rate, sampled := heapRate(d)
	e := &Exp{PeriodType: ap.VT{Type: "space", Unit: "bytes"}, Period: rate}
	alloc := heapHasAlloc(d)
	if alloc {
		e.Types = []ap.VT{{Type: "alloc_objects", Unit: "count"}, {Type: "alloc_space", Unit: "bytes"}, {Type: "inuse_objects", Unit: "count"}, {Type: "inuse_space", Unit: "bytes"}}
	} else {
		e.Types = []ap.VT{{Type: "objects", Unit: "count"}, {Type: "space", Unit: "bytes"}}
	}
	val := func(n, b int64) (Range, Range) {
		if sampled {
			return unsample(n, b, rate)
		}
		return exact(n), exact(b)
	}
	for _, r := range d.Recs {
		s := EStack{Locs: locsAllBack(r.Addrs)}
		if alloc {
			c, sz := val(r.AN, r.AB)
			s.Vals = append(s.Vals, c, sz)
		}
		c, sz := val(r.N, r.B)
		s.Vals = append(s.Vals, c, sz)
		// The block size is bytes/objects of the record. With distinct
		// allocation columns whose quotient differs, either is accepted; a
		// record without in-use objects has no defined block size.
		if r.N != 0 {
			s.Bytes = []int64{r.B / r.N}
			if alloc && r.AN != 0 && r.AB/r.AN != r.B/r.N {
				s.Bytes = append(s.Bytes, r.AB/r.AN)
			}
		}
		e.Stacks = append(e.Stacks, s)
	}
	return e
}

func expectCount(d *Doc) *Exp {
	t := ap.VT{Type: d.Hdr, Unit: "count"}
	e := &Exp{Types: []ap.VT{t}, PeriodType: t, Period: 1}
	for _, r := range d.Recs {
		e.Stacks = append(e.Stacks, EStack{Locs: locsAllBack(r.Addrs), Vals: []Range{exact(r.N)}})
	}
	return e
}

func expectContention(d *Doc) *Exp {
	e := &Exp{Types: []ap.VT{{Type: "contentions", Unit: "count"}, {Type: "delay", Unit: "nanoseconds"}},
		PeriodType: ap.VT{Type: "contentions", Unit: "count"}, Period: 1}
	if d.Rate >= 0 {
		e.Period = d.Rate
	}
	p := e.Period
	for _, r := range d.Recs {
		s := EStack{Locs: locsAllBack(r.Addrs)}
		// A record of a profile sampled with period p stands for p contentions,
		// whether or not the header also gives cycles/second (which only concerns
		// the conversion of the delay column to time).
		cnt := exact(r.N * p)
		var delay Range
		if d.Hz > 0 {
			// cycles * period, converted to nanoseconds: / (Hz/1e9)
			x := new(big.Float).SetPrec(prec).Mul(bf(r.B), bf(p))
			x.Mul(x, bf(1000000000))
			x.Quo(x, bf(d.Hz))
			delay = around(x)
		} else {
			// without cycles/second the unit of the delay column is unknown;
			// the documentation only unsamples "if period and cpuHz are
			// available": raw or period-multiplied are both accepted
			delay = exact(r.B)
			alt := exact(r.B * p)
			delay.Alt = &alt
		}
		s.Vals = []Range{cnt, delay}
		e.Stacks = append(e.Stacks, s)
	}
	return e
}

func expectThreadz(d *Doc) *Exp {
	t := ap.VT{Type: "thread", Unit: "count"}
	e := &Exp{Types: []ap.VT{t}, PeriodType: t, Period: 1}
	for _, r := range d.Recs {
		if r.Same {
			n := len(e.Stacks)
			if n > 0 {
				v := e.Stacks[n-1].Vals[0].Lo + 1
				e.Stacks[n-1].Vals[0] = exact(v)
			}
			continue
		}
		s := EStack{Locs: locsLeafKept(r.Addrs), Vals: []Range{exact(1)}}
		// The property names the duplicated-leaf removal for CPU profiles
		// only; for threadz either result is accepted.
		if len(r.Addrs) > 1 && r.Addrs[0] == r.Addrs[1] {
			alt := append([]ELoc{s.Locs[0]}, s.Locs[2:]...)
			s.AltLocs = append(s.AltLocs, alt)
		}
		e.Stacks = append(e.Stacks, s)
	}
	return e
}

// dropSignalFrames applies the documented rule of cpuProfile to address lists
// (leaf first, already adjusted): up to two times, if (nearly) all samples
// have the same second frame, it is removed from the samples that have it.
// "Nearly": one differing sample is allowed per 32 samples.
func dropSignalFrames(st [][]uint64) int {
	removed := 0
	margin := len(st) / 32
	for iter := 0; iter < 2; iter++ {
		cnt := map[uint64]int{}
		for _, s := range st {
			if len(s) > 1 {
				cnt[s[1]]++
			}
		}
		var hit uint64
		found := false
		for a, n := range cnt {
			if n >= len(st)-margin && len(st) > 0 {
				if found && a > hit {
					continue
				}
				hit, found = a, true
			}
		}
		if !found {
			continue
		}
		removed++
		for i, s := range st {
			if len(s) > 1 && s[1] == hit {
				st[i] = append(append([]uint64{}, s[0]), s[2:]...)
			}
		}
	}
	return removed
}

// dropDuplicateLeaf: the handler may record the leaf twice (from the signal
// context and from unwinding); the copy, moved back by one, is deleted.
func dropDuplicateLeaf(st [][]uint64) int {
	n := 0
	for i, s := range st {
		if len(s) > 1 && s[0] == s[1]+1 {
			st[i] = append(append([]uint64{}, s[0]), s[2:]...)
			n++
		}
	}
	return n
}

func sameLists(a, b [][]uint64) bool {
	if len(a) != len(b) {
		return false
	}
	for i := range a {
		if len(a[i]) != len(b[i]) {
			return false
		}
		for j := range a[i] {
			if a[i][j] != b[i][j] {
				return false
			}
		}
	}
	return true
}

type cpuStats struct {
	signal, dup int
	ambiguous   bool
}

func expectCPU(d *Doc) (*Exp, cpuStats) {
	var cs cpuStats
	e := &Exp{Types: []ap.VT{{Type: "samples", Unit: "count"}, {Type: "cpu", Unit: "nanoseconds"}},
		PeriodType: ap.VT{Type: "cpu", Unit: "nanoseconds"}, Period: d.Rate * 1000}
	if d.Hdr == "java" {
		e.Symbolized = true
		for _, r := range d.Recs {
			e.Stacks = append(e.Stacks, EStack{Locs: javaLocs(r.Addrs), Vals: []Range{exact(r.N), exact(r.N * e.Period)}})
		}
		return e, cs
	}
	mk := func() [][]uint64 {
		var st [][]uint64
		for _, r := range d.Recs {
			var s []uint64
			for i, a := range r.Addrs {
				if i > 0 {
					a = adj(a)
				}
				s = append(s, a)
			}
			st = append(st, s)
		}
		return st
	}
	// documented order: signal frames, memory map, duplicate leaf
	a := mk()
	cs.signal = dropSignalFrames(a)
	cs.dup = dropDuplicateLeaf(a)
	// the other order is accepted where it gives a different result
	b := mk()
	dropDuplicateLeaf(b)
	dropSignalFrames(b)
	cs.ambiguous = !sameLists(a, b)
	for i, r := range d.Recs {
		s := EStack{Vals: []Range{exact(r.N), exact(r.N * e.Period)}}
		for _, x := range a[i] {
			s.Locs = append(s.Locs, ELoc{Addr: x})
		}
		if cs.ambiguous {
			var alt []ELoc
			for _, x := range b[i] {
				alt = append(alt, ELoc{Addr: x})
			}
			s.AltLocs = append(s.AltLocs, alt)
		}
		e.Stacks = append(e.Stacks, s)
	}
	return e, cs
}

// The Java location table: id -> text after the address, and what it means.
type jfn struct {
	ID   uint64
	Text string
	Line ap.Line
}

var javaTable = []jfn{
	{3, "com.example.function03 (source.java:3)", ap.Line{Func: "com.example.function03", Sys: "com.example.function03", File: "source.java", Line: 3}},
	// the same function at another line: two locations, one function
	{6, "com.example.function03 (source.java:41)", ap.Line{Func: "com.example.function03", Sys: "com.example.function03", File: "source.java", Line: 41}},
	{4, "com.example.f4 (Source4.java:0)", ap.Line{Func: "com.example.f4", Sys: "com.example.f4", File: "Source4.java"}},
	{5, "libfoo (/usr/lib/libfoo.so)", ap.Line{Func: "libfoo", Sys: "libfoo", File: "libfoo.so"}},
	{0x1d, "[0x7f00, 0x7f10) generated stub/JIT", ap.Line{Func: "STUB", Sys: "STUB"}},
	{0x2a, "GC", ap.Line{Func: "GC", Sys: "GC"}},
}

func javaLocs(ids []uint64) []ELoc {
	out := make([]ELoc, len(ids))
	for i, id := range ids {
		for _, f := range javaTable {
			if f.ID == id {
				out[i] = ELoc{Addr: 0, Lines: []ap.Line{f.Line}}
			}
		}
	}
	return out
}

func expectJava(d *Doc) *Exp {
	e := &Exp{Symbolized: true}
	switch d.Hdr {
	case "heapz":
		e.Types = []ap.VT{{Type: "inuse_objects", Unit: "count"}, {Type: "inuse_space", Unit: "bytes"}}
		for _, r := range d.Recs {
			c, sz := unsample(r.N, r.B, 524288)
			e.Stacks = append(e.Stacks, EStack{Locs: javaLocs(r.Addrs), Vals: []Range{c, sz}, Bytes: []int64{r.B / r.N}})
		}
	case "contentionz":
		e.Types = []ap.VT{{Type: "contentions", Unit: "count"}, {Type: "delay", Unit: "microseconds"}}
		p := int64(1)
		if d.Rate >= 0 {
			e.PeriodType = ap.VT{Type: "contentions", Unit: "count"}
			e.Period = d.Rate
			p = d.Rate
		}
		for _, r := range d.Recs {
			e.Stacks = append(e.Stacks, EStack{Locs: javaLocs(r.Addrs), Vals: []Range{exact(r.N * p), exact(r.B * p)}})
		}
	}
	return e
}
