package c14

import (
	"bytes"
	"fmt"
	"strings"
)

// Noise kinds: 0 none, 1 blank line, 2 comment (or the family's filler line),
// 3 whitespace-only line.
func noiseAt(d *Doc, pos int) int {
	if pos < len(d.Noise) {
		return d.Noise[pos]
	}
	return 0
}

func putNoise(b *bytes.Buffer, kind int, comment string) {
	switch kind {
	case 1:
		b.WriteString("\n")
	case 2:
		b.WriteString(comment)
		b.WriteString("\n")
	case 3:
		b.WriteString("  \t\n")
	}
}

func putAddrs(b *bytes.Buffer, addrs []uint64, padded bool) {
	for _, a := range addrs {
		if padded {
			fmt.Fprintf(b, " 0x%08x", a)
		} else {
			fmt.Fprintf(b, " 0x%x", a)
		}
	}
}

// putMap prints the memory map section.
func putMap(b *bytes.Buffer, md MapDoc, wide, sentinel bool) {
	if md.Ents == 0 {
		return
	}
	if sentinel {
		if md.Sent == 1 {
			b.WriteString("\nMAPPED_LIBRARIES:\n")
		} else {
			b.WriteString("--- Memory map: ---\n")
		}
	}
	if md.Form == 3 {
		b.WriteString("\troot=/bin\n")
	}
	for i, e := range entries(md.Ents, wide) {
		if i > 0 {
			switch md.Gap {
			case 1:
				b.WriteString("\n")
			case 2:
				b.WriteString("# libraries\n")
			case 3:
				b.WriteString("  (some text a tool printed)\n")
			}
		}
		switch md.Form {
		case 0:
			perm := "rw-p"
			if e.Exec {
				perm = "r-xp"
			}
			fmt.Fprintf(b, "%08x-%08x %s %08x fc:01 %d   %s\n", e.Start, e.Limit, perm, e.Off, 1234+i, e.File)
		case 1:
			if e.Exec {
				fmt.Fprintf(b, "  %08x-%08x: %s\n", e.Start, e.Limit, e.File)
			}
		case 2:
			if e.Exec {
				fmt.Fprintf(b, "0x%x-0x%x %s (@%x) %s\n", e.Start, e.Limit, e.File, e.Off, e.ID)
			}
		case 3:
			if e.Exec {
				fmt.Fprintf(b, "  %08x-%08x: %s\n", e.Start, e.Limit, strings.Replace(e.File, "/bin/", "$root/", 1))
			}
		case 4:
			if e.Exec {
				fmt.Fprintf(b, "I0102 03:04:05.678901 1234 file.cc:42] %08x-%08x: %s\n", e.Start, e.Limit, e.File)
			}
		}
	}
}

var heapSampledHdr = map[string]bool{"heap": true, "heap_v2": true, "heapz_v2": true}

func printHeap(b *bytes.Buffer, d *Doc) {
	n, by, an, ab := heapTotals(d)
	rec := "%d: %d [%d: %d] @"
	if d.Lay&1 != 0 {
		rec = "%6d: %8d [%6d: %8d] @"
	}
	b.WriteString("heap profile: ")
	fmt.Fprintf(b, rec, n, by, an, ab)
	b.WriteString(" " + d.Hdr)
	if heapSampledHdr[d.Hdr] {
		fmt.Fprintf(b, "/%d", d.Rate)
	}
	b.WriteString("\n")
	const comment = "# 1: 2 [3: 4] @ 0x5000"
	putNoise(b, noiseAt(d, 0), comment)
	for i, r := range d.Recs {
		if d.Lay&1 != 0 {
			b.WriteString("  ")
		}
		fmt.Fprintf(b, rec, r.N, r.B, r.AN, r.AB)
		putAddrs(b, r.Addrs, d.Lay&1 != 0)
		b.WriteString("\n")
		putNoise(b, noiseAt(d, i+1), comment)
	}
	putMap(b, d.Map, true, true)
}

func printCount(b *bytes.Buffer, d *Doc) {
	const comment = "#\t0x5000\tmain.f+0x10\t/src/f.go:12"
	putNoise(b, noiseAt(d, 0), comment)
	var tot int64
	for _, r := range d.Recs {
		tot += r.N
	}
	fmt.Fprintf(b, "%s profile: total %d\n", d.Hdr, tot)
	putNoise(b, noiseAt(d, 1), comment)
	for i, r := range d.Recs {
		fmt.Fprintf(b, "%d @", r.N)
		putAddrs(b, r.Addrs, d.Lay&1 != 0)
		b.WriteString("\n")
		putNoise(b, noiseAt(d, i+2), comment)
	}
	putMap(b, d.Map, true, true)
}

func printContention(b *bytes.Buffer, d *Doc) {
	const comment = "# cycles/second = 5 5 @ 0x5000"
	switch d.Hdr {
	case "contentionz":
		b.WriteString("--- contentionz 1 ---\n")
	case "mutex":
		b.WriteString("--- mutex:\n")
	default:
		b.WriteString("--- contention:\n")
	}
	putNoise(b, noiseAt(d, 0), comment)
	eq := "="
	if d.Lay&1 != 0 {
		eq = " = "
	}
	if d.Hz > 0 {
		fmt.Fprintf(b, "cycles/second%s%d\n", eq, d.Hz)
	}
	if d.Rate >= 0 {
		fmt.Fprintf(b, "sampling period%s%d\n", eq, d.Rate)
	}
	if d.Lay&2 != 0 {
		fmt.Fprintf(b, "ms since reset%s16502830\n", eq)
		fmt.Fprintf(b, "discarded samples%s0\n", eq)
	}
	putNoise(b, noiseAt(d, 1), comment)
	for i, r := range d.Recs {
		if d.Lay&1 != 0 {
			fmt.Fprintf(b, "%10d %8d @", r.B, r.N)
		} else {
			fmt.Fprintf(b, "%d %d @", r.B, r.N)
		}
		putAddrs(b, r.Addrs, false)
		b.WriteString("\n")
		putNoise(b, noiseAt(d, i+2), comment)
	}
	putMap(b, d.Map, true, true)
}

// printThreadz. Lay&3: 0 symbolized ("PC:" leaf), 1 one bare address per line,
// 2 all addresses on one line. Lay&4: no "--- threadz" header. Lay&8: a "no
// stack trace" line ends the thread list.
func printThreadz(b *bytes.Buffer, d *Doc) {
	putNoise(b, noiseAt(d, 0), "# threadz dump")
	if d.Lay&4 == 0 {
		b.WriteString("--- threadz 1 ---\n\n")
	}
	pos := 1
	for i, r := range d.Recs {
		name := "main"
		if i == 1 {
			name = "pool/worker-1"
		}
		fmt.Fprintf(b, "--- Thread %x (name: %s/%d) stack: ---\n", 0x7eff063d9940+uint64(i)*0x1000, name, 25376+i)
		if r.Same {
			b.WriteString("  [same as previous thread]\n")
			continue
		}
		noise := noiseAt(d, pos)
		pos++
		switch d.Lay & 3 {
		case 2:
			b.WriteString(" ")
			putAddrs(b, r.Addrs[:1], false)
			if noise != 0 {
				b.WriteString("\n")
				putNoise(b, noise, "      creator:")
				b.WriteString(" ")
			}
			putAddrs(b, r.Addrs[1:], false)
			b.WriteString("\n")
		default:
			for j, a := range r.Addrs {
				switch {
				case d.Lay&3 == 1:
					fmt.Fprintf(b, "  0x%x\n", a)
				case j == 0:
					fmt.Fprintf(b, "  PC:  0x%08x: helper(arg*)\n", a)
				default:
					fmt.Fprintf(b, "  0x%08x: start_thread\n", a)
				}
				if j == 0 {
					putNoise(b, noise, "      creator:")
				}
			}
		}
	}
	if d.Lay&8 != 0 {
		b.WriteString("---- no stack trace for 7eff04e97700 ----\n")
	}
	md := d.Map
	if md.Ents == 0 {
		md.Ents = 1 // the handler always ends the thread list with the memory map
	}
	putMap(b, md, true, true)
}

func putWord(b *bytes.Buffer, v uint64, word int, be bool) {
	n := word / 8
	for i := 0; i < n; i++ {
		sh := uint(8 * i)
		if be {
			sh = uint(8 * (n - 1 - i))
		}
		b.WriteByte(byte(v >> sh))
	}
}

func putJavaTable(b *bytes.Buffer, d *Doc, noiseBase int) {
	tab := javaTable
	if d.Lay&1 != 0 {
		tab = nil
		for i := len(javaTable) - 1; i >= 0; i-- {
			tab = append(tab, javaTable[i])
		}
		tab = append(tab, jfn{ID: 0x99, Text: "com.example.unused (Unused.java:9)"})
	}
	for i, f := range tab {
		fmt.Fprintf(b, " 0x%08x %s\n", f.ID, f.Text)
		if i == 1 && noiseAt(d, noiseBase) != 0 {
			b.WriteString("\n")
		}
	}
}

// printCPU prints the binary profilez format: header 0, 3, 0|1, period in
// microseconds, 0; records count, depth, addresses...; trailer 0, 1, 0; text.
func printCPU(b *bytes.Buffer, d *Doc) {
	w := func(v uint64) { putWord(b, v, d.Word, d.BE) }
	w(0)
	w(3)
	if d.Hdr == "java" {
		w(1)
	} else {
		w(0)
	}
	w(uint64(d.Rate))
	w(0)
	for _, r := range d.Recs {
		w(uint64(r.N))
		w(uint64(len(r.Addrs)))
		for _, a := range r.Addrs {
			w(a)
		}
	}
	w(0)
	w(1)
	w(0)
	if d.Hdr == "java" {
		putJavaTable(b, d, 0)
		return
	}
	putMap(b, d.Map, d.Word == 64, false)
}

// printJava prints Java heapz / contentionz. Lay&1: location table reversed,
// with an unused entry. Lay&2: attributes in another order.
func printJava(b *bytes.Buffer, d *Doc) {
	res := "bytes"
	if d.Hdr == "contentionz" {
		res = "microseconds"
	}
	fmt.Fprintf(b, "--- %s 1 ---\n", d.Hdr)
	if noiseAt(d, 0) != 0 {
		b.WriteString("\n")
	}
	if d.Lay&2 != 0 {
		if d.Hdr == "contentionz" && d.Rate >= 0 {
			fmt.Fprintf(b, "sampling period = %d\n", d.Rate)
		}
		fmt.Fprintf(b, "resolution = %s\nformat = java\n", res)
	} else {
		fmt.Fprintf(b, "format = java\nresolution = %s\n", res)
		if d.Hdr == "contentionz" && d.Rate >= 0 {
			fmt.Fprintf(b, "sampling period = %d\n", d.Rate)
		}
	}
	if d.Hdr == "contentionz" && d.Lay&4 != 0 {
		b.WriteString("ms since reset = 6019923\n")
	}
	if noiseAt(d, 1) != 0 {
		b.WriteString("\n")
	}
	for i, r := range d.Recs {
		fmt.Fprintf(b, "%14d %5d @", r.B, r.N)
		putAddrs(b, r.Addrs, true)
		b.WriteString("\n")
		if noiseAt(d, i+2) != 0 {
			b.WriteString("\n")
		}
	}
	b.WriteString("\n\n")
	putJavaTable(b, d, len(d.Recs)+2)
}

// Print renders a document.
func Print(b *bytes.Buffer, d *Doc) {
	switch d.Fam {
	case "heap":
		printHeap(b, d)
	case "count":
		printCount(b, d)
	case "contention":
		printContention(b, d)
	case "threadz":
		printThreadz(b, d)
	case "cpu":
		printCPU(b, d)
	case "java":
		printJava(b, d)
	}
}
