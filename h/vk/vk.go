// Package vk is the small kit every property check is written against: shard
// selection, counters for the evidence file, violation recording with classes.
// A worker process runs one shard of one check and writes a Result as JSON; the
// runner (/verif/pmc) merges the shards.
package vk

import (
	"encoding/json"
	"fmt"
	"hash/fnv"
	"os"
	"runtime/debug"
	"sort"
	"strings"
	"time"
)

// Violation is one class of oracle failure with its first (simplest) witness.
type Violation struct {
	Class   string `json:"class"`   // property-relative class: clause/structural predicate
	Count   int64  `json:"count"`   // how many enumerated cases failed in this class
	Index   int64  `json:"index"`   // enumeration index of the first witness
	Witness any    `json:"witness"` // the failing case, written out
	Detail  string `json:"detail"`  // expected vs observed
}

// Result is what a worker returns.
type Result struct {
	Prop        string           `json:"prop"`
	Tier        string           `json:"tier"`
	Shard       int              `json:"shard"`
	NShards     int              `json:"nshards"`
	Evaluations int64            `json:"evaluations"`
	Distinct    int64            `json:"distinct_nontrivial"`
	States      int64            `json:"states"`
	Transitions int64            `json:"transitions"`
	Traces      int64            `json:"traces"`
	Outcomes    int64            `json:"outcomes"`
	Samples     []any            `json:"samples"`
	Violations  []*Violation     `json:"violations"`
	Counters    map[string]int64 `json:"counters"`
	Caps        []string         `json:"caps"`
	Vacuity     []string         `json:"vacuity"` // non-vacuity guards that failed
	Notes       []string         `json:"notes"`
	WallS       float64          `json:"wall_s"`
}

// Ctx is handed to every check.
type Ctx struct {
	Prop    string
	Tier    string // "quick" | "thorough"
	Shard   int
	NShards int
	Seed    int64
	Only    string // replay: only report violations of this class ("" = all)

	res      Result
	distinct map[uint64]struct{}
	states   map[uint64]struct{}
	outcomes map[uint64]struct{}
	viol     map[string]*Violation
	start    time.Time
	deadline time.Time
	journal  *os.File
	caseIdx  int64
}

// New creates a context.
func New(prop, tier string, shard, nshards int, seed int64, budget time.Duration, journal string) *Ctx {
	c := &Ctx{Prop: prop, Tier: tier, Shard: shard, NShards: nshards, Seed: seed}
	c.distinct = map[uint64]struct{}{}
	c.states = map[uint64]struct{}{}
	c.outcomes = map[uint64]struct{}{}
	c.viol = map[string]*Violation{}
	c.res.Counters = map[string]int64{}
	c.start = time.Now()
	if budget > 0 {
		c.deadline = c.start.Add(budget)
	}
	if journal != "" {
		c.journal, _ = os.Create(journal)
	}
	return c
}

// Thorough reports whether the thorough tier is running.
func (c *Ctx) Thorough() bool { return c.Tier == "thorough" }

// Mine reports whether enumeration index i belongs to this shard. It also
// remembers i as the current case index (used for witnesses).
func (c *Ctx) Mine(i int64) bool {
	if c.NShards <= 1 || int(i%int64(c.NShards)) == c.Shard {
		c.caseIdx = i
		return true
	}
	return false
}

// SetCase sets the current case index explicitly.
func (c *Ctx) SetCase(i int64) { c.caseIdx = i }

// Eval counts one evaluated case.
func (c *Ctx) Eval() { c.res.Evaluations++ }

// EvalN counts n evaluated cases.
func (c *Ctx) EvalN(n int64) { c.res.Evaluations += n }

func h64(s string) uint64 {
	h := fnv.New64a()
	h.Write([]byte(s))
	return h.Sum64()
}

// Nontrivial records a case that exercises the property non-vacuously, by a
// canonical key; distinct keys are counted.
func (c *Ctx) Nontrivial(key string) { c.distinct[h64(key)] = struct{}{} }

// State records a distinct canonical state (explicit-state searches).
func (c *Ctx) State(key string) bool {
	k := h64(key)
	if _, ok := c.states[k]; ok {
		return false
	}
	c.states[k] = struct{}{}
	return true
}

// Transition counts n transitions (choice points executed / model steps).
func (c *Ctx) Transition(n int64) { c.res.Transitions += n }

// Trace counts executions of the implementation validated against the model.
func (c *Ctx) Trace(n int64) { c.res.Traces += n }

// Outcome records a distinct observed outcome (vacuity indicator).
func (c *Ctx) Outcome(key string) { c.outcomes[h64(key)] = struct{}{} }

// Count adds to a named counter.
func (c *Ctx) Count(name string, n int64) { c.res.Counters[name] += n }

// Counter reads a named counter.
func (c *Ctx) Counter(name string) int64 { return c.res.Counters[name] }

// Sample keeps up to 6 cases for the evidence file.
func (c *Ctx) Sample(v any) {
	if len(c.res.Samples) < 6 {
		c.res.Samples = append(c.res.Samples, v)
	}
}

// WantSample reports whether more samples are wanted (avoids building them).
func (c *Ctx) WantSample() bool { return len(c.res.Samples) < 6 }

// Cap records that an enumeration was cut short; the run is then not exhaustive.
func (c *Ctx) Cap(msg string) {
	for _, m := range c.res.Caps {
		if m == msg {
			return
		}
	}
	c.res.Caps = append(c.res.Caps, msg)
}

// Note adds a free-text note to the evidence.
func (c *Ctx) Note(msg string) { c.res.Notes = append(c.res.Notes, msg) }

// Vacuous records a failed non-vacuity guard.
func (c *Ctx) Vacuous(msg string) { c.res.Vacuity = append(c.res.Vacuity, msg) }

// Expired reports whether the time budget of this worker is used up. Checks
// poll it between cases, call Cap and return.
func (c *Ctx) Expired() bool {
	return !c.deadline.IsZero() && time.Now().After(c.deadline)
}

// Violation records an oracle failure. class is relative to the property, e.g.
// "conservation/line.column"; witness is the failing case.
func (c *Ctx) Violation(class string, witness any, detail string) {
	if c.Only != "" && c.Only != class {
		return
	}
	v := c.viol[class]
	if v == nil {
		if len(detail) > 1500 {
			detail = detail[:1500] + "…"
		}
		v = &Violation{Class: class, Index: c.caseIdx, Witness: witness, Detail: detail}
		c.viol[class] = v
	}
	v.Count++
}

// Violationf is Violation with a formatted detail.
func (c *Ctx) Violationf(class string, witness any, format string, args ...any) {
	if v := c.viol[class]; v != nil && (c.Only == "" || c.Only == class) {
		v.Count++
		return
	}
	c.Violation(class, witness, fmt.Sprintf(format, args...))
}

// HasViolation reports whether class was already seen (lets checks skip
// building expensive witnesses).
func (c *Ctx) HasViolation(class string) bool { return c.viol[class] != nil }

// Journal writes the case about to be executed to the journal file, so that a
// worker that dies (a panic in a goroutine pprof started itself, a fatal error)
// can be attributed to it by the runner.
func (c *Ctx) Journal(class string, witness any) {
	if c.journal == nil {
		return
	}
	b, _ := json.Marshal(map[string]any{"class": class, "witness": witness, "index": c.caseIdx})
	c.journal.Truncate(0)
	c.journal.WriteAt(append(b, '\n'), 0)
}

// Guard runs f and converts a panic into a violation of class
// "panic/<where>"; it returns false if f panicked.
func (c *Ctx) Guard(where string, witness any, f func()) (ok bool) {
	defer func() {
		if r := recover(); r != nil {
			st := string(debug.Stack())
			c.Violation("panic/"+where, witness, fmt.Sprintf("panic: %v\n%s", r, trimStack(st)))
			ok = false
		}
	}()
	f()
	return true
}

func trimStack(s string) string {
	lines := strings.Split(s, "\n")
	var out []string
	for _, l := range lines {
		if strings.Contains(l, "github.com/google/pprof") && !strings.Contains(l, "verifh/vk") {
			out = append(out, strings.TrimSpace(l))
		}
		if len(out) >= 12 {
			break
		}
	}
	return strings.Join(out, "\n")
}

// Finish writes the result file.
func (c *Ctx) Finish(out string) error {
	c.res.Prop, c.res.Tier, c.res.Shard, c.res.NShards = c.Prop, c.Tier, c.Shard, c.NShards
	c.res.Distinct = int64(len(c.distinct))
	c.res.States = int64(len(c.states))
	c.res.Outcomes = int64(len(c.outcomes))
	c.res.WallS = time.Since(c.start).Seconds()
	keys := make([]string, 0, len(c.viol))
	for k := range c.viol {
		keys = append(keys, k)
	}
	sort.Strings(keys)
	for _, k := range keys {
		c.res.Violations = append(c.res.Violations, c.viol[k])
	}
	b, err := json.MarshalIndent(&c.res, "", " ")
	if err != nil {
		// A witness that cannot be marshalled must not lose the violation.
		for _, v := range c.res.Violations {
			v.Witness = fmt.Sprintf("%+v", v.Witness)
		}
		for i := range c.res.Samples {
			c.res.Samples[i] = fmt.Sprintf("%+v", c.res.Samples[i])
		}
		b, err = json.MarshalIndent(&c.res, "", " ")
		if err != nil {
			return err
		}
	}
	if c.journal != nil {
		c.journal.Close()
	}
	return os.WriteFile(out, b, 0644)
}
