package c10

import (
	"fmt"
	"net/http"
	"strings"

	"github.com/google/pprof/internal/verifrt"
	"github.com/google/pprof/verifh/drive"
	"github.com/google/pprof/verifh/vk"
)

// requests with their own arguments (URL parameters apply to that request only)
func webAlphabet(thorough bool) []string {
	a := []string{"/top", "/top?f=a", "/top?h=b&n=1", "/peek?f=a", "/flamegraph", "/flamegraph?g=lines&s=a", "/source?f=a", "/download", "/top?tf=x&g=files", "/top?si=1&sort=cum"}
	if thorough {
		a = append(a, "/flamegraph?noinlines=t&i=c", "/peek?f=b&trim=f", "/top?calltree=t&mean=t", "/top?sf=a&prunefrom=b", "/?f=a", "/disasm?f=a")
	}
	return a
}

var webProbes = []string{"/top", "/flamegraph", "/peek?f=.", "/download", "/top?g=lines"}

func newWeb(data []byte) map[string]http.Handler {
	r := drive.Web(map[string][]byte{"p": data}, []string{"p"})
	return r.Handlers
}

func get(h map[string]http.Handler, target string) string {
	code, hdr, body, pan := drive.GetFull(h, "GET", target)
	if pan != nil {
		return fmt.Sprintf("PANIC %v", pan)
	}
	return fmt.Sprintf("%d\n%s%s", code, hdr, body)
}

type webWitness struct {
	Profile  string   `json:"profile"`
	Requests []string `json:"requests"`
	Probe    string   `json:"probe,omitempty"`
	Choices  []int    `json:"choices,omitempty"`
}

// webSequences: every sequence of <= k requests, then the probe requests; every
// probe response must equal the response of a fresh web UI.
func webSequences(c *vk.Ctx, ps map[string][]byte, names []string, idx *int64) {
	depth := 2
	if c.Thorough() {
		depth = 3
	}
	A := webAlphabet(c.Thorough())
	for _, pn := range names {
		data := ps[pn]
		h0 := newWeb(data)
		if h0 == nil {
			c.Violation("harness/no-web-handlers", pn, "the web UI did not start")
			return
		}
		fresh := make([]string, len(webProbes))
		for i, p := range webProbes {
			fresh[i] = get(h0, p)
		}
		// self-check: a second fresh UI answers the same (pages must not embed time or randomness)
		h1 := newWeb(data)
		for i, p := range webProbes {
			if get(h1, p) != fresh[i] {
				c.Violationf("rerun/web", webWitness{Profile: pn, Probe: p}, "two fresh web UIs answer %s differently\n%s", p, firstDiff(fresh[i], get(h1, p)))
				return
			}
		}
		var rec func(seq []string)
		rec = func(seq []string) {
			if len(seq) > 0 {
				if c.Mine(*idx) && !c.Expired() {
					h := newWeb(data)
					for _, r := range seq {
						get(h, r)
					}
					c.Eval()
					c.Transition(int64(len(seq) + len(webProbes)))
					for i, p := range webProbes {
						if got := get(h, p); got != fresh[i] {
							c.Violationf("leak/web/"+strings.Trim(strings.SplitN(p, "?", 2)[0], "/"), webWitness{Profile: pn, Requests: seq, Probe: p},
								"response to %s after the requests differs from a fresh web UI's\n%s", p, firstDiff(fresh[i], got))
						}
					}
					c.Nontrivial("web|" + pn + "|" + strings.Join(seq, ";"))
					c.State("web|" + pn + "|" + strings.Join(seq, ";"))
				}
				*idx++
			}
			if len(seq) == depth {
				return
			}
			for _, r := range A {
				rec(append(append([]string(nil), seq...), r))
			}
		}
		rec(nil)
	}
}

// webConcurrent: 2-3 requests served concurrently by controlled threads; all
// interleavings up to the preemption bound; each response equals its solo response.
func webConcurrent(c *vk.Ctx, ps map[string][]byte, names []string, idx *int64) {
	// function-entry scheduling points in package driver (flavour instrd) make every
	// function call of a request a possible preemption point
	preempt := 1
	if c.Thorough() {
		preempt = 2
	}
	// the last two requests emit warnings ("matched no samples"), which are shown on the page
	reqs := []string{"/top?f=a", "/flamegraph", "/peek?f=a", "/download", "/top?g=lines&h=b", "/source?f=a", "/top?f=nosuchfunction", "/top?tagroot=nosuchtag",
		// legacy routes that redirect with the request's own query
		"/flamegraphold?f=a&n=7", "/flamegraphold?i=b", "/flamegraph2?f=c"}
	var mixes [][]string
	for i := range reqs {
		for j := i; j < len(reqs); j++ {
			mixes = append(mixes, []string{reqs[i], reqs[j]})
		}
	}
	mixes = append(mixes, []string{"/top?f=a", "/flamegraph", "/download"}, []string{"/peek?f=a", "/top?g=lines&h=b", "/top?f=a"})
	pn := names[0]
	data := ps[pn]
	for _, mix := range mixes {
		if !c.Mine(*idx) {
			*idx++
			continue
		}
		*idx++
		if c.Expired() {
			c.Cap("time budget hit in concurrent web requests")
			return
		}
		solo := make([]string, len(mix))
		for i, r := range mix {
			solo[i] = get(newWeb(data), r)
		}
		results := make([]string, len(mix))
		body := func() {
			var h map[string]http.Handler
			verifrt.Quiet(func() { h = newWeb(data) })
			done := 0
			for i := range mix {
				i := i
				verifrt.Go(func() {
					results[i] = get(h, mix[i])
					done++
				})
			}
			verifrt.SchedPoint(func() bool { return done == len(mix) }, "join")
		}
		bound := preempt
		if len(mix) > 2 && bound > 2 {
			bound = 2
		}
		e := &verifrt.Explorer{Bounds: verifrt.Bounds{verifrt.KSched: bound, verifrt.KSwitch: 1}, Body: body, Horizon: 100000}
		outcomes := map[string]bool{}
		e.Check = func(x *verifrt.Exec) bool {
			c.Eval()
			c.Trace(1)
			w := webWitness{Profile: pn, Requests: mix, Choices: trim(x.Choices)}
			switch {
			case x.Diverged != "":
				c.Violation("harness/divergence", w, x.Diverged)
				return true
			case x.Hung != "":
				c.Violation("concurrent-web/hang", w, x.Hung)
				return false
			case x.Deadlock != "":
				c.Violation("concurrent-web/deadlock", w, x.Deadlock)
				return true
			case len(x.Panics) > 0:
				c.Violation("concurrent-web/panic", w, strings.Join(x.Panics, "\n"))
				return true
			}
			outcomes[strings.Join(results, "\x00")] = true
			for i := range mix {
				if results[i] != solo[i] {
					w.Probe = mix[i]
					c.Violationf("leak/concurrent-web", w, "response to %s served concurrently differs from its solo response\n%s", mix[i], firstDiff(solo[i], results[i]))
					break
				}
			}
			return !c.Expired()
		}
		e.Run()
		c.Transition(e.Transitions)
		c.Outcome(fmt.Sprint(len(outcomes)))
		c.Count("concurrent-web-schedules", int64(e.Execs))
		if e.Execs > 3 {
			c.Nontrivial("cweb|" + strings.Join(mix, ";"))
		}
		c.State("cweb|" + strings.Join(mix, ";"))
		if c.WantSample() {
			c.Sample(map[string]any{"concurrent_requests": mix, "schedules": e.Execs, "distinct_outcomes": len(outcomes)})
		}
	}
}

func trim(ch []int) []int {
	n := len(ch)
	for n > 0 && ch[n-1] == 0 {
		n--
	}
	return ch[:n]
}
