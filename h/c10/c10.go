// Package c10: each interactive command or web request sees the pristine profile.
//
// (a) interactive histories: every sequence of <= k lines over an alphabet of
//
//	commands-with-arguments and option assignments, followed by a probe set of
//	report commands, on several profiles; differential oracle: the probe
//	outputs equal those of a fresh session that received only the option
//	assignments (cached per reached option state, which also asserts that the
//	option state determines the outputs).
//
// (b) web request sequences of <= k requests followed by probe requests, against
//
//	a fresh web UI.
//
// (c) concurrent mixes of 2-3 web requests under the controlled scheduler
//
//	(preemption bound): every response equals its solo response.
//
// Runs in the instrumented build under the canonical map order, so that a
// C08-type nondeterminism cannot show up as a leak.
package c10

import (
	"fmt"
	"os"
	"path/filepath"
	"strings"

	"github.com/google/pprof/internal/driver"
	"github.com/google/pprof/internal/verifrt"
	"github.com/google/pprof/verifh/ap"
	"github.com/google/pprof/verifh/drive"
	"github.com/google/pprof/verifh/enum"
	"github.com/google/pprof/verifh/reg"
	"github.com/google/pprof/verifh/vk"
)

func init() { reg.Register("C10", Run) }

// Profiles chosen so that every kind of report-time mutation has something to
// act on: filters, aggregation, inlined frames, labels (tagroot, pprof::base),
// numeric labels (removed by graph building), file paths (trimming), drop_frames.
func profiles() map[string][]byte {
	out := map[string][]byte{}
	ln := func(fn, file string, line int64) ap.Line { return ap.Line{Func: fn, File: file, Line: line, Start: 1} }
	L := func(addr uint64, lines ...ap.Line) ap.Loc { return ap.Loc{Map: 0, Addr: addr, Lines: lines} }
	base := func() *ap.AP {
		return &ap.AP{Types: []ap.VT{{Type: "n", Unit: "count"}, {Type: "v", Unit: "count"}}, Maps: enum.Maps2, PeriodType: &ap.VT{Type: "n", Unit: "count"}, Period: 1}
	}
	a, b, c, r := ln("a", "/src/x/a.go", 1), ln("b", "/src/x/b.go", 2), ln("c", "/src/y/c.go", 3), ln("r", "/src/r.go", 9)
	p := base()
	p.Stacks = []ap.Stack{
		{Locs: []ap.Loc{L(0x1010, r), L(0x1020, a), L(0x1030, b)}, Values: []int64{1, 10}, Labels: map[string][]string{"k": {"x"}}, NumLabel: map[string][]int64{"bytes": {16}, "q": {3}}, NumUnit: map[string][]string{"bytes": {"bytes"}, "q": {"ms"}}},
		{Locs: []ap.Loc{L(0x1010, r), L(0x1040, a, c)}, Values: []int64{2, 20}, Labels: map[string][]string{"k": {"y"}}},
		{Locs: []ap.Loc{L(0x1010, r), L(0x1030, b), L(0x1050, c)}, Values: []int64{3, 5}, Labels: map[string][]string{"j": {"x"}}, NumLabel: map[string][]int64{"bytes": {32}}, NumUnit: map[string][]string{"bytes": {"bytes"}}},
		{Locs: []ap.Loc{{Map: 1, Addr: 0x8010}, L(0x1020, a)}, Values: []int64{4, 1}},
	}
	out["mixed"] = drive.Encode(ap.Concretize(p, ap.Opts{}))
	q := p.Clone()
	q.DropFrames, q.KeepFrames = "b", ""
	q.Stacks[1].Labels = map[string][]string{"k": {"y"}, "pprof::base": {"true"}}
	out["dropframes+base-label"] = drive.Encode(ap.Concretize(q, ap.Opts{}))
	// a numeric tag that occurs with two units: every report warns about it, every time
	u := p.Clone()
	u.Stacks[2].NumUnit = map[string][]string{"bytes": {"kilobytes"}}
	out["unit-conflict"] = drive.Encode(ap.Concretize(u, ap.Opts{}))
	// recursion and shared inlined location
	s := base()
	s.Stacks = []ap.Stack{
		{Locs: []ap.Loc{L(0x1020, a), L(0x1040, a, c), L(0x1020, a)}, Values: []int64{1, 1}, Labels: map[string][]string{"k": {"x", "y"}}},
		{Locs: []ap.Loc{L(0x1040, a, c), L(0x1030, b)}, Values: []int64{2, -1}},
	}
	out["recursion-shared-inline"] = drive.Encode(ap.Concretize(s, ap.Opts{}))
	// functions whose source file exists on disk under two different source trees
	// (srcA and srcB hold different text for the same relative name)
	t := base()
	hot, cold := ln("hot", "proj/hot.go", 2), ln("cold", "proj/cold.go", 1)
	t.Stacks = []ap.Stack{
		{Locs: []ap.Loc{L(0x1010, hot)}, Values: []int64{3, 30}},
		{Locs: []ap.Loc{L(0x1010, hot), L(0x1020, cold)}, Values: []int64{1, 10}},
	}
	out["with-sources"] = drive.Encode(ap.Concretize(t, ap.Opts{}))
	return out
}

// sourceTrees creates the two source trees and returns their roots.
func sourceTrees() (string, string) {
	root := filepath.Join(drive.Sandbox(), "src")
	a, b := filepath.Join(root, "A"), filepath.Join(root, "B")
	for _, d := range []struct{ dir, tag string }{{a, "tree A"}, {b, "tree B"}} {
		os.MkdirAll(filepath.Join(d.dir, "proj"), 0755)
		os.WriteFile(filepath.Join(d.dir, "proj", "hot.go"), []byte("package proj // "+d.tag+"\nfunc hot() { // "+d.tag+"\n}\n"), 0644)
		os.WriteFile(filepath.Join(d.dir, "proj", "cold.go"), []byte("func cold() {} // "+d.tag+"\n"), 0644)
	}
	return a, b
}

// alphabet of history lines. Commands carry arguments that must stay local to
// the command; option assignments persist.
func alphabet(thorough bool) []string {
	srcA, srcB := sourceTrees()
	a := []string{
		"list hot", "source_path=" + srcA, "source_path=" + srcB,
		"top 1 a", "top -b", "top -cum", "tree b", "peek a", "traces", "tags x", "dot", "callgrind", "text c",
		"o", "help",
		"focus=a", "hide=b", "tagroot=k", "tagfocus=x", "lines", "files", "noinlines=true", "sample_index=1", "nodecount=1", ":",
		// assignments pprof rejects (see rejected): they must leave the option values alone
		"sort=cum", "sort=sideways", "granularity=cheese", "nodecount=abc",
	}
	if thorough {
		a = append(a, "ignore=c", "show_from=a", "trim_path=/src", "call_tree", "mean", "taghide=k", "prune_from=b", "relative_percentages", "show=a|r")
	}
	return a
}

var probes = []string{"top", "top -cum", "tree", "peek .", "traces", "tags", "dot", "callgrind", "raw", "proto", "list hot|cold", "help", "o"}

// toTerminal lists the commands that print to the terminal and take no redirection.
var toTerminal = map[string]bool{"help": true, "o": true}

// rejected lists the assignments of the alphabet that are invalid by the documentation of the
// option (a value outside the documented choices, a non-number for a number): pprof prints an
// error and the option keeps its value, so the reference session does not get them at all.
var rejected = map[string]bool{"sort=sideways": true, "granularity=cheese": true, "nodecount=abc": true}

func isAssignment(line string) bool {
	if line == ":" {
		return true
	}
	f := strings.Fields(line)
	if len(f) == 0 {
		return false
	}
	if strings.Contains(f[0], "=") {
		return true
	}
	switch f[0] {
	case "lines", "files", "functions", "addresses", "filefunctions", "call_tree", "mean", "relative_percentages", "cum", "flat":
		return len(f) == 1
	}
	return false
}

type session struct {
	outs  []string // probe outputs in order
	state string   // option state at the end
	errs  int
	msgs  [][]string // per probe: the messages printed while it ran
	greet []string   // messages printed before the first line was read
	pan   string
}

// runSession runs lines then the probes; every command is redirected to a file.
func runSession(data []byte, lines []string) session {
	var ui drive.UI
	n := 0
	for _, l := range lines {
		if !isAssignment(l) && !toTerminal[l] {
			l = fmt.Sprintf("%s >H%d", l, n)
			n++
		}
		ui.Lines = append(ui.Lines, l)
	}
	for i, p := range probes {
		if toTerminal[p] {
			ui.Lines = append(ui.Lines, p)
			continue
		}
		ui.Lines = append(ui.Lines, fmt.Sprintf("%s >P%d", p, i))
	}
	fl := drive.MkFlags([]string{"p"})
	delete(fl.Strings, "output")
	w := &drive.Writer{}
	r := drive.Run(&drive.Session{Fetch: &drive.Fetcher{Data: map[string][]byte{"p": data}}, Flags: fl, UI: &ui, W: w})
	var s session
	if r.Panic != nil {
		s.pan = fmt.Sprint(r.Panic) + "\n" + r.Stack
	}
	byName := map[string]string{}
	for _, f := range w.Files {
		byName[f.Name] = f.String()
	}
	for i := range probes {
		s.outs = append(s.outs, byName[fmt.Sprintf("P%d", i)])
	}
	s.state = driver.VerifConfigState()
	s.errs = len(ui.Errs)
	s.msgs = make([][]string, len(probes))
	first := len(ui.Lines) - len(probes) // index of the first probe line
	for k, m := range ui.Errs {
		at := ui.ErrAt[k] // a message printed after n lines were read belongs to line n-1
		if at == 0 {
			s.greet = append(s.greet, m)
		} else if i := at - 1 - first; i >= 0 && i < len(probes) {
			s.msgs[i] = append(s.msgs[i], m)
		}
	}
	// what a probe prints to the terminal (help, the option list) is its output as well
	for k, m := range ui.Out {
		if i := ui.OutAt[k] - 1 - first; ui.OutAt[k] > 0 && i >= 0 && i < len(probes) {
			s.msgs[i] = append(s.msgs[i], "out: "+m)
		}
	}
	return s
}

type witness struct {
	Profile string   `json:"profile"`
	History []string `json:"history"`
	Probe   string   `json:"probe,omitempty"`
}

// Run is the check.
func Run(c *vk.Ctx) {
	if verifrt.Flavour != "instr" {
		c.Violation("harness/wrong-build", nil, "C10 needs the instrumented build (canonical map order)")
		return
	}
	depth := 2
	if c.Thorough() {
		depth = 3
	}
	A := alphabet(c.Thorough())
	ps := profiles()
	c.Note(fmt.Sprintf("(a) histories <= %d over %d lines x %d profiles x %d probes; (b) web request sequences; (c) concurrent web requests", depth, len(A), len(ps), len(probes)))
	var names []string
	for n := range ps {
		names = append(names, n)
	}
	sortStrings(names)
	var idx int64
	for _, pn := range names {
		data := ps[pn]
		// self-check and clause in one: the same session twice in one process prints the same reports and
		// the same messages (a warning is not a thing that is said once per process)
		if s1, s2 := runSession(data, nil), runSession(data, nil); s1.pan == "" && s2.pan == "" {
			c.Eval()
			for i := range probes {
				if s1.outs[i] != s2.outs[i] || strings.Join(s1.msgs[i], "\n") != strings.Join(s2.msgs[i], "\n") {
					c.Violationf("rerun/interactive", witness{Profile: pn, Probe: probes[i]}, "the same fresh session run twice in one process differs at %q\n first:  %q\n second: %q", probes[i], s1.msgs[i], s2.msgs[i])
				}
			}
			if strings.Join(s1.greet, "\n") != strings.Join(s2.greet, "\n") {
				c.Violationf("rerun/interactive", witness{Profile: pn}, "the same fresh session run twice in one process greets differently\n first:  %q\n second: %q", s1.greet, s2.greet)
			}
		}
		fresh := map[string]session{} // option state -> session that only got assignments
		var rec func(h []string)
		rec = func(h []string) {
			if c.Mine(idx) {
				if c.Expired() {
					c.Cap("time budget hit in interactive histories")
				} else {
					checkHistory(c, pn, data, h, fresh)
				}
			}
			idx++
			if len(h) == depth {
				return
			}
			for _, l := range A {
				rec(append(append([]string(nil), h...), l))
			}
		}
		rec(nil)
	}
	outputFiles(c, ps[names[0]], &idx)
	webSequences(c, ps, names, &idx)
	webConcurrent(c, ps, names, &idx)
}

func checkHistory(c *vk.Ctx, pn string, data []byte, h []string, fresh map[string]session) {
	got := runSession(data, h)
	c.Eval()
	c.Transition(int64(len(h) + len(probes)))
	w := witness{Profile: pn, History: h}
	if got.pan != "" {
		c.Violation("panic/interactive", w, got.pan)
		return
	}
	var assigns []string
	for _, l := range h {
		if isAssignment(l) && !rejected[l] {
			assigns = append(assigns, l)
		}
	}
	ref, ok := fresh[got.state]
	if !ok {
		ref = runSession(data, assigns)
		c.Eval()
		if ref.state != got.state {
			cl := "state/command-arguments-persisted"
			for _, l := range h {
				if rejected[l] {
					cl = "state/rejected-assignment-took-effect-or-command-arguments-persisted"
				}
			}
			c.Violationf(cl, w, "option state after the history differs from the state after its option assignments alone:\n history:     %s\n assignments: %s", got.state, ref.state)
			return
		}
		fresh[got.state] = ref
	}
	c.State(pn + "|" + got.state)
	for i := range probes {
		if got.outs[i] != ref.outs[i] {
			w.Probe = probes[i]
			c.Violationf("leak/interactive/"+strings.Fields(probes[i])[0], w, "output of %q after the history differs from its output in a fresh session with the same options\n%s", probes[i], firstDiff(ref.outs[i], got.outs[i]))
		}
		// what a command prints next to its report (warnings) is output of that command too
		if strings.Join(got.msgs[i], "\n") != strings.Join(ref.msgs[i], "\n") {
			w.Probe = probes[i]
			c.Violationf("leak/interactive-messages/"+strings.Fields(probes[i])[0], w, "messages of %q after the history differ from those in a fresh session with the same options\n fresh:   %q\n history: %q", probes[i], ref.msgs[i], got.msgs[i])
		}
	}
	ncmd := len(h) - len(assigns)
	if ncmd >= 1 {
		c.Nontrivial(pn + "|" + strings.Join(h, ";"))
	}
	if c.WantSample() && len(h) == 2 {
		c.Sample(w)
	}
}

func firstDiff(a, b string) string {
	la, lb := strings.Split(a, "\n"), strings.Split(b, "\n")
	for i := 0; i < len(la) && i < len(lb); i++ {
		if la[i] != lb[i] {
			return fmt.Sprintf("first difference at line %d:\n  fresh:   %.200s\n  history: %.200s", i+1, la[i], lb[i])
		}
	}
	return fmt.Sprintf("outputs differ in length: %d vs %d lines", len(la), len(lb))
}

func sortStrings(s []string) {
	for i := range s {
		for j := i + 1; j < len(s); j++ {
			if s[j] < s[i] {
				s[i], s[j] = s[j], s[i]
			}
		}
	}
}

// outputFiles: the output file named on a command line belongs to that command. Through pprof's own
// file writer (real files in the sandbox), "first >F; second >F" must leave in F exactly what
// "second >F" alone leaves there, for every ordered pair of report commands (the first report is
// often the longer one).
func outputFiles(c *vk.Ctx, data []byte, idx *int64) {
	cmds := []string{"top", "tree", "traces", "raw", "top 1", "tags", "comments", "peek a", "dot"}
	dir := filepath.Join(drive.Sandbox(), "c10out")
	os.MkdirAll(dir, 0o755)
	run := func(lines []string) bool {
		ui := &drive.UI{Lines: lines}
		fl := drive.MkFlags([]string{"p"})
		delete(fl.Strings, "output")
		r := drive.Run(&drive.Session{Fetch: &drive.Fetcher{Data: map[string][]byte{"p": data}}, Flags: fl, UI: ui, RealWriter: true})
		return r.Panic == nil
	}
	n := 0
	for _, first := range cmds {
		for _, second := range cmds {
			n++
			if !c.Mine(*idx) {
				*idx++
				continue
			}
			*idx++
			f1 := filepath.Join(dir, fmt.Sprintf("s%d_%d_both", c.Shard, n))
			f2 := filepath.Join(dir, fmt.Sprintf("s%d_%d_alone", c.Shard, n))
			c.Eval()
			ok1 := run([]string{first + " >" + f1, second + " >" + f1})
			ok2 := run([]string{second + " >" + f2})
			b1, e1 := os.ReadFile(f1)
			b2, e2 := os.ReadFile(f2)
			os.Remove(f1)
			os.Remove(f2)
			w := witness{Profile: "output-file", History: []string{first + " >F", second + " >F"}}
			if !ok1 || !ok2 || e1 != nil || e2 != nil {
				c.Violationf("leak/output-file/not-written", w, "panic or missing file: %v %v %v %v", ok1, ok2, e1, e2)
				continue
			}
			if string(b1) != string(b2) {
				c.Violationf("leak/output-file", w, "file after both commands (%d bytes) differs from the file the second command writes alone (%d bytes)\n%s", len(b1), len(b2), firstDiff(string(b2), string(b1)))
			}
			c.Count("output-file-pairs", 1)
		}
	}
}
